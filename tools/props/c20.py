"""C20 - compressed-integer codec.  Tie: extracted model (Format/Compint.v) vs the real
compint_* functions on inputs flush against a guard page.  Oracle: ci_spec_decode."""
import vlib

THEOREMS = ["C20_roundtrip", "C20_bounded_reads", "C20_exact", "C20_decides", "C20_int_exact",
            "C20_int_rejects_large", "C20_int_bounded_reads"]
ASSUMPTIONS = [
    "model Format/Compint.v is a hand transcription of src/lib/compint.c, tied by differential execution",
    "MAX_COMP_SIZE regenerated from zck_private.h (LP64: sizeof(size_t)=8 assumed by the translator)",
    "bytes are < 256 (wf_bytes); size_t is 64 bit",
    "extraction with ExtrOcamlBasic; OCaml driver ocaml/drv_c20.ml; harness/zh_c20.c (guard page + SIGSEGV handler)",
]

BOUNDARY = [0, 1, 2, 3, 0x7e, 0x7f, 0x80, 0x81, 0x82, 0x83, 0xfe, 0xff]


def py_ci_value(bs):
    v, sh = 0, 0
    for i, b in enumerate(bs):
        if b >= 128:
            return v + ((b - 128) << sh), i + 1
        v += b << sh
        sh += 7
    return None


def gen_cases(tier, rng):
    enc, dec = [], []
    # ---- encode
    vals = set(range(0, 1 << 14))
    if tier == "thorough":
        vals.update(range(0, 1 << 21))
    else:
        vals.update(range(0, 1 << 21, 97))
    for k in range(0, 65):
        for d in (-1, 0, 1):
            v = (1 << k) + d
            if 0 <= v < (1 << 64):
                vals.add(v)
    for _ in range(4000 if tier == "quick" else 40000):
        vals.add(rng.getrandbits(rng.choice([8, 16, 31, 32, 33, 56, 63, 64])))
    enc = ["E %d" % v for v in sorted(vals)]
    ints = ["I %d" % v for v in [-2147483648, -5, -1, 0, 1, 127, 128, 16384, 2147483647]]
    # ---- decode: all strings of length <= 2 (thorough: <= 3) at every cursor/limit combination
    def combos(L):
        out = []
        for cur in range(0, L + 1):
            for ml in range(cur, L + 1):
                out.append((cur, ml))
        return out
    strings = [b""] + [bytes([a]) for a in range(256)] + [bytes([a, b]) for a in range(256) for b in range(256)]
    for s in strings:
        for cur, ml in combos(len(s)):
            dec.append(("size", s, cur, ml))
            if (cur, ml) in ((0, len(s)),):
                dec.append(("int", s, cur, ml))
    if tier == "thorough":
        for a in range(256):
            for b in range(256):
                for c in range(256):
                    s = bytes([a, b, c])
                    dec.append(("size", s, 0, 3))
                    if (a ^ b ^ c) % 16 == 0:
                        dec.append(("size", s, 1, 3))
                        dec.append(("size", s, 0, 2))
    # ---- strings of length 8..11 with every value (quick: boundary set) in the last three positions
    prefixes = lambda n: ([bytes([0] * n), bytes([0x7f] * n), bytes([1] + [0] * (n - 1)), bytes(rng.randrange(128) for _ in range(n))]
                          if tier == "quick" else [bytes([0] * n), bytes(rng.randrange(128) for _ in range(n))])
    for L in (8, 9, 10, 11):
        for pre in prefixes(L - 3):
            if tier == "thorough":
                tails = [(a, b, c) for a in BOUNDARY for b in range(256) for c in range(256)]
            else:
                tails = [(a, b, c) for a in BOUNDARY for b in BOUNDARY for c in BOUNDARY]
            for t in tails:
                s = pre + bytes(t)
                dec.append(("size", s, 0, L))
                if tier == "thorough" or (t[0] + t[1] + t[2]) % 3 == 0:
                    dec.append(("size", s, 0, L - 1))
                    dec.append(("int", s, 0, L))
    # ---- int-destination boundaries: values around 2^31, 2^32 with 5..10 byte encodings
    for v in (2**31 - 1, 2**31, 2**31 + 1, 2**32 - 1, 2**32, 2**32 + 5, 2**63, 2**64 - 1):
        bs, x = [], v
        while True:
            b = x % 128
            x //= 128
            if x == 0:
                bs.append(b + 128)
                break
            bs.append(b)
        for pad in (0, 1, 3):
            s = bytes(pad) + bytes(bs) + bytes([0x55])
            dec.append(("int", s, pad, len(s)))
            dec.append(("size", s, pad, len(s) - 1))
    # ---- random strings 1..12 bytes at limits len-1 .. len, embedded at a cursor
    for _ in range(20000 if tier == "quick" else 300000):
        n = rng.randrange(1, 13)
        s = bytes(rng.choice([rng.randrange(128), rng.randrange(128), rng.randrange(256), 0x80 | rng.randrange(128)]) if i == n - 1 else rng.choice([0, 0x7f, rng.randrange(128), rng.randrange(128), rng.randrange(256)]) for i in range(n))
        cur = rng.randrange(0, n)
        ml = rng.randrange(cur, n + 1)
        dec.append((rng.choice(["size", "size", "int"]), s, cur, ml))
    lines = enc + ints + ["D %s %s %d %d" % (m, vlib.hexs(s), c, ml) for (m, s, c, ml) in dec]
    return lines


def run(res, tier, only_case=None):
    rng = vlib.Rng(vlib.seed())
    res.rule = ("encode: all v<2^14 + stride/all v<2^21, 2^k,2^k+-1, random; decode: all byte strings of length <=2 "
                "(thorough <=3) at every cursor/limit, 8-11 byte strings with boundary (thorough: all) values in the last "
                "three positions, random 1-12 byte strings; every buffer flush against a PROT_NONE page. "
                "non-trivial = distinct decode case that reads >=2 bytes or fails, or encode of v>=128")
    if only_case is not None:
        cases = [only_case["case"]["line"]]
    else:
        corpus = [l.strip() for l in open(vlib.os.path.join(vlib.VERIF, "corpus", "c20.txt"))] \
            if vlib.os.path.exists(vlib.os.path.join(vlib.VERIF, "corpus", "c20.txt")) else []
        cases = [c for c in corpus if c and not c.startswith("#")] + gen_cases(tier, rng)
    model = vlib.ensure_model("C20")
    impl = vlib.ensure_harness("zh_c20", "plain")
    impl_asan = vlib.ensure_harness("zh_c20", "asan")
    wd = vlib.scratch("C20")
    mo, _ = vlib.run_cases(model, cases, wd, "model")
    io, ierr = vlib.run_cases(impl, cases, wd, "impl")
    sub = cases[:: (7 if tier == "quick" else 3)]
    ao, aerr = vlib.run_cases(impl_asan, sub, wd, "asan")
    aso = dict(zip(sub, ao))
    for c, m, i in zip(cases, mo, io):
        res.evaluations += 1
        mres, spec = vlib.split_model(m)
        kind = c[0]
        if kind == "D":
            res.count("decode:" + i.split()[0])
            if i.startswith("ERR") or i.startswith("OOB") or (i.startswith("OK") and int(i.split()[2]) - int(c.split()[3]) >= 2):
                res.nontrivial.add(c)
            if i != spec:
                res.violation("oracle", "c20:" + c, "compint decode of %s gives %r, the specification says %r" % (c, i, spec),
                              {"line": c, "impl": i, "spec": spec, "model": mres})
            elif i != mres:
                res.violation("correspondence", "c20-corr:" + c, "model Compint.ci_to_* and compint.c disagree on %s: model %r, code %r" % (c, mres, i),
                              {"line": c, "impl": i, "model": mres})
            a = aso.get(c)
            if a is not None and a != i:
                res.violation("oracle", "c20-asan:" + c, "sanitized build differs / faults on %s: %r vs %r %s" % (c, a, i, aerr[-300:]),
                              {"line": c, "impl": i, "asan": a})
        elif kind == "E":
            v = int(c.split()[1])
            res.count("encode")
            if v >= 128:
                res.nontrivial.add(c)
            bs = vlib.unhex(i) if all(ch in "0123456789abcdef-" for ch in i) else None
            pv = py_ci_value(bs) if bs is not None else None
            if pv is None or pv != (v, len(bs)) or len(bs) > 10:
                res.violation("oracle", "c20:" + c, "compint_from_size(%d) produced %r which does not decode to itself" % (v, i),
                              {"line": c, "impl": i})
            elif i != mres:
                res.violation("correspondence", "c20-corr:" + c, "model ci_from_size and compint_from_size disagree on %d: %r vs %r" % (v, mres, i),
                              {"line": c, "impl": i, "model": mres})
        else:
            res.count("encode-int")
            if i != mres:
                res.violation("correspondence", "c20-corr:" + c, "compint_from_int: model %r, code %r" % (mres, i), {"line": c, "impl": i, "model": mres})
    for k in (0, len(cases) // 3, len(cases) // 2, len(cases) - 1):
        if cases:
            res.sample({"case": cases[k], "impl": io[k], "model": mo[k]})
    res.exhaustive = False
    vlib.shutil.rmtree(wd, ignore_errors=True)
