"""C13 - reported metadata equals the file's; unrepresentable values are rejected.
Tie: extracted parse_impl vs the real zck_read_lead/zck_read_header + getters (ASan build).
Oracle: parse_spec (specification parser over exact N, written from zchunk_format.txt)."""
import os, subprocess
import vlib, hdrgen

THEOREMS = ["C13_refines_spec", "C13_count_and_starts", "C13_total"]
ASSUMPTIONS = [
    "model Format/ParseImpl.v is a hand transcription of header.c / index_read.c, tied by differential execution on sealed headers",
    "hash function H is a parameter of model and spec (instantiated with OpenSSL in the run); no collision assumption is used",
    "files are shorter than 2^63 bytes (off_t); the int chunk counter of index_read does not wrap (fewer than 2^31 index entries)",
    "extraction ExtrOcamlBasic; ocaml/drv_c13.ml + zvstubs.c; harness/zh_c13.c under ASan/UBSan",
]


def lines_for(files):
    return ["O - - - " + vlib.hexs(f) for _, f in files]


def judge(res, pid, tag, line, i, m, check_meta=True):
    """shared by C13 / C03: returns True when something was reported"""
    mres, spec = vlib.split_model(m)
    key = "%s:%s:%s" % (pid.lower(), tag, vlib.hashlib.sha256(line.encode()).hexdigest()[:12])
    case = {"line": line, "tag": tag, "impl": i, "model": mres, "spec": spec}
    if i in ("MEMFAULT", "HANG") or i.startswith("DIED") or i == "NOTRUN":
        if i != "NOTRUN":
            res.violation("oracle", key, "opening a crafted file (%s) ends in %s" % (tag, i), case)
        return True
    if i.startswith("RETRY-OPENED"):
        res.violation("oracle", key, "a file (%s) that is refused opens when the caller clears the error and tries again: %s" % (tag, i[:120]), case)
        return True
    if check_meta and i.startswith("OK"):
        if "BAD" in i:
            res.violation("oracle", key, "getters inconsistent with the chunk table (%s): %s" % (tag, i[-80:]), case)
            return True
        if spec == "NONE" or spec != i:
            res.violation("oracle", key, "file (%s) opens and the API reports metadata the specification parser does not read from these bytes: api %s.. spec %s.." % (tag, i[:160], (spec or "")[:160]), case)
            return True
    if i != mres:
        res.violation("correspondence", key.replace(":", "-corr:", 1), "parse_impl and the library disagree on a %s header: model %s.. code %s.." % (tag, mres[:120], i[:120]), case)
        return True
    return False


def run(res, tier, only_case=None):
    rng = vlib.Rng(vlib.seed())
    res.rule = ("headers from the independent reference encoder (all hash types, flags, optional elements, 1..12 chunks, sizes up to 2^64-1) "
                "and their re-sealed field mutants (count mismatch, 10/11-byte integers, values >= 2^31/2^32/2^63/2^64, sums that wrap, index size off by "
                "one, entries straddling the index end), truncations, raw and re-sealed bit flips. non-trivial = distinct file that passes the checksum gate")
    if only_case is not None:
        files = [(only_case["case"].get("tag", "replay"), vlib.unhex(only_case["case"]["line"].split()[-1]))]
    else:
        files = hdrgen.build_all(rng, tier)
    lines = lines_for(files)
    model = vlib.ensure_model("C13")
    impl = vlib.ensure_harness("zh_c13", "asan")
    wd = vlib.scratch("C13")
    mo, _ = vlib.run_cases(model, lines, wd, "model")
    # a crash or a watchdog exit hides the remaining cases: the resilient runner restarts behind the offending line
    io, ierr = vlib.run_cases_resilient(impl, lines, wd, "impl", env={"ZH_TMP": wd}, max_restarts=40)
    for (tag, f), line, i, m in zip(files, lines, io, mo):
        res.evaluations += 1
        res.count(tag.split("=")[0].split("@")[0].split(":")[0] + (":OK" if i.startswith("OK") else ":" + i.split()[0]))
        sealed = zckfmt_sealed(f)
        if sealed:
            res.nontrivial.add(line)
        judge(res, "C13", tag, line, i, m)
    for k in (0, len(lines) // 2, len(lines) - 1):
        res.sample({"tag": files[k][0], "file_hex": vlib.hexs(files[k][1])[:400], "impl": io[k][:300]})
    res.extra["accepted"] = sum(1 for i in io if i.startswith("OK"))
    res.extra["rejected"] = sum(1 for i in io if i == "ERR")
    vlib.shutil.rmtree(wd, ignore_errors=True)


def zckfmt_sealed(f):
    import zckfmt
    l = zckfmt.parse_lead(f)
    if not l or len(f) < l["lead"] + l["hlen"]:
        return False
    return zckfmt.H(l["ht"], b"\0ZCK1" + f[5:l["dloc"]] + f[l["lead"]:l["lead"] + l["hlen"]]) == f[l["dloc"]:l["lead"]]
