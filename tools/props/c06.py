"""C06 - the header checksum covers every header byte.  Direct oracle: every single-byte
substitution / insertion / deletion in the header region of valid files must make open fail
(except the magic switch); tie: parse_impl agrees with the library on every mutant."""
import vlib, hdrgen, zckfmt

THEOREMS = ["C06_open_implies_digest", "C06_covered_determines_header", "C06_same_digest_different_header_collides"]
ASSUMPTIONS = [
    "model Format/ParseImpl.v tied to header.c by differential execution (every mutant is run on both)",
    "hash H is a parameter; 'any change makes open fail' holds up to an explicit collision (theorem 3), the sweep checks it on the real SHA functions",
    "harness/zh_c13.c non-sanitized build under RLIMIT_AS for the sweep (mutated size fields request huge buffers), sanitized build on a strided subset",
]


def bases(rng, tier):
    out = []
    combos = [(1, 3, 0, 2), (0, 0, 0, 0), (2, 2, 4, 2), (3, 1, 2, 0), (1, 1, 6, 2), (3, 3, 0, 2)]
    if tier == "thorough":
        combos += [(h, c, fl, 2) for h in range(4) for c in range(4) for fl in (0, 4)][:18]
    for ht, cht, fl, comp in combos:
        h = zckfmt.Hdr(ht=ht, cht=cht, flags=fl, comp=comp,
                       chunks=hdrgen.mk_chunks(rng, rng.choice([2, 3]), cht, bool(fl & 4),
                                               [(0, 0), (rng.randrange(1, 300), rng.randrange(1, 900)), (rng.randrange(128, 70000), 5)]))
        if rng.random() < 0.5:
            h.chunks[0] = (rng.rbytes(zckfmt.DSIZE[cht]), h.chunks[0][1], 17, 40)   # with dictionary
        if fl & 2:
            h.opts = [(3, b"opt")]
        h.ddigest = rng.rbytes(zckfmt.DSIZE[ht])
        out.append(h.build() + rng.rbytes(20))
        # a twin whose stored header digest contains 0x00 early (string-style comparisons stop there)
        for _ in range(4000):
            h.ddigest = rng.rbytes(zckfmt.DSIZE[ht])
            f = h.build()
            l = zckfmt.parse_lead(f)
            dg = f[l["dloc"]:l["lead"]]
            if 0 in dg[:4]:
                out.append(f + rng.rbytes(20))
                break
    return out


def run(res, tier, only_case=None):
    rng = vlib.Rng(vlib.seed())
    res.rule = ("valid files of every hash type / flag set / with and without dictionary; quick: every header position x (8 single-bit flips + 24 random "
                "values), thorough: every position x all 255 substitutes; insertion and deletion at every position; every compressed integer of the header re-encoded in a longer, "
                "non-minimal form (alone and with the enclosing size fields adjusted), plain and with the pristine digest pinned; non-trivial = distinct mutant differing from the base inside the header region")
    model = vlib.ensure_model("C13")
    impl = vlib.ensure_harness("zh_c13", "plain")
    impl_asan = vlib.ensure_harness("zh_c13", "asan")
    wd = vlib.scratch("C06")
    files = bases(rng, tier)
    lines, meta = [], []
    if only_case is not None:
        lines = only_case["case"]["lines"]
        meta = [("base", 0, 0) if x.startswith("B ") else ("pins", 0, 0) if x.startswith("P ") else ("replay", 0, 0) for x in lines]
    else:
        for f in files:
            l = zckfmt.parse_lead(f)
            hdr_end = l["lead"] + l["hlen"]
            for pinned in (False, True, "late", "all3"):
              lines.append("B " + vlib.hexs(f)); meta.append(("base", 0, 0))
              if pinned == "late":
                  # type and digest of the pristine file set AFTER zck_read_lead: nothing compares them any more, the
                  # stored checksum alone has to catch every change (swept over the lead only)
                  lines.append("P L%d %s -" % (l["ht"], f[l["dloc"]:l["lead"]].hex())); meta.append(("pins", 0, 0))
              elif pinned == "all3":
                  # type, digest AND total header length of the pristine file pinned (everything the lead can be compared with)
                  lines.append("P %d %s %d" % (l["ht"], f[l["dloc"]:l["lead"]].hex(), hdr_end)); meta.append(("pins", 0, 0))
              elif pinned:
                  # the same sweep through the pinned-digest path (type and digest of the pristine file)
                  lines.append("P %d %s -" % (l["ht"], f[l["dloc"]:l["lead"]].hex())); meta.append(("pins", 0, 0))
              lines.append("m 0 %d" % f[0]); meta.append(("identity", 0, f[0]))
              for pos in range(hdr_end):
                if pinned == "all3" and tier == "quick" and pos % 2 == 0 and pos >= l["lead"]:
                    continue
                if pinned == "late" and (pos >= l["lead"] + 4 or (tier == "quick" and not (l["dloc"] <= pos < l["lead"]) and pos % 2)):
                    continue
                if pinned and tier == "quick" and pos % 3 != 1 and not (l["dloc"] <= pos < l["lead"]):
                    continue
                if tier == "thorough":
                    vals = [v for v in range(256) if v != f[pos]]
                else:
                    vals = {f[pos] ^ (1 << b) for b in range(8)}
                    while len(vals) < (32 if not pinned else 12 if pinned is True else 9 if pinned == "late" else 10):
                        v = rng.randrange(256)
                        if v != f[pos]:
                            vals.add(v)
                    vals = sorted(vals)
                for v in vals:
                    lines.append("m %d %d" % (pos, v)); meta.append(("subst", pos, v))
                lines.append("x %d" % pos); meta.append(("delete", pos, 0))
                lines.append("i %d %d" % (pos, rng.randrange(256))); meta.append(("insert", pos, 0))
            # every compressed integer of the header written in a longer, non-minimal form (last byte without its end
            # bit + 0x80: the decoder accepts the trailing zero digit) - same parsed values, different bytes - alone and
            # with the enclosing size fields adjusted so that the structure stays consistent; plain and pinned
            flds = zckfmt.ci_fields(f)
            for (name, off, ln, val) in (flds or []):
                g0 = f[:off + ln - 1] + bytes([f[off + ln - 1] & 0x7f, 0x80]) + f[off + ln:]
                variants = [("reencode:" + name, g0)]
                if off >= l["lead"]:
                    g = bytearray(g0)
                    adj = [x for x in flds if x[0] == "header_size" or (x[0] == "index_size" and off > x[1])]
                    ok = True
                    for (an, aoff, aln, aval) in sorted(adj, key=lambda x: -x[1]):
                        enc = zckfmt.ci(aval + 1)
                        if len(enc) != aln:
                            ok = False
                            break
                        g[aoff:aoff + aln] = enc
                    if ok:
                        variants.append(("reencode+sizes:" + name, bytes(g)))
                for tg, g in variants:
                    lines.append("O - - - " + vlib.hexs(g)); meta.append((tg, off, 0))
                    lines.append("O %d %s - %s" % (l["ht"], f[l["dloc"]:l["lead"]].hex(), vlib.hexs(g))); meta.append((tg + ":pinned", off, 0))
    mo, _ = vlib.run_cases(model, lines, wd, "model", timeout=1800)
    io, _ = vlib.run_cases(impl, lines, wd, "impl", env={"ZH_TMP": wd, "ZH_AS_LIMIT_MB": "2048"}, timeout=1800)
    base, pins_line = None, None
    for (kind, pos, v), line, m, i in zip(meta, lines, mo, io):
        mres, spec = vlib.split_model(m)
        if kind == "base":
            base = vlib.unhex(line.split()[1]); pins_line = None; continue
        if kind == "pins":
            pins_line = line; continue
        res.evaluations += 1
        case = {"lines": (["B " + vlib.hexs(base)] + ([pins_line] if pins_line else []) if not line.startswith("O ") else []) + [line], "impl": i, "model": mres}
        if line.startswith("O "):
            key = "c06:%s:%s@%d:%s" % (vlib.hashlib.sha256(base or b"").hexdigest()[:10], kind, pos, vlib.hashlib.sha256(line.encode()).hexdigest()[:10])
        else:
            key = "c06:%s:%s%s" % (vlib.hashlib.sha256(base).hexdigest()[:10], line.replace(" ", "_"), ":pinned" if pins_line else "")
        if kind == "identity":
            if not i.startswith("OK"):
                res.violation("harness", "c06:base-invalid", "base file does not open: %s" % i, case)
            continue
        res.nontrivial.add((vlib.hashlib.sha256(base).hexdigest()[:10], line, bool(pins_line)))
        res.count(kind + (":accepted" if i.startswith("OK") else ":rejected"))
        if (i.startswith("OK") or i.startswith("RETRY-OPENED")) and kind in ("insert", "delete", "replay") and line[:2] in ("i ", "x "):
            # an insertion of the very byte that it displaces (or a deletion inside a run) at the end of the header leaves
            # the header region byte-identical: that is the unchanged file with a different data section, not a mutant
            bl = zckfmt.parse_lead(base)
            he = bl["lead"] + bl["hlen"] if bl else 0
            tk = line.split()
            g = base[:int(tk[1])] + bytes([int(tk[2])]) + base[int(tk[1]):] if tk[0] == "i" else base[:int(tk[1])] + base[int(tk[1]) + 1:]
            if he and g[:he] == base[:he]:
                res.count("identical-header-region")
                continue
        if i.startswith("OK") or i.startswith("RETRY-OPENED"):
            magic_switch = kind == "subst" and pos < 5 and (base[:pos] + bytes([v]) + base[pos + 1:5]) in (b"\0ZCK1", b"\0ZHR1")
            if not magic_switch:
                res.violation("oracle", key, "header mutant (%s at %d -> %d) of a valid file %s%s" % (kind, pos, v, "opens when the caller clears the error and reads the header again" if i.startswith("RETRY") else "still opens", " although its header bytes differ from the pinned/stored digest's" if line.startswith("O ") else ""), case)
                continue
        if i != mres:
            res.violation("correspondence", key.replace("c06:", "c06-corr:"), "model and library disagree on mutant %s: model %s code %s" % (line, mres[:100], i[:100]), case)
    # sanitized build on a strided subset (base lines kept)
    if only_case is None:
        sub, cur = [], None
        for k, (mt, line) in enumerate(zip(meta, lines)):
            if mt[0] in ("base", "pins") or k % 23 == 0:
                sub.append(line)
        ao, aerr = vlib.run_cases(impl_asan, sub, wd, "asan", env={"ZH_TMP": wd}, timeout=1800)
        for line, a in zip(sub, ao):
            if a in ("MEMFAULT", "HANG") or a.startswith("DIED"):
                res.violation("oracle", "c06-asan:" + line.replace(" ", "_"), "sanitized build faults on a header mutant: %s %s" % (a, aerr[-300:]), {"lines": [line], "impl": a})
                break
    res.sample({"base_hex": vlib.hexs(files[0])[:200] if only_case is None else "", "mutant": lines[5] if len(lines) > 5 else "", "impl": io[5] if len(io) > 5 else ""})
    res.exhaustive = tier == "thorough"
    vlib.shutil.rmtree(wd, ignore_errors=True)
