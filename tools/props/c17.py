"""C17 - memory safety and clean failure on arbitrary server responses.
Arbitrary header lines and body bytes are fed to the real zck_header_cb / zck_write_chunk_cb (plain and
ASan/UBSan builds, every buffer handed over in an exactly sized heap block) and to the extracted model.
Oracles on the implementation: no sanitizer report / fatal signal / hang; confinement and flag consistency of
whatever was written (same oracles as C05).  Correspondence: per-callback return values, file, flags."""
import hashlib
import vlib
from props import c05
from props.c05 import Case, response, auto_ridx, mp_body, ct_header, prng

PID = "C17"
THEOREMS = ["C17_mpx_safe", "C17_get_boundary_safe", "C17_write_cb_safe", "C17_dlw_total", "C17_confinement",
            "C17_verified", "C17_mismatch_zeroed", "C17_lit_contract", "C17_session", "C17_session_valid_untouched",
            "C17_reset_reestablishes", "C17_rescan_sound", "C17_rescan_restart", "C17_clear_error_keeps_invariant"]
ASSUMPTIONS = [
    "PARTIAL by design: the theorems cover index arithmetic and control flow of the model (every buffer read goes "
    "through a bounds-checked accessor; regex oracle under the contract 'group offsets lie inside the searched "
    "NUL-terminated string'); heap lifetime (malloc/free/realloc of mp->buffer, regex_t, boundary), libc internals "
    "(regcomp/regexec, snprintf) and the hash library are covered only by the ASan/UBSan runs of the harness",
    "the regex contract is met by Dl/LiteralMatcher.v (C17_lit_contract), which is compared with glibc regexec on every "
    "(pattern, string) pair of every case (coverage.literal_matcher_vs_glibc); that glibc itself obeys the contract on "
    "all inputs is trusted",
    "sessions (Dl/Session.v): zck_dl_reset and zck_get_missing_range(zck,-1) are transcribed; the optional re-scan between "
    "transfers (zck_find_valid_chunks + zck_reset_failed_chunks) is modelled by its SPECIFICATION (every flag recomputed from "
    "the file: valid iff the extent is inside the file and hashes to the digest, else unknown; hash context finalised, "
    "descriptor at the start of the data section), not by a transcription of validate_checksums (that is C09); the whole-data "
    "checksum step of the scan is not modelled; model and code are compared on every session case including the scans",
    "zck_clear_error between transfers is part of the session model (Dl/Session.v clear_error: every error the download model sets is "
    "recoverable) and of the correspondence; while an error is pending zck_get_missing_range returns NULL, no range is set and header lines / "
    "fragments must be refused cleanly; zck_clear_error INSIDE a transfer (opts clr) is exercised on the implementation only (sanitizer oracle)",
    "header lines that arrive after body callbacks of the same transfer (session step n: no reset, same range) are part of the "
    "model run (header_cb and write_cb are functions of one state; a new boundary does not recompile the part patterns, as in the C) "
    "and of the correspondence",
    "same model, driver and harness as C05 (Dl/DlWrite.v, Dl/Multipart.v, ocaml/drv_c17.ml, harness/zh_c17.c)",
    "the transport stops at the first short return; continuing after zck_clear_error is exercised on the implementation "
    "only (sanitizer oracle), not compared with the model",
    "one in-memory buffer >= 2 GiB (int wb truncation in dl_write) is out of scope",
]

CHUNKS = [(9, 0, 71), (14, 1, 72), (6, 0, 73), (11, 0, 74), (8, 0, 75)]
DOFF = 40
B0 = b"zck17boundary"


def header_lines(rng):
    b = B0
    ls = [
        ct_header(b), ct_header(b, quoted=True), ct_header(b, extra=b"   "), ct_header(b, extra=b"; charset=x"),
        ct_header(b, name=b"content-type: "), ct_header(b, name=b"CONTENT-TYPE:"), ct_header(b, name=b"Content-type:   "),
        b"Content-Type: multipart/byteranges; boundary=" + b + b"\n",            # no CR
        b"Content-Type: multipart/byteranges; boundary=" + b,                     # no line end at all
        b"Content-Type: multipart/byteranges; boundary=\r\n", b"boundary=\r", b"boundary\r\n", b"boundary = \r\n",
        b"Content-Type: multipart/byteranges; boundary=\"\r\n", b"boundary=\"\"\r\n", b"boundary=\"a\r\n",
        b"boundary=a\"\r\n", b"boundary=\"a\"\r\n", b"boundary=\"\"\"\r\n", b"boundary=\"" + b + b"\"\r\r\r\n",
        b"BOUNDARY   =   " + b + b"\r\n", b"x-boundary=foo; boundary=" + b + b"\r\n",
        b"boundary=" + b + b"\r\nboundary=other\r\n", b"boundary=" + b"A" * 5000 + b"\r\n",
        b"boundary=" + b"(" * 300 + b"\r\n", b"boundary=a\x00b\r\n", b"\x00boundary=" + b + b"\r\n",
        b"boundary=\xff\xfe\x80\r\n", b"\r", b"\r\n", b"", b"\x00", b"boundary=%s%n%s\r\n",
    ]
    for m in c05.BOUNDARIES_META + [b"a\\", b"[", b"[a", b"a{1,", b"a{1,2", b"(", b")", b"(a", b"a)", b"\\", b"[[:alpha:]]", b".*",
                                    b"(a|b)*", b"\\1", b"a**", b"+", b"?", b"{", b"}"]:
        ls.append(ct_header(m))
        ls.append(ct_header(m, quoted=True))
    return ls


def bodies(rng, boundary):
    """well-formed and malformed bodies for the request of CHUNKS"""
    ridx, _ = auto_ridx(CHUNKS, DOFF)
    _, good = response(CHUNKS, ridx, DOFF, "mp", boundary=boundary)
    _, plain = response(CHUNKS, ridx, DOFF, "plain")
    d0 = prng(71, 9)
    total = DOFF + sum(c[0] for c in CHUNKS)
    def part(cr, data, pre=b"\r\n", term=b"\r\n\r\n"):
        return pre + b"--" + boundary + b"\r\n" + cr + term + data
    out = [("good", good), ("plain-as-mp", plain), ("empty", b""), ("one", b"x"),
           ("good+trailing", good + b"trailing garbage \r\n\r\n more"),
           ("good-noend", good[:good.rfind(b"\r\n--")]),
           ("lf-only", good.replace(b"\r\n", b"\n")),
           ("no-term", part(b"Content-Range: bytes 40-48/%d" % total, d0, term=b"\r\n")),
           ("term-at-end", part(b"Content-Range: bytes 40-48/%d" % total, b"")),
           ("term-at-end+1", part(b"Content-Range: bytes 40-48/%d" % total, b"Z")),
           ("inverted", part(b"Content-Range: bytes 48-40/%d" % total, d0)),
           ("len0", part(b"Content-Range: bytes 41-40/%d" % total, d0)),
           ("len0-mid", part(b"Content-Range: bytes 40-44/%d" % total, d0[:5]) + part(b"Content-Range: bytes 9-8/1", d0[5:])),
           ("huge", part(b"Content-Range: bytes 0-18446744073709551615/%d" % total, d0)),
           ("wrap", part(b"Content-Range: bytes 18446744073709551616-18446744073709551624/1", d0)),
           ("digits40", part(b"Content-Range: bytes " + b"9" * 40 + b"-" + b"9" * 41 + b"/1", d0)),
           ("absurd", part(b"Content-Range: bytes 999999999-1000000007/1", d0)),
           ("no-total", part(b"Content-Range: bytes 40-48", d0)),
           ("no-digits", part(b"Content-Range: bytes a-b/c", d0)),
           ("negative", part(b"Content-Range: bytes -5--1/10", d0)),
           ("no-cr-header", part(b"Content-Type: text/plain", d0)),
           ("nul-in-header", part(b"X: a\x00b\r\nContent-Range: bytes 40-48/%d" % total, d0)),
           ("nul-before-cr", part(b"\x00Content-Range: bytes 40-48/%d" % total, d0)),
           ("two-cr", part(b"Content-Range: bytes 1-2/9\r\nContent-Range: bytes 40-48/%d" % total, d0)),
           ("end-then-more", b"\r\n--" + boundary + b"--\r\n\r\nX" + good),
           ("double-boundary", b"\r\n--" + boundary + b"\r\n" + good),
           ("short-data", part(b"Content-Range: bytes 40-48/%d" % total, d0[:4]) + good[9:]),
           ("long-data", part(b"Content-Range: bytes 40-60/%d" % total, d0 + b"EXTRA-EXTRA!")),
           ("other-boundary", good.replace(boundary, b"somethingelse")),
           ("only-crlf", b"\r\n" * 40), ("crlfcrlf", b"\r\n\r\n"), ("crlfcrlf+1", b"\r\n\r\nX"),
           ("dashes", b"--" * 50 + b"\r\n\r\n" + b"--" * 10),
           ("long-no-term", b"A" * 3000 + good),
           ]
    for k in sorted(set([1, 2, 3, 4, 5] + [rng.randrange(1, len(good)) for _ in range(12)])):
        out.append(("trunc%d" % k, good[:k]))
    return out


TOKENS = [b"\r\n\r\n", b"\r\n", b"--", B0, b"content-range: bytes ", b"0-", b"-", b"/", b"\x00", b"9" * 21, b"bytes", b"\r", b"\n",
          b"Content-Range: bytes 40-48/94\r\n\r\n", b"--" + B0 + b"--", b"\r\n--" + B0 + b"\r\n"]


def mutate(rng, s, n):
    s = bytearray(s)
    for _ in range(n):
        op = rng.randrange(6)
        p = rng.randrange(len(s) + 1)
        if op == 0 and s:
            s[rng.randrange(len(s))] = rng.randrange(256)
        elif op == 1:
            s[p:p] = rng.choice(TOKENS)
        elif op == 2 and s:
            q = rng.randrange(len(s))
            del s[min(p, q):max(p, q)][: rng.randrange(1, 20)]
        elif op == 3 and s:
            q = rng.randrange(len(s))
            s[p:p] = s[min(p, q):max(p, q)][:40]
        elif op == 4:
            s[p:p] = rng.rbytes(rng.randrange(1, 9))
        elif op == 5 and s:
            s = s[:rng.randrange(len(s) + 1)]
    return bytes(s)


def rand_parts(rng, n):
    r = rng.random()
    if n < 2 or r < 0.2:
        return "w"
    if r < 0.45:
        return "k%d" % rng.choice([1, 1, 2, 3, 5, 7, 16])
    cuts = sorted(set(rng.randrange(1, n) for _ in range(rng.randrange(1, 8))))
    return "c" + ".".join(map(str, cuts))


def gen_cases(tier, rng):
    cases = []
    ridx, _ = auto_ridx(CHUNKS, DOFF)
    thorough = tier == "thorough"
    def add(name, hdrs, body, parts, opts=("auto",), kind="malformed", ridx_=None, chunks=None, ht=1, mb=None):
        cases.append(Case(name, chunks or CHUNKS, ridx if ridx_ is None else ridx_, body, parts, doff=DOFF, hdrs=hdrs,
                          opts=list(opts), kind=kind, ht=ht))
        cases[-1].meta_boundary = mb
    # ---- every header line x (well-formed body for B0, two malformed ones)
    good = response(CHUNKS, ridx, DOFF, "mp", boundary=B0)[1]
    for i, h in enumerate(header_lines(rng)):
        for parts in ("w", "k1", "k5"):
            add("hdr:%d:good:%s" % (i, parts), [h], good, parts, kind="header")
        add("hdr:%d:rnd" % i, [h], mutate(rng, good, 3), rand_parts(rng, len(good)), kind="header")
        add("hdr:%d:two-lines" % i, [ct_header(B0), h], good, "k3", kind="header")
    # ---- every malformed body x fragmentations, with the matching boundary
    for nm, body in bodies(rng, B0):
        for parts in ["w", "k1", "k2", "k3", "k7"] + [rand_parts(rng, len(body)) for _ in range(2 if not thorough else 6)]:
            add("body:%s:%s" % (nm, parts[:20]), [ct_header(B0)], body, parts, kind="body")
        add("body:%s:noboundary" % nm, [b"Content-Type: application/octet-stream\r\n"], body, "k3", kind="body")
        add("body:%s:clr" % nm, [ct_header(B0)], body, "k4", opts=("auto", "clr"), kind="clr")
    # ---- metacharacter boundaries with their own well-formed body (D32/D15: regcomp fails or misparses before the fix)
    for m in c05.BOUNDARIES_META + [b"(", b"a{1,", b"[a", b"a\\"]:
        b = response(CHUNKS, ridx, DOFF, "mp", boundary=m)[1]
        for parts in ("w", "k1", "k9"):
            add("meta:%s:%s" % (m.hex(), parts), [ct_header(m)], b, parts, kind="meta", mb=m)
        # second callback after a failed one, error cleared in between (D15)
        add("d15:%s:k9" % m.hex(), [ct_header(m)], b, "k9", opts=("auto", "clr"), kind="clr", mb=m)
        add("d15:%s:k1" % m.hex(), [ct_header(m)], b, "k1", opts=("auto", "clr"), kind="clr", mb=m)
    # ---- plain single-range mode with malformed payloads
    plain = response(CHUNKS, ridx, DOFF, "plain")[1]
    for nm, body in (("short", plain[:-3]), ("long", plain + b"0123456789"), ("garbage", rng.rbytes(len(plain))),
                     ("empty", b""), ("one", b"A"), ("zeros", bytes(len(plain)))):
        for parts in ("w", "k1", "k4", rand_parts(rng, len(body))):
            add("plain:%s:%s" % (nm, parts[:20]), [], body, parts, kind="plainmode")
    # ---- hash types, no request at all (empty range index), everything valid
    for ht in (0, 2, 3):
        add("ht%d:good" % ht, [ct_header(B0)], good, "k5", kind="misc", ht=ht)
    add("empty-ridx", [ct_header(B0)], good, "k5", opts=(), ridx_=[], kind="misc")
    add("empty-ridx-plain", [], plain, "k5", opts=(), ridx_=[], kind="misc")
    # ---- random mutants of well-formed responses (headers and bodies) at random fragmentations
    n = 3500 if not thorough else 90000
    hl = header_lines(rng)
    for i in range(n):
        b = rng.choice([B0, B0, B0, b"x", b"a.b(c", b"(paren)", b"A" * 70])
        h = [ct_header(b, quoted=rng.random() < 0.3)]
        mb = b
        if rng.random() < 0.25:
            h = [mutate(rng, h[0], rng.randrange(1, 4))]
            mb = None
        if rng.random() < 0.1:
            h = [rng.choice(hl)]
            mb = None
        style = rng.choice(list(c05.STYLES))
        body = response(CHUNKS, ridx, DOFF, "mp" if rng.random() < 0.85 else "plain", boundary=b, style=style)[1]
        r = rng.random()
        if r < 0.8:
            body = mutate(rng, body, rng.randrange(1, 6))
        elif r < 0.9:
            body = rng.rbytes(rng.randrange(0, 400))
        opts = ("auto", "clr") if rng.random() < 0.1 else ("auto",)
        cs = Case("rnd:%d" % i, CHUNKS, ridx, body, rand_parts(rng, len(body)), doff=DOFF, hdrs=h, opts=list(opts),
                  kind="clr" if "clr" in opts else "random", ht=1)
        cs.meta_boundary = mb
        cases.append(cs)
    # ---- a few large malformed streams (carried buffer grows: no part terminator for 100 KB)
    for i in range(2 if not thorough else 6):
        body = rng.rbytes(60000).replace(b"\r\n\r\n", b"\r\n\r.") + good
        add("large:noterm:%d" % i, [ct_header(B0)], body, "k16384", kind="large")
        add("large:noterm1:%d" % i, [ct_header(B0)], body[:20000], "k997", kind="large")
    return cases


def gen_sessions(tier, rng):
    """sessions on one zckDL for C17: a first transfer that breaks off, optionally a re-scan of the target, then a second
    response that is complete, garbage, for another boundary, or truncated inside a part header; sometimes a third"""
    from props.c05 import SCase, response_spans, runs_of
    cases = []
    thorough = tier == "thorough"
    tables = [[(8, 1, 911), (7, 0, 912), (10, 0, 913), (5, 0, 914)],
              [(7, 0, 921), (9, 1, 922), (6, 0, 923), (11, 0, 924)],
              [(6, 1, 931), (5, 0, 932), (4, 1, 933), (9, 0, 934), (3, 0, 935)]]
    def missing(chunks, done):
        return [i for i, ch in enumerate(chunks) if ch[1] == 0 and ch[0] > 0 and i not in done]
    for ti, chunks in enumerate(tables):
        for mode in ("plain", "mp"):
            want0 = missing(chunks, set())
            m0 = "plain" if mode == "plain" and len(runs_of(want0, chunks)) == 1 else "mp"
            h1, b1, e1 = response_spans(chunks, want0, 24, m0)
            cuts = range(1, len(b1)) if (thorough or len(b1) < 60) else sorted(set(list(range(1, len(b1), 3)) + [e for e in e1.values()] + [e - 1 for e in e1.values()]))
            for T in cuts:
                done = {t for t in want0 if e1[t] <= T}
                want1 = missing(chunks, done)
                m1 = "plain" if mode == "plain" and len(runs_of(want1, chunks)) == 1 else "mp"
                h2, b2, e2 = response_spans(chunks, want1, 24, m1)
                seconds = [("good", h2, b2)]
                k = T % 5
                if k == 0:
                    seconds.append(("garbage", h2, rng.rbytes(rng.randrange(1, 80))))
                elif k == 1:
                    seconds.append(("otherboundary", [ct_header(b"someOtherBoundary")], b2))
                elif k == 2 and len(b2) > 8:
                    seconds.append(("trunc-hdr", h2, b2[:rng.randrange(3, min(len(b2), 70))]))
                elif k == 3:
                    seconds.append(("mutant", h2, mutate(rng, b2, rng.randrange(1, 4))))
                else:
                    seconds.append(("noheaders", [], b2))
                for nm, hh, bb in seconds:
                    for rs in (False, True):
                        parts2 = rand_parts(rng, len(bb))
                        trs = [(h1, b1[:T], ("w", "k1", "k3")[T % 3]), (hh, bb, parts2, rs)]
                        if nm != "good" and T % 2 == 0:
                            # after the bad second response: reset, and the complete correct response for what is missing now
                            trs.append((h2, b2, "k2", rs))
                        c = SCase("sess17:%d:%s:cut=%d:%s:%s" % (ti, mode, T, nm, "rescan" if rs else "noscan"), chunks, trs,
                                  kind="session")
                        if nm == "good":
                            c.expect = c05.expect_for(c)
                        cases.append(c)
    # ---- header lines arriving again AFTER body callbacks of the same transfer (step n = no reset, same range): boundary A,
    # part of the body, a second boundary header line (B), the rest of the body still delimited by A / delimited by B / garbage
    for ti, chunks in enumerate(tables):
        want0 = missing(chunks, set())
        A, Bb = b"sEss10n", b"secondOne"
        hA, bA, eA = response_spans(chunks, want0, 24, "mp", boundary=A)
        _, bB, _ = response_spans(chunks, want0, 24, "mp", boundary=Bb)
        cutsT = sorted(set([1, 20, len(bA) // 2, len(bA) - 3] + [e for e in eA.values()] + [rng.randrange(1, len(bA)) for _ in range(4 if not thorough else 20)]))
        for T in [t for t in cutsT if 0 < t < len(bA)]:
            for nm, h2, rest in (("sameA", [ct_header(Bb)], bA[T:]), ("thenB", [ct_header(Bb)], bB), ("hdrAagain", [ct_header(A)], bA[T:]),
                                 ("garbage", [ct_header(Bb), b"boundary=x\r\n"], rng.rbytes(30)), ("nohdr-change", [b"X-Late: 1\r\n"], bA[T:])):
                for p1, p2 in (("w", "w"), ("k1", "k7"), ("k5", "k1")):
                    c = SCase("sess17-hdr:%d:cut=%d:%s:%s%s" % (ti, T, nm, p1, p2), chunks, [(hA, bA[:T], p1), (h2, rest, p2, "n")],
                              kind="session")
                    cases.append(c)
    # ---- error state across transfers: a response that leaves a recoverable error (part header without a usable
    # content-range, garbage instead of a part header, ...), then transfers while the error is still pending (no range can
    # be computed; header lines and fragments must be refused cleanly), then zck_clear_error and a well-formed transfer
    for ti, chunks in enumerate(tables):
        want0 = missing(chunks, set())
        B = b"sEss10n"
        hg, bg, _ = response_spans(chunks, want0, 24, "mp")
        hp, bp, _ = response_spans(chunks, want0, 24, "plain" if len(runs_of(want0, chunks)) == 1 else "mp")
        bad_bodies = [("norange", b"\r\n--" + B + b"\r\nContent-Type: text/plain\r\n\r\nxxxx"),
                      ("garbage-hdr", b"garbage without any delimiter\r\n\r\nyyyy"),
                      ("norange-after-part", bg[:bg.index(b"\r\n--" + B, 10)] + b"\r\n--" + B + b"\r\nX-Nothing: 1\r\n\r\nzzzz")]
        pend_hdrs = [[ct_header(B)], [ct_header(b"other"), b"X: y\r\n"], [b"\r\n"], []]
        for nm, bad in bad_bodies:
            for pi, ph in enumerate(pend_hdrs):
                for steps in ("e", "er", "re"):
                    for parts in ("w", "k1", "k7"):
                        if nm == "norange-after-part":
                            # the chunks of the first part were delivered before the error: the retry asks for the rest
                            want1 = missing(chunks, set(runs_of(want0, chunks)[0]))
                            h3, b3, _ = response_spans(chunks, want1, 24, "mp" if pi % 2 == 0 or len(runs_of(want1, chunks)) != 1 else "plain")
                        else:
                            h3, b3 = (hg, bg) if pi % 2 == 0 else (hp, bp)
                        trs = [(hg, bad, parts),                       # sets the error (callback may still report success)
                               (ph, bg[:40], "k9"),                    # error pending: everything refused
                               (h3, b3, "k5", steps)]                  # cleared: must work
                        if pi == 3:
                            trs.insert(2, (ph, b"", "w", "e"))          # clear, a transfer without any data, then the real one
                        c = SCase("sess17-err:%d:%s:h%d:%s:%s" % (ti, nm, pi, steps, parts), chunks, trs, kind="session")
                        c.expect = c05.expect_for(c)
                        if nm == "norange-after-part":
                            # chunks of the first part were delivered before the error: still all valid at the end
                            pass
                        cases.append(c)
    return cases


def run(res, tier, only_case=None):
    rng = vlib.Rng(vlib.seed() + 17)
    res.rule = ("header lines: ~75 spellings of the boundary parameter (regex metacharacters, quotes, empty, 5000 chars, no CR, "
                "NUL, 8-bit) ; bodies: ~45 hand-made malformed streams (truncated part headers at many positions, missing "
                "terminators, inverted / zero-length / wrapping / 40-digit content-range, NUL in headers, data after the "
                "closing delimiter) x whole/1/2/3/7-byte/random fragmentations, plus 3500 (thorough 90000) random mutants of "
                "well-formed responses; 10% of the runs continue after zck_clear_error; sessions on one zckDL: first response "
                "cut at (quick: every third, thorough: every) byte position, optional re-scan of the target (zck_find_valid_chunks + "
                "zck_reset_failed_chunks), zck_dl_reset + new missing range, then a complete / garbage / foreign-boundary / truncated / "
                "mutated second response, then the correct one; flags checked against file content after EVERY transfer. every buffer is an exact-size heap "
                "block under ASan/UBSan. non-trivial = case whose body is not a well-formed response for its request")
    if only_case is not None:
        cases = c05.replay_cases(only_case)
        for c in cases:
            c.kind = "clr" if "clr" in c.opts else (c.kind or "replay")
    else:
        cases = gen_cases(tier, rng) + gen_sessions(tier, vlib.Rng(vlib.seed() + 23))
    wd = vlib.scratch(PID)
    mo, io, asan, ierr, aerr = c05.run_all(cases, tier, wd, "C17")
    for k, c in enumerate(cases):
        if c.kind != "session":
            c.expect = None
        c05.check_case(res, c, mo[k] if k < len(mo) else None, io[k], asan.get(k), pfx="c17",
                       compare_model=(c.kind != "clr"))
        if not c.name.startswith(("hdr:0:good", "ht")):
            res.nontrivial.add(c.name)
    res.extra["asan_cases"] = len(asan)
    for k in (0, len(cases) // 3, len(cases) // 2, len(cases) - 1):
        if cases:
            res.sample({"case": cases[k].name, "line": cases[k].line()[:300], "impl": io[k][:300]})
    vlib.shutil.rmtree(wd, ignore_errors=True)
