"""C08 - local chunk reuse never accepts bytes that do not match the target index.
Tie: extracted copy_chunks / find_matching (Dl/Copy.v, on top of the extracted header reader
and validity scan) vs zck_copy_chunks / zck_find_matching_chunks / zck_find_valid_chunks /
zck_reset_failed_chunks on real files (harness/zh_c08.c, ASan build; sources opened read-only):
return values, every flag, every pairing and the whole target file after every call.
Oracle (independent of the model): for every call, from the reference parser's view of target
and source and hashlib: a chunk that becomes valid holds bytes hashing to the target's digest;
a chunk that becomes failed is zero-filled; valid chunks and every byte outside the extents of
not-yet-valid chunks that have a matching source entry (digest, stored size, size) are
unchanged; pairings join equal digests and lengths only; the source files are unchanged."""
import copy, hashlib, os, subprocess
import vlib, zckfmt

THEOREMS = ["C08_copy_sound", "C08_copy_total", "C08_match_sound", "C08_digest_size_determines_type",
            "C08_valid_chunks_untouched", "C08_many_sources", "C08_pairing_sound", "C08_find_matching",
            "C08_known_of_parsed"]
ASSUMPTIONS = [
    "model Dl/Copy.v is a hand transcription of zck_copy_chunks / write_and_verify_chunk / zero_chunk / zck_find_matching_chunks (dl.c) and of the "
    "uthash table built by index_read (HASH_FIND before HASH_ADD_KEYPTR: first chunk per digest; lookup = same key length and bytes), tied by "
    "differential execution: flags, pairings and the complete target file after every call",
    "source and target are different regular files without I/O faults (read returns the requested bytes or fewer at end of file, write and lseek "
    "succeed; fault schedules are C12); both contexts are opened for reading and not in an error state",
    "hash function H is a parameter (OpenSSL in the run); no collision-freeness is used: 'valid => H(target bytes) = target digest' is proved as such",
    "zck_find_matching_chunks sets valid = 1 without copying or hashing anything: it is a pairing API (only test/zck_cmp_uncomp.c uses it, no tool "
    "of the download path); T8.5 states its pairing contract only, and a target chunk marked by it is then skipped by zck_copy_chunks",
    "extraction ExtrOcamlBasic; ocaml/drv_c08.ml + zvstubs.c; harness/zh_c08.c under ASan/UBSan",
]


def sha(b):
    return hashlib.sha256(b).hexdigest()


class Ref:
    """reference parser's view of a file"""

    def __init__(self, f):
        self.ok = False
        pf = zckfmt.parse_file(f)
        if pf is None:
            return
        self.h, body = pf
        self.doff = len(f) - len(body)
        self.ext, s = [], 0
        for (_, _, clen, _) in self.h.chunks:
            self.ext.append((self.doff + s, clen)); s += clen
        self.ok = True


def match_index(src, tgt, i):
    """index of the source entry zck_copy_chunks may use for target chunk i (reference view)"""
    if src.h.cht != tgt.h.cht:
        return None
    dg, _, clen, ulen = tgt.h.chunks[i]
    for n, (sdg, _, sclen, sulen) in enumerate(src.h.chunks):
        if sdg == dg:
            return n if (sclen == clen and sulen == ulen) else None
    return None


def pair_index(src, tgt, i):
    dg, ud, clen, ulen = tgt.h.chunks[i]
    if src.h.cht != tgt.h.cht:
        return None
    if src.h.comp == tgt.h.comp:
        for n, c in enumerate(src.h.chunks):
            if c[0] == dg:
                return n if c[3] == ulen else None
        return None
    if (src.h.flags & 4) and (tgt.h.flags & 4):
        for n, c in enumerate(src.h.chunks):
            if c[1] == ud:
                return n if c[3] == ulen else None
    return None


def parse_line(line):
    toks = line.split()
    out = {"open": toks[0].split("=")[1].split(","), "ops": [], "src": {}}
    for t in toks[1:]:
        if t.startswith("src"):
            k, v = t[3:].split("=")
            out["src"][int(k)] = v
            continue
        name, rest = t.split("=", 1)
        ret, rest = rest.split("[", 1)
        fl, rest = rest.split("]{", 1)
        pr, tf = rest.split("}T=", 1)
        out["ops"].append((name, ret, [int(x) for x in fl.split(",")] if fl else [], pr.split(",") if pr else [], vlib.unhex(tf)))
    return out


def judge(tgt_bytes, srcs, line_out):
    """returns (problem text or None, interesting?)"""
    tgt = Ref(tgt_bytes)
    p = parse_line(line_out)
    for k, s in enumerate(srcs):
        if p["src"].get(k) != "%s/%d" % (sha(s), len(s)):
            return "source %d changed on disk" % k, False
    if p["open"][0] != "1":
        return None, False
    if not tgt.ok:
        return "library opens a target the reference parser rejects", False
    refs = [Ref(bytes(s)) for s in srcs]
    hashdb = [not getattr(s, "wmode", False) for s in srcs]     # a write-mode source has no lookup tables before op H
    n = len(tgt.h.chunks)
    flags, pairs, T = [0] * n, ["-"] * n, tgt_bytes
    interesting = False
    for (name, ret, fl, pr, T2) in p["ops"]:
        o = name[0]
        k = int(name[1:]) if len(name) > 1 and o not in "M" else 0
        def byte(F, x):
            return F[x] if x < len(F) else 0
        if o in "MH":
            if T2 != T or fl != flags or pr != pairs:
                return "%s (a call on the sources only) changed the target" % name, False
            if o == "H":
                hashdb[int(name[1:])] = True
            continue
        if o in "fzm" or ret == "nosrc":
            if T2 != T:
                return "%s changed the target file" % name, False
        if o == "z":
            if fl != [0 if v == -1 else v for v in flags]:
                return "reset_failed_chunks: %s -> %s" % (flags, fl), False
        elif ret == "nosrc":
            if fl != flags or pr != pairs:
                return "%s without a source changed flags" % name, False
        elif o == "c":
            src = refs[k]
            if not src.ok:
                return "library opens a source the reference parser rejects", False
            if len(T2) < len(T) or T2[:tgt.doff] != T[:tgt.doff]:
                return "%s shrank the target or touched its header" % name, False
            if pr != pairs:
                return "%s changed pairings" % name, False
            may = set()
            for i in range(n):
                lo, cl = tgt.ext[i]
                dg = tgt.h.chunks[i][0]
                seg = T2[lo:lo + cl]
                m = match_index(src, tgt, i)
                if flags[i] == 1:
                    if fl[i] != 1 or any(byte(T2, x) != byte(T, x) for x in range(lo, lo + cl)):
                        return "%s touched chunk %d that was already valid" % (name, i), False
                    continue
                if fl[i] not in (flags[i], 1, -1):
                    return "%s: chunk %d flag %d -> %d" % (name, i, flags[i], fl[i]), False
                if m is None:
                    if fl[i] != flags[i]:
                        return "%s changed the flag of chunk %d (%d -> %d) although no source entry has its digest, stored size and size" % (name, i, flags[i], fl[i]), False
                else:
                    may.add(i)
                if fl[i] == 1:
                    interesting = True
                    if len(seg) != cl or zckfmt.H(tgt.h.cht, seg) != dg:
                        return "%s marks chunk %d valid but the %d bytes at its offset do not hash to its index digest" % (name, i, cl), True
                if fl[i] == -1 and flags[i] != -1:
                    interesting = True
                    if len(seg) != cl or any(seg):
                        return "%s marks chunk %d failed without zero-filling its extent" % (name, i), True
            # frame: the file grows at most to the end of the last chunk that may be filled
            reach = max([len(T)] + [tgt.ext[i][0] + tgt.ext[i][1] for i in may])
            if len(T2) > reach:
                return "%s extends the target to %d bytes, beyond its old length %d and beyond the end (%d) of the last chunk it may fill" % (name, len(T2), len(T), reach), True
            # frame: bytes outside the extents of the chunks that may be filled
            allowed = bytearray(max(len(T), len(T2)))
            for i in may:
                lo, cl = tgt.ext[i]
                for x in range(lo, min(lo + cl, len(allowed))):
                    allowed[x] = 1
            for x in range(len(allowed)):
                if not allowed[x] and byte(T, x) != byte(T2, x):
                    return "%s changed target byte %d, outside the extents of the chunks it may fill" % (name, x), True
        elif o == "m":
            src = refs[k]
            if not src.ok:
                return "library opens a source the reference parser rejects", False
            for i in range(n):
                if flags[i] != 0:
                    if fl[i] != flags[i] or pr[i] != pairs[i]:
                        return "%s changed chunk %d whose flag was %d" % (name, i, flags[i]), False
                    continue
                want = pair_index(src, tgt, i) if hashdb[k] else None
                exp = ("%d:%d" % (k, want), 1) if want is not None else ("=", 0)
                if (pr[i], fl[i]) != exp:
                    return "%s pairs chunk %d as %s/flag %d, the indexes say %s/flag %d" % (name, i, pr[i], fl[i], exp[0], exp[1]), True
                interesting = interesting or want is not None
        flags, pairs, T = fl, pr, T2
    return None, interesting


# ------------------------------------------------------------------ generation
def zck_file(wd, name, data, dict_data=None, uflag=False, manual=True, comp=None):
    zck = vlib.ensure_tool("zck", "plain")
    src = os.path.join(wd, name)
    dst = src + ".zck"
    with open(src, "wb") as f:
        f.write(data)
    cmd = [zck, "-o", dst]
    if dict_data is not None:
        dp = src + ".dict"
        with open(dp, "wb") as f:
            f.write(dict_data)
        cmd += ["-D", dp]
    if manual:
        cmd += ["-m", "-s", "<text:"]
    if uflag:
        cmd += ["-u"]
    if comp:
        cmd += ["--compression-format", comp]
    cmd.append(src)
    p = subprocess.run(cmd, stdout=subprocess.PIPE, stderr=subprocess.PIPE, timeout=120, env=dict(os.environ, **vlib.ASAN_ENV))
    if p.returncode != 0 or not os.path.exists(dst):
        return None
    return open(dst, "rb").read()


def header_of(f):
    r = Ref(f)
    return f[:r.doff]


class W(bytes):
    """source bytes offered as a WRITE-mode context (harness and driver get the hex with a leading W)"""
    wmode = True


def gen_cases(rng, tier, wd):
    """list of (tag, [source bytes], target bytes, ops)"""
    quick = tier == "quick"
    out = []
    rounds = 12 if quick else 150
    for rnd in range(rounds):
        ht, cht = rng.choice([0, 1, 2, 3]), rng.choice([0, 1, 2, 3])
        flags = 4 if rnd % 4 == 3 else 0
        pool = [rng.rbytes(rng.choice([1, 2, 3, 7, 20])) for _ in range(7)]
        sd = rng.rbytes(rng.choice([0, 0, 4]))
        td = rng.choice([sd, b"", rng.rbytes(4)])           # same or different dictionary chunk
        s_chunks = [pool[i] for i in (0, 1, 2, 3, 1, 4)]     # chunk 1 twice in the source
        t_chunks = [pool[i] for i in (2, 5, 0, 1, 6, 1, 3, 4, 0)]  # chunk 1 twice in the target, 5 and 6 not in the source; the
        # source's LAST chunk (4) is wanted in front of its first (0): a source cut inside its last chunk cannot fill the former
        S, sh = zckfmt.build_file(s_chunks, ht=ht, cht=cht, flags=flags, dict_chunk=sd)
        Tfull, th = zckfmt.build_file(t_chunks, ht=rng.choice([0, 1, 2, 3]), cht=cht, flags=flags, dict_chunk=td)
        sref, tref = Ref(S), Ref(Tfull)
        Thdr = Tfull[:tref.doff]
        out.append(("intact", [S], Thdr, "f,c0"))
        out.append(("intact-nofind", [S], Thdr, "c0"))
        out.append(("intact-twice", [S], Thdr, "f,c0,c0,z,c0"))
        out.append(("full-target", [S], Tfull, "f,c0"))
        out.append(("overlong-target", [S], Tfull + rng.rbytes(9), "f,c0"))
        # partially filled targets: some chunks right, some garbage, cut anywhere
        for _ in range(6 if quick else 20):
            b = bytearray(Tfull)
            for (lo, cl) in tref.ext:
                r = rng.random()
                if r < 0.3:
                    b[lo:lo + cl] = rng.rbytes(cl)
                elif r < 0.5:
                    b[lo:lo + cl] = bytes(cl)
            cut = rng.randrange(tref.doff, len(b) + 1)
            out.append(("partial-target", [S], bytes(b[:cut]), "f,c0"))
        # damaged source bodies
        for k, (lo, cl) in enumerate(sref.ext):
            if cl == 0:
                continue
            g = bytearray(S); g[lo + rng.randrange(cl)] ^= 1 << rng.randrange(8)
            out.append(("src-bitflip", [bytes(g)], Thdr, "f,c0"))
            g = bytearray(S); g[lo:lo + cl] = bytes(cl)
            out.append(("src-zeroed", [bytes(g)], Thdr, "f,c0"))
            for cut in (lo - 1, lo, lo + 1, lo + cl // 2, lo + cl - 1):
                if sref.doff <= cut < len(S):
                    out.append(("src-trunc", [S[:cut]], Thdr, rng.choice(["f,c0", "f,z,c0"])))
        # the source's own flags set by a pairing call (index comparison only) before it is used: a damaged body must still
        # be found out by the copy
        for k, (lo, cl) in enumerate(sref.ext):
            if cl and k in (1, 3):
                g = bytearray(S); g[lo + rng.randrange(cl)] ^= 1 << rng.randrange(8)
                out.append(("src-bitflip-paired", [bytes(g), S], Thdr, "M10,f,c0"))
                out.append(("src-bitflip-paired", [bytes(g), Tfull], Thdr, "f,M10,c0"))
        # one chunk of an otherwise complete target missing, its source copy damaged: the neighbours are valid and must
        # survive whatever the failed copy does
        for k in range(1, len(tref.ext)):
            lo, cl = tref.ext[k]
            if cl == 0 or match_index(sref, tref, k) is None:
                continue
            tb = bytearray(Tfull); tb[lo:lo + cl] = bytes(cl)
            slo, scl = sref.ext[match_index(sref, tref, k)]
            g = bytearray(S); g[slo] ^= 0x40
            out.append(("hole-src-bitflip", [bytes(g)], bytes(tb), "f,c0"))
            out.append(("hole-src-trunc", [S[:slo + scl - 1]], bytes(tb), "f,c0"))
        # several sources in both orders, one of them damaged, with and without the reset in between
        g = bytearray(S); lo, cl = sref.ext[1]; g[lo] ^= 0x10
        S2, _ = zckfmt.build_file([pool[5], pool[6], pool[0]], ht=ht, cht=cht, flags=flags, dict_chunk=td)
        for ops in ("f,c0,c1,c2", "f,c2,c1,c0", "f,c1,z,c0,c2", "c0,z,c2,c1", "f,c2,c0,c0"):
            out.append(("multi-source", [bytes(g), S, S2], rng.choice([Thdr, Tfull[:tref.doff + 5]]), ops))
        # crafted source indexes
        def crafted(tag, mut, ops="f,c0"):
            hh = copy.deepcopy(sh); mut(hh)
            body = S[sref.doff:]
            out.append((tag, [hh.build() + body], Thdr, ops))
        tdg = th.chunks[2][0]     # target chunk 2 (= pool[5], not in the source)
        def setc(hh, k, dg=None, clen=None, ulen=None):
            c = hh.chunks[k]
            hh.chunks[k] = (c[0] if dg is None else dg, c[1], c[2] if clen is None else clen, c[3] if ulen is None else ulen)
        if len(pool[5]) == len(s_chunks[0]):
            crafted("crafted-digest-samelen", lambda hh: setc(hh, 1, dg=tdg))
        crafted("crafted-digest", lambda hh: setc(hh, 1, dg=tdg, clen=len(pool[5]), ulen=len(pool[5])))
        crafted("crafted-digest-clen", lambda hh: setc(hh, 1, dg=tdg, clen=len(pool[5]) + 1, ulen=len(pool[5])))
        crafted("crafted-digest-ulen", lambda hh: setc(hh, 1, dg=tdg, clen=len(pool[5]), ulen=len(pool[5]) + 1))
        crafted("crafted-shifted", lambda hh: setc(hh, 1, clen=sh.chunks[1][2] + 1))      # every later chunk mis-indexed
        crafted("crafted-huge", lambda hh: setc(hh, 3, clen=2 ** 40))
        crafted("crafted-dup-first-wrong", lambda hh: hh.chunks.insert(1, (sh.chunks[3][0], sh.chunks[3][1], sh.chunks[3][2], sh.chunks[3][3])))
        # differing chunk checksum types / overall types
        for c2 in range(4):
            if c2 != cht and not (flags & 4 and c2 in (0, 3)):
                S3, _ = zckfmt.build_file(s_chunks, ht=ht, cht=c2, flags=flags, dict_chunk=sd)
                out.append(("other-chunk-hash", [S3], Thdr, "f,c0,m0"))
        # pairing API
        out.append(("matching", [S, S2], Thdr, "m0,m1"))
        out.append(("matching", [S, S2], Thdr, "f,m1,m0,c0"))
        out.append(("matching-then-copy", [S], Thdr, "m0,c0"))
    # a chunk with a 32 KiB-aligned block of zeros inside (and one at its end), copied over a target that already holds other,
    # non-zero bytes there (an in-place update of an older file): every byte of the chunk must be written, zeros included
    for rep in range(1 if quick else 3):
        a, b_ = rng.rbytes(32768), rng.rbytes(32768 + rng.choice([0, 5]))
        big = a + bytes(32768) + b_ + bytes(32768)
        S, sh = zckfmt.build_file([b"head", big, b"tail"], ht=1, cht=rng.choice([1, 3]))
        Tfull, th = zckfmt.build_file([b"x" * 10, big, b"other"], ht=1, cht=sh.cht)
        tref = Ref(Tfull)
        lo, cl = tref.ext[2]
        old = bytearray(Tfull); old[lo:lo + cl] = bytes([0xaa]) * cl
        out.append(("zero-blocks-over-old-bytes", [S], bytes(old), "f,c0"))
        out.append(("zero-blocks-over-old-bytes", [S], bytes(old[:lo + 40000]), "f,c0"))
        out.append(("zero-blocks-header-only", [S], Tfull[:tref.doff], "f,c0"))
    # chunks of several 32 KiB blocks: block loop, short reads with a stale buffer
    for blocks in ((2,) if quick else (2, 3)):
        x = rng.rbytes(32768)
        S, sh = zckfmt.build_file([b"head", x * blocks, b"tail"], ht=1, cht=3)
        Tfull, th = zckfmt.build_file([x * blocks, b"other"], ht=1, cht=3)
        sref, tref = Ref(S), Ref(Tfull)
        Thdr = Tfull[:tref.doff]
        lo, cl = sref.ext[2]
        out.append(("blocks", [S], Thdr, "f,c0"))
        for cut in [lo + 32768 * k + d for k in range(0, blocks + 1) for d in (-1, 0, 1, 77)]:
            if sref.doff <= cut < len(S):
                out.append(("blocks-src-trunc", [S[:cut]], Thdr, "f,z,c0"))
        y = bytearray(x * blocks); y[40000] ^= 1
        g = S[:lo] + bytes(y) + S[lo + cl:]
        out.append(("blocks-src-flip", [g], Thdr, "f,c0"))
        out.append(("blocks-src-flip-then-good", [g, S], Thdr, "f,c0,c1"))
    # zstd files of the tree's own writer: shared text chunks, different dictionaries, -u
    words = [b"alpha ", b"beta ", b"gamma\n", b"delta ", b"0123456789"]
    def text(k):
        return b"".join(b"<text:%d>" % (j * 7 % 5) + b"".join(rng.choice(words) for _ in range(rng.randrange(5, 60))) for j in range(k))
    for rnd in range(2 if quick else 8):
        parts = [text(1) for _ in range(8)]
        A = b"".join(parts[i] for i in (0, 1, 2, 3, 4, 5))
        B = b"".join(parts[i] for i in (0, 6, 2, 3, 7, 5))
        d1, d2 = rng.rbytes(100) + parts[0][:50], rng.rbytes(120)
        variants = [("zstd-samedict", zck_file(wd, "a%d" % rnd, A, d1), zck_file(wd, "b%d" % rnd, B, d1)),
                    ("zstd-otherdict", zck_file(wd, "c%d" % rnd, A, d1), zck_file(wd, "d%d" % rnd, B, d2)),
                    ("zstd-nodict", zck_file(wd, "e%d" % rnd, A), zck_file(wd, "f%d" % rnd, B)),
                    ("zstd-uflag", zck_file(wd, "g%d" % rnd, A, uflag=True), zck_file(wd, "h%d" % rnd, B, uflag=True))]
        for tag, SA, TB in variants:
            if not SA or not TB:
                continue
            hd = header_of(TB)
            out.append((tag, [SA], hd, "f,c0"))
            out.append((tag, [SA], hd, "m0"))
            g = bytearray(SA); g[len(g) // 2] ^= 4
            out.append((tag + "-flip", [bytes(g), SA], hd, "f,c0,c1"))
            out.append((tag + "-trunc", [SA[:len(SA) - rng.randrange(1, 200)]], hd, "f,c0"))
            # full target with one shared chunk zeroed, the source's copy of it damaged: the failed copy is wiped with the
            # STORED size, the valid neighbours behind it stay
            ra, rb = Ref(SA), Ref(TB)
            if ra.ok and rb.ok:
                for k in range(1, len(rb.ext)):
                    mi = match_index(ra, rb, k)
                    lo, cl = rb.ext[k]
                    if mi is None or cl == 0 or k == len(rb.ext) - 1:
                        continue
                    tb = bytearray(TB); tb[lo:lo + cl] = bytes(cl)
                    slo, scl = ra.ext[mi]
                    g = bytearray(SA); g[slo + scl // 2] ^= 0x10
                    out.append((tag + "-hole-flip", [bytes(g)], bytes(tb), "f,c0"))
                    break
        # uncompressed-digest pairing across compression types: zstd source, uncompressed target, both with the flag
        chunksB = [b"<text:" + p for p in B.split(b"<text:") if p]
        TU, _ = zckfmt.build_file(chunksB, ht=1, cht=1, flags=4)
        SAu = variants[3][1]
        if SAu:
            out.append(("cross-comp-uflag", [SAu], header_of(TU), "m0"))
            out.append(("cross-comp-uflag", [SAu], header_of(TU), "f,z,m0,c0"))
            SAp = variants[2][1]
            if SAp:
                out.append(("cross-comp-noflag", [SAp], header_of(TU), "m0,c0"))
            # the lookup tables rebuilt by hand first; a target entry whose UNCOMPRESSED checksum is the STORED checksum of a
            # source chunk of the same size (tables keyed with the wrong checksum would pair them); one-sided flags
            out.append(("cross-comp-uflag", [SAu], header_of(TU), "H0,m0"))          # read-mode source: H is refused, no effect
            for ops in ("m0", "H0,m0", "H0,H0,m0"):
                out.append(("cross-comp-uflag-wsrc", [W(SAu)], header_of(TU), ops))   # write-mode source: tables only after H
            if SAp:
                out.append(("cross-comp-noflag-wsrc", [W(SAp)], header_of(TU), "H0,m0"))
            ra = Ref(SAu)
            if ra.ok and len(ra.h.chunks) > 2:
                hh = copy.deepcopy(Ref(TU).h)
                for j in (1, 2):
                    sdg, sud, sclen, sulen = ra.h.chunks[j]
                    if j < len(hh.chunks) and len(sdg) == len(hh.chunks[j][0]):
                        hh.chunks[j] = (hh.chunks[j][0], sdg, hh.chunks[j][2], sulen)
                for ops in ("m0", "H0,m0", "H0,H0,m0,c0"):
                    out.append(("cross-comp-uflag-crafted", [SAu], hh.build(), ops))
                out.append(("cross-comp-uflag-crafted-wsrc", [W(SAu)], hh.build(), "H0,m0"))
            TUn, _ = zckfmt.build_file(chunksB, ht=1, cht=1, flags=0)
            for ops in ("m0", "H0,m0,c0"):
                out.append(("cross-comp-oneflag", [SAu], header_of(TUn), ops))
                if SAp:
                    out.append(("cross-comp-oneflag", [SAp], header_of(TU), ops))
        # the same with dictionaries: every dictionary entry carries the uncompressed digest of the EMPTY message
        # (comp_init never feeds the dictionary into that hash), so only the length keeps different dictionaries apart
        for k, (ld1, ld2) in enumerate(((2000, 3000), (300, 300), (64, 65))):
            Sd = zck_file(wd, "ud%d_%d" % (rnd, k), A, rng.rbytes(ld1), uflag=True)
            Td = zck_file(wd, "ue%d_%d" % (rnd, k), B, rng.rbytes(ld2), uflag=True, comp="none")
            if Sd and Td:
                out.append(("cross-comp-uflag-dicts", [Sd], header_of(Td), "m0"))
                out.append(("cross-comp-uflag-dicts", [Sd], header_of(Td), "f,z,m0,c0"))
    return out


def run(res, tier, only_case=None):
    rng = vlib.Rng(vlib.seed())
    res.rule = ("(source, target) pairs from the independent reference encoder (all checksum types, same / different / no dictionary chunk, uncompressed-source "
                "flag, duplicate chunks in source and target, chunks absent from the source) and zstd pairs written by the tree's zck (same / other / no "
                "dictionary, -u); targets: header only, complete, over-long, partially filled with right / garbage / zero chunks cut anywhere; sources: intact, "
                "one bit flipped or zeroed per chunk, cut at every chunk boundary +-1 and mid-chunk, multi-block chunks cut around every 32 KiB border; crafted "
                "source indexes (entry with the target's digest over other bytes, with other stored size / size, shifted offsets, huge size, wrong first "
                "duplicate); other chunk checksum type; up to three sources in different orders with reset in between; pairing API alone, before and after "
                "copies, across compression types. non-trivial = distinct case in which a call changes a flag or makes a pairing")
    wd = vlib.scratch("C08")
    if only_case is not None:
        toks = only_case["case"]["line"].split()
        ns = int(toks[1])
        cases = [(only_case["case"].get("tag", "replay"), [vlib.unhex(x) for x in toks[2:2 + ns]], vlib.unhex(toks[2 + ns]), toks[3 + ns])]
    else:
        cases = gen_cases(rng, tier, wd)
    lines = ["K %d %s %s %s" % (len(srcs), " ".join(("W" if getattr(s, "wmode", False) else "") + vlib.hexs(bytes(s)) for s in srcs), vlib.hexs(t), ops) for _, srcs, t, ops in cases]
    model = vlib.ensure_model("C08")
    impl = vlib.ensure_harness("zh_c08", "asan")
    env = {"ZH_TMP": wd}
    mo, _ = vlib.run_cases(model, lines, wd, "model", timeout=1500)
    io, errs = vlib.run_cases_resilient(impl, lines, wd, "impl", env=env, timeout=1500)
    errmap = dict(errs)
    for k, ((tag, srcs, t, ops), line, i, m) in enumerate(zip(cases, lines, io, mo)):
        res.evaluations += 1
        hk = hashlib.sha256(line.encode()).hexdigest()[:12]
        case = {"line": line, "tag": tag, "impl": i[:800], "model": m[:800]}
        res.count(tag)
        if i == "MEMFAULT" or i.endswith("HANG") or i.startswith("DIED") or i == "NOTRUN":
            if i != "NOTRUN":
                res.violation("oracle", "c08:%s:fault:%s" % (tag, hk), "calls [%s] on a %s pair end in %s: %s" % (ops, tag, i[-30:], vlib.san_summary(errmap.get(k, ""))), case)
            continue
        mres, _ = vlib.split_model(m)
        if mres != i:
            a, b = mres.split(), i.split()
            d = next((j for j in range(min(len(a), len(b))) if a[j] != b[j]), min(len(a), len(b)))
            res.violation("correspondence", "c08-corr:%s:%s" % (tag, hk), "model and library disagree on [%s] over a %s pair at call %d: model %s.. code %s.." %
                          (ops, tag, d, (a[d] if d < len(a) else "")[:150], (b[d] if d < len(b) else "")[:150]), case)
        try:
            bad, interesting = judge(t, srcs, i)
        except Exception as e:      # malformed output is a harness problem, not a verdict
            res.violation("harness", "c08:harness:%s" % hk, "cannot read the harness output: %r" % (e,), case)
            continue
        if bad:
            res.violation("oracle", "c08:%s:%s:%s" % (tag, ops, hk), "%s pair, calls [%s]: %s" % (tag, ops, bad), case)
        if interesting:
            res.nontrivial.add(hk)
    for k in (0, len(lines) // 2, len(lines) - 1):
        res.sample({"tag": cases[k][0], "ops": cases[k][3], "target_hex": vlib.hexs(cases[k][2])[:200], "impl": io[k][:300]})
    vlib.shutil.rmtree(wd, ignore_errors=True)
