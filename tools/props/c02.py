"""C02 - no silent corruption: a successful open / read-to-end / close delivers exactly the
verified content of the file.
Tie: extracted CompRead model vs the real zck_read / zck_close (ASan build) on valid files and
their raw and structure-aware mutants, several buffer-size patterns.
Oracle: the specification decoder (ReadSpec.v: spec_verify / spec_decode, run with OpenSSL and
libzstd as H and zdecomp) on the SPEC half of the model line; for mutants that do not re-seal the
header also the original content, which needs no model at all.  The unzck tool is run on a
sample.  The generators and helpers are shared with C15 and C14."""
import copy, hashlib, os, subprocess, threading
import vlib, filegen, zckfmt

THEOREMS = ["C02_read_close_success_is_verified_content_zstd", "C02_declared_sizes", "C02_unzck_exit0_output_zstd",
            "C02_read_close_success_is_verified_content", "C02_unzck_exit0_output", "C02_unzck_failure_no_output",
            "C02_valid_file_reads_back", "C02_chunk_request_success_is_verified_content", "C02_chunk_request_one"]
ASSUMPTIONS = [
    "model Read/CompRead.v is a hand transcription of comp.c / zck.c / hash.c / zstd.c / nocomp.c / io.c (read path), tied by differential execution on valid files and mutants",
    "H (hash) and zdecomp (one-shot zstd decoder, with the produced length) are parameters of model and spec, instantiated with OpenSSL and libzstd in the run; no property of them is assumed",
    "file reads are fault free: read() returns min(requested, remaining) bytes (I/O faults are property C12); allocation and zstd context creation do not fail",
    "the header layer (parse_impl, property C13) provides the header record; zck_validate_data_checksum (unzck) restores the reader state when it returns 1 (property C09)",
    "extraction ExtrOcamlBasic; ocaml/drv_c02.ml + zvstubs.c; harness/zh_c02.c under ASan/UBSan",
]

SEP = b"<S#P>"
NPAR = max(2, min(10, vlib.NCPU - 2))


def h16(b):
    return hashlib.sha256(b).hexdigest()[:16]


def text(rng, n):
    words = [b"alpha", b"beta", b"gamma", b"delta\n", b"0123456789", b" ", b"epsilon", b"zeta-eta"]
    out = b""
    while len(out) < n:
        out += rng.choice(words)
    return out[:n]


def mk_zstd(wd, parts, dict_bytes=None, uflag=False, variant="asan"):
    """zstd file written by the tree's own zck tool whose chunks are exactly SEP+part (manual
    chunking on a split string)"""
    zck = vlib.ensure_tool("zck", variant)
    data = b"".join(SEP + p for p in parts)
    src = os.path.join(wd, "mk_in")
    dst = os.path.join(wd, "mk_in.zck")
    with open(src, "wb") as f:
        f.write(data)
    cmd = [zck, "-o", dst, "-m", "-s", SEP.decode()]
    if dict_bytes:
        dp = os.path.join(wd, "mk_dict")
        with open(dp, "wb") as f:
            f.write(dict_bytes)
        cmd += ["-D", dp]
    if uflag:
        cmd += ["-u"]
    cmd.append(src)
    p = subprocess.run(cmd, stdout=subprocess.PIPE, stderr=subprocess.PIPE, timeout=120,
                       env=dict(os.environ, **vlib.ASAN_ENV))
    if p.returncode != 0 or not os.path.exists(dst):
        raise vlib.BuildError("zck tool", p.stderr.decode("utf-8", "replace")[-800:])
    f = open(dst, "rb").read()
    os.unlink(dst)
    return f, data


def train_dict(impl, wd, rng, crafted=False):
    """a dictionary in zstd's own format (ZDICT_trainFromBuffer through the harness).  crafted:
    dictionary id bytes that make the compressed dictionary chunk start with a repeat-offset
    match, and a first repeat offset of 2 instead of 1 - still a valid dictionary, but decoding
    the dictionary chunk with the dictionary loaded gives different bytes"""
    samples = b"".join(text(rng, 512) for _ in range(400))
    o, _ = vlib.run_cases(impl, ["T 512 4096 %s" % samples.hex()], wd, "train")
    if not o or not o[0].startswith("dict=") or "ERR" in o[0]:
        return rng.rbytes(200) + text(rng, 400)
    d = bytearray(bytes.fromhex(o[0].split()[0].split("=")[1]))
    hs = int(o[0].split()[1].split("=")[1])
    if crafted and hs > 12:
        d[4:8] = b"\xec\xec\xec\xec"
        d[hs - 12:hs - 8] = (2).to_bytes(4, "little")
    return bytes(d)


def parse(f):
    r = zckfmt.parse_file(f)
    if r is None:
        return None
    h, body = r
    return h, body, len(f) - len(body)


def starts_of(h):
    s = [0]
    for c in h.chunks:
        s.append(s[-1] + c[2])
    return s


class Base:
    """a valid file: bytes, content, per-entry data (entry 0 = dictionary chunk), kind tag"""

    def __init__(self, kind, f, content, entries):
        self.kind, self.f, self.content, self.entries = kind, f, content, entries
        self.h, self.body, self.lead = parse(f)
        self.starts = starts_of(self.h)

    def stored(self, k):
        return self.body[self.starts[k]:self.starts[k + 1]]


def small_parts(rng, n, lo=40, hi=400):
    out = []
    for i in range(n):
        ln = rng.randrange(lo, hi)
        out.append(text(rng, ln) if i % 3 != 1 else rng.rbytes(ln))
    return out


def base_files(rng, wd, impl, tier, small_only=False, variant="asan"):
    """valid files: zstd (manual chunks; no dictionary / raw-content dictionary / zstd-format
    dictionary / -u) from the zck tool, uncompressed ones from the reference encoder (with and
    without dictionary chunk, with the uncompressed-source flag), plus larger ones"""
    out = []
    rawd = rng.rbytes(120) + text(rng, 200)
    tdict = train_dict(impl, wd, rng)
    cdict = train_dict(impl, wd, rng, crafted=True)
    for kind, d, u in (("zstd", None, False), ("zstd+rawdict", rawd, False), ("zstd+zdict", tdict, False),
                       ("zstd+zdict2", cdict, False), ("zstd-u", None, True), ("zstd-u+dict", rawd, True)):
        parts = small_parts(rng, rng.choice([3, 4, 5]))
        f, data = mk_zstd(wd, parts, dict_bytes=d, uflag=u, variant=variant)
        out.append(Base(kind, f, data, [d or b""] + [SEP + p for p in parts]))
    for kind, d, fl in (("none", b"", 0), ("none+dict", rng.rbytes(30), 0), ("none-u", b"", 4)):
        parts = [SEP + p for p in small_parts(rng, rng.choice([3, 4, 5]))]
        f, _ = zckfmt.build_file(parts, ht=rng.choice([0, 1, 2, 3]), cht=1 if fl else rng.choice([0, 1, 2, 3]), flags=fl, dict_chunk=d)
        out.append(Base(kind, f, b"".join(parts), [d] + parts))
    # an entry with stored bytes but empty content (a zstd frame of nothing)
    b0 = out[0]
    empty = bytes.fromhex("28b52ffd2000010000")
    hh = copy.deepcopy(b0.h)
    nb = b0.stored(1) + empty + b0.body[b0.starts[2]:]
    hh.chunks = [hh.chunks[0], hh.chunks[1], (zckfmt.H(hh.cht, empty), None, len(empty), 0)] + hh.chunks[2:]
    hh.ddigest = zckfmt.H(hh.ht, nb)
    out.append(Base("zstd+emptychunk", hh.build() + nb, b0.content, b0.entries[:2] + [b""] + b0.entries[2:]))
    if small_only:
        return out
    # larger files: multi-block chunks, automatic chunking, big uncompressed chunks
    parts = [text(rng, 3000), rng.rbytes(500), text(rng, 40000), text(rng, 100), rng.rbytes(33000)]
    f, data = mk_zstd(wd, parts, variant=variant)
    out.append(Base("zstd-large", f, data, [b""] + [SEP + p for p in parts]))
    f, data = mk_zstd(wd, parts[:3], dict_bytes=tdict, variant=variant)
    out.append(Base("zstd-large+zdict", f, data, [tdict] + [SEP + p for p in parts[:3]]))
    # contents ending in (or consisting of) long runs of zero bytes: whole output blocks of zeros, also as the very last block
    parts = [text(rng, 700), bytes(40000)]
    f, data = mk_zstd(wd, parts, variant=variant)
    out.append(Base("zstd-zerotail", f, data, [b""] + [SEP + p for p in parts]))
    zparts = [rng.rbytes(100), bytes(33000)]
    f, _ = zckfmt.build_file(zparts, ht=1, cht=1)
    out.append(Base("none-zerotail", f, b"".join(zparts), [b""] + zparts))
    zparts = [bytes(32768)]
    f, _ = zckfmt.build_file(zparts, ht=1, cht=3)
    out.append(Base("none-onezeroblock", f, b"".join(zparts), [b""] + zparts))
    n_auto = 2 if tier == "quick" else 8
    for f, data, _ in filegen.zstd_files(rng, n_auto, wd, variant):
        p = parse(f)
        if p and len(f) < 200000:
            out.append(Base("zstd-auto", f, data, None))
    for f, data, _ in filegen.nocomp_files(rng, 3 if tier == "quick" else 10):
        if len(f) < (40000 if tier == "quick" else 150000):     # the list-based model is slow on large uncompressed files
            out.append(Base("none-gen", f, data, None))
    return out


def dup_files(rng, wd, variant="asan"):
    """files that hold the same chunk three times (A B A C A): zstd without and with a dictionary from the
    zck tool (identical stored bytes and digests), and uncompressed from the reference encoder"""
    a, bb, cc = text(rng, rng.randrange(120, 200)), rng.rbytes(rng.randrange(40, 80)), text(rng, rng.randrange(80, 140))
    parts = [a, bb, a, cc, a]
    out = []
    rawd = rng.rbytes(100) + text(rng, 150)
    for kind, d in (("zstd-dup", None), ("zstd-dup+rawdict", rawd)):
        f, data = mk_zstd(wd, parts, dict_bytes=d, variant=variant)
        b = Base(kind, f, data, [d or b""] + [SEP + p for p in parts])
        if b.h.chunks[1][:1] == b.h.chunks[3][:1] == b.h.chunks[5][:1]:
            out.append(b)
    ps = [SEP + p for p in parts]
    f, _ = zckfmt.build_file(ps, ht=1, cht=rng.choice([1, 3]))
    out.append(Base("none-dup", f, b"".join(ps), [b""] + ps))
    return out


def patterns(rng, b, tier, k=None):
    """read buffer-size patterns: 1, c-1, c, c+1 (c = declared size of a chunk), 32 KiB, mixtures"""
    sizes = [c[3] for c in b.h.chunks if c[3] > 0] or [7]
    c = sizes[k % len(sizes)] if k is not None else rng.choice(sizes)
    pats = ["R32768", "R%d" % c, "R%d" % (c + 1), "R%d" % max(1, c - 1),
            "R" + ":".join(str(rng.choice([1, 2, 3, 7, c, c + 1, max(1, c - 1), 100, 32768])) for _ in range(rng.randrange(2, 7)))]
    if len(b.f) < 6000:
        pats.append("R1")
    return pats


def mutants(rng, b, tier):
    """(tag, bytes, resealed) - raw mutations leave the header checksum alone, structure-aware
    ones edit the parsed header / chunk layout and re-seal it"""
    out = []
    f, lead, body, h = b.f, b.lead, b.body, b.h
    quick = tier == "quick"
    # single-bit flips over the body
    nbits = len(body) * 8
    step = max(1, nbits // (160 if quick else 6000))
    off = rng.randrange(step)
    for bit in range(off, nbits, step):
        m = bytearray(f)
        m[lead + bit // 8] ^= 1 << (bit % 8)
        out.append(("flip@%d" % bit, bytes(m), False))
    # substitutions, insertions, deletions in the body
    for _ in range(12 if quick else 150):
        p = rng.randrange(len(body)) if body else 0
        m = bytearray(f)
        kind = rng.choice(["sub", "ins", "del", "insend"])
        if kind == "sub" and body:
            m[lead + p] = (m[lead + p] + rng.randrange(1, 256)) % 256
        elif kind == "ins":
            m[lead + p:lead + p] = rng.rbytes(rng.choice([1, 3, 40]))
        elif kind == "del" and body:
            del m[lead + p:lead + p + rng.choice([1, 2, 17])]
        else:
            m += rng.rbytes(rng.choice([1, 9]))
        out.append((kind + "@%d" % p, bytes(m), False))
    # truncation at every length (quick: every body length of these small files, sampled header lengths)
    tstep = max(7, len(f) // (400 if quick else 4000))       # large bodies: a bounded number of truncation lengths
    for t in range(lead, len(f)):
        if len(body) < 2500 or (not quick and len(body) < 20000) or t % tstep == 0 or len(f) - t <= 3:
            out.append(("trunc@%d" % t, f[:t], False))
    for t in sorted(set(rng.randrange(lead) for _ in range(6 if quick else 60))):
        out.append(("trunc@%d" % t, f[:t], False))
    # structure-aware, with and without re-sealing
    n = len(h.chunks)

    def emit(tag, hh, nb):
        out.append((tag + ":resealed", hh.build() + nb, True))
        # the same file under the detached-header magic: the five magic bytes are the only part of the lead the
        # header checksum does not cover, so this needs no re-sealing; the data section is read like any other
        out.append((tag + ":resealed:zhr", b"\0ZHR1" + hh.build()[5:] + nb, True))
        raw = hh.build()
        l = zckfmt.parse_lead(f)
        # same edit with the ORIGINAL header checksum kept
        keep = raw[:l["dloc"]] + f[l["dloc"]:l["lead"]] + raw[l["lead"]:] if len(raw) >= l["lead"] else raw
        out.append((tag + ":unsealed", keep + nb, False))

    for k in range(n):
        dg, ud, cl, ul = h.chunks[k]
        for d in (-10, -1, 1, 10):
            if cl + d >= 0:
                hh = copy.deepcopy(h)
                hh.chunks[k] = (dg, ud, cl + d, ul)
                emit("clen%d%+d" % (k, d), hh, body)
            if ul + d >= 0:
                hh = copy.deepcopy(h)
                hh.chunks[k] = (dg, ud, cl, ul + d)
                emit("ulen%d%+d" % (k, d), hh, body)
            if cl + d >= 0 and ul + d >= 0:
                hh = copy.deepcopy(h)
                hh.chunks[k] = (dg, ud, cl + d, ul + d)
                emit("both%d%+d" % (k, d), hh, body)
        # boundary values of the declared sizes (the stored bytes and their digest stay)
        for nul in (0, 1):
            if ul != nul:
                hh = copy.deepcopy(h)
                hh.chunks[k] = (dg, ud, cl, nul)
                emit("ulen%d=%d" % (k, nul), hh, body)
        if cl != 0:
            hh = copy.deepcopy(h)
            hh.chunks[k] = (dg, ud, 0, ul)
            emit("clen%d=0" % k, hh, body)
            hh = copy.deepcopy(h)
            hh.chunks[k] = (dg, ud, 0, 0)
            emit("both%d=0" % k, hh, body)
        hh = copy.deepcopy(h)
        x = bytearray(dg)
        x[rng.randrange(len(x))] ^= 1 << rng.randrange(8)
        hh.chunks[k] = (bytes(x), ud, cl, ul)
        emit("digest%d" % k, hh, body)
        hh = copy.deepcopy(h)
        hh.chunks[k] = (bytes(len(dg)), ud, cl, ul)
        emit("zerodigest%d" % k, hh, body)
    for _ in range(4 if quick else 20):
        if n >= 3:
            i, j = sorted(rng.sample(range(1, n), 2))
            st = b.starts
            segs = [body[st[k]:st[k + 1]] for k in range(n)]
            # swap the stored chunks only, the index entries only, and both (a different valid file)
            s2 = list(segs)
            s2[i], s2[j] = s2[j], s2[i]
            emit("swapbody%d-%d" % (i, j), copy.deepcopy(h), b"".join(s2))
            hh = copy.deepcopy(h)
            hh.chunks[i], hh.chunks[j] = hh.chunks[j], hh.chunks[i]
            emit("swapindex%d-%d" % (i, j), hh, body)
            hh2 = copy.deepcopy(hh)
            if not (h.flags & 4):
                hh2.ddigest = zckfmt.H(h.ht, b"".join(s2))
            emit("swapboth%d-%d" % (i, j), hh2, b"".join(s2))
    hh = copy.deepcopy(h)
    x = bytearray(hh.ddigest)
    x[rng.randrange(len(x))] ^= 1 << rng.randrange(8)
    hh.ddigest = bytes(x)
    emit("datadigest", hh, body)
    hh = copy.deepcopy(h)
    hh.comp = 0 if h.comp == 2 else 2
    emit("comptype", hh, body)
    if not (h.flags & 4):
        # drop / duplicate the last chunk, keeping the data checksum of the original
        hh = copy.deepcopy(h)
        hh.chunks = hh.chunks[:-1]
        emit("dropentry", hh, body)
        hh = copy.deepcopy(h)
        hh.chunks = hh.chunks + [hh.chunks[-1]]
        emit("dupentry", hh, body + b.stored(n - 1))
        hh = copy.deepcopy(h)
        hh.chunks = hh.chunks + [hh.chunks[-1]]
        nb = body + b.stored(n - 1)
        hh.ddigest = zckfmt.H(h.ht, nb)
        emit("dupentry+datadigest", hh, nb)
    return out


def run_par(exe, cases, wd, tag, env=None, resilient=False, timeout=1500):
    """split the case list over NPAR processes, results in order"""
    n = len(cases)
    if n == 0:
        return [], []
    k = min(NPAR, max(1, n // 20))
    idxs = [list(range(w, n, k)) for w in range(k)]     # round robin: large files are spread evenly
    outs = [None] * k
    errs = []

    def work(w):
        cs = [cases[i] for i in idxs[w]]
        if resilient:
            o, e = vlib.run_cases_resilient(exe, cs, wd, "%s%d" % (tag, w), timeout=timeout, env=env)
            errs.extend((idxs[w][i], x) for i, x in e)
        else:
            o, e = vlib.run_cases(exe, cs, wd, "%s%d" % (tag, w), timeout=timeout, env=env)
            if e.strip():
                errs.append((idxs[w][0], e))
        outs[w] = o
    ths = [threading.Thread(target=work, args=(w,)) for w in range(k)]
    for t in ths:
        t.start()
    for t in ths:
        t.join()
    res = [None] * n
    for w in range(k):
        for i, x in zip(idxs[w], outs[w]):
            res[i] = x
    return res, errs


def run_both(cases, wd, impl, model):
    io, ierrs = run_par(impl, cases, wd, "impl", env={"ZH_TMP": wd}, resilient=True)
    mo, merrs = run_par(model, cases, wd, "model")
    return io, mo, ierrs


def spec_fields(spec):
    d = {}
    for tok in (spec or "").split():
        if "=" in tok:
            a, b = tok.split("=", 1)
            d[a] = b
    return d


def crashed(i):
    return i in ("MEMFAULT", "HANG", "NOTRUN") or i.startswith("DIED") or i.endswith("HANG")


def judge_stream(res, pid, tag, line, i, m, orig, resealed, ierr=None):
    """one 'R...,q' case: implementation success must mean verified content"""
    mres, spec = vlib.split_model(m)
    key = "%s:%s:%s" % (pid.lower(), tag.split("@")[0], hashlib.sha256(line.encode()).hexdigest()[:12])
    case = {"line": line, "tag": tag, "impl": i, "model": mres, "spec": spec}
    if crashed(i):
        if i != "NOTRUN":
            res.violation("oracle", key, "reading a crafted file (%s) ends in %s %s" % (tag, i, vlib.san_summary(ierr or "")), case)
        return True
    if mres == "SKIP":
        return False
    toks = i.split()
    if toks and toks[0] == "open=1":
        r = [t for t in toks if t.startswith("R=")]
        q = [t for t in toks if t.startswith("q=")]
        if r and q and r[0].startswith("R=0/") and q[0].startswith("q=1"):
            total, hx = r[0][2:].split("!")[0].split("/")[1:3]
            sf = spec_fields(spec)
            if sf.get("V") != "1" or sf.get("D") != "%s/%s" % (total, hx):
                res.violation("oracle", key, "open, read to end (%s) and close all succeed on a %s file, %s bytes returned, but the specification decoder says verify=%s content=%s"
                              % (line.split()[-1][:40], tag, total, sf.get("V"), sf.get("D")), case)
                return True
            if not resealed and orig is not None and (int(total) != len(orig) or hx != h16(orig)):
                res.violation("oracle", key, "a %s alteration of a valid file is read with success but delivers %s bytes that are not the original content (%d bytes)"
                              % (tag, total, len(orig)), case)
                return True
    if i != mres:
        res.violation("correspondence", key.replace(":", "-corr:", 1),
                      "CompRead model and the library disagree on a %s file: model %s.. code %s.." % (tag, mres[:150], i[:150]), case)
        return True
    return False


def run_unzck(res, wd, sample):
    """the tool on a sample: exit 0 => output = spec content (and = original for unsealed
    mutants); non-zero => no output file left"""
    unzck = vlib.ensure_tool("unzck", "asan")
    d = os.path.join(wd, "tool")
    os.makedirs(d, exist_ok=True)
    for tag, fbytes, resealed, orig, spec, line in sample:
        src = os.path.join(d, "t.zck")
        outp = os.path.join(d, "t")
        with open(src, "wb") as fh:
            fh.write(fbytes)
        if os.path.exists(outp):
            os.unlink(outp)
        p = subprocess.run([unzck, src], cwd=d, stdout=subprocess.PIPE, stderr=subprocess.PIPE, timeout=120,
                           env=dict(os.environ, **vlib.ASAN_ENV))
        res.evaluations += 1
        res.count("unzck:exit%d" % (0 if p.returncode == 0 else 1))
        key = "c02:unzck:%s:%s" % (tag.split("@")[0], hashlib.sha256(fbytes).hexdigest()[:12])
        case = {"line": line, "tag": tag, "tool": "unzck", "rc": p.returncode}
        sf = spec_fields(spec)
        if p.returncode in (97, -11, -6) or b"Sanitizer" in p.stderr:
            res.violation("oracle", key, "unzck on a %s file: sanitizer report / crash: %s" % (tag, vlib.san_summary(p.stderr.decode("utf-8", "replace"))), case)
        elif p.returncode == 0:
            got = open(outp, "rb").read() if os.path.exists(outp) else None
            want = "%d/%s" % (len(got), h16(got)) if got is not None else "missing"
            if sf.get("V") != "1" or sf.get("D") != want or (not resealed and orig is not None and got != orig):
                res.violation("oracle", key, "unzck exits 0 on a %s file but its output (%s) is not the verified content (verify=%s content=%s)"
                              % (tag, want, sf.get("V"), sf.get("D")), case)
        elif os.path.exists(outp):
            res.violation("oracle", key, "unzck fails on a %s file and leaves an output file behind" % tag, case)


def build_cases(rng, tier, wd, impl, variant="asan"):
    """[(tag, file bytes, resealed, original content, line)]"""
    bases = base_files(rng, wd, impl, tier, variant=variant)
    items = []
    for bi, b in enumerate(bases):
        pats = patterns(rng, b, tier)
        for p in pats:
            items.append(("valid:%s" % b.kind, b.f, False, b.content, "F %s %s,q" % (b.f.hex(), p)))
        if b.kind.endswith("large") or b.kind.endswith("large+zdict") or b.kind in ("zstd-auto", "none-gen") or "zero" in b.kind:
            # larger files: a few mutants only
            ms = mutants(rng, b, "quick")
            ms = rng.sample(ms, min(len(ms), 25 if tier == "quick" else 120))
        else:
            ms = mutants(rng, b, tier)
        for mi, (tag, fb, resealed) in enumerate(ms):
            pp = patterns(rng, b, tier, k=mi)
            use = [pp[(mi + j) % len(pp)] for j in range(3)] if tier != "quick" else [pp[mi % len(pp)]]
            if tier == "quick" and (tag.endswith("resealed") or tag.startswith("trunc")) and mi % 3 == 0:
                use = use + [pp[(mi + 1) % len(pp)]]
            for p in use:
                items.append(("%s:%s" % (b.kind, tag), fb, resealed, b.content, "F %s %s,q" % (fb.hex(), p)))
    return items


def request_ops(b, k, variant):
    """op lists around a data request for entry k: exact buffer, larger, smaller, after other requests"""
    n = len(b.h.chunks)
    ul = b.h.chunks[k][3]
    k2 = 1 + (k % (n - 1)) if n > 1 else 0
    # another entry with the same digest and sizes (a duplicate chunk), requested first
    twins = [j for j in range(1, n) if j != k and b.h.chunks[j] == b.h.chunks[k]]
    j = twins[variant % len(twins)] if twins else k2
    return ["g%d" % k, "P%d:%d" % (k, ul + 5), "g%d,g%d" % (k, k2), "c%d,g%d" % (k, k), "G%d:%d,g%d" % (k, max(1, ul - 3), k),
            "g0,g%d,g%d" % (k, k), "g%d,P%d:%d" % (k2, k, ul + 1), "g%d,g%d,g%d" % (j, k, j)][variant % 8]


def build_request_cases(rng, tier, bases):
    """chunk requests on valid files and on their raw / re-sealed mutants"""
    items = []
    for b in bases:
        if b.entries is None or len(b.h.chunks) < 2:
            continue
        n = len(b.h.chunks)
        for k in range(n):
            for v in range(8):
                items.append(("req-valid:%s" % b.kind, b.f, False, b, "F %s %s" % (b.f.hex(), request_ops(b, k, v))))
        ms = mutants(rng, b, tier)
        for mi, (tag, fb, resealed) in enumerate(ms):
            if tag.startswith("trunc") and mi % (5 if tier == "quick" else 2):
                continue
            if tier != "quick" and tag.startswith("flip") and mi % 3:
                continue
            k = 1 + mi % (n - 1)
            items.append(("req:%s:%s" % (b.kind, tag), fb, resealed, b, "F %s %s" % (fb.hex(), request_ops(b, k, mi // max(1, n - 1)))))
            if tag.startswith("flip") and mi % 3 == 0 and len(b.f) < 3000:
                # the damaged file paired with its pristine copy first (zck_find_matching_chunks marks chunks valid
                # from the index alone): requests and reads afterwards must behave as without the pairing
                bit = int(tag.split("@")[1])
                kb = max(j for j in range(n) if b.starts[j] <= bit // 8)
                items.append(("req:%s:%s:paired" % (b.kind, tag), fb, resealed, b, "F %s M%s,g%d,g%d" % (fb.hex(), b.f.hex(), kb, k)))
                items.append(("req:%s:%s:paired" % (b.kind, tag), fb, resealed, b, "F %s M%s,R32768,q" % (fb.hex(), b.f.hex())))
    return items


def judge_requests(res, tag, line, i, m, base, resealed, fb, ierr=None):
    """data requests with a buffer >= the declared size: success must mean that the stored chunk
    matches its index checksum and that the bytes belonging to the chunk are the content the
    specification decodes from the entry (and the original chunk for mutants that keep the header)"""
    mres, spec = vlib.split_model(m)
    key = "c02:%s:%s" % (tag.split("@")[0].replace("req:", "req-"), hashlib.sha256(line.encode()).hexdigest()[:12])
    case = {"line": line, "tag": tag, "impl": i, "model": mres, "spec": spec, "kind": "request"}
    if crashed(i):
        if i != "NOTRUN":
            res.violation("oracle", key, "chunk requests on a crafted file (%s) end in %s %s" % (tag, i, vlib.san_summary(ierr or "")), case)
        return
    if mres == "SKIP":
        return
    toks = i.split()
    if toks and toks[0] == "open=1":
        ph = parse(fb)
        sf = spec_fields(spec)
        centries = sf.get("C", "").split(",") if sf.get("C") else []
        ops = line.split()[2].split(",")
        for o, t in zip(ops, toks[1:]):
            if o[0] not in "gGP" or "=" not in t or "nochunk" in t:
                continue
            k = int(o[1:].split(":")[0])
            if ph is None or k >= len(ph[0].chunks):
                continue
            decl = ph[0].chunks[k][3]
            size = int(o.split(":")[1]) if ":" in o else decl
            val = t.split("=", 1)[1].split("!")[0].split("/")
            ret = int(val[0])
            if ret <= 0 or size < decl or decl == 0:
                continue
            if o[0] == "G" and size > decl:
                continue
            pre = val[3] if o[0] == "P" else val[2]
            got = "%d/%s" % (min(ret, decl), pre)
            want = centries[k] if k < len(centries) else "?"
            if want != "1/" + got:
                res.violation("oracle", key, "zck_get_chunk_data(entry %d, buffer %d >= declared %d) succeeds on a %s file and hands out %s for the chunk, but "
                              "the specification says checksum-ok/content = %s" % (k, size, decl, tag, got, want), case)
                return
            if not resealed and base.entries is not None and k < len(base.entries) and ph[0].chunks == base.h.chunks:
                orig = base.entries[k]
                if got != "%d/%s" % (len(orig), h16(orig)):
                    res.violation("oracle", key, "zck_get_chunk_data(entry %d) succeeds on a %s alteration of a valid file but the %s it returns is not the "
                                  "original chunk (%d bytes)" % (k, tag, got, len(orig)), case)
                    return
    if i != mres:
        res.violation("correspondence", key.replace(":", "-corr:", 1),
                      "CompRead model and the library disagree on chunk requests (%s): model %s.. code %s.." % (tag, mres[:150], i[:150]), case)


def run(res, tier, only_case=None):
    rng = vlib.Rng(vlib.seed())
    res.rule = ("valid files (zstd from the zck tool: no/raw/zstd-format dictionary, -u, empty-content chunk, multi-block and automatic chunks; "
                "uncompressed from the reference encoder) and their mutants: single-bit flips over the body (quick: strided), substitutions, insertions, "
                "deletions, every truncation length of the small files, re-sealed and unsealed structure edits (sizes +-1/+-10, digests, data digest, "
                "chunk swaps in body/index/both, comp type, dropped/duplicated entries), each read to the end with buffer-size patterns "
                "1, c-1, c, c+1, 32768 and mixtures, then closed; chunk requests (exact / larger / smaller buffer, after other requests, stored data) on the valid files and the mutants; unzck on a sample. non-trivial = distinct file that opens (header checksum valid)")
    impl = vlib.ensure_harness("zh_c02", "asan")
    model = vlib.ensure_model("C02")
    wd = vlib.scratch("C02")
    if only_case is not None:
        c = only_case["case"]
        items = [(c.get("tag", "replay"), vlib.unhex(c["line"].split()[1]), True, None, c["line"])]
        if c.get("tool") == "unzck":
            mo, _ = vlib.run_cases(model, [c["line"]], wd, "model")
            run_unzck(res, wd, [(items[0][0], items[0][1], True, None, vlib.split_model(mo[0])[1], c["line"])])
            return
    else:
        items = build_cases(rng, tier, wd, impl)
    req_items = []
    if only_case is not None and only_case["case"].get("kind") == "request":
        c = only_case["case"]
        fbr = vlib.unhex(c["line"].split()[1])
        req_items = [(c.get("tag", "replay"), fbr, True, Base("replay", fbr, b"", None) if parse(fbr) else None, c["line"])]
        items = []
    elif only_case is None:
        rrng = vlib.Rng(vlib.seed() + 77)
        rwd = os.path.join(wd, "req")
        os.makedirs(rwd, exist_ok=True)
        rbases = base_files(rrng, rwd, impl, tier, small_only=True) + dup_files(rrng, rwd)
        req_items = build_request_cases(rrng, tier, rbases)
        # the files with duplicate chunks also streamed, valid and mutated
        for b in rbases[-3:]:
            for p_ in patterns(rrng, b, tier):
                items.append(("valid:%s" % b.kind, b.f, False, b.content, "F %s %s,q" % (b.f.hex(), p_)))
            ms = mutants(rrng, b, "quick")
            for mi, (tag, fb, resealed) in enumerate(ms):
                if tag.startswith("trunc") and mi % 4:
                    continue
                pp = patterns(rrng, b, tier, k=mi)
                items.append(("%s:%s" % (b.kind, tag), fb, resealed, b.content, "F %s %s,q" % (fb.hex(), pp[mi % len(pp)])))
    lines = [it[4] for it in items] + [it[4] for it in req_items]
    io, mo, ierrs = run_both(lines, wd, impl, model)
    errmap = dict(ierrs)
    for j, (tag, fb, resealed, base, line) in enumerate(req_items):
        kk = len(items) + j
        res.evaluations += 1
        res.count("request:" + tag.split(":")[0 if tag.startswith("req-valid") else 2].split("@")[0].rstrip("0123456789+-") +
                  (":ok" if " g=-" not in io[kk] and " G=-" not in io[kk] else ":refused"))
        if io[kk].startswith("open=1"):
            res.nontrivial.add(hashlib.sha256(line.encode()).digest())
        if base is not None:
            judge_requests(res, tag, line, io[kk], mo[kk], base, resealed, fb, errmap.get(kk))
    io, mo, lines = io[:len(items)], mo[:len(items)], lines[:len(items)]
    tool_sample, tool_first, tool_seen = [], [], set()
    for k, ((tag, fb, resealed, orig, line), i, m) in enumerate(zip(items, io, mo)):
        res.evaluations += 1
        opened = i.startswith("open=1")
        okall = opened and " R=0/" in i and " q=1" in i
        res.count(tag.split(":")[1].split("@")[0].rstrip("0123456789+-") + (":success" if okall else (":refused" if opened else ":noopen")))
        if opened:
            res.nontrivial.add(hashlib.sha256(fb).digest())
        judge_stream(res, "C02", tag, line, i, m, orig, resealed, errmap.get(k))
        first_valid = tag.startswith("valid") and hashlib.sha256(fb).digest() not in tool_seen
        if first_valid:
            tool_seen.add(hashlib.sha256(fb).digest())      # every valid base file goes through the tool once
            tool_first.append((tag, fb, resealed, orig, vlib.split_model(m)[1], line))
        elif only_case is None and (k % (40 if tier == "quick" else 25) == 0 or (okall and not tag.startswith("valid") and k % 3 == 0)):
            tool_sample.append((tag, fb, resealed, orig, vlib.split_model(m)[1], line))
    if only_case is None:
        run_unzck(res, wd, tool_first + tool_sample[:90 if tier == "quick" else 1500])
    for k in (0, len(lines) // 3, len(lines) - 1):
        if lines:
            res.sample({"tag": items[k][0], "case": lines[k][:120] + "..", "impl": io[k][:200]})
    res.extra["read_close_success"] = sum(1 for i in io if " R=0/" in i and " q=1" in i)
    res.extra["refused"] = sum(1 for i in io if i.startswith("open=1") and not (" R=0/" in i and " q=1" in i))
    vlib.shutil.rmtree(wd, ignore_errors=True)
