"""C11 - interrupted updates resume to the exact file; partial chunks are never trusted.
Proof: the C04 theorems hold for EVERY target state, hence for every state an interruption can leave behind;
additionally: whatever a restart flags valid is a complete extent whose checksum matches, and no extent that passes
the validity test is requested again (Props/Properties_C11.v).
Tie: the real zckdl binary linked with the write wrapper (harness/iowrap.h, fault kind `kill`): the k-th write system
call of an update transfers 0 bytes / half of its bytes and the process dies (_exit); every k of small scenarios
(sampled for larger ones), then zckdl is restarted without fault on the partially written target (and, for double
interruptions, killed once more first).  Oracles: the restart exits 0 with target == B; the ranges it transfers are
exactly the extents of the chunks that an independent computation on the partial file finds neither complete-and-
matching nor available from A (so a partially written chunk is always fetched, a completely written one never).
Correspondence: the extracted Coq model, run on the abstraction of the partial file, predicts the restart's exact
request sequence."""
import os
import vlib, zckfmt
from props import c04

THEOREMS = ["C11_restart_converges", "C11_valid_means_complete_and_checksummed", "C11_chunk_ok_meaning",
            "C11_valid_chunks_not_requested_again", "C11_written_chunks_not_requested_again",
            "C11_interrupted_writes_leave_a_target",
            # byte level: the composed run of C04 restarted on any byte string
            "C11_byte_level_restart_converges", "C11_byte_level_no_refetch", "C11_byte_level_partial_never_trusted"]
ASSUMPTIONS = [
    "byte level (C11_byte_level_*): restart = the composed byte-level run of C04 (BF.byte_update, assembled from the component models "
    "of C13/C09/C08/C10/C05) on ANY byte string at the target path with any flags and context state, hence on whatever one or more "
    "interruptions leave; hypotheses as C04_byte_level_reconstructs_B (valid B accepted by the header reader, old file without cut "
    "extents, server answering with the requested extents of B, >= 1 range per request); reachable crash states are not "
    "characterised separately (all byte strings is the stronger quantification)",
    "crash states are over-approximated: the theorems quantify over every target (any bytes in every extent and in the header region, "
    "truncated anywhere, over-long); that a kill after any number of written bytes leaves such a state follows from POSIX write "
    "semantics (bytes of completed / partial write calls are in the file, nothing else changes) and is exercised by the kill runs",
    "an interruption is the death of the process between or inside write(2) calls; data already handed to write reaches the file "
    "(no power loss / page-cache loss semantics)",
] + c04.ASSUMPTIONS[:3]


def classify(B, P):
    if P is None or P[:B.hdr_len] != B.raw[:B.hdr_len]:
        return "kill:header-incomplete"
    for i, (dg, clen, ulen, off) in enumerate(B.chunks):
        ext = B.chunk_bytes(i, P)
        good = B.chunk_bytes(i)
        if ext != good and len(ext) > 0 and any(ext[:n] == good[:n] for n in range(1, min(len(ext), len(good)) + 1)) and ext[:1] == good[:1]:
            return "kill:inside-a-chunk"
    return "kill:between-chunks"


def small_scenarios(rng, tier, wd):
    """(scenario, server limit, server piece size)"""
    out = []
    mk = zckfmt.build_file
    # 1 plain download into nothing, header longer than the probe, one single-range response
    c1 = [rng.rbytes(n) for n in (9, 14, 5, 20)]
    out.append((c04.Scn("k1-absent-single", None, mk(c1, ht=1, cht=3)[0], None, "absent"), 1000, 1 << 16))
    # 2 every other extent damaged: one multipart response with three parts
    c2 = [rng.rbytes(n) for n in (6, 11, 7, 13, 5, 9)]
    B2 = mk(c2, ht=0, cht=3)[0]
    z = c04.ZF(B2)
    t = bytearray(B2)
    for i in (1, 3, 5):
        t[z.hdr_len + z.chunks[i][3] + 2] ^= 0x21
    out.append((c04.Scn("k2-damaged-multipart", None, B2, bytes(t), "partial-damaged"), 1000, 1 << 16))
    # 3 old file with edits: copy writes, then two requests because the server allows 1 range
    a3 = [rng.rbytes(n) for n in (8, 8, 12, 6, 10)]
    b3 = [a3[0], rng.rbytes(7), a3[2], a3[3], rng.rbytes(9), a3[4]]
    out.append((c04.Scn("k3-old-file-limit1", mk(a3, ht=1, cht=3)[0], mk(b3, ht=2, cht=3)[0], None, "absent"), 1, 1 << 16))
    # 4 SHA-512/128 overall checksum (lead 23 bytes), header shorter than the probe, over-long garbage target
    out.append((c04.Scn("k4-short-header-garbage", None, mk([rng.rbytes(30)], ht=3, cht=3)[0],
                        rng.rbytes(260), "garbage-long"), 2, 1 << 16))
    # 5 SHA-512/128, header longer than the probe (D33), dictionary chunk, responses arrive in 7-byte pieces
    c5 = [rng.rbytes(n) for n in (10, 16, 9, 12)]
    B5 = mk(c5, ht=3, cht=3, dict_chunk=rng.rbytes(18))[0]
    z = c04.ZF(B5)
    t = bytearray(B5[:z.hdr_len + z.chunks[3][3] + 4])
    t[z.hdr_len + z.chunks[1][3]] ^= 9
    out.append((c04.Scn("k5-pieces-multipart", None, B5, bytes(t), "partial-cut"), 1000, 7))
    # 7 chunks as large as / larger than the 32 KiB scan block: a chunk of exactly 32768 stored bytes in the middle and a last
    #   chunk of two blocks and a bit (an interruption deep inside the last chunk leaves a file that ends after whole
    #   blocks of it), plain and with the uncompressed-source flag (no data checksum behind the scan's verdict)
    c7 = [rng.rbytes(40), rng.rbytes(32768), rng.rbytes(25), rng.rbytes(2 * 32768 + 777)]
    out.append((c04.Scn("k7-big-last", None, mk(c7, ht=1, cht=1)[0], None, "absent"), 1000, 1 << 16))
    out.append((c04.Scn("k7u-big-last-uflag", None, mk(c7, ht=1, cht=1, flags=4)[0], None, "absent"), 1000, 1 << 16))
    # 8 chunks whose stored bytes are zeros (wholly, or in their first 32 KiB): once written they are complete chunks like any
    #   other and must neither be re-fetched nor keep the update from converging
    c8 = [rng.rbytes(30), bytes(40), bytes(32768 + 5), rng.rbytes(12), bytes(7)]
    out.append((c04.Scn("k8-zero-chunks", None, mk(c8, ht=1, cht=1)[0], None, "absent"), 1000, 1 << 16))
    # 6 zstd pair from the tree's zck tool (edited old file as source), responses in 13-byte pieces, server allows 2 ranges
    zp = c04.zstd_pairs(vlib.Rng(vlib.seed() + 11), 2, wd)
    if zp:
        name, Araw, Braw = zp[-1]
        out.append((c04.Scn("k6-" + name, Araw, Braw, Braw[:len(Braw) * 2 // 3], "partial-cut"), 2, 13))
    if tier == "thorough":
        for k, (name, Araw, Braw) in enumerate(c04.nocomp_pairs(rng, 14, sizes=(2, 9)) + c04.zstd_pairs(rng, 3, wd)):
            tg = c04.targets_for(rng, Braw, Araw)
            tn, T0 = tg[(k * 5) % len(tg)]
            out.append((c04.Scn("t%d-%s/%s" % (k, name, tn), Araw, Braw, T0, tn), [1000, 1, 2, 3][k % 4], [1 << 16, 11, 1 << 16][k % 3]))
    return out


def run(res, tier, only_case=None):
    rng = vlib.Rng(vlib.seed())
    res.rule = ("zckdl with wrapped write(2): for each scenario (plain download; damaged extents -> multipart; old file + server limit 1 -> copy writes and "
                "several requests; SHA-512/128 lead with short header and over-long garbage target; responses delivered in 7-byte pieces so that chunks "
                "and multipart part headers are split over callbacks; a zstd pair from the zck tool cut at 2/3 with 13-byte pieces; thorough: 17 more pairs incl. zstd) the k-th write of the update writes 0 bytes or "
                "half of its bytes and the process dies, for every k (quick: at most 16 sampled k per scenario when there are more); the restart runs "
                "without fault on the partial file; sampled double interruptions (restart killed again, then restarted). Oracles per restart: exit 0, "
                "target == B, transferred ranges == extents of the chunks that are not complete-and-matching in the partial file and not in A, nothing "
                "twice. Correspondence: model request sequence == server log. non-trivial = distinct (scenario, k, bytes written) whose kill fired")
    b = c04.Bench("C11", wrap=True)
    try:
        if only_case is not None:
            cs = only_case["case"]
            if "B" not in cs:
                return
            s = c04.Scn(cs["name"], bytes.fromhex(cs["A"]) if cs.get("A") else None, bytes.fromhex(cs["B"]),
                        bytes.fromhex(cs["T0"]) if cs.get("T0") is not None else None, "replay")
            plan = [(s, cs["limit"], cs.get("piece", 1 << 16))]
            only_faults = cs.get("faults")
        else:
            plan = small_scenarios(rng, tier, b.wd)
            only_faults = None
        for s, lim, piece in plan:
            B = c04.ZF(s.B)
            A = c04.ZF(s.A) if s.A is not None else None
            b.srv.piece = piece
            b.srv.piece_delay = 0.002 if piece < 1000 else 0.0
            # fault-free run of the wrapped binary (the wrapper itself changes nothing)
            rc, out, log, err = b.run_tool(s.A, s.B, s.T0, lim, fault="write:100000000:kill:0")
            if rc != 0 or out != s.B:
                res.violation("oracle", "c11:%s:nofault" % s.key(lim), "update without interruption fails: exit %s, %s" % (rc, err.strip()[-120:]), s.case(lim, {"piece": piece}))
                continue
            partial = []          # (faults list, partial file)
            if only_faults:
                chains = [only_faults]
            else:
                # every k with 0 bytes written, until the kill is no longer reached
                ks = []
                k = 1
                while k <= 4000:
                    rc, out, log, err = b.run_tool(s.A, s.B, s.T0, lim, fault="write:%d:kill:0" % k)
                    if rc != 137:
                        if rc != 0 or out != s.B:
                            res.violation("oracle", "c11:%s:w%d" % (s.key(lim), k), "armed but unreached kill point changes the result: exit %s" % rc, s.case(lim, {"piece": piece, "faults": ["write:%d:kill:0" % k]}))
                        break
                    ks.append(k)
                    partial.append((["write:%d:kill:0" % k], out))
                    k += 1
                res.count("writes-per-update:%s" % s.name.split("/")[0], len(ks))
                cap = 16 if tier == "quick" else 120
                if len(partial) > cap:
                    keep = partial[:5] + partial[-3:]
                    mid = partial[5:-3]
                    keep += rng.sample(mid, cap - 8)
                    partial = keep
                chains = []
                for f, _ in list(partial):
                    chains.append([f[0].rsplit(":", 1)[0] + ":-1"])
                    if tier == "thorough" and len(chains) < 120:
                        chains.append([f[0].rsplit(":", 1)[0] + ":1"])
                # double interruptions: the restart is killed as well
                nd = 6 if tier == "quick" else 40
                for _ in range(nd):
                    if not ks:
                        break
                    chains.append(["write:%d:kill:%d" % (rng.choice(ks), rng.choice([0, -1])),
                                   "write:%d:kill:%d" % (rng.randrange(1, max(ks) + 1), rng.choice([0, -1]))])
            for chain in chains:
                T = s.T0
                fired = 0
                for f in chain:
                    rc, out, log, err = b.run_tool(s.A, s.B, T, lim, fault=f)
                    if rc == 137:
                        fired += 1
                        T = out
                    elif rc != 0 or out != s.B:
                        res.violation("oracle", "c11:%s:%s" % (s.key(lim), "+".join(chain)), "run with an unreached kill point fails: exit %s" % rc,
                                      s.case(lim, {"piece": piece, "faults": chain}))
                        break
                    else:
                        T = out
                        break
                if fired:
                    partial.append((chain, T))
            # restart on every partial file, without fault
            lines = [c04.model_line(B, A, P, lim) for _, P in partial]
            mout = b.run_model(lines) if lines else []
            for (chain, P), mline in zip(partial, mout):
                key = "c11:%s:%s" % (s.key(lim), "+".join(chain))
                case = s.case(lim, {"piece": piece, "faults": chain})
                rc, out, log, err = b.run_tool(s.A, s.B, P, lim)
                res.evaluations += 1
                res.nontrivial.add(key)
                res.count(classify(B, P))
                res.count("interruptions:%d" % len(chain))
                need, ok0 = c04.needed_py(B, A, P)
                complete = [i for i in range(len(B.chunks)) if B.chunks[i][1] and B.chunk_bytes(i, P) == B.chunk_bytes(i)]
                good = c04.check_update(res, "C11", B, A, s.B, s.A, P, lim, rc, out, log, err, mline, key, case,
                                        what="restart after %s" % "+".join(chain))
                # explicit form of the two C11 clauses on the server log
                if good and lim:
                    hdr, body = c04.split_log(B, log)
                    got = set()
                    for st, r in body:
                        if st == 206:
                            for (x, y) in r:
                                got.update(range(x, y + 1))
                    for i in complete:
                        dg, clen, ulen, off = B.chunks[i]
                        # the probe may rewrite the first bytes with the same content: still complete
                        if got & set(range(B.hdr_len + off, B.hdr_len + off + clen)):
                            res.violation("oracle", key, "restart fetches chunk %d again although it was completely and correctly written before the interruption" % i, case)
                    for i, (dg, clen, ulen, off) in enumerate(B.chunks):
                        ext = c04.after_probe(B, P)[B.hdr_len + off: B.hdr_len + off + clen]
                        if clen and ext != B.chunk_bytes(i) and not (A is not None and i not in need) \
                                and not set(range(B.hdr_len + off, B.hdr_len + off + clen)) <= got:
                            res.violation("oracle", key, "restart does not fetch chunk %d although its extent is not intact" % i, case)
                if len(res.samples) < 6 and good and len(log) > 2 and len(chain) * 7 % 3 != 2:
                    res.sample({"scenario": s.name, "limit": lim, "interruptions": chain, "partial_len": len(P or b""), "B_len": len(s.B),
                                "complete_chunks": complete, "restart_requests": [(l[2], l[1]) for l in log][:5]})
        res.extra["tool_runs"] = b.n
    finally:
        b.srv.piece, b.srv.piece_delay = 1 << 16, 0.0
        b.close()
