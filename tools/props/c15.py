"""C15 - a unit-decoded (zstd) chunk is verified before any of its bytes are released.
Tie: extracted CompRead model vs the real zck_read (ASan build) on zstd files with one corrupted
chunk body.  Oracle (needs no model): the bytes handed out by the successful reads must be a
prefix of the ORIGINAL content that ends before the corrupted chunk, the read that needs the bad
chunk and every later read must fail, and so must zck_close."""
import hashlib
import vlib
from props import c02

THEOREMS = ["C15_only_verified_chunks_released"]
ASSUMPTIONS = [
    "model Read/CompRead.v is a hand transcription of the read path (comp.c, zck.c, hash.c, zstd.c, io.c), tied by differential execution",
    "H and zdecomp are parameters of model and theorem (OpenSSL / libzstd in the run); no property of them is assumed - in particular the theorem covers every corruption, whether or not the bytes still decompress",
    "file reads are fault free (property C12); the header layer provides the header record (property C13)",
    "extraction ExtrOcamlBasic; ocaml/drv_c02.ml + zvstubs.c; harness/zh_c02.c under ASan/UBSan",
]


def run(res, tier, only_case=None):
    rng = vlib.Rng(vlib.seed())
    res.rule = ("zstd files from the zck tool (3-5 chunks; no / raw / zstd-format dictionary; -u): every single-bit flip (quick: strided) of the stored bytes of "
                "the first, a middle and the last chunk x buffer sizes {1, c-1, c, c+1, 32768} (c = declared size of the bad chunk), read to the error, "
                "two more reads, close; the same damage met after pairing the context with the pristine copy (zck_find_matching_chunks) and, in files holding a chunk three times, in each copy separately with an intact copy streamed or requested first. non-trivial = corrupted chunk that still decompresses (to wrong data or the right length)")
    impl = vlib.ensure_harness("zh_c02", "asan")
    model = vlib.ensure_model("C02")
    wd = vlib.scratch("C15")
    items = []
    if only_case is not None:
        c = only_case["case"]
        items = [(c.get("tag", "replay"), c.get("bad"), c.get("limit"), c.get("orig_hex"), c["line"], c.get("entries"))]
    else:
        bases = [b for b in c02.base_files(rng, wd, impl, tier, small_only=True) if b.h.comp == 2 and b.kind != "zstd+emptychunk"]
        quick = tier == "quick"
        for b in bases:
            n = len(b.h.chunks)
            ks = sorted(set([1, (n) // 2, n - 1])) if n > 1 else []
            for k in ks:
                c = b.h.chunks[k][3]
                before = sum(x[3] for x in b.h.chunks[1:k])
                nbits = b.h.chunks[k][2] * 8
                step = max(1, nbits // (40 if quick else 100000))
                for bit in range(rng.randrange(step), nbits, step):
                    m = bytearray(b.f)
                    m[b.lead + b.starts[k] + bit // 8] ^= 1 << (bit % 8)
                    sizes = [1, max(1, c - 1), c, c + 1, 32768]
                    if quick:
                        sizes = [sizes[(bit // step) % 5], sizes[(bit // step + 2) % 5]]
                    for s in sizes:
                        items.append(("%s:chunk%d/%d:bit%d:buf%d" % (b.kind, k, n - 1, bit, s), k, before, b.content.hex(),
                                      "F %s R%d,r%d,r%d,q" % (bytes(m).hex(), s, s, s)))
                    # the same corruption met through other call sequences on one context (oracle only, the model
                    # has no validation calls / error clearing): a verdict taken before the reads, an error cleared
                    # and the read retried, the chunk requested directly and again after clearing the error
                    s = sizes[0]
                    for seq in ("v,R%d,r%d,r%d,q" % (s, s, s), "f,R%d,r%d,q" % (s, s), "R%d,e,r%d,e,r%d,e,r%d,q" % (s, s, s, s),
                                "g%d,e,g%d,e,g%d" % (k, k, k), "v,g%d,g%d" % (k, k)):
                        items.append(("%s:chunk%d/%d:bit%d:seq[%s]:oracle-only" % (b.kind, k, n - 1, bit, seq), k, before, b.content.hex(),
                                      "F %s %s" % (bytes(m).hex(), seq)))
        # ---- the mark 'valid' must not stand in for the checksum -------------------------------------------------
        # (a) the damaged file is first paired with its pristine copy (zck_find_matching_chunks marks chunks valid
        #     from an index comparison alone); (b) files that hold the same chunk three times, damage in each copy
        #     separately, an intact copy read or requested before on the same context.  Oracle: generic (below);
        #     the model handles M as a no-op on the reader state, so these cases are also compared with it.
        dups = [b for b in c02.dup_files(rng, wd) if b.h.comp == 2]
        nflip = 12 if quick else 400
        for b in bases + dups:
            n = len(b.h.chunks)
            isdup = b.kind.startswith("zstd-dup")
            ks = [1, 3, 5] if isdup else (sorted(set([1, n // 2, n - 1])) if n > 1 else [])
            ent = ["%d/%s" % (len(e), c02.h16(e)) for e in b.entries]
            for k in ks:
                c = b.h.chunks[k][3]
                before = sum(x[3] for x in b.h.chunks[1:k])
                nbits = b.h.chunks[k][2] * 8
                step = max(1, nbits // nflip)
                for fi, bit in enumerate(range(rng.randrange(step), nbits, step)):
                    m = bytearray(b.f)
                    m[b.lead + b.starts[k] + bit // 8] ^= 1 << (bit % 8)
                    mh, ph = bytes(m).hex(), b.f.hex()
                    sizes = [1, max(1, c - 1), c, c + 1, 32768]
                    twins = [j for j in range(1, n) if j != k and b.h.chunks[j] == b.h.chunks[k]]
                    other = twins[fi % len(twins)] if twins else 1 + (k % (n - 1))
                    seqs = ["M%s,R%d,r%d,r%d,q" % (ph, sizes[fi % 5], sizes[fi % 5], sizes[fi % 5]),
                            "M%s,g%d,g%d" % (ph, k, other), "M%s,g%d,g%d,P%d:%d" % (ph, other, k, k, c + 2),
                            "f,M%s,R%d,q" % (ph, sizes[(fi + 1) % 5])]
                    if isdup:
                        seqs += ["R%d,r%d,r%d,q" % (s_, s_, s_) for s_ in (sizes if not quick else [sizes[fi % 5], sizes[(fi + 3) % 5]])]
                        upto = sum(x[3] for x in b.h.chunks[1:twins[0] + 1]) if twins and twins[0] < k else 0
                        seqs += ["g%d,g%d" % (j, k) for j in twins] + ["g%d,g%d,g%d,g%d" % (twins[0], twins[-1], k, twins[0]),
                                                                       "P%d:%d,g%d" % (twins[0], c + 3, k)]
                        if upto:
                            seqs.append("r%d,g%d" % (upto, k))      # the intact first copy streamed, then the bad one requested
                    for sq in seqs:
                        tg = "%s:chunk%d/%d:bit%d:seq[%s]:generic" % (b.kind, k, n - 1, bit, sq if len(sq) < 40 else sq[:1] + ".." + sq[-30:])
                        items.append((tg, k, before, b.content.hex(), "F %s %s" % (mh, sq), ent))
    items = [it if len(it) == 6 else it + (None,) for it in items]
    lines = [it[4] for it in items]
    io, mo, ierrs = c02.run_both(lines, wd, impl, model)
    errmap = dict(ierrs)
    for k, ((tag, ck, limit, orig_hex, line, ent), i, m) in enumerate(zip(items, io, mo)):
        res.evaluations += 1
        mres, spec = vlib.split_model(m)
        key = "c15:%s:%s" % (tag.split(":")[0], hashlib.sha256(line.encode()).hexdigest()[:12])
        case = {"line": line, "tag": tag, "impl": i, "model": mres, "limit": limit, "orig_hex": orig_hex, "bad": ck, "entries": ent}
        if c02.crashed(i):
            if i != "NOTRUN":
                res.violation("oracle", key, "reading a file with a corrupted chunk ends in %s %s" % (i, vlib.san_summary(errmap.get(k, ""))), case)
            continue
        toks = i.split()
        sf = c02.spec_fields(spec)
        if ck is not None and sf.get("K"):
            kk = sf["K"].split(",")
            if ck < len(kk) and kk[ck] != "X":
                res.nontrivial.add(line.split()[1][:64] + tag.split(":buf")[0])
                res.count("still-decompresses")
            else:
                res.count("decoder-error")
        if tag.endswith(":generic"):
            # generic oracle over any op sequence: bytes handed out by successful zck_read calls, in order, are a
            # prefix of the original content that ends before the corrupted chunk; a request for the corrupted chunk
            # never returns data; a request for another chunk returns that chunk; close never succeeds
            res.count("generic:" + ("dup" if "-dup" in tag else "paired"))
            if toks and toks[0] == "open=1" and limit is not None and orig_hex is not None and ent is not None:
                orig = bytes.fromhex(orig_hex)
                ops = line.split()[2].split(",")
                pos, bad = 0, None
                for o, t in zip(ops, toks[1:]):
                    if "=" not in t:
                        continue
                    val = t.split("=", 1)[1].split("!")[0].split("/")
                    if o[0] in "Rr":
                        nb = int(val[1])
                        if nb > 0:
                            if pos + nb > limit:
                                bad = "%s (%s) hands out stream bytes %d..%d although only %d precede the corrupted chunk" % (o[:12], t[:14], pos, pos + nb, limit)
                                break
                            if val[2] != c02.h16(orig[pos:pos + nb]):
                                bad = "%s hands out bytes that are not the original content at offset %d" % (o[:12], pos)
                                break
                            pos += nb
                        if o[0] == "R" and val[0] == "0":
                            bad = "the stream ends with success although a chunk is corrupted"
                            break
                    elif o[0] in "gGP" and "nochunk" not in t:
                        j = int(o[1:].split(":")[0])
                        ret = int(val[0])
                        if ret > 0 and j == ck:
                            bad = "a request for the corrupted chunk %d (after %s) returns %d bytes" % (j, ",".join(x[:12] for x in ops[:ops.index(o)]) or "nothing", ret)
                            break
                        if ret > 0 and j != ck:
                            got = "%d/%s" % (min(ret, int(ent[j].split("/")[0])), val[3] if o[0] == "P" else val[2])
                            if (o[0] != "G") and got != ent[j]:
                                bad = "a request for the intact chunk %d returns %s instead of %s" % (j, got, ent[j])
                                break
                    elif o[0] == "q" and t.startswith("q=1"):
                        bad = "zck_close succeeds on a file with a corrupted chunk"
                        break
                if bad:
                    res.violation("oracle", key, "corrupted chunk (%s): %s" % (tag, bad), case)
                    continue
            if "f," in line.split()[2] or line.split()[2].startswith("f"):
                continue        # zck_find_valid_chunks is not modelled
            if i != mres:
                res.violation("correspondence", key.replace(":", "-corr:", 1),
                              "CompRead model and the library disagree (%s): model %s.. code %s.." % (tag, mres[:150], i[:150]), case)
            continue
        if tag.endswith(":oracle-only"):
            # generic oracle: the bytes handed out by successful reads, in order, are a prefix of the original content
            # that ends before the corrupted chunk; a direct request for the corrupted chunk never returns data
            if toks and toks[0] == "open=1" and limit is not None and orig_hex is not None:
                orig = bytes.fromhex(orig_hex)
                pos, bad = 0, None
                for t in toks[1:]:
                    if t[0] in "Rr" and t[1] == "=":
                        ret, n, hx = t[2:].split("!")[0].split("/")
                        n = int(n)
                        if n > 0:
                            if pos + n > limit:
                                bad = "%s hands out bytes %d..%d although only %d precede the corrupted chunk" % (t[:12], pos, pos + n, limit)
                                break
                            if hx != c02.h16(orig[pos:pos + n]):
                                bad = "%s hands out bytes that are not the original content at offset %d" % (t[:12], pos)
                                break
                            pos += n
                    elif t[0] == "g" and t[1] == "=":
                        ret = t[2:].split("!")[0].split("/")[0]
                        if ret.lstrip("-").isdigit() and int(ret) > 0:
                            bad = "a direct request for the corrupted chunk returns %s bytes" % ret
                            break
                    elif t.startswith("q=1"):
                        bad = "zck_close succeeds on a file with a corrupted chunk"
                        break
                if bad:
                    res.violation("oracle", key, "corrupted chunk (%s): %s" % (tag, bad), case)
            continue
        if len(toks) >= 5 and toks[0] == "open=1" and limit is not None and orig_hex is not None:
            orig = bytes.fromhex(orig_hex)
            r = toks[1][2:].split("!")[0].split("/")
            ret, total, hx = r[0], int(r[1]), r[2]
            bad = None
            if total > limit:
                bad = "%d bytes were handed out although only %d precede the corrupted chunk" % (total, limit)
            elif hx != c02.h16(orig[:total]):
                bad = "the %d bytes handed out before the error are not the original content" % total
            elif ret == "0":
                bad = "the stream ended with success although a chunk is corrupted"
            elif not toks[2].startswith("r=-") or not toks[3].startswith("r=-"):
                bad = "a read after the failed one does not fail: %s %s" % (toks[2], toks[3])
            elif not toks[4].startswith("q=0"):
                bad = "zck_close succeeds after a chunk failed its checksum"
            if bad:
                res.violation("oracle", key, "corrupted chunk (%s): %s" % (tag, bad), case)
                continue
        if i != mres:
            res.violation("correspondence", key.replace(":", "-corr:", 1),
                          "CompRead model and the library disagree (%s): model %s.. code %s.." % (tag, mres[:150], i[:150]), case)
    for k in (0, len(lines) // 2, len(lines) - 1):
        if lines:
            res.sample({"tag": items[k][0], "case": lines[k][:100] + "..", "impl": io[k][:200]})
    vlib.shutil.rmtree(wd, ignore_errors=True)
