"""C01 building block - the writer's header creation (Format/HeaderWrite.v, Format/WriteRead.v).

Tie: the extracted models (chunker of C16 in manual mode -> written_entries -> file_create, i.e.
index_create / preface_create / sig_create / lead_create / header_create / write_header /
chunks_from_temp) against the REAL writer (harness/zh_c01hw.c: zck_init_write, options,
zck_write + zck_end_chunk per fragment, zck_close) for compression type none: the real file and the
model's file must be equal byte for byte (header and body), for all 4x4 checksum-type combinations,
with and without ZCK_UNCOMP_HEADER (set before or after the chunk checksum type), with and without a
dictionary, 0..6 fragments including empty ones and the empty input.
On top: the real reader opens the real file, validates all checksums and returns the content; the
reader MODEL opens the model file with exactly expected_header and spec_read returns the content.

Used by the C01 check:  run_header_part(res, tier)."""
import vlib

HASHES = (0, 1, 2, 3)


def gen_cases(rng, tier):
    cases = []
    full = tier != "quick"
    # exhaustive over the configuration, a handful of contents each
    for ht in HASHES:
        for cht in HASHES:
            for uo in (0, 1, 2):
                for has_dict in (0, 1):
                    shapes = [0, 1, 2, 3, 6] if not full else [0, 1, 2, 3, 4, 5, 6]
                    for nfr in shapes:
                        reps = 1 if not full else 2
                        for _ in range(reps):
                            frags = []
                            for _ in range(nfr):
                                k = rng.choice([0, 1, 1, 2, 5, 17, 127, 128, 129, 300, 1000]) if rng.random() < 0.8 else rng.randrange(0, 20000)
                                frags.append(rng.rbytes(k))
                            d = rng.rbytes(rng.choice([1, 7, 128, 700])) if has_dict else b""
                            cases.append((ht, cht, uo, d, frags))
    # sizes around the compressed-integer length changes (127/128, 16383/16384) and only-empty inputs
    for n in (127, 128, 16383, 16384, 16385):
        cases.append((1, 3, 0, b"", [rng.rbytes(n)]))
        cases.append((1, 3, 1, rng.rbytes(n), [rng.rbytes(3), rng.rbytes(n)]))
    cases.append((1, 3, 0, b"", [b"", b"", b""]))
    cases.append((1, 3, 2, b"\x00", [b"", b"\x00", b""]))
    # many chunks: the index grows past the one-byte count and size encodings
    for n in ((130, 300) if full else (130,)):
        cases.append((1, 3, 0, b"", [rng.rbytes(1 + (i % 3)) for i in range(n)]))
        cases.append((2, 2, 1, b"dict", [rng.rbytes(1 + (i % 3)) for i in range(n)]))
    return cases


def line_of(c):
    ht, cht, uo, d, frags = c
    hx = lambda b: vlib.hexs(b) if b else "-"
    return "W %d %d %d %s %s" % (ht, cht, uo, hx(d), ",".join(hx(f) for f in frags) if frags else "-")


def key_of(c):
    ht, cht, uo, d, frags = c
    return "hw:%d:%d:%d:d%d:%s" % (ht, cht, uo, len(d), "+".join(str(len(f)) for f in frags) or "-")


def run_header_part(res, tier, only_lines=None):
    rng = vlib.Rng(vlib.seed() ^ 0xC01)
    cases = gen_cases(rng, tier)
    lines = only_lines if only_lines is not None else [line_of(c) for c in cases]
    keys = [key_of(c) for c in cases] if only_lines is None else ["replay:%d" % i for i in range(len(lines))]
    model = vlib.ensure_model("C01hw")
    impl = vlib.ensure_harness("zh_c01hw", "asan")
    wd = vlib.scratch("C01hw")
    mo, _ = vlib.run_cases(model, lines, wd, "model")
    io, ierr = vlib.run_cases(impl, lines, wd, "impl", env={"ZH_TMP": wd})
    same = 0
    for key, line, i, m in zip(keys, lines, io, mo):
        res.evaluations += 1
        mi, ms = vlib.split_model(m)
        ii, real = (i.split(" | REAL ", 1) + [""])[:2] if " | REAL " in i else (i, "")
        case = {"line": line, "impl": i[:600], "model": m[:600]}
        if i in ("MEMFAULT", "HANG", "NOTRUN") or i.startswith("DIED"):
            res.violation("oracle", key, "the writer crashed or hung: %s %s" % (i, vlib.san_summary(ierr)), case)
            continue
        if not ii.startswith("OK") or not mi.startswith("OK"):
            res.violation("correspondence", key, "writer %s / model %s" % (ii[:40], mi[:40]), case)
            continue
        if ii != mi:
            res.violation("correspondence", key, "the file written by the library differs from the model's file "
                          "(first difference at hex offset %d)" % next((k for k, (a, b) in enumerate(zip(ii, mi)) if a != b), min(len(ii), len(mi))), case)
            continue
        same += 1
        res.nontrivial.add(line)
        res.count("u%s" % line.split()[3] + (":dict" if line.split()[4] != "-" else ":nodict"))
        # model side: the reader model and the reader specification on the model's file
        if ms is None or "ok=true" not in ms or "parse=true" not in ms or "read=true" not in ms:
            res.violation("correspondence", key + ":modelread", "reader model / specification do not accept the model's file as intended: %s" % ms, case)
        # implementation side: the real reader on the real file (this is the round trip itself)
        if "read=1" not in real:
            res.violation("oracle", key + ":realread", "the library cannot read back (open, validate, content) the file it wrote: %s" % real, case)
        else:
            nm = ms.split("n=")[-1] if ms else "?"
            nr = real.split("n=")[-1]
            if nm != nr:
                res.violation("correspondence", key + ":count", "index count %s (library) vs %s (model)" % (nr, nm), case)
    res.extra["c01hw_files_identical"] = same
    res.extra["c01hw_cases"] = len(lines)
    for k in (0, len(lines) // 2, len(lines) - 1):
        res.sample({"line": lines[k][:300], "impl": io[k][:200]})
    vlib.shutil.rmtree(wd, ignore_errors=True)
    return same


# stand-alone use:  python3 tools/props/c01hw.py [quick|thorough]
if __name__ == "__main__":
    import sys
    tier = sys.argv[1] if len(sys.argv) > 1 else "quick"
    r = vlib.Result("C01hw", tier)
    n = run_header_part(r, tier)
    print("cases", r.evaluations, "identical", n, "violations", len(r.violations))
    for v in r.violations[:10]:
        print(v)
