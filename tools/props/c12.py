"""C12 - I/O failures are reported, never turned into success.
Proof: the io.c primitives and the writer's I/O skeleton under every fault schedule.
Tie: --wrap'd read/write/lseek make the k-th call fail (EIO/ENOSPC/EINTR) or transfer a short
count, exhaustively for every k of each scenario (writer, reader, validate, copy, download,
zck/unzck tools) plus sampled double faults."""
import os, subprocess, hashlib
import vlib, filegen, zckfmt

THEOREMS = ["C12_write_data_success_means_all_bytes", "C12_write_data_only_prefix", "C12_writer_success_complete",
            "C12_failure_leaves_prefix", "C12_download_chunk_complete",
            # validation / local chunk reuse under fault schedules (Io/ScanFaults.v, Io/CopyFaults.v)
            "C12_scan_faultfree", "C12_data_faultfree", "C12_copy_faultfree", "C12_scan_success_is_real",
            "C12_scan_success_flags", "C12_data_success_is_real", "C12_scan_flags_sound_without_short_reads",
            "C12_copy_any_schedule", "C12_copy_total", "C12_scan_flags_refuted_by_short_read",
            # the scan with the proposed re-seek fix (Io/ScanReseek.v)
            "C12_fixed_scan_faultfree", "C12_fixed_scan_success_flags", "C12_fixed_scan_flags_sound_every_schedule", "C12_reader_faults",
            # the download callbacks under write/lseek fault schedules (Io/DlFaults.v)
            "C12_dl_faultfree", "C12_dl_no_error_is_faultfree", "C12_dl_plain_success_is_faultfree", "C12_dl_invariants_every_schedule",
            "C12_dl_invariants_init", "C12_dl_valid_chunks_kept", "C12_dl_plain_reports", "C12_dl_error_state_refuses",
            "C12_dl_multipart_reports", "C12_dl_mismatch_zeroed"]
ASSUMPTIONS = [
    "POSIX read/write/lseek transfer a prefix or fail; a short read of a regular file returns at least one byte before EOF",
    "model Io/Faults.v covers io.c (read_data, write_data, chunks_from_temp) and the call sites of the writer; Io/ScanFaults.v and Io/CopyFaults.v "
    "cover validate_checksums / zck_validate_data_checksum / zck_copy_chunks / write_and_verify_chunk / zero_chunk with read, write and lseek "
    "schedules and the contexts' error states (tied to the library by the V and C scenarios: return value, flags, target file under every single "
    "fault); the reader is covered by C12_reader_faults",
    "download callbacks: Io/DlFaults.v re-states dl_write / dl_write_range / set_chunk_valid+zero_chunk / the search loop's seek and the multipart "
    "layer over a schedule of write(2) and lseek(2) outcomes on the target (write_data's one retry as in Io/Faults.v; validation hashes the bytes "
    "handed over, nothing is read back); theorems hold for every schedule, header line, fragment list, hash and regex oracle. Tie: the extracted "
    "model (C05 driver, opts fault=<op>.<k>.<kind>.<n>) against harness zh_c12dl = zh_c05 built with the read/write/lseek wrappers, on 480 (thorough "
    "2664) (case, single fault) pairs - per-callback results, file, flags - plus the existing exhaustive single-fault D scenario on real zchunk files. "
    "Hypotheses of the invariant theorem: chunk extents pairwise disjoint (disjoint_tab) and the state invariant dl_wfF/verified, which hold for a fresh "
    "zckDL (C12_dl_invariants_init); 'success = fault-free' is stated for 'no error recorded at the end' (in single-range mode implied by every "
    "callback returning the full count; in multipart mode a part announced with length 0 lets one callback return success although the error state "
    "was set - C12_dl_multipart_reports - and the next callback then fails); continuing after zck_clear_error is outside the model",
    "C12_scan_flags_refuted_by_short_read is a counter-example, not a guarantee: under a read that returns fewer bytes than the file has, "
    "validate_checksums may flag a later chunk valid from shifted bytes (its return value is still not 1)",
    "close(2) results and dprintf logging are not modelled",
]
WRAP = ("-Wl,--wrap=read", "-Wl,--wrap=write", "-Wl,--wrap=lseek", "-Wl,--wrap=lseek64")
KINDS = [("eio", 1), ("enospc", 1), ("eintr", 1), ("short", 1), ("short", 7)]


def parse(line):
    d = {}
    for tok in line.split():
        if "=" in tok:
            k, v = tok.split("=", 1)
            d[k] = v
    return d


def faults_for(counts, rng, tier, ops=("read", "write", "lseek")):
    out = []
    for op, n in zip(("read", "write", "lseek"), counts):
        if op not in ops:
            continue
        ks = list(range(1, n + 2))
        if tier == "quick" and len(ks) > 14:
            ks = ks[:6] + rng.sample(ks[6:-3], 5) + ks[-3:]
        for k in ks:
            for kind, sh in KINDS:
                if op == "lseek" and kind == "short":
                    continue
                out.append("%s:%d:%s:%d" % (op, k, kind, sh))
    return out


def run(res, tier, only_case=None):
    rng = vlib.Rng(vlib.seed())
    res.rule = ("for each scenario (writer none/zstd, reader, validate, copy, download) the fault-free call counts are measured, then every "
                "k-th read / write / lseek fails with EIO, ENOSPC, EINTR or returns a short count of 1 or 7 bytes (quick: sampled k when a scenario has "
                "more than 14 calls of one kind), plus sampled double faults; zck and unzck binaries with the same wrappers; download callbacks: "
                "the model Io/DlFaults.v against the wrapped C05 harness on sampled (response, fragmentation, k-th write/lseek fault) pairs incl. checksum "
                "mismatches whose zero fill is hit. non-trivial = distinct "
                "(scenario, fault) whose fault was actually reached (fired=1)")
    wd = vlib.scratch("C12")
    env = {"ZH_TMP": wd}
    impl = vlib.ensure_harness("zh_c12", "asan", extra=WRAP)
    model = vlib.ensure_model("C12")
    if only_case is not None:
        o, _ = vlib.run_cases_resilient(impl, [only_case["case"]["line"]], wd, "replay", env=env)
        d = parse(o[0])
        exp = only_case["case"].get("expect_out")
        if o[0].startswith("W") and d.get("close") == "1" and exp and d.get("out") != exp:
            res.violation("oracle", only_case.get("key"), "replayed: close succeeded with wrong output", {"line": only_case["case"]["line"], "impl": o[0]})
        res.evaluations = 1
        return
    # ------------------------------------------------------------------ writer
    big = rng.rbytes(40000)
    oplists = [
        "w" + rng.rbytes(11).hex() + ",e,w" + rng.rbytes(300).hex() + ",w" + rng.rbytes(5).hex(),
        "w" + big.hex() + ",e,w" + rng.rbytes(100).hex() + ",e",
        "e,w" + (b"abc" * 50).hex(),
    ]
    if tier == "thorough":
        oplists += ["w" + rng.rbytes(rng.randrange(1, 70000)).hex() + ",e" for _ in range(4)]
    for comp in (0, 2):
        for ops in oplists:
            base_line = "W %d %s -" % (comp, ops)
            o, _ = vlib.run_cases_resilient(impl, [base_line], wd, "w0", env=env)
            toks = o[0].split()
            payloads = [t[2:] for t in toks if t.startswith("t:") and t != "t:-"]
            outs = [t[2:] for t in toks if t.startswith("o:")]
            d = parse(o[0])
            if d.get("close") != "1" or not outs:
                res.violation("harness", "c12:w-baseline", "fault-free writer scenario fails: %s" % o[0][-200:], {"line": base_line})
                continue
            header = outs[0]
            good_out = d["out"]
            counts = [int(x) for x in d["calls"].split("/")]
            faults = faults_for(counts, rng, tier)
            lines = ["W %d %s %s" % (comp, ops, f) for f in faults]
            # the same faults with a caller that calls zck_clear_error() and retries when that succeeds
            lines += ["Wc %d %s %s" % (comp, ops, f) for f in faults if f.startswith("write")]
            # double faults: a short write followed by another fault on the retry or later
            for _ in range(12 if tier == "quick" else 150):
                k1 = rng.randrange(1, counts[1] + 1)
                lines.append("W %d %s write:%d:short:%d+%s:%d:%s:%d" % (comp, ops, k1, rng.choice([1, 3]), rng.choice(["write", "write", "read"]),
                                                                       rng.randrange(1, 3), rng.choice(["eio", "short"]), 1))
            io, ierr = vlib.run_cases_resilient(impl, lines, wd, "w", env=env)
            mlines = ["W %s %s %s" % (",".join(payloads) if payloads else "-", header, l.split()[-1]) for l in lines]
            mo, _ = vlib.run_cases(model, mlines, wd, "wm")
            for line, i, m in zip(lines, io, mo):
                res.evaluations += 1
                di = parse(i)
                fault = line.split()[-1]
                key = "c12:W:%d:%s:%s" % (comp, hashlib.sha256(ops.encode()).hexdigest()[:8], fault)
                case = {"line": line, "impl": i[-200:], "expect_out": good_out}
                if di.get("fired") == "1":
                    res.nontrivial.add(key)
                res.count("writer:" + ("close-ok" if di.get("close") == "1" else "close-fail"))
                if "close" not in di:
                    res.violation("oracle", key, "writer scenario under fault %s ends in %s" % (fault, i[-80:]), case)
                    continue
                if di["close"] == "1" and di["out"] != good_out:
                    res.violation("oracle", key, "zck_close reports success under fault %s but the output differs from the complete file (%s vs %s)" % (fault, di["out"], good_out), case)
                    continue
                if "+" not in fault:
                    mres, _ = vlib.split_model(m)
                    dm = parse(mres)
                    if dm.get("close") != di["close"] or (dm.get("out") != di["out"]):
                        res.violation("correspondence", key.replace("c12:", "c12-corr:"), "writer I/O model predicts %s, the library gives close=%s out=%s under %s" % (mres, di["close"], di["out"], fault), case)
            res.sample({"scenario": "writer comp=%d" % comp, "calls(read/write/lseek)": d["calls"], "faults": len(lines), "example": lines[len(lines) // 2][-40:], "impl": io[len(lines) // 2][-120:]})
    # ------------------------------------------------------------------ reader / validate / copy / download
    files = filegen.nocomp_files(rng, 3) + filegen.zstd_files(rng, 3 if tier == "quick" else 8, wd)
    files = [(f, data) for f, data, _ in files if 0 < len(f) < 200000][: (4 if tier == "quick" else 10)]
    scen = []
    for f, data in files:
        pf = zckfmt.parse_file(f)
        if not pf:
            continue
        h, body = pf
        if not body:
            continue
        bad = bytearray(f)
        bad[len(f) - len(body) + len(body) // 2] ^= 0x10
        hdr_len = len(f) - len(body)
        tgt = f[:hdr_len] + bytes(len(body))
        scen.append(("R", "R %s %d" % (vlib.hexs(f), rng.choice([1000, 32768])), hashlib.sha256(data).hexdigest(), True))
        scen.append(("R", "R %s 4096" % vlib.hexs(bytes(bad)), None, False))
        scen.append(("V", "V %s" % vlib.hexs(f), None, True))
        scen.append(("V", "V %s" % vlib.hexs(bytes(bad)), None, False))
        scen.append(("C", "C %s %s" % (vlib.hexs(f), vlib.hexs(tgt)), None, True))
        scen.append(("C", "C %s %s" % (vlib.hexs(bytes(bad)), vlib.hexs(tgt)), None, False))
        if body:
            scen.append(("D", "D %s %s %d" % (vlib.hexs(tgt), vlib.hexs(body), rng.choice([1, 4000, 16384]) if len(body) < 3000 else 16384), None, True))
    # ---- BEGIN block added for the fault-aware scan/copy models (Io/ScanFaults.v, Io/CopyFaults.v)
    # a file in which the bytes BEFORE a chunk's offset hash to that chunk's digest: a validity scan that loses its
    # place (short read in the chunk before) takes them for the chunk (counter-example C12_scan_flags_refuted_by_short_read)
    fs, hs = zckfmt.build_file([b"ab", b"b"], ht=1, cht=3)
    scen.append(("V", "V %s" % vlib.hexs(fs[:len(hs.build())] + b"abx"), None, False))
    x = bytes((i * 37 + 11) % 256 for i in range(707))      # fixed content: stable finding key
    fs, hs = zckfmt.build_file([x, x[7:607]], ht=1, cht=1)        # a short read of 7 bytes in chunk 1 puts the scan on x[7:]
    scen.append(("V", "V %s" % vlib.hexs(fs[:len(hs.build())] + x + bytes(600)), None, False))
    no_double = set(sc[1] for sc in scen[-2:])      # single faults only: one finding key per (file, fault)
    # copy: small source/target pair with shared, absent and duplicated chunks; target partially filled
    pool = [rng.rbytes(k) for k in (3, 40, 7, 33000)]
    fsrc, _ = zckfmt.build_file([pool[0], pool[1], pool[3], pool[2]], ht=1, cht=3)
    ftgt, ht_ = zckfmt.build_file([pool[2], pool[3], b"other", pool[0], pool[1]], ht=1, cht=3)
    hl = len(ht_.build())
    scen.append(("C", "C %s %s" % (vlib.hexs(fsrc), vlib.hexs(ftgt[:hl])), None, True))
    scen.append(("C", "C %s %s" % (vlib.hexs(fsrc[:-5]), vlib.hexs(ftgt[:hl + 4])), None, False))
    # the same source chunk wanted several times by the target (a repeated copy must be checked like the first one)
    fsrc2, _ = zckfmt.build_file([pool[3], pool[1], pool[2]], ht=1, cht=3)
    ftgt2, ht2_ = zckfmt.build_file([pool[3], pool[1], pool[3], b"absent", pool[3]], ht=1, cht=3)
    scen.append(("C", "C %s %s" % (vlib.hexs(fsrc2), vlib.hexs(ftgt2[:len(ht2_.build())])), None, True))
    model_f, scan_votes = None, []
    try:
        vlib.coq_make(["Extract/Extract_C12F.vo"])
        model_f = vlib.ensure_model("C12F")
    except vlib.BuildError as e:
        res.violation("correspondence", "c12-corr:model-f-build", "fault-aware scan/copy model does not build: %s" % e.detail[-400:], {})
    # ---- END block
    for kind, base, want, valid in scen:
        o, _ = vlib.run_cases_resilient(impl, [base + " -"], wd, "s0", env=env)
        d = parse(o[0])
        if "calls" not in d:
            res.violation("harness", "c12:baseline:" + kind, "fault-free scenario dies: %s" % o[0][-200:], {"line": base + " -"})
            continue
        counts = [int(x) for x in d["calls"].split("/")]
        base_content = d.get("content")
        faults = faults_for(counts, rng, tier)
        lines = [base + " " + f for f in faults]
        for _ in range(6 if tier == "quick" else 60):
            if base in no_double:
                break
            op = rng.choice(["read", "write"])
            n = counts[0] if op == "read" else counts[1]
            if n:
                lines.append(base + " %s:%d:short:%d+%s:%d:%s:1" % (op, rng.randrange(1, n + 1), rng.choice([1, 5]), op, rng.randrange(1, 4), rng.choice(["eio", "short"])))
        io, _ = vlib.run_cases_resilient(impl, lines, wd, "s", env=env)
        # ---- BEGIN block: the fault-aware models predict return value, flags (and target file) under every single fault.
        # For the scan two proven variants exist: the code as it is (Io/ScanFaults.v) and the code with the proposed re-seek
        # fix (Io/ScanReseek.v); the tree must agree with ONE of them on every case (decided after the loop).
        if kind in ("V", "C") and model_f:
            single = [(l, i) for l, i in zip(lines, io) if "+" not in l.split()[-1]]
            mo_f, _ = vlib.run_cases(model_f, [l for l, _ in single], wd, "sf")
            for (l, i), m in zip(single, mo_f):
                di, dm = parse(i), parse(vlib.split_model(m)[0])
                fault = l.split()[-1]
                ckey = "c12-corr:%s:%s:%s" % (kind, hashlib.sha256(base.encode()).hexdigest()[:8], fault)
                res.count("model-f:%s" % kind)
                if "calls" not in di:
                    continue
                if kind == "V":
                    scan_votes.append((ckey, l, i, m, (di.get("v"), di.get("flags")) == (dm.get("v"), dm.get("flags")),
                                       (di.get("v"), di.get("flags")) == (dm.get("vr"), dm.get("flagsr"))))
                elif any(di.get(k) != dm.get(k) for k in ("k", "flags", "tgt")):
                    res.violation("correspondence", ckey, "fault-aware copy model predicts %s, the library gives %s under %s" %
                                  (" ".join("%s=%s" % (k, dm.get(k)) for k in ("k", "flags", "tgt")),
                                   " ".join("%s=%s" % (k, di.get(k)) for k in ("k", "flags", "tgt")), fault), {"line": l, "impl": i[-300:], "model": m[-300:]})
        # ---- END block
        for line, i in zip(lines, io):
            res.evaluations += 1
            di = parse(i)
            fault = line.split()[-1]
            key = "c12:%s:%s:%s" % (kind, hashlib.sha256(base.encode()).hexdigest()[:8], fault)
            case = {"line": line, "impl": i[-200:]}
            if di.get("fired") == "1":
                res.nontrivial.add(key)
            res.count("%s:%s" % (kind, "valid" if valid else "corrupt"))
            if "calls" not in di:
                res.violation("oracle", key, "%s scenario under fault %s ends in %s" % (kind, fault, i[-80:]), case)
            elif kind == "R":
                success = di.get("open") == "1" and di.get("rd") == "0" and di.get("close") == "1"
                if success and (not valid or di.get("content") != base_content):
                    res.violation("oracle", key, "reader reports success under fault %s with %s content" % (fault, "corrupted-file" if not valid else "different"), case)
            elif kind == "V":
                if di.get("v") == "1" and not valid:
                    res.violation("oracle", key, "validation of a corrupted file returns 1 under fault %s" % fault, case)
                elif di.get("ok") == "0":
                    res.violation("oracle", key, "a chunk is flagged valid although its bytes do not hash to its digest (fault %s)" % fault, case)
            elif kind in ("C", "D"):
                if di.get("ok") == "0":
                    res.violation("oracle", key, "%s: a chunk is marked valid whose bytes on disk do not match (fault %s)" % ("copy" if kind == "C" else "download", fault), case)
        res.sample({"scenario": kind, "valid_input": valid, "calls": d["calls"], "faults": len(lines)})
    # ---- BEGIN block: which scan variant does the tree implement?
    if scan_votes:
        as_is = all(v[4] for v in scan_votes)
        fixed = all(v[5] for v in scan_votes)
        res.extra["scan_model_variant"] = "as-is (Io/ScanFaults.v)" if as_is else "with re-seek fix (Io/ScanReseek.v)" if fixed else "none"
        if not as_is and not fixed:
            nf, nr = sum(1 for v in scan_votes if not v[4]), sum(1 for v in scan_votes if not v[5])
            use = 4 if nf <= nr else 5
            for v in [v for v in scan_votes if not v[use]][:5]:
                res.violation("correspondence", v[0], "fault-aware scan model (%s variant) and the library disagree under %s: model %s.. code %s.." %
                              ("as-is" if use == 4 else "re-seek", v[1].split()[-1], vlib.split_model(v[3])[0][:120], v[2][:120]),
                              {"line": v[1], "impl": v[2][-300:], "model": v[3][-300:]})
    # ---- END block
    # ------------------------------------------------------------------ tools
    tool_part(res, tier, rng, wd)
    download_model_part(res, tier, vlib.Rng(vlib.seed() + 12), wd)
    vlib.shutil.rmtree(wd, ignore_errors=True)


def download_model_part(res, tier, rng, wd):
    """Io/DlFaults.v against the real callbacks: the C05 case format with opts fault=<op>.<k>.<kind>.<n>; the extracted
    model follows the write/lseek schedule 'k-1 good calls, then the fault', the harness (zh_c12dl = zh_c05 built with the
    wrappers) makes the k-th write(2)/lseek(2) on the target fail or transfer <n> bytes while the callbacks run"""
    from props import c05
    import hashlib as _h
    srch = _h.sha256(open(os.path.join(vlib.VERIF, "harness", "zh_c05.c"), "rb").read()).hexdigest()[:12]
    impl = vlib.ensure_harness("zh_c12dl", "asan", extra=WRAP + ("-DZH_SRC_KEY=0x%s" % srch,))
    model = vlib.ensure_model("C05")
    base = []
    tables = [[(9, 0, 1201), (14, 0, 1202), (6, 0, 1203)],
              [(7, 0, 1211), (9, 1, 1212), (6, 0, 1213), (11, 0, 1214)],
              [(5, 1, 1221), (12, 0, 1222), (8, 0, 1223), (4, 1, 1224), (10, 0, 1225)]]
    for ti, chunks in enumerate(tables):
        ridx, _ = c05.auto_ridx(chunks, 40)
        for mode in ("plain", "mp"):
            if mode == "plain" and len(c05.runs_of(ridx, chunks)) != 1:
                continue
            for corrupt in [None] + [(k, 0) for k in range(len(ridx))]:
                hdrs, body = c05.response(chunks, ridx, 40, mode, corrupt=corrupt)
                for parts in ("w", "k5"):
                    base.append((("dlf:%d:%s:%s:%s" % (ti, mode, "ok" if corrupt is None else "bad%d" % corrupt[0], parts)),
                                 chunks, ridx, hdrs, body, parts))
    if tier == "thorough":
        # a chunk longer than zero_chunk's 32 KiB block (two zero blocks on a checksum mismatch), large fragments only
        chunks = [(7, 0, 1231), (40000, 0, 1232), (11, 0, 1233)]
        ridx, _ = c05.auto_ridx(chunks, 40)
        for corrupt in (None, (1, 5)):
            hdrs, body = c05.response(chunks, ridx, 40, "plain", corrupt=corrupt)
            for parts in ("w", "k16384"):
                base.append(("dlf:big:%s:%s" % ("ok" if corrupt is None else "bad1", parts), chunks, ridx, hdrs, body, parts))
    faults = [None] + ["write.%d.%s" % (k, kk) for k in range(1, 9 if tier == "quick" else 14)
                       for kk in ("eio.1", "short.1", "short.0", "eintr.1", "enospc.1")] + \
             ["lseek.%d.eio.1" % k for k in range(1, 6 if tier == "quick" else 9)]
    cases = []
    for nm, chunks, ridx, hdrs, body, parts in base:
        fl = faults if tier == "thorough" else [None] + rng.sample(faults[1:], 14)
        for f in fl:
            c = c05.Case(nm + ":" + (f or "nofault"), chunks, ridx, body, parts, hdrs=hdrs, opts=["auto"] + (["fault=" + f] if f else []),
                         kind="dlfault")
            c.base = nm
            c.fault = f
            cases.append(c)
    lines = [c.line() for c in cases]
    mo, _ = c05.run_exe(model, lines, wd, "dlf-model")
    io, _ = c05.run_exe(impl, lines, wd, "dlf-impl")
    clean = {}
    for c, m, i in zip(cases, mo, io):
        if c.fault is None:
            clean[c.base] = c05.parse(i)
    for c, m, i in zip(cases, mo, io):
        res.evaluations += 1
        res.count("dlfault")
        info = {"line": c.line(), "name": c.name, "impl": i[:500], "model": m[:500]}
        p = c05.parse(i)
        if p is None:
            res.violation("oracle", "c12:dlf-fault:" + c.name, "download callbacks die under fault %s: %r" % (c.fault, i[:200]), info)
            continue
        good = clean.get(c.base)
        if c.fault:
            res.nontrivial.add("c12:" + c.name)
        # success under a fault = the fault-free result
        if good and p["verdict"] and (p["L"], p["F"], p["V"]) != (good["L"], good["F"], good["V"]):
            res.violation("oracle", "c12:dlf-success:" + c.name, "every callback reported success under fault %s but file/flags differ "
                          "from the fault-free run (%s)" % (c.fault, c.name), info)
        # a chunk flagged valid holds its bytes; nothing outside the requested extents changed; no growth beyond them
        if p["L"] > c.max_len() or p["M"] != c.masked_expect(p["L"]):
            res.violation("oracle", "c12:dlf-confine:" + c.name, "bytes outside the requested chunks changed under fault %s (%s)" % (c.fault, c.name), info)
        for k, item in enumerate(p["V"].split(",") if p["V"] else []):
            if item[:-1] == "1" and item[-1] not in ("T", "E"):
                res.violation("oracle", "c12:dlf-valid:" + c.name, "chunk %d flagged valid without its bytes under fault %s (%s)" % (k, c.fault, c.name), info)
        mres = vlib.split_model(m)[0]
        if mres != i:
            res.violation("correspondence", "c12-corr:dlf:" + c.name, "Io/DlFaults.v and the callbacks disagree under fault %s on %s: model %r, code %r"
                          % (c.fault, c.name, mres[:250], i[:250]), info)
    res.extra["download_model_cases"] = len(cases)


def tool_part(res, tier, rng, wd):
    zck = vlib.ensure_tool("zck", "plain", wrap=True)
    unzck = vlib.ensure_tool("unzck", "plain", wrap=True)
    tdir = os.path.join(wd, "tools"); os.makedirs(tdir, exist_ok=True)
    data = b"".join(rng.choice([b"alpha ", b"<text:", b"beta\n", rng.rbytes(8)]) for _ in range(9000))
    src = os.path.join(tdir, "in.dat")
    with open(src, "wb") as f:
        f.write(data)
    e0 = dict(os.environ)
    def runp(cmd, fault=None, cwd=tdir):
        e = dict(e0)
        if fault:
            e["ZH_FAULT"] = fault.split("+")[0]
            if "+" in fault:
                e["ZH_FAULT2"] = fault.split("+")[1]
        try:
            p = subprocess.run(cmd, cwd=cwd, env=e, stdout=subprocess.PIPE, stderr=subprocess.PIPE, timeout=60)
            return p.returncode, p.stdout
        except subprocess.TimeoutExpired:
            return -9999, b""
    for opts in (["--compression-format", "none"], [], ["-s", "<text:", "-m"]):
        arch = os.path.join(tdir, "a.zck")
        rc, _ = runp([zck, "-o", arch] + opts + [src])
        if rc != 0:
            res.violation("harness", "c12:tool-baseline", "zck fails without fault", {"opts": opts}); continue
        good = open(arch, "rb").read()
        # count the calls with a fault that never fires
        nreads, nwrites = 12, 40
        ks = list(range(1, (nreads if tier == "thorough" else 8) + 1))
        for op, kmax in (("read", 14), ("write", 30 if tier == "thorough" else 14), ("lseek", 3)):
            for k in range(1, kmax + 1):
                for kind, sh in (("eio", 1), ("short", 5), ("eintr", 1)):
                    if op == "lseek" and kind != "eio":
                        continue
                    fault = "%s:%d:%s:%d" % (op, k, kind, sh)
                    if os.path.exists(arch):
                        os.unlink(arch)
                    rc, _ = runp([zck, "-o", arch] + opts + [src], fault)
                    res.evaluations += 1
                    key = "c12:tool:zck:%s:%s" % ("".join(opts), fault)
                    res.nontrivial.add(key)
                    res.count("tool:zck:" + ("exit0" if rc == 0 else "fail"))
                    if rc == 0:
                        got = open(arch, "rb").read() if os.path.exists(arch) else b""
                        if got != good:
                            # a short read legitimately changes the write segmentation only for content-independent data: decode to compare
                            with open(os.path.join(tdir, "chk.zck"), "wb") as f:
                                f.write(got)
                            rc2, out = runp([unzck, "-c", os.path.join(tdir, "chk.zck")])
                            if rc2 != 0 or out != data:
                                res.violation("oracle", key, "zck exits 0 under fault %s but the archive does not decode to the input (%d bytes vs %d)" % (fault, len(out), len(data)),
                                              {"line": "TOOL zck " + " ".join(opts), "fault": fault})
        # unzck
        with open(arch, "wb") as f:
            f.write(good)
        outp = os.path.join(tdir, "a")
        for mode in ([], ["--header"]):
            for op, kmax in (("read", 14), ("write", 14), ("lseek", 4)):
                for k in range(1, kmax + 1):
                    kinds = [("eio", 1), ("short", 3), ("eintr", 1), ("enospc", 1)]
                    if op == "write":
                        # a short count followed by an error on the very next write (the retry of a helper that loops):
                        # the bytes of the failed remainder are missing although some were written
                        kinds += [("short", "1+write:%d:eio:1" % (k + 1)), ("short", "1000+write:%d:enospc:1" % (k + 1))]
                    for kind, sh in kinds:
                        if op == "lseek" and kind != "eio":
                            continue
                        fault = "%s:%d:%s:%s" % (op, k, kind, sh)
                        for pth in (outp, outp + ".zhr"):
                            if os.path.exists(pth):
                                os.unlink(pth)
                        rc, _ = runp([unzck] + mode + [arch], fault)
                        res.evaluations += 1
                        key = "c12:tool:unzck:%s:%s:%s" % ("".join(opts), "".join(mode), fault)
                        res.nontrivial.add(key)
                        res.count("tool:unzck:" + ("exit0" if rc == 0 else "fail"))
                        if rc == 0:
                            if mode:
                                got = open(outp + ".zhr", "rb").read() if os.path.exists(outp + ".zhr") else b""
                                l = zckfmt.parse_lead(good)
                                pf = zckfmt.parse_file(good)
                                want = b"\0ZHR1" + good[5:l["lead"] + l["hlen"] + pf[0].chunks[0][2]]
                                okk = got == want
                            else:
                                got = open(outp, "rb").read() if os.path.exists(outp) else b""
                                okk = got == data
                            if not okk:
                                res.violation("oracle", key, "unzck %s exits 0 under fault %s with wrong output (%d bytes)" % (" ".join(mode), fault, len(got)),
                                              {"line": "TOOL unzck " + " ".join(mode), "fault": fault})
