"""C16 - chunking is deterministic, content-defined and local.

Tie: the extracted chunker model (Chunk/Writer.v: comp_init_cfg, zck_write_model, end_chunk_model,
close_model) against the real writer (harness/zh_c16.c: zck_write / zck_end_chunk / zck_close, file
re-opened and its chunk table printed) on contents x configurations x segmentations.
Oracles on the implementation alone: byte-identical file for every segmentation and on repeated
runs; prefix locality and suffix resynchronisation on edited inputs; size bounds."""
import hashlib, os, random, re, concurrent.futures as cf
import re
import vlib
import zckfmt

THEOREMS = ["C16_batching_invisible", "C16_segmentation_auto", "C16_write_split", "C16_segmentation_manual",
            "C16_segmentation_file", "C16_comp_init_limits", "C16_byte_terminates", "C16_write_terminates",
            "C16_file_total", "C16_prefix_locality", "C16_prefix_locality_file", "C16_identical_chunks_stored",
            "C16_resync", "C16_resync_at_boundary", "C16_size_bounds", "C16_size_bounds_file"]
ASSUMPTIONS = [
    "model Chunk/Buzhash.v + Chunk/Writer.v is a hand transcription of buzhash.c and of comp_init/zck_write/"
    "comp_end_chunk/zck_close (comp.c, zck.c), tied by differential execution of the extracted model",
    "buzhash_table, DEFAULT_BUZHASH_WIDTH/BITS, CHUNK_DEFAULT_MIN/MAX regenerated from the sources on every run; "
    "the termination sweep table_ok is re-evaluated on the regenerated table",
    "a chunk is its uncompressed byte list; compressed bytes and digest are a function of it (zstd and the hash are "
    "deterministic functions: checked by the repeated-run and segmentation oracles, not proved)",
    "bytes are < 256; option values fit an int; options are set before the first write (comp_init runs once); "
    "I/O and allocation failures are out of scope (C12)",
    "locality theorems are about automatic chunking; in manual mode boundaries are the caller's and the maximum's",
    "extraction with ExtrOcamlBasic; OCaml driver ocaml/drv_c16.ml; harness/zh_c16.c",
]


# ----------------------------------------------------------------------------------------------
# constants of the specification side, read from the regenerated GenConsts.v
# ----------------------------------------------------------------------------------------------
def gen_const(name):
    txt = open(os.path.join(vlib.COQ, "Gen", "GenConsts.v")).read()
    m = re.search(r"Definition %s : N := (\d+)%%N" % name, txt)
    return int(m.group(1))


def limits(manual, mn, mx):
    """effective limits as the property means them: the user's [min, max] (defaults when unset) and, for
    automatic chunking, average/4 and average*4 confined to that interval"""
    dmin, dmax, bits = gen_const("CHUNK_DEFAULT_MIN"), gen_const("CHUNK_DEFAULT_MAX"), gen_const("DEFAULT_BUZHASH_BITS")
    lo, hi = (mn or dmin), (mx or dmax)
    if manual:
        return lo, hi, None, None
    avg = 1 << bits
    clamp = lambda v: max(lo, min(hi, v))
    return lo, hi, clamp(avg // 4), clamp(avg * 4)


# ----------------------------------------------------------------------------------------------
# contents
# ----------------------------------------------------------------------------------------------
WORDS = [b"chunk", b"zchunk", b"delta", b"the", b"of", b"and", b"rolling", b"hash", b"window", b"boundary",
         b"<text:p>", b"</text:p>", b"metadata", b"repository", b"package", b"0123456789", b"\n", b"\n\n", b" ", b"  "]


_BUZ = None


def buz_table():
    global _BUZ
    if _BUZ is None:
        txt = open(os.path.join(vlib.COQ, "Gen", "GenBuzTable.v")).read()
        body = txt[txt.index("["):txt.index("]")]
        _BUZ = [int(x) for x in re.findall(r"\d+", body)]
        assert len(_BUZ) == 256
    return _BUZ


def _rol(v, k):
    k %= 32
    return ((v << k) | (v >> (32 - k))) & 0xffffffff if k else v


def trigger_window(r, width=48, mask=0x7fff):
    """a byte window whose buzhash has the low mask bits zero (a content-defined boundary)"""
    T = buz_table()
    while True:
        pre = r.randbytes(width - 1)
        h = 0
        for j, b in enumerate(pre):
            h ^= _rol(T[b], width - 1 - j)
        for last in range(256):
            if (h ^ T[last]) & mask == 0:
                return pre + bytes([last])


def base_content(kind, size, cseed):
    r = random.Random(cseed)
    if size == 0:
        return b""
    if kind == "planted":
        # random bytes with boundaries planted just behind the automatic minimum of a chunk:
        # chunk k is cut at 8192 + d bytes for small d (the rolling window is barely primed there)
        out = bytearray(r.randbytes(size))
        start = 0
        for d in (0, 1, 20, 45, 46, 47, 48, 100):
            L = start + 8192 + d + (cseed % 3)
            if L + 1 > size:
                break
            out[L - 47:L + 1] = trigger_window(r)
            start = L
        return bytes(out)
    if kind == "random":
        return r.randbytes(size)
    if kind == "repeat":                      # one byte: every hash-triggered boundary repeats itself
        return bytes([r.randrange(256)]) * size
    if kind == "byte":                        # the byte is the seed
        return bytes([cseed % 256]) * size
    if kind == "periodic":
        p = r.choice([2, 3, 7, 16, 47, 48, 49, 64, 1000])
        pat = r.randbytes(p)
        return (pat * (size // p + 1))[:size]
    if kind == "text":
        out = bytearray()
        para = []
        while len(out) < size:
            if para and r.random() < 0.3:
                out += r.choice(para)         # repeated paragraphs
            else:
                p = b" ".join(r.choice(WORDS) for _ in range(r.randrange(5, 120)))
                para.append(p)
                if len(para) > 20:
                    para.pop(0)
                out += p
            out += b"\n"
        return bytes(out[:size])
    if kind == "mixed":
        out = bytearray()
        while len(out) < size:
            k = r.randrange(1, 60000)
            c = r.random()
            if c < 0.4:
                out += r.randbytes(k)
            elif c < 0.7:
                out += bytes([r.randrange(256)]) * k
            else:
                pat = r.randbytes(r.randrange(1, 300))
                out += (pat * (k // len(pat) + 1))[:k]
        return bytes(out[:size])
    raise ValueError(kind)


def content_of(c):
    b = base_content(c["kind"], c["size"], c["cseed"])
    e = c.get("edit")
    if e:
        r = random.Random(e["eseed"])
        pos, ln = min(e["pos"], len(b)), e["len"]
        if e["op"] == "insert":
            b = b[:pos] + r.randbytes(ln) + b[pos:]
        elif e["op"] == "delete":
            b = b[:pos] + b[pos + ln:]
        else:
            old = b[pos:pos + ln]
            new = bytes((x ^ (1 + r.randrange(255))) for x in old)      # every replaced byte differs
            b = b[:pos] + new + b[pos + ln:]
    return b


def dict_of(d):
    if not d:
        return None
    return random.Random(d["dseed"]).randbytes(d["size"])


class Store:
    """content files shared by both executables"""
    def __init__(self, wd):
        self.wd, self.paths, self.cache = wd, {}, {}

    def path(self, blob):
        if len(blob) == 0:
            return "-"
        h = hashlib.sha256(blob).hexdigest()[:24]
        if h not in self.paths:
            p = os.path.join(self.wd, "blob_" + h)
            with open(p, "wb") as f:
                f.write(blob)
            self.paths[h] = "F:" + p
        return self.paths[h]

    def content(self, c):
        k = repr(sorted(c.items(), key=lambda kv: kv[0]))
        if k not in self.cache:
            if len(self.cache) > 40:
                self.cache.clear()
            self.cache[k] = content_of(c)
        return self.cache[k]


def line_of(rc, store):
    d = dict_of(rc.get("dict"))
    return "%s %d %d %d %s %s %s" % (rc["comp"], rc["manual"], rc["mn"], rc["mx"],
                                     store.path(d) if d is not None else "-",
                                     store.path(store.content(rc["content"])), rc["ops"])


def group_key(rc):
    c = rc["content"]
    e = c.get("edit")
    return "%s/%d/%d%s|%s m%d %d..%d d%s" % (c["kind"], c["size"], c["cseed"],
                                            ("/%s@%d+%d" % (e["op"], e["pos"], e["len"])) if e else "",
                                            rc["comp"], rc["manual"], rc["mn"], rc["mx"],
                                            ("%d" % rc["dict"]["size"]) if rc.get("dict") else "-")


def parse(line):
    """impl: 'OK n=3 lens=.. | dict=.. clens=.. dig=.. udig=.. size=.. file=..'; model: 'OK n=.. lens=.. | SPEC total=..'"""
    head = line.split(" | ")[0].strip()
    r = {"head": head, "status": head.split()[0] if head else "EMPTY"}
    if r["status"] != "OK":
        return r
    kv = dict(t.split("=", 1) for t in line.replace(" | SPEC", "").replace(" | ", " ").split()[1:] if "=" in t)
    lst = lambda s: [] if s in ("-", None) else s.split(",")
    r["lens"] = [int(x) for x in lst(kv.get("lens"))]
    r["clens"] = [int(x) for x in lst(kv.get("clens"))]
    r["dig"], r["udig"] = lst(kv.get("dig")), lst(kv.get("udig"))
    r["file"], r["size"], r["dict"] = kv.get("file"), kv.get("size"), kv.get("dict")
    return r


def run_sharded(exe, lines, wd, tag, n, env=None):
    if not lines:
        return []
    n = max(1, min(n, len(lines)))
    shards = [lines[i::n] for i in range(n)]
    with cf.ThreadPoolExecutor(max_workers=n) as ex:
        outs = list(ex.map(lambda iv: vlib.run_cases(exe, iv[1], wd, "%s_%d" % (tag, iv[0]), timeout=3000, env=env)[0],
                           enumerate(shards)))
    res = [None] * len(lines)
    for i, o in enumerate(outs):
        for j, l in enumerate(o[:len(shards[i])]):
            res[i + j * n] = l
    return [x if x is not None else "NOTRUN" for x in res]


# ----------------------------------------------------------------------------------------------
# case generation
# ----------------------------------------------------------------------------------------------
CONFIGS = [(0, 0), (0, 4096), (0, 8192), (0, 16384), (0, 40000), (4096, 4096), (8192, 8192), (100, 9000),
           (40000, 40000), (1, 10485760), (9000, 200000), (200000, 300000), (131072, 140000), (0, 131072)]
SMALL_CONFIGS = [(0, 1), (1, 1), (1, 2), (5, 5), (3, 48), (0, 47), (48, 49)]
KINDS = ["random", "repeat", "text", "periodic", "mixed"]


def corr_contents(tier, rng):
    sizes = [0, 1, 2, 47, 48, 49, 100, 1000, 4095, 4096, 4097, 8191, 8192, 8193,
             20000, 40001, 65536, 100000, 131072, 131073, 200000, 262144, 300000, 400000]
    if tier == "quick":
        sizes += [150000, 180000, 250000, 350000, 450000, 500000, 600000, 750000, 1048576, 1572864,
                  120000, 90000, 70000, 50000, 30000, 10000]
    else:
        sizes += [500000, 600000, 700000, 800000, 900000, 1000000, 1048576, 1200000, 1400000, 1500000, 1572864]
        while len(sizes) < 400:
            sizes.append(int(2 ** rng.uniform(0, 20.58)))
    out = []
    for i, s in enumerate(sizes):
        out.append({"kind": KINDS[i % len(KINDS)], "size": s, "cseed": vlib.seed() * 100000 + i})
    # the refusal loop wants long runs of one byte inside the first 8 KiB of a chunk and beyond
    out[5]["kind"] = "repeat"
    # boundaries planted right behind the automatic minimum
    for j, s in enumerate((9000, 40000, 80000)):
        out.append({"kind": "planted", "size": s, "cseed": vlib.seed() * 100000 + 900 + j})
    return out


def segmentations(n, lens, rng):
    """six ways to deliver n bytes; lens = chunk lengths seen with one write (for the straddling one)"""
    segs = ["R", "*1", "*4096", "*32768"]
    toks, left = [], n
    while left > 0 and len(toks) < 4000:
        k = min(left, rng.choice([1, 2, 3, 47, 48, 49, 1000, 4095, 8192, 8193, 32767, 32769, 65536, rng.randrange(1, 70000)]))
        toks.append(str(k))
        left -= k
    segs.append(",".join(toks + ["R"]))
    # writes that stop one byte short of every boundary, then a 2-byte write across it
    toks, pos, end = [], 0, 0
    for L in lens[:-1][:3000]:
        end += L                       # a boundary of the one-write run
        if end - 1 > pos:
            toks.append(str(end - 1 - pos))
            pos = end - 1
        if pos < end and pos + 2 <= n:
            toks.append("2")
            pos += 2
    segs.append(",".join(toks + ["R"]))
    # chunking options set after the first data (refused; error cleared; the writer carries on): same file
    if n >= 3:
        a = max(1, min(n // 3, 50000))
        segs.append("%d,Om1,%d,On65536,R" % (a, max(1, min(n - a - 1, 20000))))
        segs.append("1,Ox4096,On1,*32768")
    return segs


def manual_ops(n, rng):
    """manual mode: writes interleaved with end-chunk calls"""
    toks, left = [], n
    while left > 0 and len(toks) < 600:
        k = min(left, rng.choice([1, 5, 100, 399, 400, 401, 5000, 10000, 10001, 30000]))
        toks.append(str(k))
        left -= k
        if rng.random() < 0.4:
            toks.append("E")
            if rng.random() < 0.2:
                toks.append("E")
    return ",".join(toks + ["R"])


MID_CONFIGS = [(0, 0), (0, 4096), (0, 8192), (0, 16384), (4096, 4096), (8192, 8192), (100, 9000), (0, 40000)]


def build_recipes(tier, rng):
    """one-write recipes; the other segmentations are derived from their results"""
    base = []
    cs = corr_contents(tier, rng)
    nbig = nmid = nsmall = 0
    for i, c in enumerate(cs):
        if c["size"] <= 300 and i % 2 == 1:
            mn, mx = SMALL_CONFIGS[nsmall % len(SMALL_CONFIGS)]
            nsmall += 1
        elif c["size"] >= 100000:
            mn, mx = CONFIGS[nbig % len(CONFIGS)]
            nbig += 1
        else:
            mn, mx = MID_CONFIGS[nmid % len(MID_CONFIGS)]
            nmid += 1
        comp = "zstd" if i % 3 == 1 else "none"
        d = {"size": rng.choice([10, 1000, 20000]), "dseed": vlib.seed() + i} if i % 4 == 2 else None
        base.append({"kind": "corr", "content": c, "comp": comp, "manual": 0, "mn": mn, "mx": mx, "dict": d, "ops": "R"})
    # design-phase witnesses of D26 (limits that crossed): small maximum, minimum above the automatic maximum
    for j, (mn, mx, size) in enumerate([(0, 4096, 300000), (200000, 300000, 700000), (131073, 140000, 450000), (0, 100, 30000)]):
        base.append({"kind": "corr", "content": {"kind": "random", "size": size, "cseed": 424200 + j}, "comp": "none", "manual": 0,
                     "mn": mn, "mx": mx, "dict": None, "ops": "R"})
    return base


def edit_recipes(tier, rng):
    """(base, edited) pairs for the locality oracles, implementation only"""
    bases = [("random", 600000), ("text", 300000), ("mixed", 400000), ("random", 100000), ("periodic", 150000), ("random", 1000000)]
    if tier != "quick":
        bases += [(KINDS[i % 5], int(2 ** rng.uniform(15, 20.5))) for i in range(24)]
    combos = [("none", None), ("zstd", None), ("none", {"size": 5000, "dseed": 77}), ("zstd", {"size": 5000, "dseed": 78})]
    cfgs = [(0, 0), (0, 40000), (0, 0), (9000, 200000), (0, 16384)]
    out = []
    n = 0
    for bi, (kind, size) in enumerate(bases):
        c0 = {"kind": kind, "size": size, "cseed": vlib.seed() * 7000 + bi}
        for region in (0.0, 0.25, 0.5, 0.75, 1.0):
            for op in ("insert", "delete", "replace"):
                ln = rng.choice([1, 1, 2, 17, 300, 5000, 60000, 150000])     # the long ones shift the chunk count
                pos = int(region * size)
                if op != "insert":
                    pos = max(0, min(pos, size - ln))
                e = dict(c0, edit={"op": op, "pos": pos, "len": ln, "eseed": n + 1})
                comp, d = combos[n % 4]
                mn, mx = cfgs[(n // 4) % len(cfgs)]
                mk = lambda c: {"kind": "edit", "content": c, "comp": comp, "manual": 0, "mn": mn, "mx": mx, "dict": d, "ops": "R"}
                out.append((mk(c0), mk(e)))
                n += 1
    return out


# ----------------------------------------------------------------------------------------------
# checks
# ----------------------------------------------------------------------------------------------
def common_prefix(a, b):
    n = min(len(a), len(b))
    if a[:n] == b[:n]:
        return n
    lo, hi = 0, n
    while lo < hi:                      # largest k with a[:k] == b[:k]
        mid = (lo + hi + 1) // 2
        if a[:mid] == b[:mid]:
            lo = mid
        else:
            hi = mid - 1
    return lo


def common_suffix(a, b):
    return common_prefix(a[::-1], b[::-1])


def entries(r):
    return list(zip(r["lens"], r["clens"], r["dig"], r["udig"]))


def check_locality(res, rb, re_, ib, ie, store):
    """property text: chunks ending strictly before the first differing byte are identical; once both outputs
    start a chunk at the same point of a shared suffix all following chunks are identical"""
    a, b = store.content(rb["content"]), store.content(re_["content"])
    P, S = common_prefix(a, b), common_suffix(a, b)
    ea, eb = entries(ib), entries(ie)
    key = "c16:local:" + group_key(re_)
    hit_p = hit_s = 0
    for (x, y, nm) in ((ea, eb, "base"), (eb, ea, "edited")):
        end = 0
        for j, ent in enumerate(x):
            end += ent[0]
            if end < P:
                hit_p += 1
                if j >= len(y) or y[j] != ent:
                    res.violation("oracle", key, "prefix locality: chunk %d of the %s file ends at %d, before the first differing byte %d, "
                                  "but the other file has %r instead of %r (%s)" % (j, nm, end, P, y[j] if j < len(y) else None, ent, group_key(re_)),
                                  {"recipes": [rb, re_], "check": "locality"})
                    return 0, 0
    def starts(x, total):
        out, pos = {}, 0
        for j, ent in enumerate(x):
            out[total - pos] = j
            pos += ent[0]
        return out
    sa, sb = starts(ea, len(a)), starts(eb, len(b))
    commons = [r for r in sa if r in sb and r <= S]
    if commons:
        r = max(commons)
        ta, tb = ea[sa[r]:], eb[sb[r]:]
        hit_s = len(ta)
        if ta != tb:
            res.violation("oracle", key, "suffix resynchronisation: both files start a chunk %d bytes before the end, inside the shared suffix "
                          "of %d bytes, but the following chunks differ: %r vs %r (%s)" % (r, S, ta[:3], tb[:3], group_key(re_)),
                          {"recipes": [rb, re_], "check": "locality"})
    return hit_p, hit_s


def evaluate(res, recipes, mo, io, store, tier, with_model=True):
    """per-case checks; returns parsed impl results"""
    parsed = []
    for k, rc in enumerate(recipes):
        i = parse(io[k])
        parsed.append(i)
        res.evaluations += 1
        gk = group_key(rc)
        case = {"recipes": [rc], "check": "case"}
        data = store.content(rc["content"])
        res.count("content:%s" % rc["content"]["kind"])
        res.count("impl:%s" % i["status"])
        if i["status"] != "OK":
            res.violation("oracle", "c16:%s:%s" % (i["head"].replace(" ", "-").lower(), gk),
                          "the writer does not produce a file (%s) for %s ops %s" % (i["head"], gk, rc["ops"][:60]), case)
            continue
        lens = i["lens"]
        # the chunks are the content, cut at the chunk table's lengths
        pos, ok = 0, sum(lens) == len(data)
        for L, ud in zip(lens, i["udig"]):
            if hashlib.sha256(data[pos:pos + L]).hexdigest()[:16] != ud:
                ok = False
            pos += L
        if not ok:
            res.violation("oracle", "c16:content:" + gk, "chunks of the written file are not the written bytes in order "
                          "(%d bytes in chunks, %d written) for %s" % (sum(lens), len(data), gk), case)
        if rc["comp"] == "none":
            pos = 0
            for L, cl, dg in zip(lens, i["clens"], i["dig"]):
                if cl != L or hashlib.sha512(data[pos:pos + L]).hexdigest()[:len(dg)] != dg:
                    res.violation("oracle", "c16:digest:" + gk, "stored length/digest of an uncompressed chunk is not a function of its bytes", case)
                    break
                pos += L
        # size bounds (automatic mode, writes only)
        lo, hi, amin, amax = limits(rc["manual"], rc["mn"], rc["mx"])
        if not rc["manual"] and "E" not in rc["ops"].split(","):
            bad = [L for L in lens[:-1] if not (amin <= L <= amax)] + [L for L in lens[-1:] if not (1 <= L <= amax)]
            if bad:
                res.violation("oracle", "c16:bounds:" + gk, "automatic chunk sizes %r outside [%d, %d] for %s" % (bad[:5], amin, amax, gk), case)
            if len(lens) >= 2:
                res.nontrivial.add(gk + rc["ops"][:20])
        if rc["manual"] and any(L > hi for L in lens):
            res.violation("oracle", "c16:bounds:" + gk, "manual chunk above the maximum %d" % hi, case)
        if with_model and mo is not None:
            m = parse(mo[k])
            if m["head"] != i["head"]:
                res.violation("correspondence", "c16-corr:" + gk + ":" + rc["ops"][:30],
                              "model and code disagree on %s ops %s: model %s, code %s" % (gk, rc["ops"][:40], m["head"][:200], i["head"][:200]), case)
    return parsed


def check_groups(res, recipes, parsed):
    """same content + configuration: one file, whatever the segmentation, on every run"""
    groups = {}
    for rc, p in zip(recipes, parsed):
        if p["status"] == "OK" and (rc["manual"] == 0 or rc.get("same_ops")):
            groups.setdefault(group_key(rc) + (rc.get("same_ops") or ""), []).append((rc, p))
    for g, members in groups.items():
        files = {p["file"] for _, p in members}
        if len(members) > 1:
            res.count("groups")
        if len(files) > 1:
            a = members[0]
            b = next(m for m in members if m[1]["file"] != a[1]["file"])
            res.violation("oracle", "c16:seg:" + g, "same content and configuration, different files: ops %s -> %s (chunks %r...), ops %s -> %s (chunks %r...)"
                          % (a[0]["ops"][:30], a[1]["file"][:16], a[1]["lens"][:4], b[0]["ops"][:30], b[1]["file"][:16], b[1]["lens"][:4]),
                          {"recipes": [a[0], b[0]], "check": "group"})


def run(res, tier, only_case=None):
    rng = vlib.Rng(vlib.seed())
    res.rule = ("correspondence: 40 (thorough 400) contents (random, one repeated byte, text with repeats, periodic, mixed; 0 .. 1.5 MiB) x "
                "min/max options (defaults, max 4096/8192/16384/40000, min=max, min above 131072, tiny) x none/zstd, with/without dictionary x "
                "6 segmentations (one write, 1-byte writes, 4096, 32768, random sizes, writes straddling every boundary) + manual mode with "
                "end-chunk calls; chunk lengths of model and code compared, chunk bytes checked against the content. oracles: one file per "
                "(content, configuration) over all segmentations and a second run; insert/delete/replace at 5 regions: chunks before the edit "
                "and after a common chunk start in the shared suffix compared by (length, stored length, digest); size bounds. "
                "non-trivial = case with at least two chunks")
    model = vlib.ensure_model("C16")
    impl = vlib.ensure_harness("zh_c16", "plain")
    wd = vlib.scratch("C16")
    store = Store(wd)
    env = {"ZH_CASE_TIMEOUT": "10"}       # the slowest legitimate case takes well under a second
    nsh = max(2, min(12, vlib.NCPU - 2))

    if only_case is not None and only_case["case"].get("tool"):
        return tool_part(res, tier, only_case["case"])
    if only_case is not None:
        recipes = only_case["case"]["recipes"]
        lines = [line_of(rc, store) for rc in recipes]
        io = run_sharded(impl, lines, wd, "impl", 1, env)
        mo = run_sharded(model, lines, wd, "model", 1)
        parsed = evaluate(res, recipes, mo, io, store, tier)
        for rc in recipes:
            rc.setdefault("same_ops", None)
        check_groups(res, recipes, parsed)
        if only_case["case"].get("check") == "locality" and len(recipes) == 2 and all(p["status"] == "OK" for p in parsed):
            check_locality(res, recipes[0], recipes[1], parsed[0], parsed[1], store)
        return

    # ---- phase 1: one write per (content, configuration); gives the boundaries for the straddling writes
    base = build_recipes(tier, rng)
    pairs = edit_recipes(tier, rng)
    edit_flat = []
    seen = {}
    for rb, re_ in pairs:
        for rc in (rb, re_):
            k = group_key(rc)
            if k not in seen:
                seen[k] = len(edit_flat)
                edit_flat.append(rc)
    lines1 = [line_of(rc, store) for rc in base + edit_flat]
    io1 = run_sharded(impl, lines1, wd, "impl1", nsh, env)
    # ---- phase 2: the other segmentations, manual mode, second runs
    rec2 = []
    failed = set()
    for rc, o in zip(base, io1):
        p = parse(o)
        n = rc["content"]["size"]
        if p["status"] != "OK":        # reported once by evaluate(); do not pay the time-out six more times
            failed.add(group_key(rc))
            continue
        for s in segmentations(n, p.get("lens", []), rng)[1:]:
            rec2.append(dict(rc, ops=s))
    for i, rc in enumerate(base):
        if group_key(rc) in failed:
            continue
        if i % 5 == 0:            # manual mode, with end-chunk calls; the same op list twice
            ops = manual_ops(rc["content"]["size"], rng)
            mn, mx = [(400, 10000), (0, 0), (1, 1000), (0, 5000), (10000, 10000)][(i // 5) % 5]
            for _ in range(2):
                rec2.append(dict(rc, manual=1, mn=mn, mx=mx, ops=ops, same_ops=ops[:40]))
        if i % 7 == 3:            # automatic mode with end-chunk calls in between (model correspondence only)
            rec2.append(dict(rc, ops=manual_ops(rc["content"]["size"], rng)))
    # design-phase witness of D24: final chunk below the minimum
    w24 = {"kind": "corr", "content": {"kind": "text", "size": 700, "cseed": 2424}, "comp": "none", "manual": 1, "mn": 400, "mx": 10000,
           "dict": None, "ops": "500,E,200"}
    rec2.append(dict(w24, same_ops="d24"))
    rec2.append(dict(w24, same_ops="d24", comp="zstd"))
    rerun = [dict(rc) for rc in base if group_key(rc) not in failed]          # determinism: the one-write cases once more, in another process
    lines2 = [line_of(rc, store) for rc in rec2]
    with cf.ThreadPoolExecutor(max_workers=3) as ex:
        f_model = ex.submit(run_sharded, model, [line_of(rc, store) for rc in base] + lines2, wd, "model", nsh)
        f_impl = ex.submit(run_sharded, impl, lines2, wd, "impl2", max(2, nsh // 3), env)
        f_rerun = ex.submit(run_sharded, impl, [line_of(rc, store) for rc in rerun], wd, "impl3", 2, env)
        mo_all, io2, io3 = f_model.result(), f_impl.result(), f_rerun.result()
    recipes = base + rec2
    io = io1[:len(base)] + io2
    parsed = evaluate(res, recipes, mo_all, io, store, tier)
    parsed_edit = evaluate(res, edit_flat, None, io1[len(base):], store, tier, with_model=False)
    parsed_rerun = [parse(o) for o in io3]
    res.evaluations += len(rerun)
    # auto-mode groups must not contain E ops (they legitimately change the chunking)
    grp_rec, grp_par = [], []
    for rc, p in list(zip(recipes, parsed)) + list(zip(rerun, parsed_rerun)):
        if rc["manual"] == 0 and "E" in rc["ops"].split(","):
            continue
        grp_rec.append(rc)
        grp_par.append(p)
    check_groups(res, grp_rec, grp_par)
    # ---- locality on edits
    tp = ts = 0
    for rb, re_ in pairs:
        ib, ie = parsed_edit[seen[group_key(rb)]], parsed_edit[seen[group_key(re_)]]
        if ib["status"] != "OK" or ie["status"] != "OK":
            continue
        res.evaluations += 1
        hp, hs = check_locality(res, rb, re_, ib, ie, store)
        tp += hp
        ts += hs
        if hp or hs:
            res.nontrivial.add("edit:" + group_key(re_))
        res.count("edit:%s" % re_["content"]["edit"]["op"])
    res.extra["locality_chunks_compared"] = {"before_edit": tp, "after_resync": ts}
    # ---- sanitized build on the small cases (thorough)
    if tier == "thorough":
        asan = vlib.ensure_harness("zh_c16", "asan")
        small = [k for k, rc in enumerate(recipes) if rc["content"]["size"] <= 70000][:400]
        ao = run_sharded(asan, [line_of(recipes[k], store) for k in small], wd, "asan", max(2, nsh // 2), env)
        for k, o in zip(small, ao):
            if parse(o)["head"] != parsed[k]["head"]:
                res.violation("oracle", "c16:asan:" + group_key(recipes[k]), "sanitized build differs or faults: %s vs %s" % (o[:100], parsed[k]["head"][:100]),
                              {"recipes": [recipes[k]], "check": "case"})
    for k in (0, len(recipes) // 3, len(recipes) // 2, len(recipes) - 1):
        res.sample({"case": group_key(recipes[k]) + " ops " + recipes[k]["ops"][:30], "impl": io[k][:160], "model": mo_all[k][:120]})
    res.count("segmentations", len(rec2))
    vlib.shutil.rmtree(wd, ignore_errors=True)
    res.rule += (" || zck tool: 7 contents with the split string at the start, doubled, adjacent, on and around the 32 KiB read block edge x "
                 "options {none,zstd}x{-m} (+ -u thorough) x read() partitions (regular file, 32 KiB FIFO blocks, a read boundary at, 1 byte into, "
                 "at the last byte of and right behind every occurrence, random): all archives of one (content, options) byte-identical")
    tool_part(res, tier)


def tool_part(res, tier, only=None):
    """the zck tool hands the library what its read() calls return: the archive must be a function of content and options
    only, whatever the partition of the input into read() results (regular file = natural 32 KiB blocks; FIFO = controlled)"""
    from props import c01tool as T
    rng = vlib.Rng(vlib.seed() * 31 + 5)
    wd = vlib.scratch("C16tool")
    zck = vlib.ensure_tool("zck", "asan")
    osets = {o[0]: o for o in T.opt_sets(os.path.join(wd, "nodict"))}
    S = T.S_TEXT
    B = T.BUF
    conts = []
    if only is not None:
        conts = [(only["name"], bytes.fromhex(only["content"]), bytes.fromhex(only["split"]), only["opt"], [None if x is None else list(x) for x in only["partitions"]])]
    else:
        def parts_for(n, marks):
            ps = [None, [min(B, n - i) for i in range(0, n, B)] if n else []]
            for m in marks:
                for d in (0, 1, len(S) - 1, len(S)):
                    c = m + d
                    if 0 < c < n:
                        ps.append(T.partitions_around(n, [c]))
            ps.append(T.random_partition(rng, n, [1, 5, 100, 4000, B]))
            return ps
        base = [("twice", S + S + b"z", [0, len(S)]),
                ("start", S + T.filler(300), [0]),
                ("adjacent3", b"ab" + S * 3 + b"tail", [2, 2 + len(S), 2 + 2 * len(S)]),
                ("edge0", T.filler(B) + S + T.filler(50, 1), [B]),
                ("edge-3", T.filler(B - 3) + S + T.filler(50, 2), [B - 3]),
                ("edge2x", T.filler(B - len(S)) + S + S + T.filler(70, 3), [B - len(S), B]),
                ("ends-in-prefix", T.filler(100) + S + T.filler(10) + S[:3], [100])]
        for name, c, marks in base:
            for o in (["none-m", "zstd-m", "none"] if tier == "quick" else ["none-m", "zstd-m", "none", "zstd", "none-m-u"]):
                conts.append((name, c, S, o, parts_for(len(c), marks)))
    jobs = []
    for ci, (name, c, sp, o, ps) in enumerate(conts):
        for pi, pt in enumerate(ps):
            if pt is not None and (sum(pt) != len(c) or not all(0 < b <= B for b in pt)):
                continue
            cs = T.Case(name, c, pt, sp, "c16")
            cs.opt = osets[o]
            jobs.append((ci, pi, cs))

    def work(j):
        ci, pi, cs = j
        r = T.run_zck(zck, cs, os.path.join(wd, "t%d_%d" % (ci, pi)))
        data = open(r["out"], "rb").read() if r["rc"] == 0 and os.path.exists(r["out"]) else None
        return ci, pi, r["rc"], data, r["err"]
    with cf.ThreadPoolExecutor(max_workers=max(2, vlib.NCPU - 2)) as ex:
        outs = list(ex.map(work, jobs))
    by = {}
    for ci, pi, rc, data, err in outs:
        by.setdefault(ci, []).append((pi, rc, data, err))
    for ci, lst in sorted(by.items()):
        name, c, sp, o, ps = conts[ci]
        res.evaluations += len(lst)
        res.count("tool:" + o, len(lst))
        case = {"tool": True, "name": name, "content": c.hex(), "split": sp.hex(), "opt": o, "partitions": ps}
        ref = None
        for pi, rc, data, err in lst:
            if data is None:
                res.violation("oracle", "c16:tool:%s:%s" % (name, o), "zck -s fails (%d) on a valid input %s: %s" % (rc, name, vlib.san_summary(err) or err[-200:]), case)
                break
            if ref is None:
                ref = (pi, data)
            elif data != ref[1]:
                def table(d):
                    try:
                        return [x[2] for x in zckfmt.parse_file(d)[0].chunks][:12]
                    except Exception:
                        return "?"
                res.violation("oracle", "c16:tool:%s:%s" % (name, o),
                              "zck %s -s %r on the same %d input bytes (%s) produces different archives for different read() partitions: %s -> stored sizes %s, %s -> %s"
                              % (o, sp, len(c), name, "file" if ps[ref[0]] is None else ps[ref[0]][:6], table(ref[1]), "file" if ps[pi] is None else ps[pi][:6], table(data)), case)
                break
        else:
            res.nontrivial.add("tool:%s:%s" % (name, o))
    vlib.shutil.rmtree(wd, ignore_errors=True)


def search(res, tier):
    """proof or correspondence broken without a failing input: hunt for a hang on the all-one-byte inputs
    (the termination sweep is about them) and on the limit configurations"""
    impl = vlib.ensure_harness("zh_c16", "plain")
    wd = vlib.scratch("C16s")
    store = Store(wd)
    recs = []
    for b in range(256):
        recs.append({"kind": "search", "content": {"kind": "byte", "size": 20000, "cseed": b}, "comp": "none", "manual": 0,
                     "mn": 0, "mx": 0, "dict": None, "ops": "R"})
    for mn, mx in ((0, 1), (0, 100), (0, 4096), (0, 8191), (200000, 300000), (131073, 131073)):
        recs.append({"kind": "search", "content": {"kind": "random", "size": 400000, "cseed": 5}, "comp": "none", "manual": 0,
                     "mn": mn, "mx": mx, "dict": None, "ops": "R"})
    lines = [line_of(rc, store) for rc in recs]
    out = run_sharded(impl, lines, wd, "search", 8, {"ZH_CASE_TIMEOUT": "10"})
    for rc, o in zip(recs, out):
        res.evaluations += 1
        if not o.startswith("OK"):
            res.violation("oracle", "c16:search:" + group_key(rc), "the writer does not return / fails: %s on %s" % (o[:60], group_key(rc)),
                          {"recipes": [rc], "check": "case"})
    vlib.shutil.rmtree(wd, ignore_errors=True)
