"""C18 - checksum backends are interchangeable across builds.

Oracle: the extracted Coq FIPS functions (Hash/ShaSpec.v) against the digests computed by the
library's hash_init/hash_update/hash_finalize in BOTH builds (OpenSSL = variant "plain",
bundled SHA code = variant "bundled"), on every message length around the block / padding
boundaries with several ways of cutting the message into update calls, and on random long
messages with random cuts; for the part of the long-message matrix the Coq functions are not
run on, the two builds are compared with each other (and hashlib as a third opinion).
Correspondence: the extracted model of the bundled code (Hash/Bundled.v) against the bundled
build, the Coq compression functions against sha256_transf / sha512_transf / SHA1_Transform
on random blocks.  File level: zck / unzck / zck_read_header of both builds must write
byte-identical archives and read each other's archives identically."""
import hashlib, os, subprocess, threading
import vlib

THEOREMS = ["C18_bundled_sha1", "C18_bundled_sha256", "C18_bundled_sha512", "C18_bundled_sha512_128",
            "C18_digest_correct", "C18_split_independent", "C18_constants", "C18_layout",
            "C18_update_pieces", "C18_sha1_final_terminates"]
ASSUMPTIONS = [
    "SHA-1/SHA-256/SHA-512 are DEFINED in Coq (Hash/ShaSpec.v, FIPS 180-4, NIST vectors by vm_compute); no hash-function axiom",
    "model Hash/Bundled.v is a hand transcription of sha2.c / sha1.c / libsha.c / hash.c (buffering, length bookkeeping, padding), "
    "generic in the compression function; tied by differential execution against the bundled build",
    "the C compression functions (sha256_transf, sha512_transf, SHA1_Transform) are compared with the FIPS ones on random blocks, not proved equal",
    "OpenSSL is external: compared (both builds, every case), not proved",
    "round constants, initial values, block sizes, integer widths of the length bookkeeping and padding constants regenerated "
    "from the working tree (tools/gen_sha.py -> Gen/GenSha.v); digest sizes from Gen/GenConsts.v",
    "SHA-512 / SHA-512/128 theorem carries len < 2^61 bytes (the code fills 64 of the 128 length bits); SHA-1 / SHA-256 unbounded",
    "LP64; extraction with ExtrOcamlBasic; OCaml driver ocaml/drv_c18.ml; harness/zh_c18.c in variants plain and bundled",
]

TYPES = ["sha1", "sha256", "sha512", "sha512_128"]
NWORK = max(2, min(12, vlib.NCPU - 2))


def py_digest(t, msg):
    if t == 0:
        return hashlib.sha1(msg).hexdigest()
    if t == 1:
        return hashlib.sha256(msg).hexdigest()
    if t == 2:
        return hashlib.sha512(msg).hexdigest()
    return hashlib.sha512(msg).hexdigest()[:32]


def cuts_str(cuts):
    return ",".join(str(c) for c in cuts) if cuts else "-"


def split_patterns(n, rng):
    """a few ways of cutting a message of n bytes into update calls"""
    pats = [[]]                                   # one call
    if 1 <= n <= 200:
        pats.append(list(range(1, n)))            # byte by byte
    elif n > 200:
        pats.append(list(range(1, 130)))          # 129 single bytes, then the rest
    for base in (64, 128):
        cs = [c for c in (base - 1, base, base + 1) if 0 < c < n]
        if cs:
            pats.append(cs)
    if n >= 2:
        k = rng.randrange(1, min(6, n))
        pats.append(sorted(rng.randrange(0, n + 1) for _ in range(k)))   # random, may repeat (empty pieces)
        pats.append([rng.randrange(1, n)])
    else:
        pats.append([0, 0])                       # empty pieces around the message
    out, seen = [], set()
    for p in pats:
        key = tuple(p)
        if key not in seen:
            seen.add(key)
            out.append(p)
    return out


def gen_groups(tier, rng):
    """groups of case lines; one group = one message (keeps the driver's spec cache warm).
    Each line comes with a flag: run the Coq side on it or only the two builds."""
    groups = []
    top = 300 if tier == "quick" else 1100
    for n in range(0, top + 1):
        msg = rng.rbytes(n)
        hx = vlib.hexs(msg)
        g = []
        for p in split_patterns(n, rng):
            for t in range(4):
                g.append(("H %d %s %s" % (t, hx, cuts_str(p)), True))
        groups.append(("len", n, msg, g))
    # structured messages at the boundaries: all-zero, all-0xff, 0x80 bytes (padding look-alikes)
    for n in (55, 56, 63, 64, 65, 111, 112, 119, 120, 127, 128, 129, 191, 192, 247, 248, 255, 256):
        for fill in (0x00, 0xff, 0x80):
            msg = bytes([fill]) * n
            g = [("H %d %s %s" % (t, vlib.hexs(msg), cuts_str(p)), True) for p in ([], [n - 1], [n // 2]) for t in range(4)]
            groups.append(("fill", n, msg, g))
    nlong = 200
    cap = 65536 if tier == "quick" else 262144
    for i in range(nlong):
        # log-uniform length
        n = int(301 * (cap / 301.0) ** rng.random())
        msg = rng.rbytes(n)
        hx = vlib.hexs(msg)
        tcoq = i % 4
        g = []
        for s in range(5):
            k = rng.choice([1, 2, 3, 5, 9, 17])
            cuts = sorted(rng.choice([rng.randrange(0, n + 1), 64 * rng.randrange(0, n // 64 + 1),
                                      128 * rng.randrange(0, n // 128 + 1) + rng.choice([-1, 0, 1])]) for _ in range(k))
            cuts = [min(max(c, 0), n) for c in cuts]
            for t in range(4):
                coq = (t == tcoq) and (s < (2 if tier == "quick" else 5))
                g.append(("H %d %s %s" % (t, hx, cuts_str(cuts)), coq))
        groups.append(("long", n, msg, g))
    # compression function on random blocks
    g = []
    for i in range(120 if tier == "quick" else 1500):
        g.append(("C 256 %s %s" % (rng.rbytes(32).hex(), rng.rbytes(64).hex()), True))
        g.append(("C 512 %s %s" % (rng.rbytes(64).hex(), rng.rbytes(128).hex()), True))
        g.append(("C 1 %s %s" % (rng.rbytes(20).hex(), rng.rbytes(64).hex()), True))
    for st, bl in ((bytes(32), bytes(64)), (b"\xff" * 32, b"\xff" * 64)):
        g.append(("C 256 %s %s" % (st.hex(), bl.hex()), True))
        g.append(("C 1 %s %s" % (st[:20].hex(), bl.hex()), True))
        g.append(("C 512 %s %s" % ((st + st).hex(), (bl + bl).hex()), True))
    groups.append(("compress", 0, b"", g))
    return groups


def run_model_parallel(model, lines, wd):
    """the extracted code is slow (binary N arithmetic): spread message groups over processes"""
    # lines: list of (group_index, line); keep a group's lines in one worker
    by_group = {}
    for gi, ln in lines:
        by_group.setdefault(gi, []).append(ln)
    order = sorted(by_group, key=lambda gi: -sum(len(x) for x in by_group[gi]))
    loads = [0] * NWORK
    parts = [[] for _ in range(NWORK)]
    for gi in order:
        w = loads.index(min(loads))
        parts[w].append(gi)
        loads[w] += sum(len(x) for x in by_group[gi])
    results = {}
    errs = []

    def work(w):
        cs = [ln for gi in parts[w] for ln in by_group[gi]]
        if not cs:
            return
        out, err = vlib.run_cases(model, cs, wd, "model%d" % w, timeout=3000)
        for c, o in zip(cs, out):
            results[c] = o
        if err.strip():
            errs.append(err)
    ths = [threading.Thread(target=work, args=(w,)) for w in range(NWORK)]
    for t in ths:
        t.start()
    for t in ths:
        t.join()
    return results, "\n".join(errs)


def describe(line):
    f = line.split()
    if f[0] == "H":
        n = 0 if f[2] == "-" else len(f[2]) // 2
        return "%s of a %d-byte message fed with cuts %s" % (TYPES[int(f[1])], n, f[3][:60])
    return "compression function %s" % f[1]


def key_of(line):
    f = line.split()
    if f[0] == "H":
        return "c18:%s:%s:%s" % (f[1], hashlib.sha256(f[2].encode()).hexdigest()[:16], f[3][:80])
    return "c18:C:%s:%s" % (f[1], hashlib.sha256(line.encode()).hexdigest()[:16])


def run(res, tier, only_case=None):
    rng = vlib.Rng(vlib.seed())
    res.rule = ("digest cases: every message length 0..300 (thorough 0..1100) x {one call, byte-wise, cuts at 63/64/65 and "
                "127/128/129, random cuts incl. empty pieces} x 4 digest types; 0x00/0xff/0x80-filled messages at the padding "
                "boundaries; 200 random messages up to 64 KiB (thorough 256 KiB) x 5 random cut lists x 4 types. Every case runs "
                "in the OpenSSL build and in the bundled build; the Coq spec and the Coq model of the bundled code run on all "
                "short cases and on a rotating type / 2 (thorough 5) cut lists of every long message; the rest of the long matrix is "
                "OpenSSL build vs bundled build vs hashlib. Compression functions: random state x block. File level: zck in both "
                "builds must write identical archives, unzck / zck_read_header of either build must read both identically. "
                "thorough: 2^29+ byte message (D29) and a single >1 GiB update. non-trivial = distinct (message, cuts, type) with "
                "at least 2 update calls or at least one full block")
    wd = vlib.scratch("C18")
    model = vlib.ensure_model("C18")
    plain = vlib.ensure_harness("zh_c18", "plain")
    bund = vlib.ensure_harness("zh_c18", "bundled")
    if only_case is not None and only_case.get("case", {}).get("kind") in ("long", "big", "file"):
        groups = []
    elif only_case is not None and only_case.get("case", {}).get("line"):
        groups = [("replay", 0, b"", [(only_case["case"]["line"], True)])]
    elif only_case is not None:
        groups = []
    else:
        corpus = os.path.join(vlib.VERIF, "corpus", "c18.txt")
        extra = [l.strip() for l in open(corpus)] if os.path.exists(corpus) else []
        groups = [("corpus", 0, b"", [(c, True) for c in extra if c and not c.startswith("#")])] + gen_groups(tier, rng)
    all_lines = [ln for _, _, _, g in groups for ln, _ in g]
    coq_lines = [(gi, ln) for gi, (_, _, _, g) in enumerate(groups) for ln, coq in g if coq]
    # C sides (fast) in the background of the model run
    cres = {}

    def run_c(tag, exe):
        cres[tag] = vlib.run_cases(exe, all_lines, wd, tag, timeout=3000)
    tp = threading.Thread(target=run_c, args=("plain", plain))
    tb = threading.Thread(target=run_c, args=("bundled", bund))
    tp.start()
    tb.start()
    mres, merr = run_model_parallel(model, coq_lines, wd)
    tp.join()
    tb.join()
    po, perr = cres["plain"]
    bo, berr = cres["bundled"]
    coqset = set(ln for _, ln in coq_lines)
    for ln, p, b in zip(all_lines, po, bo):
        res.evaluations += 1
        f = ln.split()
        if f[0] == "H":
            t = int(f[1])
            msg = vlib.unhex(f[2])
            ncalls = 1 if f[3] == "-" else f[3].count(",") + 2
            res.count("digest:%s:%s" % (TYPES[t], "short" if len(msg) <= 1100 else "long"))
            if ncalls >= 2 or len(msg) >= 64:
                res.nontrivial.add(ln if len(ln) < 200 else key_of(ln))
            third = py_digest(t, msg)
            case = {"line": ln, "openssl_build": p, "bundled_build": b, "hashlib": third}
            if ln in coqset:
                m = mres.get(ln, "NOTRUN")
                mm, spec = vlib.split_model(m)
                case.update({"coq_spec": spec, "coq_model": mm})
                if spec is None or len(spec) != len(third):
                    res.violation("harness", "c18-model:" + key_of(ln), "the extracted Coq functions did not answer for %s: %r %s"
                                  % (describe(ln), m, merr[-300:]), case)
                    continue
                for nm, v in (("OpenSSL", p), ("bundled", b)):
                    if v != spec:
                        res.violation("oracle", key_of(ln) + ":" + nm,
                                      "%s build: %s = %s, FIPS 180-4 (Coq ShaSpec) = %s" % (nm, describe(ln), v, spec), case)
                if spec != third:
                    res.violation("harness", "c18-spec-vs-hashlib:" + key_of(ln),
                                  "Coq ShaSpec and hashlib disagree on %s: %s vs %s" % (describe(ln), spec, third), case)
                if p == spec and b == spec and mm != b:
                    res.violation("correspondence", "c18-corr:" + key_of(ln),
                                  "model Hash/Bundled.v and the bundled build disagree on %s: model %s, code %s" % (describe(ln), mm, b), case)
            else:
                if p != b:
                    res.violation("oracle", key_of(ln) + ":builds",
                                  "the two builds disagree on %s: OpenSSL build %s, bundled build %s (hashlib %s)"
                                  % (describe(ln), p, b, third), case)
                elif p != third:
                    res.violation("oracle", key_of(ln) + ":both",
                                  "both builds give %s for %s, hashlib gives %s" % (p, describe(ln), third), case)
        elif f[0] == "C":
            res.count("compress:" + f[1])
            res.nontrivial.add(key_of(ln))
            m = mres.get(ln, "NOTRUN")
            mm, _ = vlib.split_model(m)
            if b != mm:
                res.violation("correspondence", "c18-compress:" + key_of(ln),
                              "the %s compression function of the bundled sources and the FIPS one (Coq) disagree: code %s, Coq %s"
                              % (f[1], b, mm), {"line": ln, "bundled_build": b, "coq": mm})
    for k in (0, len(all_lines) // 3, len(all_lines) // 2, len(all_lines) - 1):
        if all_lines:
            ln = all_lines[k]
            res.sample({"case": ln[:160], "openssl_build": po[k], "bundled_build": bo[k], "coq": mres.get(ln, "(builds only)")[:300]})
    if only_case is None or only_case.get("case", {}).get("kind") in ("long", "big", "file"):
        oc = only_case.get("case") if only_case else None
        if tier == "thorough" or (oc and oc.get("kind") in ("long", "big")):
            long_messages(res, plain, bund, wd, oc)
        if oc is None or oc.get("kind") == "file":
            file_level(res, tier, rng, wd, oc)
    if only_case is None or only_case.get("case", {}).get("kind") == "api":
        api_level(res, tier, rng, wd, only_case.get("case") if only_case else None)
    res.exhaustive = False
    vlib.shutil.rmtree(wd, ignore_errors=True)


def pattern_digest(t, total):
    h = [hashlib.sha1, hashlib.sha256, hashlib.sha512, hashlib.sha512][t]()
    blk = bytes((k * 31 + 7) & 0xff for k in range(1 << 20))
    done = 0
    while done < total:
        n = min(len(blk), total - done)
        h.update(blk[:n])
        done += n
    d = h.hexdigest()
    return d[:32] if t == 3 else d


def long_messages(res, plain, bund, wd, oc=None):
    """D29: messages of 2^29 bytes and more (32-bit length bookkeeping), and one update call
    larger than 1 GiB (size_t -> unsigned int at the bundled backend's boundary)"""
    cases = []
    if oc:
        cases = [oc["line"]]
    else:
        for t in range(4):
            cases.append("L %d %d %d" % (t, (1 << 29) + 77, 1 << 20))
        cases.append("L 1 %d %d" % ((1 << 29) - 1, 1 << 20))
        for t in (0, 1, 2):
            cases.append("B %d %d" % (t, (1 << 30) + 4096 + 13))
        # a size that does not fit the unsigned int parameter of the bundled update functions
        cases.append("B 1 %d" % ((1 << 32) + 5))
    po, _ = vlib.run_cases(plain, cases, wd, "plainL", timeout=3000)
    bo, _ = vlib.run_cases(bund, cases, wd, "bundledL", timeout=3000)
    for ln, p, b in zip(cases, po, bo):
        f = ln.split()
        t = int(f[1])
        res.evaluations += 1
        res.nontrivial.add(ln)
        res.count("long:" + f[0])
        if f[0] == "L":
            third = pattern_digest(t, int(f[2]))
            what = "%s of the %s-byte pattern message fed in %s-byte updates" % (TYPES[t], f[2], f[3])
        else:
            n = int(f[2])
            h = [hashlib.sha1, hashlib.sha256, hashlib.sha512, hashlib.sha512][t]()
            z = bytes(1 << 20)
            for _ in range(n >> 20):
                h.update(z)
            h.update(bytes(n & ((1 << 20) - 1)))
            third = h.hexdigest()[:32] if t == 3 else h.hexdigest()
            what = "%s of %d zero bytes in ONE hash_update call" % (TYPES[t], n)
        case = {"kind": "long" if f[0] == "L" else "big", "line": ln, "openssl_build": p, "bundled_build": b, "hashlib": third}
        if p != b or p != third:
            res.violation("oracle", "c18:%s" % ln.replace(" ", ":"),
                          "%s: OpenSSL build %s, bundled build %s, standard (hashlib) %s" % (what, p, b, third), case)
    if cases:
        res.sample({"case": cases[0], "openssl_build": po[0], "bundled_build": bo[0]})


def file_level(res, tier, rng, wd, oc=None):
    tools = {}
    for v in ("plain", "bundled"):
        for tl in ("zck", "unzck", "zck_read_header"):
            tools[(tl, v)] = vlib.ensure_tool(tl, v)
    inputs = []
    if oc:
        inputs = [(oc["name"], bytes.fromhex(oc["input_hex"]), oc["opts"])]
    else:
        sizes = [0, 1, 63, 64, 65, 4096, 70000, 300000] if tier == "quick" else [0, 1, 55, 56, 63, 64, 65, 127, 128, 129, 4096, 70000, 300000, 2000000]
        for i, n in enumerate(sizes):
            # compressible text-like data with repeats so that the chunker finds several chunks
            words = [rng.rbytes(rng.randrange(3, 12)).hex().encode() for _ in range(50)]
            data = b""
            while len(data) < n:
                data += rng.choice(words) + b" "
            data = data[:n]
            for opts in ([], ["-h", "sha1"], ["-h", "sha256"], ["-h", "sha512"], ["-h", "sha512_128"], ["-h", "sha256", "--compression-format=none"],
                         ["-u"], ["-m", "-s", "a"]):
                if tier == "quick" and i % 2 == 1 and len(opts) > 0 and opts[0] != "-h":
                    continue
                inputs.append(("in%d" % i, data, opts))
    env = dict(os.environ)
    for name, data, opts in inputs:
        d = os.path.join(wd, "f_%s_%d" % (name, abs(hash(tuple(opts))) % 100000))
        os.makedirs(d, exist_ok=True)
        src = os.path.join(d, name)
        with open(src, "wb") as f:
            f.write(data)
        arch, rcs, errs = {}, {}, {}
        for v in ("plain", "bundled"):
            out = os.path.join(d, name + "." + v + ".zck")
            p = subprocess.run([tools[("zck", v)]] + opts + ["-o", out, src], stdout=subprocess.PIPE, stderr=subprocess.PIPE, timeout=300, env=env)
            rcs[v] = p.returncode
            errs[v] = p.stderr.decode("utf-8", "replace")[-300:]
            arch[v] = open(out, "rb").read() if os.path.exists(out) else None
        res.evaluations += 1
        res.count("file:write")
        case = {"kind": "file", "name": name, "input_hex": data.hex() if len(data) <= 70000 else data[:70000].hex(), "opts": opts,
                "input_len": len(data)}
        key = "c18:file:%s:%d:%s" % ("_".join(opts) or "default", len(data), hashlib.sha256(data).hexdigest()[:12])
        if rcs["plain"] != rcs["bundled"]:
            res.violation("oracle", key + ":rc", "zck %s on a %d-byte input: exit %d in the OpenSSL build, %d in the bundled build (%s | %s)"
                          % (" ".join(opts), len(data), rcs["plain"], rcs["bundled"], errs["plain"], errs["bundled"]), case)
            continue
        if rcs["plain"] != 0:
            res.count("file:rejected-by-both")
            continue
        res.nontrivial.add(key)
        if arch["plain"] != arch["bundled"]:
            res.violation("oracle", key + ":bytes", "zck %s on a %d-byte input writes different archives in the two builds (%d vs %d bytes)"
                          % (" ".join(opts), len(data), len(arch["plain"] or b""), len(arch["bundled"] or b"")), case)
        # every archive read by every build
        outs = {}
        for wv in ("plain", "bundled"):
            a = os.path.join(d, name + "." + wv + ".zck")
            for rv in ("plain", "bundled"):
                p = subprocess.run([tools[("unzck", rv)], "-c", a], stdout=subprocess.PIPE, stderr=subprocess.PIPE, timeout=300, env=env)
                q = subprocess.run([tools[("zck_read_header", rv)], "-f", "-c", a], stdout=subprocess.PIPE, stderr=subprocess.PIPE, timeout=300, env=env)
                outs[(wv, rv)] = (p.returncode, hashlib.sha256(p.stdout).hexdigest(), q.returncode, hashlib.sha256(q.stdout).hexdigest())
                res.evaluations += 1
                res.count("file:read")
                if p.returncode != 0:
                    res.violation("oracle", key + ":read:%s:%s" % (wv, rv),
                                  "archive written by the %s build (zck %s, %d-byte input) read by the %s build: unzck exit %d (%s)"
                                  % (wv, " ".join(opts), len(data), rv, p.returncode, p.stderr.decode("utf-8", "replace")[-200:]), case)
                elif p.stdout != data:
                    # a round-trip loss common to both builds is not this property's subject (C01); differences
                    # between the builds are caught by the comparison of the four reads below
                    res.count("file:roundtrip-differs-from-input")
                if q.returncode != 0:
                    res.violation("oracle", key + ":verify:%s:%s" % (wv, rv),
                                  "archive written by the %s build does not validate under the %s build: zck_read_header -f exit %d (%s)"
                                  % (wv, rv, q.returncode, q.stderr.decode("utf-8", "replace")[-200:]), case)
        if len(set(outs.values())) > 1:
            res.violation("oracle", key + ":readdiff", "the builds read the archives of zck %s (%d-byte input) differently: %r"
                          % (" ".join(opts), len(data), outs), case)
    if inputs:
        res.sample({"case": "zck %s on %d bytes in both builds, 4 cross reads" % (" ".join(inputs[-1][2]), len(inputs[-1][1]))})


def api_level(res, tier, rng, wd, oc=None):
    """writer + reader through the library API in both builds, every (overall, chunk) checksum type pair - SHA-1 cannot be
    selected with the zck tool -: same result line in both builds, and the content comes back (a backend that damages the
    buffers it is given shows here, not in the digests)"""
    exe = {v: vlib.ensure_harness("zh_c01", v) for v in ("plain", "bundled")}
    cases = []
    if oc:
        cases = [(bytes.fromhex(oc["content_hex"]), oc["line"])]
    else:
        for ht in range(4):
            for cht in range(4):
                for comp, manual in ((0, 1), (2, 0), (2, 1), (0, 0)):
                    if tier == "quick" and (ht + cht + comp + manual) % 2 and not (ht == 0 or cht == 0):
                        continue
                    D = rng.rbytes(rng.choice([200, 3000])) + b"abcdefgh" * rng.choice([8, 900]) + rng.rbytes(70)
                    cuts = sorted(set(rng.randrange(1, len(D)) for _ in range(4))) + [len(D)]
                    ops, prev = [], 0
                    for c in cuts:
                        ops.append("W" + D[prev:c].hex())
                        if manual and rng.random() < 0.5:
                            ops.append("E")
                        prev = c
                    cases.append((D, "%d -1 %d 0 0 %d %d 0 - 0 %s %s" % (comp, manual, ht, cht, ",".join(ops), rng.choice(["64", "4096", "100,1"]))))
    lines = [c[1] for c in cases]
    outs = {}
    for v in ("plain", "bundled"):
        outs[v], _ = vlib.run_cases_resilient(exe[v], lines, wd, "api_" + v, env={"ZH_TMP": wd}, timeout=900)
    for (D, line), a, b in zip(cases, outs["plain"], outs["bundled"]):
        res.evaluations += 1
        res.count("api:ht%s:cht%s" % (line.split()[5], line.split()[6]))
        key = "c18:api:%s:%s" % ("_".join(line.split()[:8]), hashlib.sha256(line.encode()).hexdigest()[:10])
        case = {"kind": "api", "line": line, "content_hex": D.hex(), "openssl_build": a[-200:], "bundled_build": b[-200:]}
        res.nontrivial.add(key)
        want = "content=%s/%d" % (hashlib.sha256(D).hexdigest(), len(D))
        if a != b:
            res.violation("oracle", key, "writer+reader through the API (comp %s, manual %s, overall type %s, chunk type %s) give different results in the two builds: "
                          "OpenSSL %s | bundled %s" % (line.split()[0], line.split()[2], line.split()[5], line.split()[6], a[-120:], b[-120:]), case)
        elif want not in b or "close=1" not in b:
            res.violation("oracle", key, "writer+reader through the API (overall type %s, chunk type %s): the content does not come back in either build: %s"
                          % (line.split()[5], line.split()[6], b[-160:]), case)


def search(res, tier):
    """the proof side is broken (e.g. a tree whose sha2.c counts the length in 32 bits, D29):
    look for a concrete input on which the builds differ - the long messages"""
    wd = vlib.scratch("C18s")
    plain = vlib.ensure_harness("zh_c18", "plain")
    bund = vlib.ensure_harness("zh_c18", "bundled")
    oc = None
    if tier != "thorough":
        # the cheapest reproduction first: SHA-256 over 2^29 bytes
        one = vlib.Result(res.pid, tier)
        long_messages(one, plain, bund, wd, {"line": "L 1 %d %d" % (1 << 29, 1 << 20)})
        res.evaluations += one.evaluations
        res.violations += one.violations
        if one.violations:
            vlib.shutil.rmtree(wd, ignore_errors=True)
            return
        long_messages(res, plain, bund, wd, None)
    vlib.shutil.rmtree(wd, ignore_errors=True)
