"""C01 - round trip.  Library level: every configuration x content class x write/end-chunk
segmentation x read-size sequence through the real writer and reader (ASan), incl. a free
descriptor 0.  Tool level: the zck scanner model vs the real binary (props/c01tool.py).
Header level: the writer's header model vs the bytes the library emits (props/c01hw.py)."""
import hashlib, os
import vlib

THEOREMS = ["C01_write_terminates", "C01_chunks_are_the_content", "C01_segmentation_irrelevant", "C01_written_file_verifies_and_decodes", "C01_write_then_read_roundtrip",
            "C01_tool_scan_no_crash", "C01_tool_scan_preserves_content", "C01_tool_scan_end_before_split", "C01_tool_read_error_reported",
            "C01_refuted_index_over_int_max", "C01_refuted_index_over_int_max_witness"]
ASSUMPTIONS = [
    "zstd is an oracle: round trip zdecomp(zcomp x) = x is assumed by the theorems and tested by the run",
    "models: Chunk/Writer.v (chunker), Chunk/ZckTool.v (tool scanner), Format/HeaderWrite.v (header creation), Format/ParseImpl.v (reader header path); "
    "Read/CompRead.v (reader data path; completeness theorem read_complete)",
]

WORDS = [b"alpha", b"beta ", b"<text:", b"gamma\n", b"0123456789", b" ", b"zchunk"]


def content(rng, k):
    k = k % 12
    if k == 0:
        return b""
    if k == 1:
        return bytes([rng.randrange(256)])
    if k == 2:
        return rng.rbytes(rng.randrange(2, 48))
    if k == 3:
        return bytes([rng.randrange(256)]) * rng.choice([47, 48, 49, 8191, 8192, 40000, 140000])
    if k == 4:
        return rng.rbytes(rng.choice([100, 8192, 32768, 70000]))
    if k == 5:
        return b"".join(rng.choice(WORDS) for _ in range(rng.randrange(10, 20000)))
    if k == 6:
        return (rng.rbytes(300) * 400)[: rng.randrange(1000, 120000)]
    if k == 7:
        return rng.rbytes(rng.randrange(200000, 400000))
    if k == 8:
        return b"<text:" * rng.randrange(1, 50)
    if k == 9:
        return bytes(range(256)) * rng.randrange(1, 300)
    if k == 10:
        return b"".join(rng.choice(WORDS) for _ in range(300000 // 5))[:300000]
    return bytes(rng.choice([0, 0, 0, 255]) for _ in range(rng.randrange(1, 5000)))


def segment(rng, D, manual):
    """ops string: writes of D cut at random places, end-chunks sprinkled in"""
    n = len(D)
    mode = rng.choice(["one", "bytes", "4096", "random", "random", "endchunks"])
    cuts = []
    if mode == "one" or n == 0:
        cuts = []
    elif mode == "bytes" and n <= 3000:
        cuts = list(range(1, n))
    elif mode == "4096":
        cuts = list(range(4096, n, 4096))
    else:
        cuts = sorted(set(rng.randrange(1, n) for _ in range(rng.randrange(1, 12)))) if n > 1 else []
    parts, prev = [], 0
    for c in cuts + [n]:
        parts.append(D[prev:c]); prev = c
    ops = []
    for p in parts:
        if rng.random() < (0.3 if mode == "endchunks" or manual else 0.05):
            ops.append("E")
        if p or rng.random() < 0.1:
            ops.append("W" + (p.hex() if p else ""))
    if rng.random() < 0.2:
        ops.append("E")
    ops = [o for o in ops if o != "W"]
    return ",".join(ops) if ops else "-"


def gen(rng, tier):
    cases = []
    n = 260 if tier == "quick" else 3000
    for i in range(n):
        comp = rng.choice([0, 2])
        level = rng.choice([-1, -1, 1, 3, 19]) if comp == 2 else -1
        manual = rng.choice([0, 1])
        mn, mx = rng.choice([(0, 0), (0, 0), (0, 4096), (100, 9000), (8192, 8192), (1, 1), (0, 8192), (0, 100000), (200, 131072), (70000, 200000), (300, 300)])
        ht, cht = rng.randrange(4), rng.randrange(4)
        uflag = 1 if rng.random() < 0.2 else 0
        D = content(rng, i)
        if (mx and mx <= 300 and len(D) > 60000):
            D = D[:60000]
        dic = rng.rbytes(rng.choice([16, 200, 3000])) + D[:200] if rng.random() < 0.25 else b""
        fd0 = 1 if rng.random() < 0.15 else 0
        rs = rng.choice(["1", "7,1000", "32768", "1048576", "%d,%d" % (rng.randrange(1, 70000), rng.randrange(1, 500)), "4096,1,1,1,65536"])
        if len(D) > 5000 and rs == "1":
            rs = "3,1,2"
        if len(D) > 50000 and rs in ("1", "3,1,2"):
            rs = "977"
        cases.append((D, "%d %d %d %d %d %d %d %d %s %d %s %s" % (comp, level, manual, mn, mx, ht, cht, uflag, vlib.hexs(dic), fd0, segment(rng, D, manual), rs)))
    # large minimum chunk sizes around the default maximum (10 MiB), with and without an explicit maximum, and more than
    # the minimum written into one chunk.  A minimum above the default maximum with no maximum set may be refused (the
    # library compares against the default); when it is accepted the round trip must work.
    MiB = 1 << 20
    big = [(11 * MiB, 0, 12 * MiB, True), (10 * MiB, 0, 11 * MiB, True), (11 * MiB, 12 * MiB, 13 * MiB, False)]
    for (mn, mx, total, may_refuse) in big:
        for manual in (0, 1):
            unit = rng.rbytes(4093)
            cnt = total // len(unit)
            D = unit * cnt + b"tail"
            ops = "X%d:%s,W%s" % (cnt, unit.hex(), b"tail".hex())
            cases.append((D, "%d %d %d %d %d %d %d %d %s %d %s %s" % (rng.choice([0, 2]), -1, manual, mn, mx, 0, 0, 0, "-", 0, ops, "1048576"),
                          ) + ((True,) if may_refuse else ()))
    return cases


def expand(line):
    """content written by a case line (W<hex> and X<count>:<hex> operations)"""
    out = b""
    for o in line.split()[10].split(","):
        if o[0] == "W":
            out += bytes.fromhex(o[1:])
        elif o[0] == "X":
            c, hx = o[1:].split(":")
            out += bytes.fromhex(hx) * int(c)
    return out


def parse(line):
    d = {}
    for tok in line.split():
        if "=" in tok:
            k, v = tok.split("=", 1)
            d[k] = v
    return d


def library_part(res, tier, rng, only=None):
    impl = vlib.ensure_harness("zh_c01", "asan")
    wd = vlib.scratch("C01")
    cases = gen(rng, tier) if only is None else [(bytes.fromhex(only["content_hex"]) if only.get("content_hex") else expand(only["line"]), only["line"]) + ((True,) if only.get("may_refuse") else ())]
    lines = [c[1] for c in cases]
    io, errs = vlib.run_cases_resilient(impl, lines, wd, "lib", env={"ZH_TMP": wd}, timeout=3000, max_restarts=6)
    em = dict(errs)
    for k, (cs, o) in enumerate(zip(cases, io)):
        D, line = cs[0], cs[1]
        may_refuse = len(cs) > 2
        res.evaluations += 1
        d = parse(o)
        cfg = " ".join(line.split()[:10])
        key = "c01:lib:%s:%s" % (cfg.replace(" ", "_")[:60], hashlib.sha256(line.encode()).hexdigest()[:12])
        case = {"line": line if len(line) < 20000 else line[:200] + "...", "may_refuse": may_refuse, "content_hex": D.hex() if len(D) < 5000 else None, "impl": o[-300:], "cfg": cfg,
                "content_sha256": hashlib.sha256(D).hexdigest(), "content_len": len(D)}
        if len(D) > 1:
            res.nontrivial.add(key)
        res.count("lib:comp%s:manual%s:fd0=%s" % (line.split()[0], line.split()[2], line.split()[9]))
        if o == "MEMFAULT" or o.endswith("HANG") or o.startswith("DIED") or o == "NOTRUN":
            if o != "NOTRUN":
                res.violation("oracle", key, "round trip under [%s] ends in %s %s" % (cfg, o[-30:], vlib.san_summary(em.get(k, ""))[:300]), case)
            continue
        want = "%s/%d" % (hashlib.sha256(D).hexdigest(), len(D))
        if may_refuse and d.get("opts") == "0":
            res.count("lib:large-min-refused")
            continue
        if d.get("opts") != "1" or d.get("writes") != "1" or d.get("close") != "1":
            res.violation("oracle", key, "writer refuses or fails a legal configuration [%s]: %s" % (cfg, o[:120]), case)
        elif not (d.get("open") == "1" and d.get("v") == "1" and d.get("d") == "1" and d.get("rd") == "0" and d.get("rclose") == "1" and d.get("content") == want):
            res.violation("oracle", key, "successful close but the file does not read back: wrote %d bytes under [%s], got %s" % (len(D), cfg, o[o.find("open="):][:200]), case)
    if cases:
        res.sample({"cfg": " ".join(cases[0][1].split()[:10]), "content_len": len(cases[0][0]), "impl": io[0][:200]})
        res.sample({"cfg": " ".join(cases[-1][1].split()[:10]), "content_len": len(cases[-1][0]), "impl": io[-1][:200]})
    vlib.shutil.rmtree(wd, ignore_errors=True)


def run(res, tier, only_case=None):
    rng = vlib.Rng(vlib.seed())
    res.rule = ("library: random legal configurations (compression none/zstd at several levels, dictionary, manual/automatic chunking, min/max incl. "
                "max < 8 KiB and min > 128 KiB, 4x4 hash types, uncompressed-source flag, descriptor 0 free) x 12 content classes x write/end-chunk "
                "segmentations (1-byte writes, 4 KiB, random cuts) x read-size sequences; tool: split string at every alignment relative to the 32 KiB "
                "blocks and to short reads through a FIFO; header: model bytes vs library bytes. non-trivial = content longer than one byte")
    if only_case is not None:
        c = only_case["case"]
        if c.get("tool_case"):
            from props import c01tool
            return c01tool.run_tool_part(res, tier, only_case)
        if c.get("hw_case"):
            from props import c01hw
            return c01hw.run_header_part(res, tier, only_case)
        return library_part(res, tier, rng, c)
    library_part(res, tier, rng)
    from props import c01tool
    c01tool.run_tool_part(res, tier)
    try:
        from props import c01hw
    except ImportError:
        c01hw = None
    if c01hw is not None:
        c01hw.run_header_part(res, tier)
