"""C10 - missing-range requests.  Tie: extracted model (Dl/Range.v, Dl/RangeChar.v) vs the real
zck_get_missing_range / zck_get_range_count / zck_get_range_char / zck_get_range on targets whose
index is built in memory (plain and ASan/UBSan builds).  Oracle (independent of the model): the
property itself evaluated on the implementation's output - the range index must be a prefix of the
missing chunks that have bytes, the ranges the merged extents of exactly that prefix, count = number
of ranges, string = comma-joined start-end list - plus the extracted spec_missing_ranges."""
import hashlib
import vlib

THEOREMS = ["C10_separated", "C10_cover_prefix", "C10_prefix_of_missing", "C10_confined",
            "C10_refines_spec", "C10_add_is_append_or_merge", "C10_range_string",
            "C10_range_string_by_count", "C10_range_string_empty", "C10_range_string_safe",
            "C10_get_range", "C10_show_N_value"]
ASSUMPTIONS = [
    "models Dl/Range.v and Dl/RangeChar.v are hand transcriptions of src/lib/dl/range.c, tied by differential execution",
    "well-formed target (wf_table): header length > 0, chunk starts are the running sums of the stored sizes (what index_read.c builds), header + body < 2^64; size_t is 64 bit",
    "range->count (unsigned int) and chunk numbers do not wrap (fewer than 2^32 chunks)",
    "range string: total text <= INT_MAX*2/3 = 1431655764 characters (RC_TEXT_MAX; the buffer size is a C int) - any list of up to 34087042 ranges",
    "snprintf follows C99 (returns the untruncated length, stores at most room-1 characters and a NUL); malloc/realloc do not fail",
    "BUF_SIZE and the growth factor 3/2 regenerated from zck_private.h / range.c",
    "extraction with ExtrOcamlBasic; OCaml driver ocaml/drv_c10.ml; harness/zh_c10.c (plain and asan variants)",
]

LIMITS = [-1, 0, 1, 2, 3, 7, 127, 255]
U64 = 1 << 64

FAMILIES = {
    # name: (hdr(n), len(i, n))
    "equal":     (lambda n: 100, lambda i, n: 10),
    "distinct":  (lambda n: 95, lambda i, n: 3 + 7 * i),
    "emptydict": (lambda n: 1000, lambda i, n: 0 if i == 0 else 16),
    "zeromid":   (lambda n: 28, lambda i, n: [5, 0, 7, 0, 0, 9, 1, 0, 4, 6, 0, 8, 2, 0][i % 14]),
    "ones":      (lambda n: 9, lambda i, n: 1),
    "big":       (lambda n: 10 ** 18 - 5, lambda i, n: 10 ** 15 + 12345 * i),
    "top":       (lambda n: U64 - 1 - 7 * n, lambda i, n: 7),
    "dictzero2": (lambda n: 57, lambda i, n: 0 if i in (0, 1) else 40 + i),
}


class Case:
    __slots__ = ("line", "key", "kind", "hdr", "limit", "chunks", "items")

    def __init__(self, line, key, kind, hdr=None, limit=None, chunks=None, items=None):
        self.line, self.key, self.kind = line, key, kind
        self.hdr, self.limit, self.chunks, self.items = hdr, limit, chunks, items


def m_case(hdr, limit, lens, valids, key=None):
    toks = ["M", str(hdr), str(limit), str(len(lens))]
    for l, v in zip(lens, valids):
        toks.append(str(l))
        toks.append(str(v))
    line = " ".join(toks)
    chunks, run = [], 0
    for l, v in zip(lens, valids):
        chunks.append((run, l, v))
        run += l
    return Case(line, key or ("c10:" + line), "M", hdr, limit, chunks)


def t_case(hdr, limit, chunks):
    toks = ["T", str(hdr), str(limit), str(len(chunks))]
    for s, l, v in chunks:
        toks += [str(s), str(l), str(v)]
    line = " ".join(toks)
    return Case(line, "c10:" + line, "T", hdr, limit, chunks)


def c_case(items, key=None):
    toks = ["C", str(len(items))]
    for s, e in items:
        toks += [str(s), str(e)]
    line = " ".join(toks)
    return Case(line, key or ("c10:" + line), "C", items=items)


def g_case(s, e):
    line = "G %d %d" % (s, e)
    return Case(line, "c10:" + line, "G", items=[(s, e)])


# ---------------------------------------------------------------- independent oracle
def fetchable(chunks):
    return [(i, s, l) for i, (s, l, v) in enumerate(chunks) if v == 0 and l > 0]


def merged(hdr, cov):
    out = []
    for (_, s, l) in cov:
        a, b = hdr + s, hdr + s + l - 1
        if out and out[-1][1] + 1 == a:
            out[-1][1] = b
        else:
            out.append([a, b])
    return [tuple(x) for x in out]


def join(items):
    return ",".join("%d-%d" % (a, b) for a, b in items)


def parse_result(line):
    """'R <count> <items> I <index> S <string>' -> (count, items, index, string) or None"""
    t = line.split(" ")
    if len(t) != 7 or t[0] != "R" or t[3] != "I" or t[5] != "S":
        return None
    try:
        count = int(t[1])
        items = [] if t[2] == "-" else [tuple(int(x) for x in p.split("-")) for p in t[2].split(";")]
        index = [] if t[4] == "-" else [tuple(int(x) for x in p.split(":")) for p in t[4].split(";")]
    except ValueError:
        return None
    return count, items, index, ("" if t[6] == "-" else t[6])


def oracle_m(c, out):
    """the property on the implementation's answer; returns None or a description"""
    r = parse_result(out)
    if r is None:
        return "no result (%s)" % out[:80]
    count, items, index, string = r
    F = fetchable(c.chunks)
    # the index must list missing chunks in file order with their stored sizes; the ones that
    # have bytes must be a prefix of all missing chunks that have bytes (an entry for a missing
    # chunk without bytes is neither required nor forbidden by the property)
    last = -1
    for (num, size) in index:
        if num <= last or num >= len(c.chunks) or c.chunks[num][2] != 0 or c.chunks[num][1] != size:
            return "range index entry %d:%d is not a missing chunk with that stored size, in file order (index %s)" % (num, size, index[:6])
        last = num
    withbytes = [e for e in index if e[1] > 0]
    k = len(withbytes)
    if k > len(F) or withbytes != [(i, l) for (i, _, l) in F[:k]]:
        return "range index %s is not a prefix of the missing chunks %s" % (index[:6], [(i, l) for (i, _, l) in F[:6]])
    want = merged(c.hdr, F[:k])
    if items != want:
        return "ranges %s are not the merged extents %s of the %d covered chunks" % (items[:6], want[:6], k)
    if c.limit < 0 and k != len(F):
        return "unlimited request covers %d of %d missing chunks" % (k, len(F))
    if F and k == 0:
        return "nothing requested although %d chunks are missing" % len(F)
    if c.limit >= 0 and len(items) > max(c.limit, 1):
        return "%d ranges for limit %d" % (len(items), c.limit)
    if count != len(items):
        return "zck_get_range_count = %d for %d ranges" % (count, len(items))
    if string != join(items):
        return "range string differs from the joined ranges (length %d, expected %d; first difference at %d)" % (
            len(string), len(join(items)), next((i for i, (x, y) in enumerate(zip(string, join(items))) if x != y), min(len(string), len(join(items)))))
    return None


def oracle_c(c, out):
    if not out.startswith("S "):
        return "no result (%s)" % out[:80]
    s = out[2:]
    s = "" if s == "-" else s
    w = join(c.items)
    if s != w:
        return "range string differs from the joined ranges (length %d, expected %d; first difference at %d)" % (
            len(s), len(w), next((i for i, (x, y) in enumerate(zip(s, w)) if x != y), min(len(s), len(w))))
    return None


# ---------------------------------------------------------------- generation
def text_widths(items):
    return [len("%d-%d," % it) for it in items]


def edge_table(rng, target):
    """table whose rendered text has exactly `target` characters after some item.  Every missing
    chunk is a range of its own (a valid chunk follows); k1 ranges with 6-digit offsets (14
    characters), for an odd target one range from 99999x to 100000y (15 characters), then k2 ranges
    with 7-digit offsets (16 characters): 14*k1 + 16*k2 (+15) = target."""
    odd = target % 2
    t2 = (target - 15 * odd) // 2                  # 7*k1 + 8*k2
    k1 = (7 * t2) % 8
    k1 += 8 * rng.randrange(0, max(1, (t2 // 7 - k1) // 8 // 2))
    k2 = (t2 - 7 * k1) // 8
    assert k1 >= 0 and k2 >= 0 and 14 * k1 + 16 * k2 + 15 * odd == target
    hdr = 100000 + rng.randrange(0, 50)
    lens, valids = [], []
    pos = hdr

    def add(l, v):
        nonlocal pos
        lens.append(l)
        valids.append(v)
        pos += l
    if rng.random() < 0.5:
        add(0, 0)                                   # empty dictionary entry, missing
    for _ in range(k1):
        add(rng.randrange(1, 30), 0)
        add(rng.randrange(1, 30), rng.choice([1, 1, -1]))
    assert pos < 999000
    if odd:
        add(999990 + rng.randrange(0, 8) - pos, 1)
        add(rng.randrange(12, 30), 0)               # 99999x-100000y
        add(rng.randrange(1, 30), 1)
    else:
        add(1000000 + rng.randrange(0, 50) - pos, 1)
    for _ in range(k2 + rng.randrange(3, 40)):
        add(rng.randrange(1, 30), 0)
        add(rng.randrange(1, 30), rng.choice([1, 1, -1]))
    assert pos < 9999000
    chunks, run = [], 0
    for l, v in zip(lens, valids):
        chunks.append((run, l, v))
        run += l
    acc, hit = 0, False
    for w in text_widths(merged(hdr, fetchable(chunks))):
        acc += w
        hit = hit or acc == target
    assert hit, target
    return hdr, lens, valids


def edge_list(target, after=5):
    """hand-built item list: 10-character items, then one item sized so that the text ends
    exactly at `target`, then a few more"""
    items = []
    acc = 0
    while acc + 10 + 4 <= target - 4:
        items.append((1000, 1999))
        acc += 10
    rest = target - acc           # 4 <= rest < 18+...
    # item "a-b," with len = rest
    da = max(1, (rest - 2) // 2)
    db = rest - 2 - da
    items.append((10 ** (da - 1), 10 ** db - 1))
    acc += len("%d-%d," % items[-1])
    assert acc == target, (acc, target)
    for i in range(after):
        items.append((5000 + 10 * i, 5005 + 10 * i))
    return items


def gen_cases(tier, rng):
    cases = []
    nmax = 10 if tier == "quick" else 12
    # ---- every validity vector over {missing, valid} for every family and size, all limits
    for fam, (fh, fl) in FAMILIES.items():
        top = nmax - 2 if fam in ("big", "top") else nmax      # 20-digit rendering is slow in the model
        for n in range(1, top + 1):
            lens = [fl(i, n) for i in range(n)]
            hdr = fh(n)
            for bits in range(1 << n):
                valids = [(bits >> i) & 1 for i in range(n)]
                for lim in LIMITS:
                    cases.append(m_case(hdr, lim, lens, valids))
            # failed chunks (-1) and other non-zero flags
            for _ in range(40 if tier == "quick" else 200):
                valids = [rng.choice([0, 0, 1, -1, -1, 2, -7]) for _ in range(n)]
                cases.append(m_case(hdr, rng.choice(LIMITS + [-2, 4, 2147483647, -2147483648]), lens, valids))
    cases.append(m_case(100, -1, [], []))
    cases.append(m_case(100, 0, [], []))
    # ---- random medium tables
    for _ in range(2000 if tier == "quick" else 20000):
        n = rng.randrange(1, 60)
        hdr = rng.choice([1, 9, 28, 99, 100, 12345, 10 ** 9, 10 ** 18])
        lens = [rng.choice([0, 1, 2, 9, 10, 100, rng.randrange(1, 5000), rng.randrange(1, 10 ** 6)]) for _ in range(n)]
        p = rng.random()
        valids = [0 if rng.random() < p else rng.choice([1, 1, -1]) for _ in range(n)]
        cases.append(m_case(hdr, rng.choice(LIMITS), lens, valids))
    # ---- tables the parser cannot produce (arbitrary starts): the general insertion walk,
    #      correspondence only
    for _ in range(4000 if tier == "quick" else 40000):
        n = rng.randrange(1, 7)
        hdr = rng.choice([1, 50, 100])
        chunks = [(rng.choice([0, 5, 10, 10, 20, 30, 40, rng.randrange(0, 60)]), rng.choice([0, 1, 5, 10, 10, 11, 20, rng.randrange(0, 40)]),
                   rng.choice([0, 0, 0, 1])) for _ in range(n)]
        cases.append(t_case(hdr, rng.choice(LIMITS), chunks))
    # size_t wrap-around in range_add (start + header, end) - correspondence only
    for _ in range(300 if tier == "quick" else 3000):
        n = rng.randrange(1, 5)
        hdr = rng.choice([1, 50, 100])
        chunks = [(rng.choice([0, 10, U64 - 120, U64 - 100, U64 - 60, U64 - 50, U64 - 1]), rng.choice([1, 10, 49, 50, 51, 100, 200]),
                   rng.choice([0, 0, 0, 1])) for _ in range(n)]
        cases.append(t_case(hdr, rng.choice(LIMITS), chunks))
    # ---- buffer edges: the text reaches exactly 32768 / 49152 / 73728 (+-1) after an item
    targets = [s + d for s in (32768, 49152, 73728) for d in (-1, 0, 1)]
    for tg in targets:
        # the model replays the quadratic list walk: the quick tier takes the three tables around
        # 32768 and the exact hits of 49152 and 73728, the thorough tier all nine, four times
        reps = 4 if tier == "thorough" else (1 if tg in (32767, 32768, 32769, 49152, 73728) else 0)
        for rep in range(reps):
            hdr, lens, valids = edge_table(rng, tg)
            cases.append(m_case(hdr, -1, lens, valids, key="c10:edge-table:%d:seed%d:rep%d" % (tg, vlib.seed(), rep)))
        cases.append(c_case(edge_list(tg), key="c10:edge-list:%d" % tg))
    for tg in (32766, 32770, 49150, 49154, 110592, 110591, 110593, 165888):
        cases.append(c_case(edge_list(tg), key="c10:edge-list:%d" % tg))
    # the design-phase witness for D12 / D8
    cases.append(c_case([(1000, 1999)] * 3276 + [(10, 1999)] + [(5000 + 10 * i, 5005 + 10 * i) for i in range(5)],
                        key="c10:edge-list:D12-witness"))
    cases.append(c_case([], key="c10:empty-list"))
    cases.append(c_case([(0, 0)]))
    cases.append(c_case([(U64 - 1, U64 - 1)]))
    cases.append(c_case([(7, 3)]))
    cases.append(c_case([(U64 - 1 - i, U64 - 1) for i in range(4000)], key="c10:list-4000x42"))
    cases.append(c_case([(i, i) for i in range(0, 30000, 2)], key="c10:list-15000-short"))
    for s, e in [(0, 0), (0, 100), (5, U64 - 1), (U64 - 1, 0), (12345678901234567890, 12345678901234567891)]:
        cases.append(g_case(s, e))
    # ---- large tables
    big = [(8000, 0.5)] if tier == "quick" else [(20000, 0.5), (20000, 0.9), (20000, 0.1), (15000, 0.5), (20000, 0.5)]
    for bi, (n, p) in enumerate(big):
        hdr = rng.choice([313, 10 ** 6, 10 ** 12])
        lens = [rng.choice([0, 1, rng.randrange(1, 70000)]) if rng.random() < 0.05 else rng.randrange(1, 70000) for _ in range(n)]
        valids = [0 if rng.random() < p else 1 for _ in range(n)]
        for lim in ([-1, 255] if tier == "quick" else [-1, 255, 127, 7]):
            cases.append(m_case(hdr, lim, lens, valids, key="c10:big-table:%d:seed%d:lim%d" % (bi, vlib.seed(), lim)))
    # alternating: every missing chunk its own range (the most ranges a table can give)
    n = 20000 if tier == "thorough" else 4000
    cases.append(m_case(1000, -1, [100] * n, [i % 2 for i in range(n)], key="c10:alternating:%d" % n))
    return cases


def case_from_line(line, key=None):
    toks = line.split()
    k = toks[0]
    if key and not key.startswith("c10:"):
        key = "c10:" + key.split(":", 1)[1] if ":" in key else None
    if k == "M":
        n = int(toks[3])
        return m_case(int(toks[1]), int(toks[2]), [int(x) for x in toks[4:4 + 2 * n:2]], [int(x) for x in toks[5:5 + 2 * n:2]], key=key)
    if k == "T":
        n = int(toks[3])
        return t_case(int(toks[1]), int(toks[2]), [(int(toks[4 + 3 * i]), int(toks[5 + 3 * i]), int(toks[6 + 3 * i])) for i in range(n)])
    if k == "C":
        n = int(toks[1])
        return c_case([(int(toks[2 + 2 * i]), int(toks[3 + 2 * i])) for i in range(n)], key=key)
    return g_case(int(toks[1]), int(toks[2]))


# ---------------------------------------------------------------- running
def run_resilient(exe, lines, wd, tag):
    """run_cases that survives a crash of the harness: the case it died on keeps the crash marker,
    the cases behind it are run in a new process"""
    out, errs, rounds = [], "", 0
    todo = list(lines)
    while todo and rounds < 4000:
        o, err = vlib.run_cases(exe, todo, wd, "%s%d" % (tag, rounds))
        rounds += 1
        n_done = len(o)
        for j, x in enumerate(o):
            if x == "NOTRUN":
                n_done = j
                break
        out += o[:n_done]
        if n_done < len(todo):
            errs += err[-1500:]
        todo = todo[n_done:]
    out += ["NOTRUN"] * len(todo)
    return out, errs


def run(res, tier, only_case=None):
    rng = vlib.Rng(vlib.seed())
    res.rule = ("all validity vectors {missing,valid}^n for n<=10 (thorough 12) over 8 table families (equal/distinct sizes, empty "
                "dictionary entry, zero-length chunks in the middle, 1-byte chunks, 19-20 digit offsets, body ending at 2^64-2) x limits "
                "{-1,0,1,2,3,7,127,255}; vectors with failed (-1) chunks; random tables <60 chunks; tables of up to 20000 chunks incl. ones "
                "whose rendered text reaches 32768/49152/73728 (+-1) exactly after an item; hand-built range lists at the same edges, empty, "
                "4000 x 42 characters; tables with arbitrary starts for the general insertion walk (correspondence only). "
                "non-trivial = distinct (table, vector, limit) with at least two missing chunks that have bytes")
    if only_case is not None:
        cases = [case_from_line(only_case["case"]["line"], only_case.get("key"))]
    else:
        cp = vlib.os.path.join(vlib.VERIF, "corpus", "c10.txt")
        corpus = [l.strip() for l in open(cp)] if vlib.os.path.exists(cp) else []
        cases = [case_from_line(l) for l in corpus if l and not l.startswith("#")] + gen_cases(tier, rng)
    model = vlib.ensure_model("C10")
    impl = vlib.ensure_harness("zh_c10", "plain")
    impl_asan = vlib.ensure_harness("zh_c10", "asan")
    wd = vlib.scratch("C10")
    lines = [c.line for c in cases]
    mo, merr = vlib.run_cases(model, lines, wd, "model", timeout=1500)
    io, ierr = run_resilient(impl, lines, wd, "impl")
    # sanitized build: every small case on a stride, every list / edge / large case
    step = 5 if tier == "quick" else 2
    sub = [i for i, c in enumerate(cases) if c.kind in ("C", "G") or len(c.line) > 400 or i % step == 0]
    ao, aerr = run_resilient(impl_asan, [lines[i] for i in sub], wd, "asan")
    aso = dict(zip(sub, ao))

    def short(c):
        return c.line if len(c.line) <= 300 else c.line[:120] + " ...(%d characters)" % len(c.line)

    for idx, (c, m, i) in enumerate(zip(cases, mo, io)):
        res.evaluations += 1
        mres, spec = vlib.split_model(m)
        res.count("case:" + c.kind)
        notwf = spec is not None and spec.endswith(" NOTWF")
        if notwf:
            spec = spec[:-6]
        a = aso.get(idx)
        if a is not None and a != i:
            res.violation("oracle", c.key.replace("c10:", "c10-asan:", 1),
                          "sanitized build faults or differs on %s: %r vs %r %s" % (short(c), a[:120], i[:120], aerr[-300:] if a in ("MEMFAULT",) else ""),
                          {"line": c.line, "impl": i[:2000], "asan": a[:2000]})
        if c.kind == "M":
            F = fetchable(c.chunks)
            if len(F) >= 2:
                res.nontrivial.add(c.key)
            r = parse_result(i)
            if r:
                res.count("ranges:%s" % ("0" if not r[1] else "1" if len(r[1]) == 1 else "2-7" if len(r[1]) < 8 else "8-255" if len(r[1]) < 256 else ">255"))
                res.count("limit:%d" % c.limit)
                if len(r[3]) >= 32768:
                    res.count("string>=32768")
            bad = oracle_m(c, i)
            if bad:
                res.violation("oracle", c.key, "zck_get_missing_range/zck_get_range_char on %s: %s" % (short(c), bad),
                              {"line": c.line, "impl": i[:4000], "spec": (spec or "")[:4000]})
            elif i != spec:
                res.violation("correspondence", c.key.replace("c10:", "c10-spec:", 1),
                              "the request satisfies the property but differs from spec_missing_ranges on %s: %r vs %r" % (short(c), i[:200], (spec or "")[:200]),
                              {"line": c.line, "impl": i[:4000], "spec": (spec or "")[:4000]})
            if not bad and i != mres:
                res.violation("correspondence", c.key.replace("c10:", "c10-corr:", 1),
                              "model Range.missing_range/RangeChar.range_char and range.c disagree on %s: model %r, code %r" % (short(c), mres[:200], i[:200]),
                              {"line": c.line, "impl": i[:4000], "model": mres[:4000]})
        elif c.kind == "T":
            if i != mres:
                res.violation("correspondence", c.key.replace("c10:", "c10-corr:", 1),
                              "model and range.c disagree on the table with arbitrary starts %s: model %r, code %r" % (short(c), mres[:200], i[:200]),
                              {"line": c.line, "impl": i[:4000], "model": mres[:4000]})
        else:
            if len(c.items) >= 2:
                res.nontrivial.add(c.key)
            bad = oracle_c(c, i)
            if bad:
                res.violation("oracle", c.key, "zck_get_range_char on %s: %s" % (short(c), bad),
                              {"line": c.line, "impl": i[:4000], "spec": (spec or "")[:4000]})
            elif i != mres or (spec is not None and i != spec):
                res.violation("correspondence", c.key.replace("c10:", "c10-corr:", 1),
                              "model RangeChar.range_char and zck_get_range_char disagree on %s: model %r, code %r" % (short(c), mres[:200], i[:200]),
                              {"line": c.line, "impl": i[:4000], "model": mres[:4000]})
    for k in (0, len(cases) // 3, len(cases) // 2, len(cases) - 1):
        if cases:
            res.sample({"case": cases[k].line[:300], "impl": io[k][:300], "model": mo[k][:300]})
    res.extra["asan_cases"] = len(sub)
    res.exhaustive = False
    vlib.shutil.rmtree(wd, ignore_errors=True)
