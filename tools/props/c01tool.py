"""C01, command-line half: the input scanner of the `zck` tool (split strings, read blocks).

Tie: the extracted model Chunk/ZckTool.v (zck_scan: split string x list of read() results ->
sequence of zck_write / zck_end_chunk calls) against the REAL `zck` binary (ASan+UBSan build of
the working tree).  The input is fed through a FIFO whose writer hands over one block at a time
and waits until the reader has consumed it, so every read() of the tool returns exactly the
intended block (checked with strace on a sample); the natural 32 KiB blocking is also exercised
with regular files.

Direct oracle (independent of the model): exit status 0  =>  `unzck -c` of the archive gives back
exactly the input; a valid input never makes the tool fail or fault; an unreadable input (a
directory: read() = -1/EISDIR) never gives exit status 0.
Correspondence: with -m (manual chunking) the chunk table of the archive (`zck_read_header -c`)
is exactly the model's segmentation (sizes of the payload between TEnd calls, empty chunks not
emitted); without -m every model boundary is a chunk boundary of the archive.

Used by the C01 check module through run_tool_part(res, tier, only_case=None); runnable alone:
  VERIF_REPO=... python3 tools/props/c01tool.py [quick|thorough]"""
import fcntl, json, os, re, struct, subprocess, sys, termios, time
from concurrent.futures import ThreadPoolExecutor

if __name__ == "__main__":
    sys.path.insert(0, os.path.dirname(os.path.dirname(os.path.abspath(__file__))))
import vlib

THEOREMS_TOOL = ["zck_scan_no_crash", "zck_scan_preserves_content", "zck_scan_end_before_split",
                 "zck_scan_cut_at_occurrence", "zck_scan_nosplit", "zck_scan_correct",
                 "zck_tool_eof", "zck_tool_read_error"]
ASSUMPTIONS_TOOL = [
    "model Chunk/ZckTool.v is a hand transcription of the read loop of src/zck.c:main (after the D21/D22/D23/D27 "
    "fixes), tied to the real zck binary by differential execution over controlled read() partitions",
    "the tool's library calls are assumed to succeed (failing zck_write/zck_end_chunk exit(1)); what they do is the "
    "library half of C01",
    "l, start, matched, in_size are mathematical integers in the model: in_size <= BUF_SIZE = 32768 and "
    "split_size < BUF_SIZE (option parser), so int/ssize_t cannot overflow",
    "FIFO feeding: one write per block, next block only after FIONREAD = 0 on the pipe; partition confirmed by "
    "strace on a sample of cases per run",
]

BUF = 32768
S_TEXT = b"<text:"
PFX = "c01tool:"

# option sets: (tag, argv part, manual?)
def opt_sets(dict_path):
    out = []
    for comp in ("none", "zstd"):
        for m in (True, False):
            for u in (False, True):
                for d in (False, True):
                    tag = comp + ("-m" if m else "") + ("-u" if u else "") + ("-D" if d else "")
                    args = ["--compression-format", comp] + (["-m"] if m else []) + (["-u"] if u else []) \
                        + (["-D", dict_path] if d else [])
                    out.append((tag, args, m))
    return out


class Case:
    __slots__ = ("name", "content", "blocks", "split", "opt", "kind")

    def __init__(self, name, content, blocks, split, kind):
        self.name, self.content, self.blocks, self.split, self.kind = name, bytes(content), blocks, split, kind
        self.opt = None
        if blocks is not None:
            assert sum(blocks) == len(content) and all(0 < b <= BUF for b in blocks), name

    def block_bytes(self):
        """the read() results the tool sees"""
        if self.blocks is None:       # regular file: natural blocking
            return [self.content[i:i + BUF] for i in range(0, len(self.content), BUF)]
        out, p = [], 0
        for b in self.blocks:
            out.append(self.content[p:p + b])
            p += b
        return out

    def key(self):
        return PFX + self.name + ":" + self.opt[0]

    def to_json(self):
        return {"tool_case": True, "name": self.name, "content": vlib.hexs(self.content), "blocks": self.blocks,
                "split": None if self.split is None else vlib.hexs(self.split), "opt": self.opt[0], "kind": self.kind}


def filler(n, salt=0):
    """n bytes of text that contain none of the bytes of the split strings used here"""
    base = b"The quick brown fox jumps over the lazy dog 0123456789\n"
    base = bytes(c for c in base if c not in b"<text:ab\xff\xfe")
    s = (base * (n // len(base) + 2))
    return s[salt % 17: salt % 17 + n]


def partitions_around(total, cut_points):
    """blocks with boundaries exactly at the given sorted cut points (each piece <= BUF)"""
    pts = [0] + [c for c in sorted(set(cut_points)) if 0 < c < total] + [total]
    out = []
    for a, b in zip(pts, pts[1:]):
        n = b - a
        while n > BUF:
            out.append(BUF)
            n -= BUF
        if n:
            out.append(n)
    return out


def random_partition(rng, total, sizes):
    out, left = [], total
    while left > 0:
        n = min(left, rng.choice(sizes))
        out.append(n)
        left -= n
    return out


def gen_cases(tier, rng):
    C = []
    S = S_TEXT
    n = len(S)
    thorough = tier == "thorough"
    # -- 1. split string at every small offset of the first block (D21 is offset 1)
    for off in range(0, 9):
        body = filler(off) + S + b"tail of the data\n"
        C.append(Case("off%d:file" % off, body, None, S, "offset"))
        C.append(Case("off%d:fifo1" % off, body, [len(body)], S, "offset"))
        C.append(Case("off%d:twice" % off, filler(off) + S + filler(off, 3) + S + b"z", None, S, "offset"))
    # -- 2. split string around the 32 KiB block edge, natural blocks (file and FIFO) and a short first block
    for d in range(-n - 2, 4):
        pos = BUF + d
        body = filler(pos, d) + S + filler(50, 5)
        C.append(Case("edge%+d:file" % d, body, None, S, "edge"))
        C.append(Case("edge%+d:fifo32k" % d, body, partitions_around(len(body), [BUF]), S, "edge"))
        if thorough or d % 2 == 0:
            # second block edge, and a block edge at offset 1 of a later block (D21 in block 2)
            body2 = filler(2 * BUF + d, d + 1) + S + filler(9)
            C.append(Case("edge2%+d:file" % d, body2, None, S, "edge"))
    for off in (0, 1, 2, 7):
        body = filler(BUF + off, off) + S + filler(30) + S
        C.append(Case("blk2off%d:file" % off, body, None, S, "edge"))
    # -- 3. short blocks: a block boundary at every position inside the split string, two boundaries inside it,
    #       1-byte blocks through the whole split string (D23 needs a block inside a carried match)
    for pre in (0, 1, 2, 10):
        for cut in range(0, n + 1):
            body = filler(pre) + S + b"tail"
            C.append(Case("cut%d@%d" % (pre, cut), body, partitions_around(len(body), [pre + cut]), S, "short"))
        for c1 in range(1, n):
            for c2 in range(c1 + 1, n):
                if thorough or (c1 + c2 + pre) % 3 == 0:
                    body = filler(pre) + S + b"tail"
                    C.append(Case("cut2_%d@%d,%d" % (pre, c1, c2), body,
                                  partitions_around(len(body), [pre + c1, pre + c2]), S, "short"))
        body = filler(pre) + S + b"tail"
        C.append(Case("bytes%d" % pre, body, [1] * len(body), S, "short"))
        C.append(Case("bytes%d:S-only" % pre, body, partitions_around(len(body), [pre + k for k in range(0, n + 1)]), S, "short"))
    C.append(Case("d23:13,2,5", b"aaaaaaaaaa<text:tail", [13, 2, 5], S, "short"))
    # -- 4. a carried partial match that fails in a later block (the withheld bytes come from the split string)
    for k in range(1, n):
        for j in range(0, n - k):
            # k bytes of S end block 1, j more bytes of S then a mismatch in block 2
            body = filler(5) + S[:k] + S[k:k + j] + b"X" + filler(4) + S + b"e"
            C.append(Case("fail%d+%d" % (k, j), body, partitions_around(len(body), [5 + k]), S, "carry-fail"))
            if j >= 1 and (thorough or (k + j) % 2 == 0):
                C.append(Case("fail%d+%d:3blk" % (k, j), body, partitions_around(len(body), [5 + k, 5 + k + j]), S, "carry-fail"))
    # -- 5. input ending in every proper prefix of the split string (D22), also carried across blocks
    for k in range(1, n):
        body = filler(7) + S[:k]
        C.append(Case("endpfx%d:file" % k, body, None, S, "end-prefix"))
        C.append(Case("endpfx%d:bytes" % k, body, [1] * len(body), S, "end-prefix"))
        C.append(Case("endpfx%d:after-split" % k, filler(3) + S + b"mid" + S[:k], None, S, "end-prefix"))
        C.append(Case("endpfx%d:only" % k, S[:k], None, S, "end-prefix"))
        body = filler(BUF - k + (k // 2)) + S[:k]
        C.append(Case("endpfx%d:edge" % k, body, None, S, "end-prefix"))
    # -- 6. repeated split strings, at the very start / end, overlapping candidates (naive matcher)
    C.append(Case("b2b:3", S * 3, None, S, "repeat"))
    C.append(Case("b2b:3:bytes", S * 3, [1] * (3 * n), S, "repeat"))
    C.append(Case("b2b:5mid", b"head" + S * 5 + b"t", None, S, "repeat"))
    C.append(Case("b2b:7s", S * 4, random_partition(rng, 4 * n, [7]), S, "repeat"))
    C.append(Case("only-split", S, None, S, "repeat"))
    C.append(Case("ends-with-split", b"abc" + S, None, S, "repeat"))
    for nm, body in (("ll", b"<<text:rest"), ("te", b"<te<text:rest"), ("text", b"<text<text:rest"),
                     ("x-ll", b"x<<text:<text:y"), ("colon", b"<text<<text::<text:")):
        C.append(Case("overlap-" + nm, body, None, S, "overlap"))
        C.append(Case("overlap-" + nm + ":bytes", body, [1] * len(body), S, "overlap"))
        C.append(Case("overlap-" + nm + ":3s", body, random_partition(rng, len(body), [3]), S, "overlap"))
    # -- 7. other split strings: 1 byte, 2 bytes, self-overlapping, long, bytes >= 0x80 (char signedness)
    others = [b"a", b"ab", b"aab", b"abab", b"\xff\xfe", b"\n", b"0123456789abcdefghijklmnopqrstuvwxyzABCDEF"]
    for s in others:
        t = s.hex()[:8]
        bodies = [filler(3) + s + filler(5) + s, s + s + filler(1) + s[:-1] + filler(2) + s, filler(1) + s,
                  filler(6) + s[:max(1, len(s) - 1)]]
        if s == b"aab":
            bodies += [b"aaab", b"aaaab--aab", b"xaaabaab"]
        if s == b"abab":
            bodies += [b"ababab", b"abaabab", b"xabababab"]
        for i, body in enumerate(bodies):
            C.append(Case("alt-%s:%d:file" % (t, i), body, None, s, "other-split"))
            C.append(Case("alt-%s:%d:bytes" % (t, i), body, [1] * len(body), s, "other-split"))
            C.append(Case("alt-%s:%d:2s" % (t, i), body, random_partition(rng, len(body), [2]), s, "other-split"))
    # -- 8. empty, one byte, no occurrence, no split string at all
    for s in (S, None):
        t = "S" if s else "nos"
        C.append(Case("empty:file:" + t, b"", None, s, "basic"))
        C.append(Case("empty:fifo:" + t, b"", [], s, "basic"))
        C.append(Case("one:" + t, b"Q", None, s, "basic"))
        C.append(Case("one<:" + t, b"<", None, s, "basic"))
        C.append(Case("noocc:" + t, filler(5000), None, s, "basic"))
        C.append(Case("noocc:fifo:" + t, filler(5000), random_partition(rng, 5000, [1, 7, 100, 1000]), s, "basic"))
        C.append(Case("big:" + t, filler(BUF * 2 + 77), None, s, "basic"))
        C.append(Case("exact32k:" + t, filler(BUF), None, s, "basic"))
    # -- 9. random content (binary and text) with split strings injected, random partitions
    nrand = 6000 if thorough else 300
    for i in range(nrand):
        s = rng.choice([S, S, S, b"ab", b"aab", b"\xff\xfe", None])
        parts = []
        for _ in range(rng.randrange(1, 8)):
            r = rng.randrange(6)
            if r == 0:
                parts.append(rng.rbytes(rng.randrange(0, 40)))
            elif r == 1:
                parts.append(filler(rng.randrange(0, 300), i))
            elif r == 2 and s:
                parts.append(s[:rng.randrange(0, len(s) + 1)])
            elif r == 3 and s:
                parts.append(s * rng.randrange(1, 3))
            elif r == 4 and s:
                parts.append(s)
            else:
                parts.append(bytes(rng.choice(s or b"xyz") for _ in range(rng.randrange(0, 12))))
        if i % 9 == 0:
            parts.insert(0, rng.rbytes(BUF - rng.randrange(0, 12)))
        body = b"".join(parts)
        mode = rng.randrange(4)
        if mode == 0 or not body:
            blocks = None
        elif mode == 1:
            blocks = random_partition(rng, len(body), [1, 2, 3])
            if len(blocks) > 400:
                blocks = random_partition(rng, len(body), [BUF, 4096, 5, 2, 1])
        elif mode == 2:
            blocks = random_partition(rng, len(body), [1, 2, 3, 5, 6, 7, 13, 100, 4096, BUF - 1, BUF])
        else:
            blocks = random_partition(rng, len(body), [BUF - 1, BUF, BUF - 5])
        C.append(Case("rand%d" % i, body, blocks, s, "random"))
    return C


# ----------------------------------------------------------------------------------
# running the real tool
# ----------------------------------------------------------------------------------
def fionread(fd):
    return struct.unpack("i", fcntl.ioctl(fd, termios.FIONREAD, b"\0\0\0\0"))[0]


def feed_fifo(path, blocks, proc, deadline):
    """write one block, wait until the reader has taken it, write the next; returns None or a
    description of why feeding stopped (reader gone)"""
    fd = None
    while fd is None:
        try:
            fd = os.open(path, os.O_WRONLY | os.O_NONBLOCK)
        except OSError:
            if proc.poll() is not None:
                return "reader exited before opening the input"
            if time.time() > deadline:
                return "reader never opened the input"
            time.sleep(0.001)
    try:
        for b in blocks:
            try:
                w = os.write(fd, b)
            except (BrokenPipeError, BlockingIOError) as e:
                return "write: %s" % e
            if w != len(b):
                return "short write %d of %d" % (w, len(b))
            spins = 0
            while fionread(fd) > 0:
                spins += 1
                if spins > 50:
                    time.sleep(0.0005)
                if proc.poll() is not None:
                    return "reader exited with data pending"
                if time.time() > deadline:
                    return "reader stalled"
    finally:
        os.close(fd)
    return None


def run_zck(zck, case, wd, trace=False):
    """returns dict(rc, err, out path, feed note, reads (when traced))"""
    os.makedirs(wd, exist_ok=True)
    inp = os.path.join(wd, "in")
    out = os.path.join(wd, "out.zck")
    for p in (inp, out):
        if os.path.lexists(p):
            os.unlink(p)
    if case.blocks is None:
        with open(inp, "wb") as f:
            f.write(case.content)
    else:
        os.mkfifo(inp)
    cmd = [zck, "-o", out] + list(case.opt[1])
    if case.split is not None:
        cmd += ["-s", case.split]
    cmd.append(inp)
    tlog = os.path.join(wd, "strace.log")
    if trace:
        cmd = ["strace", "-f", "-e", "trace=openat,read,close", "-o", tlog] + cmd
    env = dict(os.environ)
    env.update(vlib.ASAN_ENV)
    env["TMPDIR"] = wd
    errf = open(os.path.join(wd, "err"), "wb")
    p = subprocess.Popen(cmd, stdin=subprocess.DEVNULL, stdout=errf, stderr=errf, env=env, cwd=wd)
    note = None
    deadline = time.time() + 60
    if case.blocks is not None:
        note = feed_fifo(inp, case.block_bytes(), p, deadline)
    try:
        p.wait(timeout=60)
        rc = p.returncode
    except subprocess.TimeoutExpired:
        p.kill()
        p.wait()
        rc = -9999
    errf.close()
    err = open(os.path.join(wd, "err"), "rb").read()[-4000:].decode("utf-8", "replace")
    r = {"rc": rc, "err": err, "out": out, "note": note}
    if trace and os.path.exists(tlog):
        r["reads"] = parse_strace(open(tlog, errors="replace").read(), inp)
    return r


def parse_strace(txt, inp):
    fd, reads = None, []
    for line in txt.splitlines():
        if fd is None:
            m = re.search(r'openat\([^,]+, "%s", O_RDONLY[^)]*\)\s*=\s*(\d+)' % re.escape(inp), line)
            if m:
                fd = m.group(1)
            continue
        m = re.search(r"\bread\(%s, .*, (\d+)\)\s*=\s*(-?\d+)" % fd, line)
        if m:
            reads.append(int(m.group(2)))
            continue
        if re.search(r"\bclose\(%s\)" % fd, line):
            break
    return reads


def chunk_table(rh, path, wd):
    """uncompressed sizes of the chunks after the dictionary chunk, from `zck_read_header -c`"""
    rc, lines, err = vlib.run_lines([rh, "-c", path], timeout=60)
    if rc != 0:
        return None, "zck_read_header exit %d: %s" % (rc, (err or "\n".join(lines))[-300:])
    sizes, seen = [], False
    for l in lines:
        f = l.split()
        if seen and len(f) in (5, 6) and f[0].isdigit():
            sizes.append((int(f[0]), int(f[-1])))
        elif f[:2] == ["Chunk", "Checksum"]:
            seen = True
    if not seen or not sizes or sizes[0][0] != 0:
        return None, "cannot parse zck_read_header output: %r" % lines[-5:]
    return [s for _, s in sizes[1:]], None


def model_segmentation(tokens):
    """chunk sizes implied by the call sequence: zck_end_chunk emits nothing for an empty chunk
    (CHUNK_DEFAULT_MIN = 1), zck_close flushes the last one"""
    sizes, acc = [], 0
    for t in tokens:
        if t == "E":
            if acc:
                sizes.append(acc)
            acc = 0
        elif t.startswith("W"):
            acc += (len(t) - 1) // 2
    if acc:
        sizes.append(acc)
    return sizes


def model_line(case):
    return "S %s %s" % (vlib.hexs(case.split or b""), " ".join(vlib.hexs(b) for b in case.block_bytes()))


def evaluate(case, tools, wd, model_out, trace=False):
    """run one case; returns list of (stage, key, what, extra) violations and a summary"""
    zck, unzck, rh = tools
    viol = []
    r = run_zck(zck, case, wd, trace)
    key = case.key()
    cj = case.to_json()
    desc = "zck %s%s on %r (%d bytes, read() results %s)" % (
        " ".join(a if isinstance(a, str) else repr(a) for a in case.opt[1]),
        " -s %r" % case.split if case.split is not None else "",
        case.name, len(case.content),
        "natural 32 KiB blocks of a regular file" if case.blocks is None else
        (str(case.blocks) if len(case.blocks) <= 12 else "%d blocks %s..." % (len(case.blocks), case.blocks[:8])))
    summary = {"case": key, "rc": r["rc"]}
    if trace and case.blocks is not None and r.get("reads") is not None:
        got = [x for x in r["reads"] if x > 0]
        summary["partition_checked"] = True
        if r["rc"] == 0 and got != list(case.blocks):
            viol.append(("harness", PFX + "partition:" + case.name,
                         "FIFO feeding did not achieve the intended read() partition: wanted %s got %s" % (case.blocks[:20], got[:20]), cj))
    mres, spec = vlib.split_model(model_out)
    mtok = [] if mres == "-" else mres.split()
    if mres == "CRASH":
        viol.append(("correspondence", PFX + "model-crash:" + case.name, "model zck_scan crashes on %s (contradicts zck_scan_no_crash)" % desc, cj))
        return viol, summary
    if r["rc"] != 0:
        what = "sanitizer/signal" if r["rc"] in (97, -11, -6, -7, -8) or "Sanitizer" in r["err"] or "runtime error" in r["err"] else "exit status %d" % r["rc"]
        if r["rc"] == -9999:
            what = "hang (killed after 60 s)"
        viol.append(("oracle", key, "%s fails on a valid input: %s%s | %s" % (desc, what, " (%s)" % r["note"] if r["note"] else "",
                                                                               vlib.san_summary(r["err"]) or r["err"][-300:].replace("\n", " ")), cj))
        return viol, summary
    # direct oracle: the archive decodes to the input
    rc, _, err = 0, None, ""
    e = dict(os.environ)
    e.update(vlib.ASAN_ENV)
    e["TMPDIR"] = wd
    try:
        p = subprocess.run([unzck, "-c", r["out"]], stdout=subprocess.PIPE, stderr=subprocess.PIPE, env=e, timeout=120, cwd=wd)
        rc, back, err = p.returncode, p.stdout, p.stderr.decode("utf-8", "replace")
    except subprocess.TimeoutExpired:
        rc, back, err = -9999, b"", "TIMEOUT"
    if rc != 0:
        viol.append(("oracle", key, "%s exits 0 but unzck -c of the archive fails (%d): %s" % (desc, rc, (vlib.san_summary(err) or err[-300:]).replace("\n", " ")), cj))
        return viol, summary
    if back != case.content:
        k = next((i for i in range(min(len(back), len(case.content))) if back[i] != case.content[i]), min(len(back), len(case.content)))
        viol.append(("oracle", key, "%s exits 0 but the archive decodes to %d bytes instead of the %d input bytes (first difference at offset %d: input %r, archive %r)"
                     % (desc, len(back), len(case.content), k, case.content[max(0, k - 4):k + 12], back[max(0, k - 4):k + 12]), cj))
        return viol, summary
    # correspondence: chunk table vs model segmentation
    sizes, perr = chunk_table(rh, r["out"], wd)
    if sizes is None:
        viol.append(("oracle", key, "%s: archive not readable by zck_read_header: %s" % (desc, perr), cj))
        return viol, summary
    seg = model_segmentation(mtok)
    if sum(seg) != len(case.content) or (spec is not None and vlib.unhex(spec) != case.content):
        viol.append(("correspondence", PFX + "model-content:" + case.name, "model payload is not the input on %s" % desc, cj))
    summary["chunks"] = len(sizes)
    summary["model_chunks"] = len(seg)
    if case.opt[2]:
        if sizes != seg:
            viol.append(("correspondence", PFX + "corr:" + case.name + ":" + case.opt[0],
                         "%s: chunk table %s differs from the model's segmentation %s (model calls: %s)"
                         % (desc, sizes[:12], seg[:12], " ".join(t[:20] for t in mtok[:10])), cj))
    else:
        def cum(xs):
            out, a = set(), 0
            for x in xs:
                a += x
                out.add(a)
            return out
        missing = sorted(cum(seg) - cum(sizes))
        if missing:
            viol.append(("correspondence", PFX + "corr:" + case.name + ":" + case.opt[0],
                         "%s: model chunk boundaries %s are not chunk boundaries of the archive" % (desc, missing[:10]), cj))
    return viol, summary


def run_d27(res, tools, wd, opts):
    """unreadable input: a directory (read() fails with EISDIR) must not give exit status 0"""
    zck = tools[0]
    d = os.path.join(wd, "a_directory")
    os.makedirs(d, exist_ok=True)
    e = dict(os.environ)
    e.update(vlib.ASAN_ENV)
    e["TMPDIR"] = wd
    for tag, args in (("plain", []), ("split", ["-s", "<text:"]), ("none-m", ["--compression-format", "none", "-m"])):
        out = os.path.join(wd, "d27_%s.zck" % tag)
        p = subprocess.run([zck, "-o", out] + args + [d], stdin=subprocess.DEVNULL, stdout=subprocess.PIPE,
                           stderr=subprocess.STDOUT, env=e, timeout=60, cwd=wd)
        res.evaluations += 1
        res.count("read-error")
        res.nontrivial.add("d27:" + tag)
        if p.returncode == 0:
            res.violation("oracle", PFX + "readerr-dir:" + tag,
                          "zck -o x.zck %s <directory>: read() of the input fails (EISDIR) but the tool exits 0 leaving a %d-byte archive"
                          % (" ".join(args), os.path.getsize(out) if os.path.exists(out) else -1),
                          {"tool_case": True, "d27": tag, "args": args})
        elif p.returncode in (97, -11, -6) or b"Sanitizer" in p.stdout:
            res.violation("oracle", PFX + "readerr-dir:" + tag, "zck on a directory faults: %s" % vlib.san_summary(p.stdout.decode("utf-8", "replace")),
                          {"tool_case": True, "d27": tag, "args": args})
    # the model's side of it
    model = vlib.ensure_model("C01tool")
    lines, _ = vlib.run_cases(model, ["F 3c746578743a 61613c7465", "F - 6162"], wd, "model_f")
    for l in lines:
        if not l.startswith("EXIT1"):
            res.violation("correspondence", PFX + "model-readerr", "model zck_tool on a failing read gives %r, expected EXIT1" % l, {"tool_case": True})


def case_from_json(j, osets):
    c = Case(j["name"], vlib.unhex(j["content"]), j["blocks"], None if j["split"] is None else vlib.unhex(j["split"]), j.get("kind", "replay"))
    c.opt = next(o for o in osets if o[0] == j["opt"])
    return c


def run_tool_part(res, tier, only_case=None):
    rng = vlib.Rng(vlib.seed() * 7919 + 17)
    wd = vlib.scratch("C01tool")
    dict_path = os.path.join(wd, "dict.bin")
    with open(dict_path, "wb") as f:
        f.write((b"<text: dictionary sample " + filler(200)) * 8)
    osets = opt_sets(dict_path)
    tools = (vlib.ensure_tool("zck", "asan"), vlib.ensure_tool("unzck", "asan"), vlib.ensure_tool("zck_read_header", "plain"))
    model = vlib.ensure_model("C01tool")
    rule = ("zck tool: split string at offsets 0..8, around the 32 KiB block edge (file and FIFO), a read() boundary at every "
            "position (and pair of positions) inside the split string, 1-byte reads, carried matches that fail in a later block, "
            "inputs ending in every proper prefix of the split string, back-to-back and overlapping occurrences, 7 other split "
            "strings (1 byte, self-overlapping, >= 0x80, 42 bytes), empty / 1 byte / no occurrence / no split string, random "
            "binary content with random partitions; options rotate over {none,zstd} x {-m} x {-u} x {-D}; input a directory. "
            "non-trivial = the model ends at least one chunk or carries a partial match over a read() boundary")
    res.rule = (res.rule + " || " if res.rule else "") + rule
    if only_case is not None:
        j = only_case["case"]
        if j.get("d27"):
            run_d27(res, tools, wd, osets)
            return
        cases = [case_from_json(j, osets)]
    else:
        cases = gen_cases(tier, rng)
        # options: --compression-format none -m (the exact chunk-table tie) for every structured case plus one (thorough:
        # three) of the other 15 combinations in rotation; random cases under one (two) rotating combinations
        full = []
        rot = 0
        base = next(o for o in osets if o[0] == "none-m")
        others = [o for o in osets if o is not base]
        for c in cases:
            if c.kind == "random":
                nextra, picks = (2 if tier == "thorough" else 1), []
            else:
                nextra, picks = (3 if tier == "thorough" else 1), [base]
            for _ in range(nextra):
                picks.append(others[rot % len(others)])
                rot += 1
            if c.kind == "random" and rot % 3 == 0:
                picks.append(base)
            for o in picks:
                cc = Case(c.name, c.content, c.blocks, c.split, c.kind)
                cc.opt = o
                full.append(cc)
        cases = full
        run_d27(res, tools, wd, osets)
    # model side, one run
    mlines = [model_line(c) for c in cases]
    mout, merr = vlib.run_cases(model, mlines, wd, "model", timeout=900)
    # which FIFO cases are traced with strace (partition check)
    fifo_idx = [i for i, c in enumerate(cases) if c.blocks is not None and len(c.blocks) >= 2]
    step = max(1, len(fifo_idx) // (12 if tier == "quick" else 60))
    traced = set(fifo_idx[::step]) if only_case is None else set()

    def work(i):
        c = cases[i]
        try:
            return evaluate(c, tools, os.path.join(wd, "c%d" % i), mout[i], trace=(i in traced))
        except Exception as ex:     # harness problem, reported as such
            import traceback
            return [("harness", PFX + "exception:" + c.name, traceback.format_exc()[-1500:], c.to_json())], {"case": c.key(), "rc": None}
        finally:
            vlib.shutil.rmtree(os.path.join(wd, "c%d" % i), ignore_errors=True)

    with ThreadPoolExecutor(max_workers=max(2, min(12, vlib.NCPU))) as ex:
        results = list(ex.map(work, range(len(cases))))
    checked = 0
    for c, (viol, summ) in zip(cases, results):
        res.evaluations += 1
        res.count("tool:" + c.kind)
        res.count("opt:" + c.opt[0])
        res.count("input:" + ("file" if c.blocks is None else "fifo"))
        if summ.get("partition_checked"):
            checked += 1
        for stage, key, what, extra in viol:
            res.violation(stage, key, what, extra)
    for i, c in enumerate(cases):
        mres, _ = vlib.split_model(mout[i])
        toks = mres.split()
        bb = c.block_bytes()
        carried = False
        if c.split and len(bb) >= 2:
            pos = 0
            for b in bb[:-1]:
                pos += len(b)
                for k in range(1, len(c.split)):
                    if pos >= k and c.content[pos - k:pos] == c.split[:k]:
                        carried = True
        if "E" in toks or carried:
            res.nontrivial.add(c.key())
    res.extra["tool_partition_checked_by_strace"] = checked
    res.extra["tool_cases"] = len(cases)
    for i in (0, len(cases) // 3, len(cases) // 2, len(cases) - 1):
        if cases:
            c = cases[i]
            res.sample({"tool_case": c.key(), "split": None if c.split is None else c.split.decode("latin1"),
                        "bytes": len(c.content), "blocks": "file" if c.blocks is None else c.blocks[:10],
                        "model": vlib.split_model(mout[i])[0][:120], "impl": results[i][1]}, cap=10)
    vlib.shutil.rmtree(wd, ignore_errors=True)


if __name__ == "__main__":
    tier = sys.argv[1] if len(sys.argv) > 1 else "quick"
    res = vlib.Result("C01tool", tier)
    t0 = time.time()
    if len(sys.argv) > 2:      # replay file
        run_tool_part(res, tier, json.load(open(sys.argv[2])))
    else:
        run_tool_part(res, tier)
    print("tree %s  evaluations=%d nontrivial=%d violations=%d wall=%.1fs" %
          (vlib.tree_hash(), res.evaluations, len(res.nontrivial), len(res.violations), time.time() - t0))
    print("distribution:", json.dumps(res.dist, sort_keys=True))
    print("extra:", json.dumps(res.extra))
    seen = {}
    for v in res.violations:
        seen.setdefault((v["stage"], v["key"]), v)
    for (stage, key), v in list(seen.items())[:400]:
        print("%s %s\n    %s" % (stage.upper(), key, v["what"][:500]))
    sys.exit(1 if res.violations else 0)
