"""C07 - pinned header validation.  Tie: extracted Pins/ParseImpl model vs the real option
setters, zck_validate_lead, zck_read_lead/zck_read_header; hex_to_int exhaustively."""
import vlib, hdrgen, zckfmt

THEOREMS = ["C07_hex_complete", "C07_digest_option_iff", "C07_digest_needs_type", "C07_type_frozen_after_digest",
            "C07_lead_accepts_iff_pins_match", "C07_pinned_open_authenticates", "C07_pin_sticky", "C07_pin_survives"]
ASSUMPTIONS = [
    "models Format/Pins.v and Format/ParseImpl.v are hand transcriptions of zck.c / header.c, tied by differential execution",
    "characters are signed 8-bit (x86-64 char); hash H is a parameter, collisions are exhibited not excluded",
    "extraction ExtrOcamlBasic; ocaml/drv_c07.ml; harness/zh_c07.c (includes zck.c to reach the static hex_to_int)",
]


def hexstr(b):
    return b.hex().encode()


def gen(rng, tier):
    lines = ["X %d" % c for c in range(-128, 128)]
    # base files of every overall hash type
    bases = []
    for ht in (0, 1, 2, 3):
        h = zckfmt.Hdr(ht=ht, cht=rng.choice([1, 3]), chunks=hdrgen.mk_chunks(rng, 2, 1, False))
        h.cht = 1
        f = h.build() + b"xyz"
        l = zckfmt.parse_lead(f)
        bases.append((ht, f, f[l["dloc"]:l["lead"]], l["lead"] + l["hlen"]))
    def P(ops, v, f):
        return "P %s %s %s" % (",".join(ops) if ops else "-", v, vlib.hexs(f))
    for ht, f, dg, total in bases:
        good = hexstr(dg)
        # every byte value at first / odd / last position of the digest string
        for pos in (0, 1, len(good) - 1):
            for b in range(256):
                s = bytearray(good); s[pos] = b
                lines.append(P(["t%d" % ht, "d" + bytes(s).hex()], "-", f))
        # upper case, mixed case
        lines.append(P(["t%d" % ht, "d" + good.upper().hex()], "V", f))
        # wrong lengths
        for s in (good[:-1], good + b"0", good[:-2], good + b"00", b"", good[:2]):
            lines.append(P(["t%d" % ht, "d" + (s.hex() or "-")], "-", f) if s else P(["t%d" % ht], "-", f))
        # pin matrix: type x digest x length, both orders, with and without validate_lead
        for pt in (ht, (ht + 1) % 4, 7):
            dvars = [good]
            for bit in (0, len(dg) * 8 - 1):
                d2 = bytearray(dg); d2[bit // 8] ^= 1 << (bit % 8); dvars.append(hexstr(bytes(d2)))
            for d in dvars + [None]:
                for sz in (total, total - 1, total + 1, None):
                    for v in ("V", "-"):
                        ops = ["t%d" % pt]
                        if d is not None:
                            ops.append("d" + d.hex())
                        if sz is not None:
                            ops.append("s%d" % sz)
                        lines.append(P(ops, v, f))
                        if d is not None and sz is not None and v == "-":
                            lines.append(P(["s%d" % sz, "t%d" % pt, "d" + d.hex()], v, f))
                            lines.append(P(["d" + d.hex(), "t%d" % pt, "s%d" % sz], v, f))   # digest before type: refused
                            lines.append(P(["t%d" % pt, "d" + d.hex(), "t%d" % ht], v, f))   # type change after digest
        lines.append(P(["t-1"], "-", f)); lines.append(P(["s-1"], "-", f)); lines.append(P(["s%d" % total], "V", f))
    # one byte off at every position of the pin (a comparison that stops early, e.g. at a 0x00 byte, accepts some of
    # them): for the bases and for files whose header digest has a 0x00 byte in front of other bytes
    zero_bases = []
    for ht in (0, 1, 2, 3):
        for _ in range(600):
            h = zckfmt.Hdr(ht=ht, cht=1, chunks=hdrgen.mk_chunks(rng, 2, 1, False))
            f = h.build() + b"xyz"
            l = zckfmt.parse_lead(f)
            dg = f[l["dloc"]:l["lead"]]
            if 0 in dg[:-1] and dg.index(0) < len(dg) - 1:
                zero_bases.append((ht, f, dg, l["lead"] + l["hlen"]))
                break
    for ht, f, dg, total in bases + zero_bases:
        for j in range(len(dg)):
            d2 = bytearray(dg); d2[j] ^= rng.choice([1, 0x80, 0xff])
            lines.append(P(["t%d" % ht, "d" + hexstr(bytes(d2)).hex()], "V" if j % 2 else "-", f))
        lines.append(P(["t%d" % ht, "d" + hexstr(dg).hex()], "V", f))
    # an accepted pin followed by refused calls and zck_clear_error: the pin must still hold (or the context be dead),
    # on the pinned file A and on another file B of the same hash type
    for ht, fa, dga, ta in bases:
        hb = zckfmt.Hdr(ht=ht, cht=1, chunks=hdrgen.mk_chunks(rng, 3, 1, False))
        fb = hb.build() + b"B"
        good = hexstr(dga)
        nonhex = bytearray(good); nonhex[rng.randrange(len(good))] = ord("g")
        nonhex_lo = bytearray(good); nonhex_lo[1] = ord("?")
        tails = [["d" + bytes(nonhex).hex(), "e"], ["d" + bytes(nonhex_lo).hex(), "e"], ["d" + good[:-1].hex(), "e"], ["d" + (good + b"0").hex(), "e"],
                 ["s-1", "e"], ["t-1", "e"], ["t%d" % ((ht + 1) % 4), "e"], ["e"], ["e", "d" + bytes(nonhex).hex(), "e", "s%d" % ta],
                 ["s-1", "e", "d" + bytes(nonhex).hex(), "e", "e"], ["d" + bytes(nonhex).hex(), "e", "d" + good.hex()],
                 ["s-1", "e", "d" + good.upper().hex()], ["s-1", "d" + bytes(nonhex).hex(), "e"]]
        for tl in tails:
            for f in (fa, fb):
                for v in ("V", "-"):
                    lines.append(P(["t%d" % ht, "d" + good.hex()] + tl, v, f))
    # pinned lengths congruent to the real one modulo 2^31 / 2^32 / 2^33 (a narrowing of the option value accepts them), and
    # the pins set BEFORE zck_init_adv_read (a fresh context is in read mode; an initialisation that resets the defaults
    # there would wipe them)
    for ht, fa, dga, ta in bases:
        good = hexstr(dga)
        for sz in (ta + (1 << 32), ta + (1 << 33), ta + 3 * (1 << 32), ta + (1 << 40), ta + (1 << 62), ta + (1 << 31), (1 << 32), (1 << 32) - 1):
            for v in ("V", "-"):
                lines.append(P(["t%d" % ht, "d" + good.hex(), "s%d" % sz], v, fa))
                lines.append(P(["s%d" % sz], v, fa))
        # type values that an int cannot hold (must be refused, not cut down to a type that exists)
        for tv in (ht + (1 << 32), ht + (1 << 33), (1 << 31), (1 << 31) - 1, ht + (1 << 62), 4):
            lines.append(P(["t%d" % tv, "d" + good.hex()], "-", fa))
            lines.append(P(["t%d" % tv], "V", fa))
        hb = zckfmt.Hdr(ht=(ht + 1) % 4, cht=1, chunks=hdrgen.mk_chunks(rng, 2, 1, False))
        fb = hb.build() + b"B3"
        for seq, f in ((["t%d" % ht, "d" + good.hex(), "s%d" % ta, "I"], fa), (["t%d" % ht, "d" + good.hex(), "s%d" % (ta + 1), "I"], fa),
                       (["t%d" % ht, "I", "d" + good.hex()], fa), (["t%d" % ht, "d" + good.hex(), "I"], fb), (["t%d" % ht, "I"], fb),
                       (["s%d" % (ta + 1), "I"], fa), (["t%d" % ((ht + 1) % 4), "I"], fa)):
            for v in ("V", "-"):
                lines.append(P(seq, v, f))
    # a zck_validate_lead that FAILS (wrong pinned length / digest / a truncated lead) must leave the context ready for the
    # next read: corrected pins (or the completed file) then open
    for ht, fa, dga, ta in bases:
        good = hexstr(dga)
        bad = bytearray(good); bad[5] = ord("0") if bad[5] != ord("0") else ord("1")
        for seq in (["s%d" % (ta + 1), "v", "s%d" % ta], ["t%d" % ht, "d" + good.hex(), "s%d" % (ta - 1), "v", "v", "s%d" % ta, "v"],
                    ["t%d" % ht, "s%d" % ta, "F" + fa[:30].hex(), "v", "F" + fa.hex()], ["F" + fa[:10].hex(), "v", "F" + fa.hex(), "v"],
                    ["t%d" % ((ht + 1) % 4), "v", "t%d" % ht]):
            for v in ("V", "-"):
                lines.append(P(seq, v, fa))
    # the file changes under a context whose pins were already used once (validate_lead on the pinned file, or a refused
    # length followed by clear-error and the right length): the pins must still hold for the next read
    for ht, fa, dga, ta in bases:
        hb = zckfmt.Hdr(ht=ht, cht=1, chunks=hdrgen.mk_chunks(rng, 2, 1, False))
        fb = hb.build() + b"B2"
        tb = len(hb.build())
        good = hexstr(dga)
        for seq in (["t%d" % ht, "d" + good.hex(), "v", "F" + fb.hex()],
                    ["t%d" % ht, "d" + good.hex(), "s%d" % ta, "v", "v", "F" + fb.hex()],
                    ["t%d" % ht, "d" + good.hex(), "s%d" % (ta + 1), "v", "e", "s%d" % tb, "F" + fb.hex()],
                    ["t%d" % ht, "d" + good.hex(), "s%d" % (ta + 1), "v", "s%d" % ta, "v", "F" + fb.hex(), "v"],
                    ["t%d" % ht, "d" + good.hex(), "v", "F" + fb.hex(), "F" + fa.hex()]):
            for v in ("V", "-"):
                lines.append(P(seq, v, fa))
    # random digests strings made of arbitrary bytes
    for _ in range(300 if tier == "quick" else 5000):
        ht, f, dg, total = rng.choice(bases)
        s = bytes(rng.choice(b"0123456789abcdefABCDEF*+,-./:;<=>?@Gg`" + bytes([0, 255, 128])) for _ in range(len(dg) * 2))
        lines.append(P(["t%d" % ht, "d" + s.hex()], "-", f))
    return lines


def py_unhex(s):
    try:
        txt = s.decode("ascii")
    except UnicodeDecodeError:
        return None
    if len(txt) % 2 or any(c not in "0123456789abcdefABCDEF" for c in txt):
        return None
    return bytes.fromhex(txt)


def run(res, tier, only_case=None):
    rng = vlib.Rng(vlib.seed())
    res.rule = ("hex_to_int on all 256 char values (exhaustive); digest strings with every byte value at first/odd/last position for the 4 "
                "hash types; full (pinned,actual) matrix of type x digest(equal, one bit off first/last byte) x length(equal,+-1), both orders of "
                "setting options, digest-before-type and type-after-digest, with and without zck_validate_lead before the open; pins one byte off at every position, also for files whose header digest contains 0x00; "
                "an accepted pin followed by refused calls (non-hex, wrong length, negative values, type change) and zck_clear_error, on the pinned and on another file; non-trivial = every "
                "distinct case except the 256-value sweep duplicates")
    lines = [only_case["case"]["line"]] if only_case is not None else gen(rng, tier)
    model = vlib.ensure_model("C07")
    impl = vlib.ensure_harness("zh_c07", "asan")
    wd = vlib.scratch("C07")
    mo, _ = vlib.run_cases(model, lines, wd, "model")
    io, _ = vlib.run_cases(impl, lines, wd, "impl", env={"ZH_TMP": wd})
    for line, m, i in zip(lines, mo, io):
        res.evaluations += 1
        mres, spec = vlib.split_model(m)
        key = "c07:" + vlib.hashlib.sha256(line.encode()).hexdigest()[:12]
        case = {"line": line, "impl": i, "model": mres}
        res.nontrivial.add(line)
        if line.startswith("X"):
            res.count("hex")
            if i != spec:
                res.violation("oracle", "c07:hex:" + line.split()[1], "hex_to_int(%s) = %s, a hexadecimal digit value would be %s" % (line.split()[1], i, spec), case)
            elif i != mres:
                res.violation("correspondence", "c07-corr:hex:" + line.split()[1], "model hex_to_int differs from the code on %s" % line, case)
            continue
        # direct oracle on the option setter: a digest string is accepted iff right length and all hex
        _, ops, v, fhex = line.split()
        f = vlib.unhex(fhex)
        for o_ in ([] if ops == "-" else ops.split(",")):
            if o_[0] == "F":
                f = vlib.unhex(o_[1:])      # the file the final open sees
        lead = zckfmt.parse_lead(f)
        fields = dict(x.split("=", 1) for x in i.split(" ", 3)[:3]) if i.startswith("set=") else {}
        oplist = [] if ops == "-" else ops.split(",")
        res.count("pins:" + ("open" if " open=OK" in i else "reject"))
        # oracle for the common shape [t, d, (s)] in that order
        if i.startswith("set=") and len(oplist) >= 2 and oplist[0][0] == "t" and oplist[1][0] == "d" and all(o[0] == "s" for o in oplist[2:]):
            pt = int(oplist[0][1:])
            s = vlib.unhex(oplist[1][1:])
            want = py_unhex(s) if (pt in zckfmt.DSIZE and len(s) == 2 * zckfmt.DSIZE[pt]) else None
            got_ok = fields["set"][1] == "1"
            if got_ok != (want is not None) or (got_ok and fields["prep"] != want.hex()):
                res.violation("oracle", key, "digest option %r under type %d: accepted=%s stored=%s, specification says %s" %
                              (s[:80], pt, got_ok, fields.get("prep"), want.hex() if want else "reject"), case)
                continue
            ps = int(oplist[2][1:]) if len(oplist) > 2 else None
            if got_ok and lead and fields["set"].count("0") == 0:
                match = (pt == lead["ht"] and want == f[lead["dloc"]:lead["lead"]] and (ps is None or ps == lead["lead"] + lead["hlen"]))
                opened = " open=OK" in i
                base_opens = True   # the base files are valid
                if opened != match:
                    res.violation("oracle", key, "pins (type %d, digest, length %s) vs file (type %d, length %d): accepted=%s but pins %s" %
                                  (pt, ps, lead["ht"], lead["lead"] + lead["hlen"], opened, "match" if match else "do not match"), case)
                    continue
                if v == "V" and (" val=1" in i) != match:
                    res.violation("oracle", key, "zck_validate_lead verdict %s differs from the pin comparison (%s)" % (i, match), case)
                    continue
        # oracle for every sequence: the last digest option that returned true is the pin; a file with another header
        # digest (or hash type) must not get through, whatever was called afterwards
        if i.startswith("set=") and lead and len(fields.get("set", "")) == len(oplist):
            last = None
            cur_t = None
            for o, r in zip(oplist, fields["set"]):
                if o[0] == "t" and r == "1":
                    cur_t = int(o[1:])
                if o[0] == "d" and r == "1":
                    last = (cur_t, py_unhex(vlib.unhex(o[1:])))
            last_s = None
            for o, r in zip(oplist, fields["set"]):
                if o[0] == "s" and r == "1":
                    last_s = int(o[1:])
            if last is None and (cur_t is not None or last_s is not None) and not any(o[0] in "de" for o in oplist):
                # only a type and/or a length pinned: each must equal the file's
                m2 = (cur_t is None or cur_t == lead["ht"]) and (last_s is None or last_s == lead["lead"] + lead["hlen"])
                if not m2 and (" open=OK" in i or " val=1" in i):
                    res.violation("oracle", key, "pinned type %s / length %s accepted as options, file has type %d / length %d, and it still gets through: %s"
                                  % (cur_t, last_s, lead["ht"], lead["lead"] + lead["hlen"], i[:80]), case)
                    continue
            # the other direction: every option call succeeded (failed zck_validate_lead calls leave no error behind) and
            # the pins in force equal the file's values: the open must succeed, whatever was validated before
            if all(r == "1" for o, r in zip(oplist, fields["set"]) if o[0] != "v") and any(o[0] == "v" for o in oplist):
                allm = ((cur_t is None or cur_t == lead["ht"]) and (last is None or (last[1] is not None and last[1] == f[lead["dloc"]:lead["lead"]]))
                        and (last_s is None or last_s == lead["lead"] + lead["hlen"]))
                if allm and " open=OK" not in i and zckfmt.parse_file(f) is not None:
                    res.violation("oracle", key, "pins equal the file's values, every option call succeeded, yet after the calls [%s] (results %s) the valid file "
                                  "is refused: %s" % (",".join(o[:10] for o in oplist), fields["set"], i[:80]), case)
                    continue
            if last is not None and last[1] is not None:
                match = (last[0] == lead["ht"] and last[1] == f[lead["dloc"]:lead["lead"]] and
                         (last_s is None or any(o[0] == "e" for o in oplist) or last_s == lead["lead"] + lead["hlen"]))
                if not match and (" open=OK" in i or " val=1" in i):
                    res.violation("oracle", key, "digest %s.. (type %s) was accepted as pin, later calls [%s] returned %s, and a file with header digest %s.. "
                                  "(type %d) still gets through: %s" % (last[1].hex()[:16], last[0], ",".join(o[:12] for o in oplist), fields["set"],
                                                                       f[lead["dloc"]:lead["lead"]].hex()[:16], lead["ht"], i[:80]), case)
                    continue
        if i != mres:
            res.violation("correspondence", key.replace("c07:", "c07-corr:"), "pin model and library disagree: model %s, code %s" % (mres[:200], i[:200]), case)
    for k in (0, 300, len(lines) // 2, len(lines) - 1):
        if k < len(lines):
            res.sample({"case": lines[k][:300], "impl": io[k][:200]})
    res.exhaustive = True
    res.extra["exhaustive_part"] = "hex_to_int over all 256 char values; 256 values x 3 positions x 4 hash types of the digest string"
    vlib.shutil.rmtree(wd, ignore_errors=True)
