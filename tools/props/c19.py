"""C19 - independent contexts do not interfere across threads (partial by nature).

Proof stage (check -> vlib.coq_property): T19.1 interleaving argument, T19.2 inventory obligation on
the writable statics regenerated from the compiled objects (tools/gen_statics.py), T19.3 witness.
Here: harness/zh_c19.c - N threads on private contexts/files, every thread's observations compared
with the serial baseline of the same process -
  * plain build, repeated runs with random yields injected around the library's read()/write(),
  * plain build, the witness schedule of T19.3 forced deterministically through wrapped read()/write(),
  * ThreadSanitizer build: any report with a frame or a location in library code is a violation.
There is no extracted model: nothing is executed on the Coq side besides vm_compute in the proofs."""
import os, re
import vlib

THEOREMS = ["C19_noninterference", "C19_concurrent_equals_serial", "C19_interleavings_exact",
            "C19_noninterference_two", "C19_noninterference_N", "C19_inventory_allowed",
            "C19_every_static_reviewed", "C19_inventory_writers", "C19_shared_buffer_refuted",
            "C19_private_buffer_repaired"]
ASSUMPTIONS = [
    "PARTIAL BY NATURE: the theorems cover the interleaving argument (T19.1) and the shared-state discipline of "
    "the library's own static storage (T19.2, inventory of .data/.bss symbols regenerated with readelf from the "
    "objects compiled from the working tree on every run); they do not model the C code of the operations",
    "that a library call touches only its own contexts, its stack, thread-local storage and the inventoried statics "
    "(no heap object shared between two contexts, no hidden state) is NOT proved: it is covered only by the "
    "ThreadSanitizer runs and the serial-vs-concurrent comparison of harness/zh_c19.c on the scenarios exercised",
    "the reviewed list Conc/Statics.v [reviewed] (log_level, log_fd, callback written only by zck_set_log_*; bundled "
    "SHA-2 constant tables never written) is a human review; the 'writers' column is additionally checked against a "
    "syntactic scan of the sources (static_writers), which is a heuristic, not a proof",
    ".data.rel.ro* sections are treated as read-only (RELRO) and .tdata/.tbss as per-thread; libc, OpenSSL and "
    "libzstd internals are outside the inventory and trusted to be thread-safe for distinct objects",
    "ThreadSanitizer (gcc -fsanitize=thread) observes only the interleavings that happen in the runs; "
    "uninstrumented code (libcrypto, libzstd) is not observed",
]

WRAP = ("-Wl,--wrap=read,--wrap=write",)
MASKS = {1: "write/read", 2: "copy", 4: "download", 8: "error-paths", 15: "all"}
TSAN_ENV_BASE = "halt_on_error=0 exitcode=0 report_signal_unsafe=0 second_deadlock_stack=1"


def plan(tier, seed):
    """(plain RUN lines, forced lines, tsan RUN lines)"""
    s0 = seed * 100
    if tier == "thorough":
        plain = ["RUN 8 %d 20 15" % (s0 + i) for i in range(1, 31)]
        plain += ["RUN 8 %d 20 %d" % (s0 + 30 + m, m) for m in (1, 2, 4, 8, 6, 3)]
        plain += ["RUN %d %d 10 15" % (n, s0 + 50 + n) for n in (2, 3, 5, 16, 32)]
        forced = ["FORCED %d" % (s0 + i) for i in range(1, 13)]
        tsan = ["RUN 8 %d 20 %d" % (s0 + 60 + m, m) for m in (1, 2, 4, 8)]
        tsan += ["RUN 8 %d 20 15" % (s0 + 70 + i) for i in range(6)]
        tsan += ["RUN 16 %d 5 15" % (s0 + 80), "RUN 2 %d 20 15" % (s0 + 81)]
    else:
        plain = ["RUN 8 %d 15 15" % (s0 + i) for i in range(1, 7)]
        plain += ["RUN 8 %d 10 %d" % (s0 + 30 + m, m) for m in (1, 2, 4, 8)]
        plain += ["RUN 2 %d 10 15" % (s0 + 52), "RUN 16 %d 4 15" % (s0 + 66)]
        forced = ["FORCED %d" % (s0 + i) for i in range(1, 5)]
        tsan = ["RUN 8 %d 4 15" % (s0 + 70), "RUN 8 %d 4 15" % (s0 + 71)]
        tsan += ["RUN 8 %d 4 %d" % (s0 + 60 + m, m) for m in (1, 2, 4, 8)]
    return plain, forced, tsan


def parse_run(line):
    p = line.split()
    return int(p[1]), int(p[2]), int(p[3]), int(p[4])        # n, seed, reps, mask


# ----------------------------------------------------------------------------------
# ThreadSanitizer
# ----------------------------------------------------------------------------------
def tsan_reports(txt):
    """split a TSan log into report blocks"""
    blocks, cur = [], None
    for line in txt.splitlines():
        if line.startswith("WARNING: ThreadSanitizer") or line.startswith("FATAL: ThreadSanitizer") \
                or line.startswith("ThreadSanitizer: CHECK failed"):
            cur = [line]
            blocks.append(cur)
        elif line.startswith("=================="):
            cur = None
        elif cur is not None:
            cur.append(line)
    return ["\n".join(b) for b in blocks]


def classify_report(rep):
    """('library'|'harness'|'selftest'|'fatal', key, one-line description)"""
    first = rep.splitlines()[0]
    if first.startswith("FATAL") or "CHECK failed" in first:
        return "fatal", "fatal", first
    lib_prefix = os.path.join(vlib.REPO, "src") + os.sep
    frames = re.findall(r"#\d+ (\S+) (\S+?):(\d+)", rep)
    lib_frames = [(fn, path, ln) for fn, path, ln in frames if path.startswith(lib_prefix) or "/src/lib/" in path]
    loc = re.search(r"Location is (global '([^']+)'[^\n]*|heap block[^\n]*|stack of[^\n]*|TLS of[^\n]*)", rep)
    what = first.replace("WARNING: ThreadSanitizer: ", "")
    what = re.sub(r"\s*\(pid=\d+\)", "", what)
    if "zh_selftest_racy" in rep:
        return "selftest", "selftest", what
    if lib_frames:
        fn, path, ln = lib_frames[0]
        rel = path.split("/src/lib/")[-1]
        if loc and loc.group(2):
            sym = re.sub(r"\.\d+$", "", loc.group(2))
            key = "c19:tsan:static:%s" % sym
            chain = " <- ".join("%s (%s:%s)" % (f, p.split("/src/lib/")[-1], l) for f, p, l in lib_frames[:3])
            desc = "%s on static '%s' (%s), in %s" % (what, sym, loc.group(1), chain)
        else:
            key = "c19:tsan:%s:%s" % (rel, fn)
            desc = "%s in %s (%s:%s)%s" % (what, fn, rel, ln, ", " + loc.group(1) if loc else "")
        return "library", key, desc
    return "harness", "harness", what


def run_tsan(exe, lines, wd, tag, timeout):
    """returns (stdout lines, list of report texts, note)"""
    logbase = os.path.join(wd, "tsan_" + tag)
    env = {"TSAN_OPTIONS": TSAN_ENV_BASE + " log_path=" + logbase, "ZH_TMP": wd}
    note = ""
    out, err = vlib.run_cases(exe, lines, wd, "tsan_" + tag, timeout=timeout, env=env)
    logs = lambda: "".join(open(os.path.join(wd, f), errors="replace").read()
                           for f in sorted(os.listdir(wd)) if f.startswith("tsan_" + tag + "."))
    txt = logs()
    if ("unexpected memory mapping" in txt + err or "FATAL: ThreadSanitizer" in txt + err) and vlib.shutil.which("setarch"):
        # address-space layout the runtime cannot cope with: retry without ASLR
        for f in os.listdir(wd):
            if f.startswith("tsan_" + tag + "."):
                os.unlink(os.path.join(wd, f))
        note = "ThreadSanitizer needed `setarch -R` (ASLR off) in this sandbox"
        inp = os.path.join(wd, "tsan_" + tag + ".in")
        rc, out, err = vlib.run_lines(["setarch", "-R", exe], infile=inp, timeout=timeout, env=env)
        txt = logs()
    return out, tsan_reports(txt + "\n" + err), note


# ----------------------------------------------------------------------------------
# inventory diagnostics (the obligation itself is T19.2 in the proof stage)
# ----------------------------------------------------------------------------------
def inventory_offenders():
    import gen_statics
    tot = gen_statics.inventory()
    src = open(os.path.join(vlib.COQ, "Conc", "Statics.v")).read()
    src = re.sub(r"\(\*.*?\*\)", "", src, flags=re.S)
    rev = {(f, s): int(n) for f, s, n in re.findall(r'mkrev\s+"([^"]+)"\s+"([^"]+)"\s+(\d+)', src)}
    bad = [(f, s, n) for f, s, n in tot["writable"] if (f, s) not in rev or n > rev[(f, s)]]
    return tot, bad


def check_line(res, kind, line, out, wd):
    """evaluate one harness result line; returns True when it is clean"""
    if line.startswith("RUN"):
        n, seed, reps, mask = parse_run(line)
        res.count("%s:%s" % (kind, MASKS.get(mask, "mask%d" % mask)), n * reps)
        res.evaluations += n * reps
    else:
        res.count(kind + ":forced")
        res.evaluations += 2
    if out.startswith("OK "):
        n, seed, reps, mask = parse_run(line)
        full = "t0_final_equals_new=1" in out and "t0_copy_ok=1" in out
        if full or not (mask & 6):
            for t in range(n):
                res.nontrivial.add("%d/%d/%d" % (seed, mask, t))
        res.extra["schedules_run"] = res.extra.get("schedules_run", 0) + reps
        return True
    if out.startswith("FORCED") and out.endswith("SAME"):
        if "realised=1" in out:
            res.nontrivial.add(line)
            res.extra["forced_realised"] = res.extra.get("forced_realised", 0) + 1
        else:
            res.extra["forced_not_realised"] = res.extra.get("forced_not_realised", 0) + 1
        return True
    if " DIFF " in out or out.startswith("DIFF"):
        m = re.search(r"thread=(\d+) field=(\S+) serial=(\S+) concurrent=(\S+)", out)
        field = m.group(2) if m else "?"
        group = field.split(".")[0]
        if line.startswith("FORCED"):
            key = "c19:forced:%s" % group
            what = ("two threads copying chunks between their OWN contexts, schedule 'A reads block, B reads block, A writes' "
                    "forced through read()/write(): thread %s observes %s instead of the serial %s"
                    % (m.group(1) if m else "?", m.group(4) if m else "?", m.group(3) if m else "?"))
        else:
            key = "c19:diff:%s" % group
            what = ("%s threads on private contexts and files: thread %s observes %s, serially it is %s (%s)"
                    % (line.split()[1], m.group(1) if m else "?", m.group(4) if m else "?", m.group(3) if m else "?", line))
        res.violation("oracle", key, what, {"mode": kind, "line": line, "result": out})
        return False
    res.violation("oracle", "c19:crash:%s" % kind, "harness did not complete %r under the %s build: %s" % (line, kind, out),
                  {"mode": kind, "line": line, "result": out})
    return False


def run(res, tier, only_case=None):
    res.rule = ("each RUN case: serial baseline of N threads' scenarios, then reps concurrent runs with random yields "
                "around every read()/write() of the library, all per-thread observations (return codes, byte counts, "
                "sha256 of every file written, error strings) compared field by field; FORCED: the T19.3 schedule; "
                "TSan: same RUN cases under -fsanitize=thread. evaluations = thread-runs compared; "
                "non-trivial = distinct (seed, scenario, thread) inputs whose serial run completed write, copy and download")
    wd = vlib.scratch("C19")
    plain_lines, forced_lines, tsan_lines = plan(tier, vlib.seed())
    if only_case is not None:
        c = only_case["case"]
        mode, line = c.get("mode", "plain"), c.get("line")
        if not line:                         # proof/inventory replays: re-run everything
            only_case = None
        else:
            plain_lines = [line] if mode == "plain" else []
            forced_lines = [line] if mode == "forced" else []
            tsan_lines = [line] if mode == "tsan" else []
    # ---- inventory diagnostics
    try:
        tot, bad = inventory_offenders()
        res.extra["inventory"] = {"writable": ["%s:%s(%d)" % x for x in tot["writable"]],
                                  "tls": ["%s:%s(%d)" % x for x in tot["tls"]],
                                  "relro": ["%s:%s(%d)" % x for x in tot["relro"]],
                                  "readonly_symbols": tot["readonly"]}
        for f, s, n in bad:
            res.violation("inventory", "c19:inventory:%s:%s" % (f, s),
                          "writable static %s (%d bytes) in %s is not on the reviewed list Conc/Statics.v - process-wide "
                          "storage that every context shares" % (s, n, f), {"file": f, "symbol": s, "size": n})
    except SystemExit as e:
        raise vlib.BuildError("inventory", "tools/gen_statics.py failed (exit %s)" % e.code)
    # ---- plain build: random schedules and the forced witness schedule
    env = {"ZH_TMP": wd}
    t_lim = 3000 if tier == "thorough" else 300
    if plain_lines or forced_lines:
        exe = vlib.ensure_harness("zh_c19", "plain", extra=WRAP)
        lines = plain_lines + forced_lines
        outs, err = vlib.run_cases(exe, lines, wd, "plain", timeout=t_lim, env=env)
        for l, o in zip(lines, outs):
            check_line(res, "forced" if l.startswith("FORCED") else "plain", l, o, wd)
        for k in (0, len(lines) - 1):
            res.sample({"case": lines[k], "result": outs[k][:160]})
    # ---- ThreadSanitizer build
    if tsan_lines:
        texe = vlib.ensure_harness("zh_c19", "tsan", extra=WRAP)
        # detector self-test first: a deliberate race in the harness must be reported
        o, reps, note = run_tsan(texe, ["RACE"], wd, "self", 120)
        kinds = [classify_report(r)[0] for r in reps]
        if note:
            res.extra["tsan_note"] = note
        if "selftest" not in kinds:
            res.violation("harness", "harness:tsan-blind",
                          "ThreadSanitizer did not report the deliberate race of the self-test (output %r, %d reports: %s)"
                          % (o, len(reps), "; ".join(r.splitlines()[0] for r in reps)[:300]), {"mode": "tsan", "line": "RACE"})
        else:
            res.extra["tsan_selftest"] = "deliberate race reported"
            for i, l in enumerate(tsan_lines):
                outs, reps, note = run_tsan(texe, [l], wd, "r%d" % i, t_lim)
                clean = check_line(res, "tsan", l, outs[0] if outs else "NOOUTPUT", wd)
                seen = set()
                for r in reps:
                    kind, key, desc = classify_report(r)
                    if kind == "library" and key not in seen:
                        seen.add(key)
                        res.violation("oracle", key, "ThreadSanitizer, %s threads on private contexts: %s" % (l.split()[1], desc),
                                      {"mode": "tsan", "line": l, "report": r[:6000]})
                    elif kind == "fatal":
                        res.violation("harness", "harness:tsan-fatal", desc, {"mode": "tsan", "line": l, "report": r[:3000]})
                    elif kind == "harness" and "harness:tsan-harness" not in seen:
                        seen.add("harness:tsan-harness")
                        res.violation("harness", "harness:tsan-harness", "ThreadSanitizer report outside library code: " + desc,
                                      {"mode": "tsan", "line": l, "report": r[:3000]})
                res.extra["tsan_reports"] = res.extra.get("tsan_reports", 0) + len(reps)
                if i == 0:
                    res.sample({"case": "tsan " + l, "result": (outs[0] if outs else "")[:160], "reports": len(reps)})
    res.traces = res.evaluations
    res.exhaustive = False
    prioritise(res)
    vlib.shutil.rmtree(wd, ignore_errors=True)


def prioritise(res):
    """the replay written first should be the most reproducible one: the forced (deterministic) schedule, then a
    ThreadSanitizer report (carries its text), then the randomised serial-vs-concurrent differences"""
    def rank(v):
        k = v.get("key") or ""
        return 0 if k.startswith("c19:forced") else 1 if k.startswith("c19:tsan") else 2
    res.violations.sort(key=rank)


def search(res, tier):
    """the proof obligation broke (typically: a new writable static) but the standard runs saw nothing:
    many more schedules, more threads, the forced schedule on more inputs, TSan on every scenario"""
    wd = vlib.scratch("C19s")
    s0 = vlib.seed() * 100 + 5000
    exe = vlib.ensure_harness("zh_c19", "plain", extra=WRAP)
    lines = ["FORCED %d" % (s0 + i) for i in range(20)]
    lines += ["RUN 16 %d 30 %d" % (s0 + 100 + i, m) for i, m in enumerate((15, 2, 8, 4, 1, 15, 15))]
    lines += ["RUN 32 %d 10 15" % (s0 + 200)]
    outs, err = vlib.run_cases(exe, lines, wd, "plain", timeout=1500, env={"ZH_TMP": wd})
    for l, o in zip(lines, outs):
        check_line(res, "forced" if l.startswith("FORCED") else "plain", l, o, wd)
    if not any(v["stage"] == "oracle" for v in res.violations):
        texe = vlib.ensure_harness("zh_c19", "tsan", extra=WRAP)
        for i, l in enumerate(["RUN 8 %d 10 %d" % (s0 + 300 + m, m) for m in (15, 1, 2, 4, 8)] + ["RUN 16 %d 5 15" % (s0 + 400)]):
            outs, reps, note = run_tsan(texe, [l], wd, "s%d" % i, 1500)
            check_line(res, "tsan", l, outs[0] if outs else "NOOUTPUT", wd)
            for r in reps:
                kind, key, desc = classify_report(r)
                if kind == "library":
                    res.violation("oracle", key, "ThreadSanitizer, %s threads on private contexts: %s" % (l.split()[1], desc),
                                  {"mode": "tsan", "line": l, "report": r[:6000]})
                    break
    prioritise(res)
    vlib.shutil.rmtree(wd, ignore_errors=True)
