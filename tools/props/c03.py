"""C03 - memory safety and termination on arbitrary file input (partial by nature).
Proof part: parse_impl never reads outside its buffers and never runs out of fuel.
Tie: sanitizer-backed runs of the real library (header parser + public API call sequences)
and of the command-line tools on sealed, mutated and truncated files."""
import copy, os, subprocess
import vlib, hdrgen, filegen, zckfmt
from props import c13

THEOREMS = ["C03_parser_memory_safe_and_terminates", "C03_api_preconditions"]
ASSUMPTIONS = [
    "the theorems cover the index arithmetic and termination of the modelled header parser; heap lifetime (use-after-free, double free), "
    "allocator failure paths and UB inside libzstd/OpenSSL/glibc are covered only by the ASan/UBSan runs of this check",
    "model Format/ParseImpl.v tied to header.c/index_read.c by differential execution; the model says OOB iff the sanitizer reports",
    "watchdog: a call sequence that runs longer than 20 s counts as a hang",
]

OPS = ["l,i,r4096,q", "r1,q", "r100000,q", "v,r32768,q", "d,f,r777,q", "f,m0,m2,l", "g0,g1,g2,g1,g9", "c0,c1,c2,c1", "v,d,f,v", "k,v,r4096", "h,k,m0",
       "g1,r50,g2,r50,q", "i,l,m0,m1,m256", "r33000,g0,c0,q", "p10,g1,p7,g2,p3,q", "p1,c1,g1,p100000,g0", "g1,p10,g0,g2,r999"]


def mutants_of(rng, f, tier):
    """structure-aware re-sealed mutants + truncations + body flips of a well-formed file"""
    out = []
    pf = zckfmt.parse_file(f)
    if pf is None:
        return out
    h, body = pf
    n = len(h.chunks)
    def emit(tag, hh, b=None):
        try:
            out.append((tag, hh.build() + (body if b is None else b)))
        except Exception:
            pass
    for k in range(n):
        dg, ud, clen, ulen = h.chunks[k]
        for tag, nc, nu in (("clen+1", clen + 1, ulen), ("clen-1", max(0, clen - 1), ulen), ("ulen+10", clen, ulen + 10), ("ulen-1", clen, max(0, ulen - 1)),
                            ("ulen=0", clen, 0), ("clen=0", 0, ulen), ("ulen=2^40", clen, 2**40), ("clen=2^40", 2**40, ulen),
                            ("ulen=2^62", clen, 2**62), ("clen=2^62", 2**62, ulen)):
            hh = copy.deepcopy(h); hh.chunks[k] = (dg, ud, nc, nu); emit("%s#%d" % (tag, k), hh)
        hh = copy.deepcopy(h); hh.chunks[k] = (rng.rbytes(len(dg)), ud, clen, ulen); emit("digest#%d" % k, hh)
    if n >= 2:
        hh = copy.deepcopy(h); hh.chunks[0], hh.chunks[-1] = hh.chunks[-1], hh.chunks[0]; emit("swap", hh)
        hh = copy.deepcopy(h); hh.chunks = hh.chunks[:-1]; emit("drop-last", hh)
        hh = copy.deepcopy(h); hh.chunks = hh.chunks + [hh.chunks[-1]]; emit("dup-last", hh)
    hh = copy.deepcopy(h); hh.ddigest = rng.rbytes(len(h.ddigest)); emit("datadigest", hh)
    hh = copy.deepcopy(h); hh.comp = 0 if h.comp else 2; emit("comp-flip", hh)
    hh = copy.deepcopy(h); hh.flags ^= 4; emit("uflag-flip", hh)
    hdr_len = len(f) - len(body)
    cuts = sorted(set([hdr_len, hdr_len + 1, len(f) - 1, hdr_len + len(body) // 2] + [rng.randrange(hdr_len, len(f) + 1) for _ in range(3)]))
    for c in cuts:
        out.append(("trunc@%d" % c, f[:c]))
    for _ in range(4):
        if body:
            p = hdr_len + rng.randrange(len(body))
            g = bytearray(f); g[p] ^= 1 << rng.randrange(8); out.append(("bodyflip", bytes(g)))
    out.append(("overlong", f + rng.rbytes(50)))
    return out


def run(res, tier, only_case=None):
    rng = vlib.Rng(vlib.seed())
    res.rule = ("(1) sealed headers + field mutants of hdrgen through zck_read_lead/zck_read_header (ASan) next to parse_impl; (2) complete files "
                "(uncompressed from the reference encoder, zstd from the tree's zck tool) and their re-sealed structure mutants, truncations, body "
                "flips, each driven through public API call sequences (read / validate / find-valid / chunk access / copy / ranges / close) under "
                "ASan+UBSan with a watchdog; (3) the command-line tools on a sample of the same files. non-trivial = distinct (file, op sequence) "
                "whose file passes the checksum gate")
    wd = vlib.scratch("C03")
    model = vlib.ensure_model("C13")
    hdr = vlib.ensure_harness("zh_c13", "asan")
    api = vlib.ensure_harness("zh_c03", "asan")
    env = {"ZH_TMP": wd}
    if only_case is not None:
        line = only_case["case"]["line"]
        exe = hdr if line.startswith("O ") else api
        o, errs = vlib.run_cases_resilient(exe, [line], wd, "replay", env=env, timeout=120)
        if any(x.endswith("HANG") or x == "MEMFAULT" or x.startswith("DIED") for x in o):
            res.violation("oracle", only_case.get("key") or "c03:replay", "replayed case still faults: %s" % o[0], {"line": line, "impl": o[0]})
        res.evaluations = 1
        return
    # ---- (1) header parser
    files = hdrgen.build_all(rng, tier)
    lines = c13.lines_for(files)
    # pins of another (shorter or longer) hash type whose digest bytes agree with the file's as far as they go: the type
    # check must stop the comparison before it runs over the end of the shorter buffer
    extra = []
    for tag, f in files[:: max(1, len(files) // (60 if tier == "quick" else 600))]:
        l = zckfmt.parse_lead(f)
        if l is None:
            continue
        dg = f[l["dloc"]:l["lead"]]
        for pt in (0, 1, 2, 3):
            if pt != l["ht"]:
                pd = (dg + bytes(64))[:zckfmt.DSIZE[pt]]
                extra.append((tag + ":pin-type%d" % pt, f, "O %d %s - %s" % (pt, pd.hex(), vlib.hexs(f))))
    # a pinned header length that does not match (the error path frees what the lead had allocated; the context is freed next)
    for tag, f in files[:: max(1, len(files) // (40 if tier == "quick" else 400))]:
        l = zckfmt.parse_lead(f)
        if l is None:
            continue
        for dlt in (1, -1):
            extra.append((tag + ":pin-size%+d" % dlt, f, "O - - %d %s" % (l["lead"] + l["hlen"] + dlt, vlib.hexs(f))))
    files = files + [(t, f) for t, f, _ in extra]
    lines = lines + [x[2] for x in extra]
    mo, _ = vlib.run_cases(model, lines, wd, "model")
    io, errs = vlib.run_cases_resilient(hdr, lines, wd, "hdr", env=env)
    for (tag, f), line, i, m in zip(files, lines, io, mo):
        res.evaluations += 1
        mres, _ = vlib.split_model(m)
        key = "c03:hdr:%s:%s" % (tag, vlib.hashlib.sha256(line.encode()).hexdigest()[:12])
        if c13.zckfmt_sealed(f):
            res.nontrivial.add(line)
        res.count("hdr:" + ("fault" if (i == "MEMFAULT" or i.endswith("HANG") or i.startswith("DIED")) else "ok"))
        if i == "MEMFAULT" or i.endswith("HANG") or i.startswith("DIED"):
            res.violation("oracle", key, "opening a crafted header (%s) ends in %s" % (tag, i), {"line": line, "tag": tag, "impl": i, "model": mres})
        elif mres in ("OOB", "FUEL"):
            res.violation("correspondence", key.replace("c03:", "c03-corr:"), "model predicts %s on a header (%s) the sanitized library handles" % (mres, tag), {"line": line, "tag": tag})
    # ---- (2) API call sequences on complete files
    nfiles = 10 if tier == "quick" else 60
    base = filegen.zstd_crafted_files(rng) + filegen.nocomp_files(rng, nfiles) + filegen.zstd_files(rng, nfiles, wd, "plain")
    def run_batch(cases):
        """run one batch of (tag, line) cases and judge it (batches keep the memory bounded in the thorough tier)"""
        if not cases:
            return
        alines = [c[1] for c in cases]
        ao, aerrs = vlib.run_cases_resilient(api, alines, wd, "api", env=env, timeout=3000)
        errmap = dict(aerrs)
        for k, ((tag, line), o) in enumerate(zip(cases, ao)):
            res.evaluations += 1
            res.nontrivial.add(vlib.hashlib.sha256(line.encode()).hexdigest()[:16])
            bad = o == "MEMFAULT" or o.endswith("HANG") or o.startswith("DIED")
            res.count("api:" + tag.split("#")[0].split("@")[0] + (":fault" if bad else ""))
            if bad:
                ops = line.split()[-1]
                res.violation("oracle", "c03:api:%s:%s:%s" % (tag, ops, vlib.hashlib.sha256(line.encode()).hexdigest()[:12]),
                              "API calls [%s] on a %s file end in %s: %s" % (ops, tag, o[-40:], vlib.san_summary(errmap.get(k, ""))),
                              {"line": line, "tag": tag, "impl": o})
        if len(res.samples) < 5:
            res.sample({"tag": cases[0][0], "ops": cases[0][1].split()[-1], "impl": ao[0][:200]})

    for f, data, _ in base:
        cases, held = [], 0
        variants = [("valid", f)] + mutants_of(rng, f, tier)
        if tier == "quick":
            variants = variants[:1] + rng.sample(variants[1:], min(len(variants) - 1, 14))
        elif len(f) > 150000:
            variants = variants[:1] + rng.sample(variants[1:], min(len(variants) - 1, 25))
        for tag, g in variants:
            for ops in ((OPS if (tag == "valid" and len(f) < 150000) else rng.sample(OPS, 3)) if tier == "quick" else (OPS if len(f) < 150000 else rng.sample(OPS, 5))):
                if "k" in ops and tag.startswith("clen=2^"):
                    # copying into a target whose index claims a 2^40-byte chunk legitimately creates a
                    # terabyte-sized sparse file; validating that afterwards is slow, not a hang
                    continue
                src = f if ("k" in ops or "h" in ops) else None
                cases.append((tag, "F %s %s %s" % (vlib.hexs(g), vlib.hexs(src) if src else "-", ops)))
                held += len(cases[-1][1])
                if held > 100 * 1000 * 1000:      # keep a batch's case lines under ~100 MB
                    run_batch(cases)
                    cases, held = [], 0
        run_batch(cases)
    # delta sources whose chunk checksum type (digest length) differs from the target's
    cases = []
    for _ in range(3 if tier == "quick" else 12):
        chunks = [rng.rbytes(rng.choice([10, 300, 5000])) for _ in range(rng.randrange(1, 5))]
        for tc, sc in ((3, 2), (3, 1), (0, 2), (1, 2), (2, 3), (3, 0)):
            tgt, _ = zckfmt.build_file(chunks, ht=1, cht=tc)
            srcf, _ = zckfmt.build_file(chunks + [rng.rbytes(40)], ht=1, cht=sc)
            hdr_len = len(tgt) - sum(len(c) for c in chunks)
            for ops in ("k,v,r4096", "h,k,m0"):
                cases.append(("src-cht%d-tgt-cht%d" % (sc, tc), "F %s %s %s" % (vlib.hexs(tgt[:hdr_len] + bytes(len(tgt) - hdr_len)), vlib.hexs(srcf), ops)))
    run_batch(cases)
    # pairings across files that differ in compression type and in the uncompressed-source flag (one side only, both, none)
    cases = []
    zs = [b for b in base if zckfmt.parse_file(b[0]) and zckfmt.parse_file(b[0])[0].comp == 2 and len(b[0]) < 200000][:6]
    ns = []
    for fl in (0, 4):
        for _ in range(2):
            chunks = [rng.rbytes(rng.choice([10, 300, 5000])) for _ in range(rng.randrange(1, 5))]
            ns.append(zckfmt.build_file(chunks, ht=1, cht=3 if fl == 0 else 1, flags=fl)[0])
    for z in zs:
        for nf in ns:
            cases.append(("pair-cross", "F %s %s %s" % (vlib.hexs(z[0]), vlib.hexs(nf), "h,x,h,k,v")))
            cases.append(("pair-cross", "F %s %s %s" % (vlib.hexs(nf), vlib.hexs(z[0]), "h,x,m0,k")))
    run_batch(cases)
    # ---- (3) command line tools
    tools = {t: vlib.ensure_tool(t, "asan") for t in ("unzck", "zck_read_header", "zck_delta_size", "zck_gen_zdict")}
    sample = []
    for f, data, _ in base[: (6 if tier == "quick" else 40)]:
        vs = [("valid", f)] + mutants_of(rng, f, tier)
        sample += vs[:1] + rng.sample(vs[1:], min(len(vs) - 1, 5 if tier == "quick" else 25))
    sample += [(t, f) for t, f in files if t.startswith(("count", "noentries", "optsize", "isz", "clen0=", "uflag"))][: (25 if tier == "quick" else 300)]
    tdir = os.path.join(wd, "tools"); os.makedirs(tdir, exist_ok=True)
    e = dict(os.environ); e.update(vlib.ASAN_ENV)
    for k, (tag, g) in enumerate(sample):
        p = os.path.join(tdir, "t%d.zck" % k)
        with open(p, "wb") as fh:
            fh.write(g)
        for tool, args in (("unzck", ["-c", p]), ("zck_read_header", ["-c", "-f", p]), ("zck_delta_size", [p, p]), ("zck_gen_zdict", [p])):
            res.evaluations += 1
            try:
                pr = subprocess.run([tools[tool]] + args, stdout=subprocess.DEVNULL, stderr=subprocess.PIPE, timeout=60, env=e, cwd=tdir)
                rc, err = pr.returncode, pr.stderr.decode("utf-8", "replace")
            except subprocess.TimeoutExpired:
                rc, err = -9999, "TIMEOUT"
            bad = rc in (97, -11, -6, -7, -8, -9999) or "ERROR: AddressSanitizer" in err or "runtime error" in err
            res.count("tool:%s:%s" % (tool, "fault" if bad else "ok"))
            if bad:
                res.violation("oracle", "c03:tool:%s:%s:%s" % (tool, tag, vlib.hashlib.sha256(g).hexdigest()[:12]),
                              "%s on a %s file: exit %d %s" % (tool, tag, rc, vlib.san_summary(err) or err[-300:]), {"tool": tool, "args": args, "file_hex": vlib.hexs(g), "tag": tag, "line": "TOOL"})
        os.unlink(p)
    vlib.shutil.rmtree(wd, ignore_errors=True)
