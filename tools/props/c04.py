"""C04 - delta update reconstructs the new file exactly, fetching only what is missing.
Proof: the update procedure of zck_dl.c at chunk level (Dl/Update.v) converges to B for every A, every valid B,
every initial target and every server range limit, and its served requests are exactly the chunks that were neither
valid in the target nor available from A.
Tie: the REAL zckdl binary against a loopback HTTP range server (tools/httpd_ranges.py: single range, multipart,
per-request range limit answered with 200); oracle on the implementation: exit 0 and target == B byte for byte, the
union of the requested body ranges == the extents of the chunks an independent Python computation finds missing,
nothing transferred twice; correspondence: the extracted Coq model run on the same (A, B, target, limit) predicts
the exact sequence of requests (ranges, 206 / 200) the server logged, the validity flags and the final state.
This module also holds the machinery C11 reuses (scenario generation, abstraction, tool runs)."""
import os, subprocess, hashlib, shutil
import vlib, zckfmt, httpd_ranges

THEOREMS = ["C04_update_reconstructs_B", "C04_requests_exactly_the_missing_chunks", "C04_needed_characterised",
            "C04_needed_no_duplicates", "C04_header_fetch", "C04_header_fetch_before_fix",
            # machine-checked link between the byte-level component models and the chunk-level model
            "C04_link_scan", "C04_link_validate_data", "C04_link_missing_range", "C04_link_missing_range_abs",
            "C04_link_placed_is_place", "C04_link_place_single", "C04_link_place_multipart_partial",
            "C04_link_copy", "C04_link_reset_failed", "C04_link_parse_prefix", "C04_link_header_fetch",
            # composition: multipart lift, equivalence up to non-valid extents, the byte-level run
            "C04_link_place_multipart", "C04_loop_respects_eqv", "C04_link_copy_eqv", "C04_plain_server_serves",
            "C04_byte_level_reconstructs_B", "C04_link_fetch_header"]
ASSUMPTIONS = [
    "chunk-level model (Dl/Update.v): each library call is represented by its per-chunk effect. Every step is linked by a theorem "
    "to the byte-level component model of its vertical (Dl/UpdateLink*.v, C04_link_*: scan C09, range computation C10, placement "
    "single-range and multipart C05, copy C08, header reader C13), and the steps are composed: C04_byte_level_reconstructs_B runs "
    "the byte-level models in zck_dl.c's order (Dl/UpdateByte*.v) and proves target == B. Modelling choices of that composition: "
    "every request uses a fresh zckDL (that a zck_dl_reset one behaves the same is C05_session / retry_place_*); the range index of a "
    "limited request is taken as the first entries of Session.missing_ridx (same chunks as Range.missing_range: C04_link_missing_range); "
    "the ra_index arithmetic is Update.advance; the header fetch is one write of B's first max(89, header) bytes; old files whose "
    "extents are cut by the end of the file are excluded (src_complete); Update.fetch_header (incl. write_prefix for headers shorter "
    "than the probe) is linked to that write by C04_link_fetch_header, the composed theorem itself starts from the fetched file",
    "the checksum functions are arbitrary functions; every conclusion that needs injectivity is stated as 'or two different "
    "byte strings with the same chunk checksum exist'",
    "B is a valid file (wf_new), the server returns the requested extents of B and answers 200 iff the request has more ranges "
    "than its limit; no I/O failure (C12), no misbehaving server (C05, C17); libcurl and the TCP stack are outside the model",
    "when only zero-length chunks are missing the model stops in status EmptyRange (the code sends an empty Range value; outcome "
    "server-dependent, never convergent): excluded for a valid B unless a checksum collides (theorem C04_update_reconstructs_B); "
    "not modelled: int narrowing of dl_byte_range for headers >= 2 GiB",
]
PROBE = 89   # zck_get_min_download_size(): asserted against the model's H line below


# --------------------------------------------------------------------------------------
# files
# --------------------------------------------------------------------------------------
class ZF:
    """a parsed zchunk file: chunk table with offsets"""

    def __init__(self, raw):
        self.raw = raw
        pf = zckfmt.parse_file(raw)
        if pf is None:
            raise ValueError("not a zchunk file")
        self.h, self.body = pf
        l = zckfmt.parse_lead(raw)
        self.lead = l["lead"]
        self.hdr_len = l["lead"] + l["hlen"]
        self.ht, self.cht = self.h.ht, self.h.cht
        self.uncomp = bool(self.h.flags & 4)
        self.chunks = []          # (digest, clen, ulen, offset in body)
        off = 0
        for dg, ud, clen, ulen in self.h.chunks:
            self.chunks.append((dg, clen, ulen, off))
            off += clen
        self.data_len = off
        self.total = self.hdr_len + off

    def chunk_bytes(self, i, raw=None):
        raw = self.raw if raw is None else raw
        dg, clen, ulen, off = self.chunks[i]
        return raw[self.hdr_len + off: self.hdr_len + off + clen]


def chunk_ok(cht, dg, clen, data):
    if len(data) != clen:
        return False
    if clen == 0:
        return dg == bytes(len(dg))
    return zckfmt.H(cht, data) == dg


def after_probe(B, T0):
    """the target after the header fetch: the first min(89, |B|) bytes and the whole header are B's"""
    t = bytearray(T0 or b"")
    n = max(min(PROBE, len(B.raw)), B.hdr_len)
    if len(t) < n:
        t += bytes(n - len(t))
    t[:n] = B.raw[:n]
    return bytes(t)


def needed_py(B, A, T0):
    """independent oracle: indices of the chunks of B that have to be fetched"""
    T1 = after_probe(B, T0)
    ok = []
    for i, (dg, clen, ulen, off) in enumerate(B.chunks):
        if i == 0 and ulen == 0 and clen == 0:
            ok.append(True)
        else:
            ok.append(chunk_ok(B.cht, dg, clen, B.chunk_bytes(i, T1)))
    if all(ok):
        if B.uncomp or zckfmt.H(B.ht, T1[B.hdr_len:B.total]) == B.h.ddigest:
            return [], ok
        return list(range(len(B.chunks))), ok
    need = []
    for i, (dg, clen, ulen, off) in enumerate(B.chunks):
        if ok[i]:
            continue
        usable = False
        if A is not None:
            for j, (adg, aclen, aulen, aoff) in enumerate(A.chunks):
                if adg == dg:
                    usable = aclen == clen and aulen == ulen and chunk_ok(A.cht, adg, aclen, A.chunk_bytes(j))
                    break
        if not usable:
            need.append(i)
    return need, ok


def hx(b):
    return bytes(b).hex() if len(b) else "-"


def model_line(B, A, T0, srv_limit):
    """the case line of ocaml/drv_c04.ml for (A, B, target, limit)"""
    T0 = T0 or b""
    slots = []
    for i, (dg, clen, ulen, off) in enumerate(B.chunks):
        slots.append("%s:%d:%d:%s:%s" % (hx(dg), clen, ulen, hx(B.chunk_bytes(i)), hx(B.chunk_bytes(i, T0))))
    if A is None:
        a = "-"
    else:
        a = ",".join("%s:%d:%d:%s" % (hx(dg), clen, ulen, hx(A.chunk_bytes(j))) for j, (dg, clen, ulen, off) in enumerate(A.chunks))
    return "U %d %d %d %d %s %d %s %s %s %s" % (B.cht, B.ht, 1 if B.uncomp else 0, srv_limit, hx(B.raw[:B.hdr_len]), B.lead,
                                                 hx(B.h.ddigest), hx(T0[B.total:]), a, ",".join(slots))


def parse_model(line):
    impl, spec = vlib.split_model(line)
    d = {}
    for part in (impl, spec or ""):
        for tok in part.split():
            if "=" in tok:
                k, v = tok.split("=", 1)
                d[k] = v
    ev = []
    if d.get("ev", "-") != "-":
        for e in d["ev"].split(";"):
            kind, idx, cnt = e.split(":")
            ev.append((kind, [int(x) for x in idx.split(".")] if idx != "-" else [], int(cnt)))
    d["events"] = ev
    d["needed_l"] = [int(x) for x in d["needed"].split(".")] if d.get("needed", "-") != "-" else []
    return d


def merged_ranges(B, idx):
    """absolute inclusive byte ranges of a request for the chunks idx (file order, adjacent extents merged)"""
    out = []
    for i in idx:
        dg, clen, ulen, off = B.chunks[i]
        s, e = B.hdr_len + off, B.hdr_len + off + clen
        if out and out[-1][1] >= s:
            out[-1][1] = max(out[-1][1], e)
        else:
            out.append([s, e])
    return [(s, e - 1) for s, e in out]


def header_requests(B):
    r = ["bytes=0-%d" % (PROBE - 1)]
    if B.hdr_len > PROBE:
        r.append("bytes=%d-%d" % (PROBE, B.hdr_len - 1))
    return r


def parse_range_header(rv):
    return [tuple(int(x) for x in t.split("-")) for t in rv[6:].split(",")]


# --------------------------------------------------------------------------------------
# scenario generation
# --------------------------------------------------------------------------------------
class Scn:
    def __init__(self, name, A, B, T0, kind):
        self.name, self.A, self.B, self.T0, self.kind = name, A, B, T0, kind   # raw bytes (A, T0 may be None)

    def key(self, limit):
        h = hashlib.sha256((self.A or b"-") + b"|" + self.B + b"|" + (self.T0 if self.T0 is not None else b"-")).hexdigest()[:10]
        return "%s:%s:lim=%d" % (self.name, h, limit)

    def case(self, limit, extra=None):
        c = {"name": self.name, "A": self.A.hex() if self.A is not None else None, "B": self.B.hex(),
             "T0": self.T0.hex() if self.T0 is not None else None, "limit": limit}
        if extra:
            c.update(extra)
        if len(c["B"]) > 400000:
            c = {"name": self.name, "limit": limit, "note": "files too large to embed; regenerate with the recorded seed"}
        return c


def edit_chunks(rng, chunks):
    """B's payload chunks from A's: replace / insert / delete / duplicate some"""
    out = list(chunks)
    for _ in range(rng.randrange(1, 4)):
        op = rng.choice(["replace", "insert", "delete", "dup", "swap"])
        if op == "replace" and out:
            out[rng.randrange(len(out))] = rng.rbytes(rng.randrange(1, 60))
        elif op == "insert":
            out.insert(rng.randrange(len(out) + 1), rng.rbytes(rng.randrange(1, 60)))
        elif op == "delete" and len(out) > 1:
            del out[rng.randrange(len(out))]
        elif op == "dup" and out:
            out.insert(rng.randrange(len(out) + 1), out[rng.randrange(len(out))])
        elif op == "swap" and len(out) > 1:
            i, j = rng.sample(range(len(out)), 2)
            out[i], out[j] = out[j], out[i]
    return out


def targets_for(rng, Braw, Araw):
    """initial contents of the target path"""
    B = ZF(Braw)
    out = [("absent", None), ("empty", b""), ("garbage", rng.rbytes(rng.randrange(1, len(Braw) + 40))),
           ("garbage-long", rng.rbytes(len(Braw) + rng.randrange(1, 200))), ("complete", Braw),
           ("complete-long", Braw + rng.rbytes(rng.randrange(1, 50)))]
    # partially correct: some extents damaged, cut inside a chunk, zero-filled extents
    t = bytearray(Braw)
    for i in range(len(B.chunks)):
        if B.chunks[i][1] and rng.random() < 0.5:
            off = B.hdr_len + B.chunks[i][3] + rng.randrange(B.chunks[i][1])
            t[off] ^= 1 + rng.randrange(255)
    out.append(("partial-damaged", bytes(t)))
    if B.data_len:
        out.append(("partial-cut", Braw[:B.hdr_len + rng.randrange(B.data_len)]))
        t = bytearray(Braw)
        i = rng.randrange(len(B.chunks))
        t[B.hdr_len + B.chunks[i][3]: B.hdr_len + B.chunks[i][3] + B.chunks[i][1]] = bytes(B.chunks[i][1])
        out.append(("partial-zeroed", bytes(t)))
        out.append(("header-only", Braw[:B.hdr_len]))
        out.append(("wrong-header", rng.rbytes(B.hdr_len) + Braw[B.hdr_len:]))
    if Araw is not None:
        out.append(("old-file", Araw))
    return out


def nocomp_pairs(rng, n, sizes=(1, 12)):
    """(name, A raw | None, B raw) with controlled contents (uncompressed chunks)"""
    out = []
    for k in range(n):
        nch = rng.randrange(sizes[0], sizes[1] + 1)
        a_chunks = [rng.rbytes(rng.choice([1, 2, 5, 17, 40, 90])) for _ in range(nch)]
        ht = [3, 1, 0, 2][k % 4] if k < 8 else rng.choice([0, 1, 2, 3])
        cht = rng.choice([0, 1, 3, 3])
        flags = 4 if (k % 7 == 5 and cht == 1) else 0
        d = rng.rbytes(rng.choice([0, 0, 0, 30]))
        rel = ["edited", "unrelated", "equal", "absent", "edited", "edited-dict"][k % 6]
        if rel == "edited":
            b_chunks = edit_chunks(rng, a_chunks)
        elif rel == "unrelated":
            b_chunks = [rng.rbytes(rng.choice([1, 3, 20, 70])) for _ in range(rng.randrange(sizes[0], sizes[1] + 1))]
        else:
            b_chunks = list(a_chunks)
        bd = rng.rbytes(25) if rel == "edited-dict" else d
        Araw = None if rel == "absent" else zckfmt.build_file(a_chunks, ht=rng.choice([0, 1, 2, 3]), cht=cht, flags=flags, dict_chunk=d)[0]
        Braw = zckfmt.build_file(b_chunks, ht=ht, cht=cht, flags=flags, dict_chunk=bd)[0]
        out.append(("nocomp-%s-ht%d-cht%d%s" % (rel, ht, cht, "-u" if flags else ""), Araw, Braw))
    return out


def zstd_pairs(rng, n, wd):
    """pairs written by the tree's own zck tool with manual chunking on a separator, so that chunks align"""
    zck = vlib.ensure_tool("zck", "plain")
    out = []
    words = [b"alpha", b"beta", b"gamma", b"delta\n", b"0123456789", b" ", b"epsilon", b"\n"]
    for k in range(n):
        secs = [b"".join(rng.choice(words) for _ in range(rng.randrange(5, 400))) for _ in range(rng.randrange(2, 10))]
        secs2 = edit_chunks(rng, secs) if k % 3 != 2 else [b"".join(rng.choice(words) for _ in range(rng.randrange(5, 300))) for _ in range(4)]
        raws = []
        dpath = None
        if k % 2 == 1:
            dpath = os.path.join(wd, "zdict%d" % k)
            with open(dpath, "wb") as f:
                f.write(b"".join(words) * 4 + rng.rbytes(64))
        for tag, ss in (("a", secs), ("b", secs2)):
            src = os.path.join(wd, "zsrc%d%s" % (k, tag))
            dst = src + ".zck"
            with open(src, "wb") as f:
                f.write(b"<sec>".join(ss))
            cmd = [zck, "-o", dst, "-m", "-s", "<sec>"]
            if dpath:
                cmd += ["-D", dpath]
            cmd.append(src)
            p = subprocess.run(cmd, stdout=subprocess.PIPE, stderr=subprocess.PIPE, timeout=60)
            raws.append(open(dst, "rb").read() if p.returncode == 0 and os.path.exists(dst) else None)
            for pth in (src, dst):
                if os.path.exists(pth):
                    os.unlink(pth)
        if raws[0] and raws[1]:
            out.append(("zstd-%s%s" % ("edited" if k % 3 != 2 else "unrelated", "-dict" if dpath else ""), raws[0], raws[1]))
    return out


# --------------------------------------------------------------------------------------
# running the real tool
# --------------------------------------------------------------------------------------
class Bench:
    """scratch directory + loopback server + zckdl binaries"""

    def __init__(self, pid, wrap=False):
        self.wd = vlib.scratch(pid)
        self.zckdl = vlib.ensure_tool("zckdl", "plain")
        self.zckdl_wrap = vlib.ensure_tool("zckdl", "plain", wrap=True) if wrap else None
        self.model = vlib.ensure_model(pid)
        self.srv = httpd_ranges.RangeServer(1000, seed=vlib.seed())
        self.srv.start()
        self.rundir = os.path.join(self.wd, "run")
        self.n = 0

    def close(self):
        try:
            self.srv.stop()
        finally:
            shutil.rmtree(self.wd, ignore_errors=True)

    def run_tool(self, Araw, Braw, T0, limit, fault=None, name="B.zck"):
        """one zckdl run in a fresh directory; returns (rc, final target bytes | None, body request log, header request log)"""
        shutil.rmtree(self.rundir, ignore_errors=True)
        os.makedirs(self.rundir)
        self.srv.put(name, Braw)
        self.srv.max_ranges = limit
        self.srv.take_log()
        exe = self.zckdl
        env = dict(os.environ)
        env.pop("ZH_FAULT", None)
        for v in ("http_proxy", "HTTP_PROXY", "all_proxy", "ALL_PROXY"):
            env.pop(v, None)
        env["no_proxy"] = "127.0.0.1"
        cmd = []
        if fault:
            exe = self.zckdl_wrap
            env["ZH_FAULT"] = fault
        cmd = [exe]
        if Araw is not None:
            with open(os.path.join(self.rundir, "A.zck"), "wb") as f:
                f.write(Araw)
            cmd += ["-s", "A.zck"]
        tp = os.path.join(self.rundir, name)
        if T0 is not None:
            with open(tp, "wb") as f:
                f.write(T0)
        cmd.append(self.srv.url(name))
        try:
            p = subprocess.run(cmd, cwd=self.rundir, env=env, stdout=subprocess.PIPE, stderr=subprocess.PIPE, timeout=30)
            rc, err = p.returncode, p.stderr.decode("utf-8", "replace")[-300:]
        except subprocess.TimeoutExpired:
            rc, err = -9999, "TIMEOUT"
        out = open(tp, "rb").read() if os.path.exists(tp) else None
        log = self.srv.take_log()
        self.n += 1
        return rc, out, log, err

    def run_model(self, lines):
        o, err = vlib.run_cases(self.model, lines, self.wd, "model", timeout=600)
        return o


def split_log(B, log):
    """(header requests as raw Range values, body requests as (status, [(s, e)...]))"""
    hdr, body = [], []
    exp = header_requests(B)
    i = 0
    while i < len(log) and i < len(exp) and log[i][1] == exp[i]:
        hdr.append(log[i][1])
        i += 1
    for name, rv, status, rs in log[i:]:
        body.append((status, parse_range_header(rv) if rv else None))
    return hdr, body


def check_update(res, pid, B, A, Braw, Araw, T0, limit, rc, out, log, err, mline, key, case, what="update"):
    """oracles and correspondence for one fault-free run; returns True when everything agreed"""
    good = True
    need, ok0 = needed_py(B, A, T0)
    m = parse_model(mline)
    # ---- oracle on the implementation
    if rc != 0:
        res.violation("oracle", key, "%s of a valid file fails: zckdl exit %s (%s)" % (what, "TIMEOUT" if rc == -9999 else rc, err.strip()[-160:]), case)
        return False
    if out != Braw:
        res.violation("oracle", key, "%s: zckdl exits 0 but the target differs from B (%d vs %d bytes)" % (what, len(out or b""), len(Braw)), case)
        return False
    if limit == 0:
        # no range support: probe refused, then the whole file without a Range header
        shape = [(l[1], l[2]) for l in log]
        if shape != [(header_requests(B)[0], 200), (None, 200)]:
            res.violation("oracle", key, "%s without range support: unexpected requests %s" % (what, shape), case)
            good = False
        if m.get("st") != "D0" or m.get("eq") != "1":
            res.violation("correspondence", key.replace(pid.lower() + ":", pid.lower() + "-corr:"), "model predicts %s for the full download" % mline[:120], case)
            good = False
        return good
    hdr, body = split_log(B, log)
    if hdr != header_requests(B):
        res.violation("oracle", key, "%s: header requests %s, expected %s (each header byte exactly once)" % (what, [l[1] for l in log[:3]], header_requests(B)), case)
        good = False
    served = [r for st, r in body if st == 206]
    want = merged_ranges(B, need)
    got_bytes = sorted((s, e) for r in served for (s, e) in r)
    flat = []
    for s, e in got_bytes:
        if flat and flat[-1][1] + 1 >= s:
            if flat[-1][1] >= s:
                res.violation("oracle", key, "%s: bytes %d-%d transferred twice (ranges %s)" % (what, s, min(e, flat[-1][1]), got_bytes), case)
                good = False
            flat[-1][1] = max(flat[-1][1], e)
        else:
            flat.append([s, e])
    if [tuple(x) for x in flat] != want:
        res.violation("oracle", key, "%s: transferred body ranges %s, but the chunks missing from the target and from A are %s = ranges %s"
                      % (what, [tuple(x) for x in flat], need, want), case)
        good = False
    for st, r in body:
        if r is None or any(not any(ws <= s and e <= we for ws, we in want) for s, e in r):
            res.violation("oracle", key, "%s: request %s (status %d) asks for bytes outside the missing chunks %s" % (what, r, st, want), case)
            good = False
    # ---- correspondence with the extracted Coq model
    ckey = key.replace(pid.lower() + ":", pid.lower() + "-corr:")
    mev = [(206 if k == "S" else 200, merged_ranges(B, idx)) for k, idx, cnt in m["events"]]
    if m.get("st") != "D0" or m.get("eq") != "1" or m.get("hdr") != "1" or m.get("extra") != "0" or set(m.get("flags", "x")) - {"V"}:
        res.violation("correspondence", ckey, "%s: the model does not converge on a case where zckdl does: %s" % (what, mline[:160]), case)
        good = False
    elif mev != body:
        res.violation("correspondence", ckey, "%s: model predicts the request sequence %s, the server logged %s" % (what, mev, body), case)
        good = False
    elif m["needed_l"] != need:
        res.violation("correspondence", ckey, "%s: model's needed set %s, independent computation %s" % (what, m["needed_l"], need), case)
        good = False
    elif any(c != cnt_ for (k, idx, c), cnt_ in zip(m["events"], [len(r) for st, r in body])):
        res.violation("correspondence", ckey, "%s: model's range counts differ from the request's item counts" % what, case)
        good = False
    return good


def many_ranges(rng, tier):
    """B with many small chunks, every other extent of the target damaged: requests with many ranges (multipart,
    the max_ranges cut at 255, every step of the back-off table); some damaged chunks are available from A"""
    out = []
    plan = [(16, [1, 2, 3, 5, 7, 8, 1000]), (40, [1, 2, 6, 7, 19, 20, 1000]), (300, [1000, 150, 149, 127, 126, 7]),
            (600, [1000, 255, 254, 128, 127, 8, 2])]
    if tier == "quick":
        plan = [(16, [2, 7, 8]), (40, [1, 6, 20]), (300, [149, 126]), (600, [1000, 254, 127])]
    for nch, lims in plan:
        chunks = [rng.rbytes(rng.randrange(2, 9)) for _ in range(nch)]
        ht = rng.choice([0, 1, 2, 3])
        Braw = zckfmt.build_file(chunks, ht=ht, cht=3)[0]
        B = ZF(Braw)
        t = bytearray(Braw)
        for i in range(1, len(B.chunks), 2):
            t[B.hdr_len + B.chunks[i][3]] ^= 0x55
        out.append((Scn("many%d-ht%d/alternate" % (nch, ht), None, Braw, bytes(t), "alternate"), lims))
        # A = B without every fourth chunk: half of the damaged extents can be copied
        a_chunks = [c for i, c in enumerate(chunks) if i % 4 != 2]
        Araw = zckfmt.build_file(a_chunks, ht=1, cht=3)[0]
        out.append((Scn("many%d-ht%d/alternate+old" % (nch, ht), Araw, Braw, bytes(t), "alternate"), lims[:3] if tier == "quick" else lims))
    return out


def scenarios(rng, tier, wd, quick_n=18, thorough_n=200):
    """list of (scenario, server limits or None for the default rotation)"""
    pairs = nocomp_pairs(rng, quick_n if tier == "quick" else thorough_n)
    pairs += zstd_pairs(rng, 3 if tier == "quick" else 12, wd)
    out = []
    for k, (name, Araw, Braw) in enumerate(pairs):
        tg = targets_for(rng, Braw, Araw)
        if tier == "quick":
            # absent + three others, rotating
            pick = [tg[0]] + [tg[1 + (k * 3 + j) % (len(tg) - 1)] for j in range(3)]
        else:
            pick = tg
        for tname, T0 in pick:
            out.append((Scn("%s/%s" % (name, tname), Araw, Braw, T0, tname), None))
    # damaged / truncated old file, old file == new file
    Braw2 = zckfmt.build_file([rng.rbytes(9) for _ in range(6)], ht=1, cht=3)[0]
    Bz = ZF(Braw2)
    dam = bytearray(Braw2)
    dam[Bz.hdr_len + Bz.chunks[2][3]] ^= 0x40
    out.append((Scn("old-damaged/absent", bytes(dam), Braw2, None, "absent"), None))
    out.append((Scn("old-truncated/absent", Braw2[:Bz.hdr_len + Bz.chunks[4][3] + 3], Braw2, None, "absent"), None))
    out.append((Scn("old-equal/garbage", Braw2, Braw2, rng.rbytes(50), "garbage"), None))
    # duplicate chunks inside B (same digest twice), only one copy damaged / both damaged
    dup = rng.rbytes(12)
    Braw3 = zckfmt.build_file([rng.rbytes(5), dup, rng.rbytes(7), dup, rng.rbytes(3)], ht=3, cht=3)[0]
    B3 = ZF(Braw3)
    t = bytearray(Braw3); t[B3.hdr_len + B3.chunks[2][3] + 1] ^= 1
    out.append((Scn("dup-chunks/one-damaged", None, Braw3, bytes(t), "partial-damaged"), None))
    t[B3.hdr_len + B3.chunks[4][3] + 1] ^= 1
    out.append((Scn("dup-chunks/both-damaged", None, Braw3, bytes(t), "partial-damaged"), None))
    out.append((Scn("dup-chunks/absent", None, Braw3, None, "absent"), None))
    # a file with nothing but the (empty) dictionary entry; a file shorter than the probe
    Braw4 = zckfmt.build_file([], ht=3, cht=3)[0]
    out.append((Scn("no-chunks/absent", None, Braw4, None, "absent"), None))
    out.append((Scn("no-chunks/garbage", None, Braw4, rng.rbytes(200), "garbage-long"), None))
    Braw5 = zckfmt.build_file([b"xy"], ht=3, cht=3)[0]
    out.append((Scn("short-file/absent", None, Braw5, None, "absent"), None))
    out.append((Scn("short-file/garbage", None, Braw5, rng.rbytes(150), "garbage-long"), None))
    # old file with another chunk checksum type (no digest can match); old entry with the same digest but another
    # uncompressed size (not usable); duplicate chunk in the old file whose FIRST copy is damaged (HASH_FIND returns it)
    pl = [rng.rbytes(n) for n in (11, 6, 14, 9)]
    Braw6 = zckfmt.build_file(pl, ht=1, cht=3)[0]
    out.append((Scn("old-other-cht/absent", zckfmt.build_file(pl, ht=1, cht=1)[0], Braw6, None, "absent"), None))
    fa, ha = zckfmt.build_file(pl, ht=1, cht=3)
    dg, ud, cl, ul = ha.chunks[2]
    ha.chunks[2] = (dg, ud, cl, ul + 1)
    out.append((Scn("old-ulen-differs/absent", ha.build() + fa[len(fa) - sum(len(x) for x in pl):], Braw6, None, "absent"), None))
    fa2 = zckfmt.build_file([pl[1], pl[0], pl[1], pl[2]], ht=1, cht=3)[0]
    za = ZF(fa2)
    t = bytearray(fa2); t[za.hdr_len + za.chunks[1][3]] ^= 2
    out.append((Scn("old-dup-first-damaged/absent", bytes(t), Braw6, None, "absent"), None))
    # uncompressed-source flag (no data digest; final validation = per-chunk validation)
    Braw7 = zckfmt.build_file(pl, ht=1, cht=1, flags=4)[0]
    out.append((Scn("uflag/absent", zckfmt.build_file(pl[:2], ht=1, cht=1, flags=4)[0], Braw7, None, "absent"), None))
    z7 = ZF(Braw7)
    t = bytearray(Braw7); t[z7.hdr_len + z7.chunks[3][3]] ^= 2
    out.append((Scn("uflag/partial-damaged", None, Braw7, bytes(t), "partial-damaged"), None))
    out.append((Scn("uflag/complete-long", None, Braw7, Braw7 + b"tail", "complete-long"), None))
    # first index entry with stored bytes but uncompressed size 0 (the scan must read and check it like any other chunk)
    f8, h8 = zckfmt.build_file(pl, ht=1, cht=3, dict_chunk=rng.rbytes(21))
    dg, ud, cl, ul = h8.chunks[0]
    h8.chunks[0] = (dg, ud, cl, 0)
    Braw8 = h8.build() + f8[len(f8) - 21 - sum(len(x) for x in pl):]
    z8 = ZF(Braw8)
    out.append((Scn("first-ulen0-stored/absent", None, Braw8, None, "absent"), None))
    t = bytearray(Braw8); t[z8.hdr_len + 3] ^= 4
    out.append((Scn("first-ulen0-stored/first-damaged", None, Braw8, bytes(t), "partial-damaged"), None))
    out.append((Scn("first-ulen0-stored/complete", None, Braw8, Braw8, "complete"), None))
    out += many_ranges(rng, tier)
    return out


LIMITS = [1, 2, 3, 1000]


def probe_invalid_b(res, b, rng):
    """Outside the property's quantification (B is NOT valid), kept as a regression probe: an index entry with stored
    length 0 whose digest is not all zeros can never become valid; zckdl then computes an empty range, sends
    "Range: bytes=" and - with a server that ignores the invalid header (200) - never terminates while indexing
    range_attempt[] past its end.  The model stops in EmptyRange at the same point."""
    Braw = zckfmt.build_file([rng.rbytes(10), b"", rng.rbytes(7)], ht=1, cht=3)[0]     # entry 2: clen 0, digest H("")
    B = ZF(Braw)
    m = parse_model(b.run_model([model_line(B, None, None, 1000)])[0])
    if m.get("st") != "EMPTY":
        res.violation("correspondence", "c04-corr:invalid-b", "model status %s for a B with an unfetchable zero-length chunk" % m.get("st"), {"B": Braw.hex()})
    for ign in (False, True):
        b.srv.ignore_invalid_range = ign
        try:
            rc, out, log, err = b.run_tool(None, Braw, None, 1000)
        finally:
            b.srv.ignore_invalid_range = False
        res.evaluations += 1
        if rc == -9999:
            res.violation("oracle", "c04:invalid-b:empty-chunk-nonzero-digest:hang",
                          "B with a zero-length chunk whose digest is not zero, server answering 200 to the empty Range value: zckdl does not terminate "
                          "(%d requests in 30 s: %s ...)" % (len(log), [(l[2], l[1]) for l in log[2:6]]),
                          {"name": "invalid-b", "B": Braw.hex(), "A": None, "T0": None, "limit": 1000, "ignore_invalid_range": True})
        elif rc == 0:
            res.violation("oracle", "c04:invalid-b:empty-chunk-nonzero-digest:exit0", "zckdl exits 0 for a B that does not validate", {"B": Braw.hex()})


def run(res, tier, only_case=None):
    rng = vlib.Rng(vlib.seed())
    res.rule = ("real zckdl against the loopback range server for (A, B) pairs (B edited from A / unrelated / equal / no A / damaged or truncated A; "
                "1..12 uncompressed chunks with controlled contents, 16..600 chunks with every other extent damaged = up to 300 ranges, duplicate chunks, zstd pairs from the tree's zck tool chunked on a separator; with and without "
                "dictionary; overall checksum types SHA-1/256/512/512-128 incl. D33's lead of 23 bytes; uncompressed-source flag) x initial targets "
                "(absent, empty, garbage, over-long, complete, damaged extents, cut inside a chunk, zero-filled extent, header only, wrong header, "
                "the old file) x server range limits {1, 2, 3, 1000} (+ 0 = no range support; + 5..255 around every entry of the back-off table for the many-range files). Oracle: exit 0, target == B, transferred ranges == "
                "extents of the independently computed missing chunks, nothing twice, every request inside them. Correspondence: the extracted model's "
                "event sequence (ranges per request, 206/200) == server log. non-trivial = runs with at least one body request")
    b = Bench("C04")
    try:
        # the probe size the tool uses is the model's min_download
        h = b.run_model(["H 23 76"])[0]
        if not h.startswith("req=0-%d,%d-98 pos=25 loaded=25" % (PROBE - 1, PROBE)):
            res.violation("correspondence", "c04-corr:probe", "model header fetch for lead 23, header 99: %s" % h, {"line": "H 23 76"})
        if only_case is not None:
            cs = only_case["case"]
            if "B" not in cs:
                res.evaluations = 0
                return
            if cs.get("name") == "invalid-b":
                probe_invalid_b(res, b, rng)
                return
            s = Scn(cs["name"], bytes.fromhex(cs["A"]) if cs.get("A") else None, bytes.fromhex(cs["B"]),
                    bytes.fromhex(cs["T0"]) if cs.get("T0") is not None else None, "replay")
            todo = [(s, cs["limit"])]
            if cs.get("boundary_style"):
                b.srv.boundary_style = cs["boundary_style"]
                cp = cs.get("cut_at_parts", False)
                b.srv.cut_at_parts = tuple(cp) if isinstance(cp, list) else cp
        else:
            scs = scenarios(rng, tier, b.wd)
            todo = []
            for k, (s, lims) in enumerate(scs):
                if lims is None:
                    lims = LIMITS if tier == "thorough" else [LIMITS[(k + j) % 4] for j in range(2)]
                    if k % 9 == 0:
                        lims = lims + [0]
                for lim in lims:
                    todo.append((s, lim))
        lines = []
        for s, lim in todo:
            lines.append(model_line(ZF(s.B), ZF(s.A) if s.A is not None else None, s.T0, lim))
        mout = b.run_model(lines)
        for (s, lim), mline in zip(todo, mout):
            B = ZF(s.B)
            A = ZF(s.A) if s.A is not None else None
            rc, out, log, err = b.run_tool(s.A, s.B, s.T0, lim)
            key = "c04:" + s.key(lim)
            res.evaluations += 1
            good = check_update(res, "C04", B, A, s.B, s.A, s.T0, lim, rc, out, log, err, mline, key, s.case(lim))
            nbody = len([l for l in log if l[1] and l[1] not in header_requests(B)])
            if nbody:
                res.nontrivial.add(key)
            res.count("target:" + s.kind)
            res.count("limit:%d" % lim)
            res.count("pair:" + s.name.split("/")[0].rsplit("-ht", 1)[0])
            res.count("requests:%s" % ("0" if nbody == 0 else "1" if nbody == 1 else "2+"))
            if any(l[2] == 200 for l in log) and lim:
                res.count("backoff-runs")
            if any(l[2] == 206 and l[1] and "," in l[1] for l in log):
                res.count("multipart-runs")
            if len(res.samples) < 6 and nbody > 1 and good:
                res.sample({"scenario": s.name, "limit": lim, "chunks": len(B.chunks), "header": B.hdr_len,
                            "requests": [(l[2], l[1]) for l in log][:6], "model": mline[:200]})
        if only_case is None:
            # transport variations on multipart answers: pieces ending exactly at a part's last data byte,
            # boundaries made of the punctuation RFC 2046 allows (apostrophe included)
            seenB, multi = set(), []
            for s, _ in todo:
                if s.B not in seenB and len(ZF(s.B).chunks) >= 5:
                    seenB.add(s.B); multi.append(s)
            for s in multi[: (4 if tier == "quick" else 20)]:
                B = ZF(s.B)
                T0 = bytearray(s.B)
                for i in range(1, len(B.chunks), 2):        # every other chunk damaged: several separate ranges
                    dg, clen, ulen, off = B.chunks[i]
                    if clen:
                        T0[B.hdr_len + off] ^= 0xff
                T0 = bytes(T0)
                for style, cut in (("hex", True), ("rfc", False), ("rfc", True), ("hex", ("hdr", 1)), ("hex", ("hdr", 2)), ("rfc", ("hdr", 3)), ("hex", ("hdr", 4)), ("hex", ("hdr", 0))):
                    b.srv.boundary_style, b.srv.cut_at_parts = style, cut
                    try:
                        rc, out, log, err = b.run_tool(None, s.B, T0, 1000)
                    finally:
                        b.srv.boundary_style, b.srv.cut_at_parts = "hex", False
                    res.evaluations += 1
                    cutname = ("hdr%d" % cut[1]) if isinstance(cut, tuple) else ("cut" if cut else "whole")
                    key = "c04:transport:%s:%s:%s" % (s.name, style, cutname)
                    res.nontrivial.add(key)
                    res.count("transport:%s:%s" % (style, cutname))
                    if rc != 0 or out != s.B:
                        res.violation("oracle", key, "multipart answer (%s boundary%s): zckdl exit %d, target %s B"
                                      % (style, (", pieces ending %d bytes into the blank line of each part header" % cut[1]) if isinstance(cut, tuple) else ", pieces ending at part ends" if cut else "", rc, "==" if out == s.B else "!="),
                                      {"name": s.name, "B": s.B.hex(), "A": None, "T0": T0.hex(), "limit": 1000, "boundary_style": style, "cut_at_parts": cut})
        if only_case is None:   # regression probe for the fixed empty-range spin (invalid B: must end with an error, not hang)
            probe_invalid_b(res, b, rng)
        res.extra["tool_runs"] = b.n
    finally:
        b.close()
