"""C05 - range reassembly is fragmentation-independent, verified and confined.
Tie: extracted model (Dl/DlWrite.v, Dl/Multipart.v; regex = glibc through Stubs, hash = OpenSSL
through Stubs) vs the real zck_header_cb / zck_write_chunk_cb driven by harness/zh_c05.c.
Oracles on the implementation alone: (i) all fragmentations of one response end in the same
file / flags / verdict, (ii) placement computed here from the request, (iii) confinement
(masked file hash), (iv) valid flag => true bytes in place, failed => zero-filled."""
import concurrent.futures, hashlib, itertools, os, re
import vlib

PID = "C05"
THEOREMS = ["C05_total", "C05_streaming_dlw", "C05_streaming_mpx", "C05_streaming_mpx_any_partition", "C05_placement",
            "C05_any_partition", "C05_confinement", "C05_confinement_init", "C05_valid_chunks_untouched", "C05_verified",
            "C05_verified_init", "C05_mismatch_zeroed", "C05_streaming_refuted_zero_length",
            "C05_lit_decodes_next", "C05_lit_contract", "C05_lit_finds_range", "C05_parse_dec_value", "C05_header_boundary",
            "C05_mp_prefix", "C05_mp_any_partition", "C05_mp_placement", "C05_transfer",
            "C05_reset_reestablishes", "C05_reset_clears", "C05_session", "C05_session_start", "C05_session_valid_untouched",
            "C05_retry_plain", "C05_retry_multipart"]
ASSUMPTIONS = [
    "models Dl/DlWrite.v and Dl/Multipart.v are hand transcriptions of dl_write_range / multipart_extract / "
    "multipart_get_boundary and the two callbacks, tied by differential execution on every case",
    "hash H is a Section variable of every theorem (no property of the hash is assumed); the OCaml driver instantiates it "
    "with OpenSSL EVP",
    "POSIX regex: the streaming, safety, confinement and verification theorems quantify over every oracle rx_comp/rx_exec; "
    "the multipart placement theorems (C05_mp_*) are about the model instantiated with Dl/LiteralMatcher.v (lit_exec), a "
    "Gallina rendering of the meaning of the three patterns built from the templates regenerated from multipart.c "
    "(REGEX_NEXT/REGEX_END/REGEX_BOUNDARY, boundary escaped with REGEX_ESCAPE_SET). TRUSTED: that glibc regexec computes "
    "what lit_exec computes; guarded at run time: the driver runs the model with glibc regcomp/regexec and compares "
    "lit_exec with it on every distinct (pattern, string) pair of every case plus 20 000 (thorough 300 000) generated "
    "strings (several/partial/overlapping content-range occurrences, delimiters, case and space variants, header lines); "
    "any disagreement is a correspondence violation; the count is in coverage.literal_matcher_vs_glibc",
    "well-formed multipart body = Dl/MpGrammar.v: parts '[junk without CR/LF/NUL][CRLF]--B CRLF {line CRLF} Content-Range "
    "line CRLF {line CRLF} CRLF payload', closing 'CRLF--B--CRLF'; restrictions: boundary and extra header lines without "
    "CR/LF/NUL, no 'content-range:' in the extra lines AFTER the Content-Range line (the last occurrence wins in the "
    "pattern), no preamble line break directly before a delimiter line other than its own CRLF, payload arbitrary",
    "I/O is fault free in this model (seek/write always succeed; C12 covers faults); int wb truncation in dl_write "
    "needs a >= 2 GiB in-memory buffer and is out of scope",
    "streaming theorems need non-empty fragments and no zero-length entries in the range index; zck_get_missing_range (after fix 1261c1f) never creates one, the refuted example documents what happened before",
    "sessions: Dl/Session.v transcribes zck_dl_reset field by field and zck_get_missing_range(zck, -1) (all chunks with "
    "valid == 0 and stored bytes); the harness drives one zckDL like src/zck_dl.c (reset, missing range, set_range before "
    "every transfer) and the results are compared with the model; zckdl's max_ranges limit and its validity re-scan are "
    "not part of the session model",
    "harness builds the target zckCtx by hand (index_new_chunk, set_chunk_hash_type, temp file) and, for 'auto' cases, "
    "obtains the range from the real zck_get_missing_range",
]

FILL = 0xEE


def prng(seed, n):
    x = (seed * 2654435761 + 1) & 0xffffffff
    if x == 0:
        x = 1
    out = bytearray()
    for _ in range(n):
        x ^= (x << 13) & 0xffffffff
        x ^= x >> 17
        x ^= (x << 5) & 0xffffffff
        out.append(x & 0xff)
    return bytes(out)


def hdr_pattern(n):
    return bytes((i * 131 + 17) & 255 for i in range(n))


class Case:
    """one case line plus what the check knows about it"""

    def __init__(self, name, chunks, ridx, body, parts, doff=40, ht=1, post=None, hdrs=(), opts=(), kind="",
                 expect=None, group=None, known=None):
        self.name, self.chunks, self.ridx, self.body, self.parts = name, chunks, list(ridx), body, parts
        self.doff, self.ht, self.post, self.hdrs, self.opts = doff, ht, dict(post or {}), list(hdrs), list(opts)
        self.kind, self.expect, self.group, self.known = kind, expect, group, known
        self.lens = [c[0] for c in chunks]
        self.flags0 = [c[1] for c in chunks]
        self.data = [prng(c[2], c[0]) for c in chunks]
        self.starts = [sum(self.lens[:i]) for i in range(len(chunks))]
        self.flags = list(self.flags0)
        for k, v in self.post.items():
            self.flags[k] = v
        f = bytearray(hdr_pattern(doff))
        for i, l in enumerate(self.lens):
            f += self.data[i] if self.flags0[i] == 1 else bytes([FILL]) * l
        for o in self.opts:
            if o.startswith("trunc"):
                f = f[:int(o[5:])]
        self.init = bytes(f)

    def line(self):
        def j(xs):
            xs = list(xs)
            return ",".join(xs) if xs else "-"
        return "X %d %d %s %s %s %s %s %s %s" % (
            self.ht, self.doff, j("%d.%d.%d" % c for c in self.chunks), j(str(t) for t in self.ridx),
            j("%d.%d" % kv for kv in sorted(self.post.items())), j(vlib.hexs(h) for h in self.hdrs),
            vlib.hexs(self.body), self.parts, j(self.opts))

    def fillable(self):
        return [t for t in self.ridx if self.flags[t] != 1]

    def masked_expect(self, L):
        f = bytearray(self.init[:L]) + bytes(max(0, L - len(self.init)))
        for t in self.fillable():
            o = self.doff + self.starts[t]
            for i in range(o, min(o + self.lens[t], L)):
                f[i] = 0
        return hashlib.sha256(bytes(f)).hexdigest()

    def max_len(self):
        ends = [self.doff + self.starts[t] + self.lens[t] for t in self.fillable()]
        return max([len(self.init)] + ends)


_skip_zero = None


def skips_zero_length():
    """does zck_get_missing_range of the tree under test skip chunks with comp_length == 0 (fix 1261c1f)?
    read from the source so that the expected range index follows the working tree"""
    global _skip_zero
    if _skip_zero is None:
        src = open(os.path.join(vlib.REPO, "src", "lib", "dl", "range.c")).read()
        src = re.sub(r"/\*.*?\*/", "", src, flags=re.S)
        m = re.search(r"zck_get_missing_range\s*\(.*?\n\}", src, flags=re.S)
        _skip_zero = bool(m and re.search(r"if\s*\(\s*chk->comp_length\s*==\s*0\s*\)\s*continue", m.group(0)))
    return _skip_zero


def auto_ridx(chunks, doff):
    """the range index zck_get_missing_range builds: missing chunks in order, zero-length chunks skipped (when the
    tree has that fix).  Mirrors range_add otherwise: a chunk whose start equals the start of an existing range item
    only extends that item and gets NO index entry (D13/D14 of the unfixed code)"""
    items, ridx, pos = [], [], 0
    skipz = skips_zero_length()
    for i, (l, fl, _) in enumerate(chunks):
        start, end = pos + doff, pos + doff + l - 1
        pos += l
        if fl != 0:
            continue
        if l == 0 and skipz:
            continue
        hit = [it for it in items if it[0] == start]
        if hit:
            if end > hit[0][1]:
                hit[0][1] = end
        else:
            items.append([start, end])
            items.sort()
            ridx.append(i)
        # range_merge_combined
        k = 0
        while k < len(items) - 1:
            if items[k][1] >= items[k + 1][0] - 1:
                if items[k][1] < items[k + 1][1]:
                    items[k][1] = items[k + 1][1]
                del items[k + 1]
            else:
                k += 1
    return ridx, items


def runs_of(ridx, chunks):
    """contiguous runs of requested chunks (what a server answers part by part)"""
    runs = []
    for t in ridx:
        if runs and runs[-1][-1] == t - 1:
            runs[-1].append(t)
        else:
            runs.append([t])
    return runs


STYLES = {
    "plain": dict(),
    "ctype_before": dict(before=[b"Content-Type: application/octet-stream"]),
    "ctype_after": dict(after=[b"Content-Type: application/octet-stream"]),
    "both": dict(before=[b"Content-Type: application/x-zchunk", b"X-Extra: 1"], after=[b"X-Trailer: a b c"]),
    "lower": dict(cr=b"content-range"),
    "upper": dict(cr=b"CONTENT-RANGE"),
    "mixed": dict(cr=b"cOnTeNt-RaNgE", before=[b"content-type: text/plain"]),
    "spaces": dict(sp=True),
    "nolead": dict(nolead=True),
    # part headers longer than 512 / 1024 bytes
    "long600": dict(before=[b"X-Foo-%02d: " % i + b"v" * 40 for i in range(8)], after=[b"X-Bar: " + b"w" * 120]),
    "long1500": dict(before=[b"X-Foo-%02d: " % i + b"v" * 60 for i in range(14)], after=[b"X-Bar-%d: " % i + b"w" * 90 for i in range(4)]),
}
LONG_STYLES = ("long600", "long1500")


def mp_body(boundary, parts, total, style="plain"):
    st = STYLES[style]
    cr = st.get("cr", b"Content-Range")
    out = b""
    for n, (s, e, d) in enumerate(parts):
        lead = b"" if (n == 0 and st.get("nolead")) else b"\r\n"
        out += lead + b"--" + boundary + b"\r\n"
        for h in st.get("before", []):
            out += h + b"\r\n"
        if st.get("sp"):
            out += cr + b":  bytes  %d - %d  /%d\r\n" % (s, e, total)
        else:
            out += cr + b": bytes %d-%d/%d\r\n" % (s, e, total)
        for h in st.get("after", []):
            out += h + b"\r\n"
        out += b"\r\n" + d
    out += b"\r\n--" + boundary + b"--\r\n"
    return out


def ct_header(boundary, quoted=False, extra=b"", name=b"Content-Type: "):
    b = b'"' + boundary + b'"' if quoted else boundary
    return name + b"multipart/byteranges; boundary=" + b + extra + b"\r\n"


def response(c_chunks, ridx, doff, mode, boundary=b"00000000000000000023", style="plain", quoted=False,
             corrupt=None):
    """(hdrs, body) of a well-formed response for the request ridx; corrupt = (k, byte offset) flips a payload byte
    of the k-th requested chunk"""
    data = {t: bytearray(prng(c_chunks[t][2], c_chunks[t][0])) for t in ridx}
    if corrupt is not None:
        k, off = corrupt
        data[ridx[k]][off] ^= 0x5a
    starts = [sum(c[0] for c in c_chunks[:i]) for i in range(len(c_chunks))]
    total = doff + sum(c[0] for c in c_chunks)
    if mode == "plain":
        return [b"Content-Range: bytes 0-1/2\r\n"], b"".join(bytes(data[t]) for t in ridx)
    parts = []
    for run in runs_of(ridx, c_chunks):
        d = b"".join(bytes(data[t]) for t in run)
        s = doff + starts[run[0]]
        if len(d) == 0:
            continue
        parts.append((s, s + len(d) - 1, d))
    return [b"HTTP/1.1 206 Partial Content\r\n", ct_header(boundary, quoted), b"\r\n"], mp_body(boundary, parts, total, style)


def expect_for(c, corrupt_k=None):
    """expected final flags/classes and verdict for a well-formed (or payload-corrupted) response"""
    flags, cls = list(c.flags), []
    for i in range(len(c.chunks)):
        cls.append("E" if c.lens[i] == 0 else ("T" if c.flags0[i] == 1 else "I"))
    verdict = True
    for k, t in enumerate(c.ridx):
        if c.flags[t] == 1:
            continue
        if corrupt_k is not None and k == corrupt_k:
            flags[t], cls[t] = -1, "Z"
            verdict = False
            break
        flags[t] = 1
        cls[t] = "T" if c.lens[t] else "E"
    return {"verdict": verdict, "V": ",".join("%d%s" % (f if f != 2 else -1, cl) for f, cl in zip(flags, cls))}


RES = re.compile(r"^R=(\S*) L=(\d+) F=([0-9a-f]+) M=([0-9a-f]+) V=(\S*)(.*)$")
ENUM = re.compile(r"^B\[(.*?)\] N=(\d+) AG=(\d+) D\[(.*)\]$")


def parse(line):
    m = RES.match(line)
    if not m:
        return None
    r = m.group(1)
    return {"R": r, "verdict": all(ch in "1/" for ch in r.split("/")[-1]) if "E" in r else all(ch in "1/" for ch in r), "L": int(m.group(2)), "F": m.group(3), "M": m.group(4),
            "V": m.group(5), "extra": m.group(6).strip()}


def chunk_tables(rng, n, sizes=(1, 40)):
    return [(rng.randrange(sizes[0], sizes[1] + 1), 0, rng.randrange(1, 1 << 30)) for _ in range(n)]


BOUNDARIES_PLAIN = [b"00000000000000000023", b"x", b"gc0p4Jq0M2Yt08jU534c0p", b"A" * 70]
BOUNDARIES_META = [b"a.b(c", b"a+b", b"simple_boundary?=1", b"(paren)", b"b[1]", b"x{2}", b"a|b", b"^$", b"back\\slash",
                   b"*star"]


def gen_cases(tier, rng):
    cases = []
    thorough = tier == "thorough"
    # ---- (A) every subset of missing chunks, plain (one run) or multipart (several runs); fragmentations w / k1 / all1
    for n in ([2, 3, 4, 5, 6] + ([7, 8] if thorough else [])):
        base = chunk_tables(rng, n, (1, 12))
        subsets = range(1, 1 << n)
        if n > 6 or (not thorough and n == 6):
            subsets = sorted(rng.sample(range(1, 1 << n), 40 if not thorough else 120))
        for mask in subsets:
            chunks = [(l, 0 if (mask >> i) & 1 else 1, sd) for i, (l, _, sd) in enumerate(base)]
            ridx, _ = auto_ridx(chunks, 40)
            mode = "plain" if len(runs_of(ridx, chunks)) == 1 and rng.random() < 0.5 else "mp"
            hdrs, body = response(chunks, ridx, 40, mode)
            for parts in ("w", "k1", "all1"):
                c = Case("subset:n=%d:mask=%d:%s:%s" % (n, mask, mode, parts), chunks, ridx, body, parts, hdrs=hdrs,
                         opts=["auto"], kind="subset", group="subset:%d:%d" % (n, mask))
                c.expect = expect_for(c)
                cases.append(c)
    # ---- (B) all 1- and 2-cut partitions of small responses
    small = []
    for i in range(4 if not thorough else 8):
        n = rng.choice([2, 3, 4])
        chunks = chunk_tables(rng, n, (3, 18 if not thorough else 60))
        k = rng.randrange(n)
        chunks = [(l, 1 if (j == k and n > 2) else 0, sd) for j, (l, f, sd) in enumerate(chunks)]
        ridx, _ = auto_ridx(chunks, 24)
        mode = "plain" if (i == 0 and len(runs_of(ridx, chunks)) == 1) else "mp"
        style = rng.choice([k for k in STYLES if k not in LONG_STYLES])
        b = rng.choice(BOUNDARIES_PLAIN[:3] + BOUNDARIES_META[:4])
        hdrs, body = response(chunks, ridx, 24, mode, boundary=b, style=style, quoted=rng.random() < 0.4)
        small.append((i, chunks, ridx, hdrs, body, mode, style, b))
    for (i, chunks, ridx, hdrs, body, mode, style, b) in small:
        c = Case("all2:%d:%s:%s:len=%d" % (i, mode, style, len(body)), chunks, ridx, body, "all2", doff=24, hdrs=hdrs,
                 opts=["auto"], kind="all2")
        c.meta_boundary = b if mode == "mp" else None
        c.expect = expect_for(c)
        cases.append(c)
    # ---- (C) boundary strings / header spellings, each at several fragmentations
    chunks = [(9, 0, 11), (14, 1, 12), (6, 0, 13), (11, 0, 14), (5, 1, 15), (8, 0, 16)]
    ridx, _ = auto_ridx(chunks, 40)
    for b in BOUNDARIES_PLAIN + BOUNDARIES_META + ([b"B" * 300] if thorough else []):
        for style in ([k for k in STYLES if k not in LONG_STYLES] if (thorough or b in (BOUNDARIES_PLAIN[0], BOUNDARIES_META[0])) else ["plain", "both"]):
            for quoted in (False, True):
                hdrs, body = response(chunks, ridx, 40, "mp", boundary=b, style=style, quoted=quoted)
                for parts in ("w", "k1", "k7", "all1"):
                    c = Case("boundary=%s:%s:q=%d:%s" % (b.hex(), style, quoted, parts), chunks, ridx, body, parts,
                             hdrs=hdrs, opts=["auto"], kind="boundary", group="b:%s:%s:%d" % (b.hex(), style, quoted))
                    c.meta_boundary = b
                    c.expect = expect_for(c)
                    cases.append(c)
    # ---- (D) payload corruption at every requested chunk
    for mode in ("plain", "mp"):
        chunks = [(7, 0, 21), (12, 0, 22), (9, 0, 23), (4, 1, 24), (10, 0, 25)] if mode == "mp" else \
                 [(7, 0, 21), (12, 0, 22), (9, 0, 23), (10, 0, 25)]
        ridx, _ = auto_ridx(chunks, 40)
        for k in range(len(ridx)):
            for off in sorted({0, chunks[ridx[k]][0] - 1, chunks[ridx[k]][0] // 2}):
                hdrs, body = response(chunks, ridx, 40, mode, corrupt=(k, off))
                for parts in ("w", "k1", "k5", "all1"):
                    c = Case("corrupt:%s:k=%d:off=%d:%s" % (mode, k, off, parts), chunks, ridx, body, parts, hdrs=hdrs,
                             opts=["auto"], kind="corrupt", group="c:%s:%d:%d" % (mode, k, off))
                    c.expect = expect_for(c, corrupt_k=k)
                    cases.append(c)
    # ---- (E) large responses, fragments <= 16 KiB, sampled k-cut partitions
    for i in range(2 if not thorough else 6):
        n = rng.choice([4, 5, 6])
        chunks = [(rng.randrange(9000, 70000), 0 if rng.random() < 0.75 else 1, rng.randrange(1, 1 << 30)) for _ in range(n)]
        if all(f == 1 for _, f, _ in chunks):
            chunks[0] = (chunks[0][0], 0, chunks[0][2])
        ridx, _ = auto_ridx(chunks, 512)
        mode = "plain" if len(runs_of(ridx, chunks)) == 1 else "mp"
        hdrs, body = response(chunks, ridx, 512, mode, boundary=rng.choice(BOUNDARIES_PLAIN), style=rng.choice([k for k in STYLES if k not in LONG_STYLES]))
        plist = ["k16384", "k16383", "k4096"]
        for _ in range(3 if not thorough else 8):
            cuts, p = [], 0
            while True:
                p += rng.choice([1, 2, 3, 17, rng.randrange(1, 16385), 16384, 16384])
                if p >= len(body):
                    break
                cuts.append(p)
            plist.append("c" + ".".join(map(str, cuts)))
        for parts in plist:
            c = Case("large:%d:%s:%s" % (i, mode, parts[:24]), chunks, ridx, body, parts, doff=512, hdrs=hdrs,
                     opts=["auto"], kind="large", group="large:%d" % i, ht=rng.choice([0, 1, 2, 3]))
            c.expect = expect_for(c)
            cases.append(c)
    # ---- (F) hash types, truncated target file (writes extend it), chunk made valid after the range was built
    for ht in (0, 1, 2, 3):
        for chunks, optl in (([(10, 0, 31), (20, 1, 32), (15, 0, 33), (7, 0, 34)], (["auto"], ["auto", "trunc70"], ["auto", "trunc78"])),
                             ([(10, 0, 35), (20, 0, 36), (15, 0, 37)], (["auto", "trunc0"], ["auto", "trunc41"]))):
            ridx, _ = auto_ridx(chunks, 40)
            hdrs, body = response(chunks, ridx, 40, "mp")
            for opts in optl:
                for parts in ("w", "k3"):
                    c = Case("ht=%d:n=%d:%s:%s" % (ht, len(chunks), "+".join(opts), parts), chunks, ridx, body, parts, hdrs=hdrs,
                             opts=opts, kind="misc", ht=ht, group="ht:%d:%d:%s" % (ht, len(chunks), "+".join(opts)))
                    c.expect = expect_for(c)
                    cases.append(c)
    # a chunk that became valid after the request was built: its entry is skipped and its bytes cannot be skipped,
    # so the transfer stalls (not reachable through the library alone; model/code correspondence only)
    chunks = [(10, 0, 41), (20, 0, 42), (15, 0, 43)]
    hdrs, body = response(chunks, [0, 1, 2], 40, "plain")
    for parts in ("w", "k1", "k10", "k11"):
        c = Case("post-valid:%s" % parts, chunks, [0, 1, 2], body, parts, hdrs=hdrs, post={1: 1}, kind="postvalid")
        cases.append(c)
    # ---- (G) zero-length chunks among the missing ones: nothing is requested for them (zck_get_missing_range skips
    # them), the chunks with bytes are delivered, the zero-length chunk keeps its flag
    for nm, chunks in (("zero-first", [(0, 0, 51), (12, 0, 52), (9, 0, 53)]),
                       ("zero-mid", [(8, 0, 54), (0, 0, 55), (9, 0, 56)]),
                       ("zero-after-valid", [(8, 1, 57), (0, 0, 58), (9, 0, 59)]),
                       ("zero-last", [(8, 0, 60), (9, 0, 61), (0, 0, 62)]),
                       ("zero-twice", [(0, 0, 63), (0, 0, 64), (7, 0, 65), (0, 2, 66), (5, 0, 67)])):
        ridx, _ = auto_ridx(chunks, 40)
        want = [i for i, ch in enumerate(chunks) if ch[1] == 0 and ch[0] > 0]
        for mode in ("plain", "mp"):
            hdrs, body = response(chunks, want, 40, mode)
            for parts in ("w", "k1", "all1"):
                c = Case("%s:%s:%s" % (nm, mode, parts), chunks, ridx, body, parts, hdrs=hdrs, opts=["auto"], kind="zero",
                         group="zero:%s:%s" % (nm, mode))
                c.want = want
                c.expect = {"verdict": True, "V": ",".join(
                    ("%dE" % (-1 if ch[1] == 2 else ch[1]) if ch[0] == 0 else "1T") for ch in chunks)}
                cases.append(c)
    # ---- (I) boundaries over the whole RFC 2046 bchars alphabet with 0..8 ERE metacharacters ( ) + . ?
    named = [b"v1.2.3_build.7", b"==(7+7)==", b"what?.really?", b"192.168.1.20:8080/part", b"f(x)=x+1", b"((((....++++????))))",
             b"'()+_,-./:=?", b"a b c", b"....", b"+", b"(.)(.)(.)(.)"]
    plainch = b"0123456789abcdefghijklmnopqrstuvwxyzABCDEFGHIJKLMNOPQRSTUVWXYZ'_,-/:="
    gen = []
    for nmeta in range(0, 9):
        for _ in range(2 if not thorough else 8):
            n = rng.randrange(max(1, nmeta), 71)
            bb = [rng.choice(plainch) for _ in range(n - nmeta)] + [rng.choice(b"().+?") for _ in range(nmeta)]
            rng.shuffle(bb)
            gen.append(bytes(bb))
    chunks = [(9, 0, 11), (14, 1, 12), (6, 0, 13), (11, 0, 14)]
    ridx, _ = auto_ridx(chunks, 40)
    for b in named + gen:
        for quoted in (False, True):
            hdrs, body = response(chunks, ridx, 40, "mp", boundary=b, style=rng.choice(["plain", "both", "lower"]), quoted=quoted)
            for parts in ("w", "k1", "k11"):
                c = Case("bchars=%s:q=%d:%s" % (b.hex(), quoted, parts), chunks, ridx, body, parts, hdrs=hdrs, opts=["auto"],
                         kind="bchars", group="bc:%s:%d" % (b.hex(), quoted))
                c.meta_boundary = b
                c.expect = expect_for(c)
                cases.append(c)
    # ---- (J) a part larger than 32 KiB whose header is cut, followed by one big fragment: the stored unfinished header
    # (k bytes) is merged with a fragment of 1 / 16384 / 32767-k / 32768-k / 32769-k bytes / everything that is left
    for bi in range(1 if not thorough else 4):
        L = rng.randrange(33000, 34000) if not thorough else rng.randrange(33000, 70001)
        chunks = [(30, 0, rng.randrange(1, 1 << 30)), (20, 1, rng.randrange(1, 1 << 30)), (L, 0, rng.randrange(1, 1 << 30)),
                  (25, 0, rng.randrange(1, 1 << 30))]
        ridx, _ = auto_ridx(chunks, 64)
        b = rng.choice([b"bigPart_0001", b"big(part)+1"])
        hdrs, body = response(chunks, ridx, 64, "mp", boundary=b, style="ctype_before")
        d2 = prng(chunks[2][2], 16)
        hs = body.index(b"\r\n--" + b + b"\r\n", 10)          # start of the second part header = end of part 1 data
        he = body.index(d2)                                       # first payload byte of part 2 (blank line ends here)
        offs = list(range(hs + 1, he + 5))
        special = {hs + 1, hs + 2, (hs + he) // 2, he - 4, he - 1, he, he + 1, he + 2, he + 3, he + 4}
        for T in offs:
            k = T - hs
            sizes = ["rest"]
            if T in special or thorough:
                sizes += [1, 16384, 32767 - k, 32768 - k, 32769 - k]
            else:
                sizes.append([1, 16384, 32767 - k, 32768 - k, 32769 - k][T % 5])
            for sz in sizes:
                cuts = [T]
                if sz != "rest":
                    p2 = T + sz
                    while p2 < len(body):
                        cuts.append(p2)
                        p2 += 16384
                c = Case("bigpart:%d:cut=%d:k=%d:next=%s" % (bi, T, k, sz), chunks, ridx, body, "c" + ".".join(map(str, cuts)),
                         doff=64, hdrs=hdrs, opts=["auto"], kind="bigpart", group="bigpart:%d" % bi)
                c.expect = expect_for(c)
                cases.append(c)
    # ---- (K) spelling of the Content-Type header line (HTTP/2 lower case, odd capitalisation, spaces after the colon)
    chunks = [(9, 0, 11), (14, 1, 12), (6, 0, 13), (11, 0, 14)]
    ridx, _ = auto_ridx(chunks, 40)
    for ni, name in enumerate([b"content-type: ", b"Content-type: ", b"CONTENT-TYPE: ", b"Content-Type:", b"Content-Type:    ",
                               b"content-type:\t", b"cOnTeNt-TyPe: ", b"X-Other: 1; Content-Type: "]):
        for quoted in (False, True):
            b = b"ctName_%d" % ni
            _, body = response(chunks, ridx, 40, "mp", boundary=b)
            hdrs = [b"HTTP/1.1 206 Partial Content\r\n", ct_header(b, quoted, name=name), b"\r\n"]
            for parts in ("w", "k1", "k13"):
                c = Case("ctname=%s:q=%d:%s" % (name.hex(), quoted, parts), chunks, ridx, body, parts, hdrs=hdrs, opts=["auto"],
                         kind="ctname", group="ctname:%d:%d" % (ni, quoted))
                c.expect = expect_for(c)
                cases.append(c)
    # ---- (L) part headers longer than 512 / 1024 bytes, cut inside the header before and after those offsets, followed
    # by a fragment of 1 / 100 bytes / all the rest
    chunks = [(30, 0, 1301), (20, 1, 1302), (200, 0, 1303), (25, 0, 1304)]
    ridx, _ = auto_ridx(chunks, 64)
    for style in LONG_STYLES:
        b = b"longHdr"
        hdrs, body = response(chunks, ridx, 64, "mp", boundary=b, style=style)
        hs = body.index(b"\r\n--" + b + b"\r\n", 10)
        he = body.index(prng(chunks[2][2], 16))
        rel = sorted({1, 100, 400, 510, 511, 512, 513, 514, 600, 1000, 1023, 1024, 1025, he - hs - 5, he - hs - 1, he - hs, he - hs + 2})
        for k in [x for x in rel if 0 < x <= he - hs + 4]:
            T = hs + k
            for nxt in (1, 100, "rest"):
                cuts = [T] + ([] if nxt == "rest" else [T + nxt])
                c = Case("longhdr:%s:k=%d:next=%s" % (style, k, nxt), chunks, ridx, body, "c" + ".".join(map(str, cuts)), doff=64,
                         hdrs=hdrs, opts=["auto"], kind="longhdr", group="longhdr:" + style)
                c.expect = expect_for(c)
                cases.append(c)
        for parts in ("w", "k1", "k100") + (("all1",) if thorough else ()):
            c = Case("longhdr:%s:%s" % (style, parts), chunks, ridx, body, parts, doff=64, hdrs=hdrs, opts=["auto"], kind="longhdr",
                     group="longhdr:" + style)
            c.expect = expect_for(c)
            cases.append(c)
    # ---- (H) sessions: broken transfer -> zck_dl_reset -> retry
    cases += gen_sessions(tier, rng)
    return cases


class SCase(Case):
    """several transfers on one zckDL (reset + zck_get_missing_range before each); transfers = [(hdrs, body, parts)]"""

    def __init__(self, name, chunks, transfers, doff=24, ht=1, kind="session", expect=None, group=None):
        fill = [i for i, ch in enumerate(chunks) if ch[1] == 0 and ch[0] > 0]
        super().__init__(name, chunks, fill, b"", "s", doff=doff, ht=ht, kind=kind, expect=expect, group=group)
        self.transfers = transfers
        # a re-scan step recomputes every flag from the file: chunks flagged failed at the start become missing too
        if any(len(t) > 3 and t[3] and (t[3] is True or "r" in t[3]) for t in transfers):
            self.ridx = [i for i, ch in enumerate(chunks) if ch[0] > 0 and ch[1] in (0, 2)]

    def line(self):
        def j(xs):
            xs = list(xs)
            return ",".join(xs) if xs else "-"
        def steps(t):
            if len(t) < 4 or not t[3]:
                return ""
            return ":" + ("r" if t[3] is True else t[3])
        ts = "/".join("%s:%s:%s%s" % (j(vlib.hexs(h) for h in t[0]), vlib.hexs(t[1]), t[2], steps(t)) for t in self.transfers)
        return "S %d %d %s %s -" % (self.ht, self.doff, j("%d.%d.%d" % c for c in self.chunks), ts)


def response_spans(chunks, want, doff, mode, boundary=b"sEss10n", corrupt=None):
    """complete well-formed response for the chunks 'want' plus, per chunk, the body offset just after its last
    payload byte (a transfer cut at T has delivered the chunk iff that offset <= T)"""
    starts = [sum(c[0] for c in chunks[:i]) for i in range(len(chunks))]
    total = doff + sum(c[0] for c in chunks)
    ends, body = {}, b""
    def data(t):
        d = bytearray(prng(chunks[t][2], chunks[t][0]))
        if corrupt is not None and corrupt[0] == t:
            d[corrupt[1]] ^= 0x5a
        return bytes(d)
    if mode == "plain":
        for t in want:
            body += data(t)
            ends[t] = len(body)
        return [b"Content-Range: bytes 0-1/2\r\n"], body, ends
    for run in runs_of(want, chunks):
        s0 = doff + starts[run[0]]
        n = sum(chunks[t][0] for t in run)
        body += b"\r\n--" + boundary + b"\r\nContent-Type: application/octet-stream\r\nContent-Range: bytes %d-%d/%d\r\n\r\n" % (s0, s0 + n - 1, total)
        for t in run:
            body += data(t)
            ends[t] = len(body)
    body += b"\r\n--" + boundary + b"--\r\n"
    return [b"HTTP/1.1 206 Partial Content\r\n", ct_header(boundary), b"\r\n"], body, ends


def gen_sessions(tier, rng):
    """broken transfer(s) -> zck_dl_reset -> retry: the first response is cut at EVERY byte position (inside chunks,
    part headers, delimiters, exactly at chunk ends), then the complete response for what is still missing"""
    cases = []
    thorough = tier == "thorough"
    tables = [("mp", [(7, 0, 801), (9, 1, 802), (6, 0, 803), (11, 0, 804)]),
              ("plain", [(8, 1, 811), (7, 0, 812), (10, 0, 813), (5, 0, 814)]),
              ("mp", [(6, 0, 821), (5, 0, 822), (4, 1, 823), (9, 0, 824), (3, 0, 825)])]
    if thorough:
        tables += [(m, [(rng.randrange(1, 30), 0 if rng.random() < 0.7 else rng.choice([1, 2]), rng.randrange(1, 1 << 30))
                        for _ in range(rng.randrange(3, 7))]) for m in ("mp", "plain", "mp", "mp", "plain", "mp")]
    def missing(chunks, done):
        return [i for i, ch in enumerate(chunks) if ch[1] == 0 and ch[0] > 0 and i not in done]
    def mode_for(mode, chunks, want):
        return "plain" if mode == "plain" and len(runs_of(want, chunks)) == 1 else "mp"
    for ti, (mode, chunks) in enumerate(tables):
        want0 = missing(chunks, set())
        if not want0:
            continue
        h1, b1, e1 = response_spans(chunks, want0, 24, mode_for(mode, chunks, want0))
        exp = None
        for T in range(0, len(b1)):
            done = {t for t in want0 if e1[t] <= T}
            want1 = missing(chunks, done)
            h2, b2, e2 = response_spans(chunks, want1, 24, mode_for(mode, chunks, want1))
            p1 = ("w", "k1", "k3")[T % 3] if T else "w"
            p2 = ("k1", "w", "k4")[(T // 3) % 3]
            c = SCase("sess:%d:%s:cut=%d:%s:%s" % (ti, mode, T, p1, p2), chunks, [(h1, b1[:T], p1), (h2, b2, p2)])
            c.expect = expect_for(c)
            cases.append(c)
            if T % 3 == 2 and all(ch[1] != 2 for ch in chunks):
                # the client re-checks the file before retrying (zck_find_valid_chunks + zck_reset_failed_chunks): the
                # descriptor is left at the start of the data section
                c = SCase("sess-rescan:%d:%s:cut=%d:%s" % (ti, mode, T, p2), chunks, [(h1, b1[:T], p1), (h2, b2, p2, True)])
                c.expect = expect_for(c)
                cases.append(c)
            # two broken transfers in a row, then the complete one
            if T % (4 if not thorough else 1) == 1 and len(b2) > 2:
                for T2 in sorted({1, len(b2) // 2, len(b2) - 1, rng.randrange(1, len(b2))}):
                    done2 = done | {t for t in want1 if e2[t] <= T2}
                    want2 = missing(chunks, done2)
                    h3, b3, _ = response_spans(chunks, want2, 24, mode_for(mode, chunks, want2))
                    c = SCase("sess2:%d:%s:cut=%d.%d" % (ti, mode, T, T2), chunks,
                              [(h1, b1[:T], "k2"), (h2, b2[:T2], p2), (h3, b3, "k1" if T2 % 2 else "w")])
                    c.expect = expect_for(c)
                    cases.append(c)
        # payload corruption in transfer 1 (checksum failure: chunk zero-filled, marked failed, callback reports an error),
        # then the retry: without a re-scan the failed chunk is not requested again (flag -1), with a re-scan it is
        for kbad, t in enumerate(want0):
            hb, bb, _ = response_spans(chunks, want0, 24, mode_for(mode, chunks, want0), corrupt=(t, chunks[t][0] // 2))
            after = want0[kbad + 1:]
            for rs in (False, True):
                # what zck_get_missing_range asks for in the retry: without a re-scan the failed chunk (flag -1) is not
                # requested again; the re-scan (zck_find_valid_chunks + zck_reset_failed_chunks) recomputes every flag from the
                # file, so the chunk that just failed AND every chunk that was flagged failed from the start are missing again
                want1 = ([t] if rs else []) + after
                if rs:
                    want1 += [i for i, ch in enumerate(chunks) if ch[1] == 2 and ch[0] > 0]
                want1 = sorted(set(want1))
                h2, b2, _ = response_spans(chunks, want1, 24, mode_for(mode, chunks, want1))
                c = SCase("sess-corrupt:%d:%s:bad=%d:%s" % (ti, mode, t, "rescan" if rs else "noscan"), chunks,
                          [(hb, bb, ("w", "k1", "k7")[kbad % 3]), (h2, b2, "k3", rs)])
                flags, cls = [], []
                for i, ch in enumerate(chunks):
                    if ch[0] == 0:
                        flags.append(ch[1] if ch[1] != 2 else -1); cls.append("E")
                    elif i == t and not rs:
                        flags.append(-1); cls.append("Z")
                    elif ch[1] == 0 or (rs and ch[1] == 2):
                        flags.append(1); cls.append("T")
                    else:
                        flags.append(ch[1] if ch[1] != 2 else -1); cls.append("T" if ch[1] == 1 else "I")
                c.expect = {"verdict": False, "V": ",".join("%d%s" % fc for fc in zip(flags, cls))}
                cases.append(c)
        # a complete transfer followed by a needless retry (nothing missing: empty range, nothing must change)
        c = SCase("sess:%d:%s:complete-then-empty" % (ti, mode), chunks, [(h1, b1, "k5"), ([], b"", "w")])
        c.expect = expect_for(c)
        cases.append(c)
    return cases


def run_exe(exe, lines, wd, tag, timeout=3000):
    """run all lines; a crash costs only the crashing case (the rest is re-run)"""
    out = []
    todo = list(lines)
    err_all = ""
    while todo:
        o, err = vlib.run_cases(exe, todo, wd, tag, timeout=timeout)
        err_all += err[-1500:]
        k = 0
        while k < len(o) and o[k] != "NOTRUN":
            k += 1
        out += o[:k]
        todo = todo[k:]
    return out, err_all


def run_all(cases, tier, wd, pid="C05", asan_filter=None):
    model = vlib.ensure_model(pid)
    # zh_c17.c only #includes zh_c05.c: key its build on the included source as well
    srch = hashlib.sha256(open(os.path.join(vlib.VERIF, "harness", "zh_c05.c"), "rb").read()).hexdigest()[:12]
    extra = ("-DZH_SRC_KEY=0x%s" % srch,)
    impl = vlib.ensure_harness("zh_" + pid.lower(), "plain", extra=extra)
    impl_asan = vlib.ensure_harness("zh_" + pid.lower(), "asan", extra=extra)
    lines = [c.line() for c in cases]
    sub = [i for i, c in enumerate(cases) if asan_filter is None or asan_filter(c)]
    with concurrent.futures.ThreadPoolExecutor(3) as ex:
        fm = ex.submit(run_exe, model, lines, wd, "model")
        fi = ex.submit(run_exe, impl, lines, wd, "impl")
        fa = ex.submit(run_exe, impl_asan, [lines[i] for i in sub], wd, "asan")
        mo, _ = fm.result()
        io, ierr = fi.result()
        ao, aerr = fa.result()
    asan = {i: a for i, a in zip(sub, ao)}
    return mo, io, asan, ierr, aerr


def d32_key(c):
    b = getattr(c, "meta_boundary", None)
    if b is not None and any(ch in b".[]()*+?{}|^$\\" for ch in b):
        return "c05:d32:boundary=" + b.hex()
    return None


def check_case(res, c, mline, iline, aline, pfx="c05", compare_model=True):
    """all oracles + correspondence for one case; returns parsed implementation result (or None)"""
    res.evaluations += 1
    res.count(c.kind)
    info = {"line": c.line(), "name": c.name, "kind": c.kind, "expect": c.expect,
            "mb": getattr(c, "meta_boundary", None).hex() if getattr(c, "meta_boundary", None) else None,
            "impl": iline[:600], "model": (mline or "")[:600]}
    mres, spec = vlib.split_model(mline) if mline else (None, None)
    lm = re.match(r"LM=(\d+)/(\d+)(?: BAD=(\S+))?", spec or "")
    if lm:
        d = res.extra.setdefault("literal_matcher_vs_glibc", {"pairs_compared": 0, "agree": 0})
        d["pairs_compared"] += int(lm.group(2))
        d["agree"] += int(lm.group(1))
        if lm.group(3):
            pat, st = lm.group(3).split(":")
            res.violation("correspondence", pfx + "-lm:" + hashlib.sha256(lm.group(3).encode()).hexdigest()[:16],
                          "Dl/LiteralMatcher.v and glibc regexec disagree on pattern %r, string %r (case %s)"
                          % (bytes.fromhex(pat), bytes.fromhex(st)[:300], c.name),
                          {"line": c.line(), "name": c.name, "pattern": pat, "string": st})
    bad = False
    for tag, l in (("plain", iline), ("asan", aline)):
        if l is not None and l.split(" ")[0] in ("MEMFAULT", "HANG") or (l is not None and l.startswith("DIED")):
            key = pfx + ":memfault:" + c.name
            if "clr" in c.opts and d32_key(c):
                key = pfx + ":d15:boundary=" + c.meta_boundary.hex()
            res.violation("oracle", key, "callbacks fault (%s build, %s) on case %s" % (tag, l, c.name), info)
            bad = True
    if bad:
        return None
    m = ENUM.match(iline)
    if m:
        base, n, ag, first = parse(m.group(1)), int(m.group(2)), int(m.group(3)), m.group(4)
        res.evaluations += n
        res.nontrivial_extra += n
        res.traces += n
        if ag != n:
            key = d32_key(c) or (pfx + ":frag:" + c.name)
            res.violation("oracle", key, "fragmentation dependence: %d of %d partitions of response %s end differently from "
                          "the single call; first: cuts %s" % (n - ag, n, c.name, first[:300]), info)
            bad = True
        p = base
    else:
        p = parse(iline)
    if p is None:
        res.violation("harness", pfx + ":badline:" + c.name, "unparsable harness output %r" % iline[:200], info)
        return None
    if "RIDX-MISMATCH" in p["extra"]:
        res.violation("correspondence", pfx + ":ridx:" + c.name, "zck_get_missing_range built another range index than "
                      "the check expects (%s)" % c.name, info)
    # (iii) confinement
    if p["L"] > c.max_len() or p["L"] < len(c.init) or p["M"] != c.masked_expect(p["L"]):
        res.violation("oracle", pfx + ":confine:" + c.name, "bytes outside the extents of the requested, not yet valid chunks "
                      "changed (or the file has an impossible length %d) in case %s" % (p["L"], c.name), info)
        bad = True
    # (iv) flags vs content
    for i, item in enumerate(p["V"].split(",") if p["V"] else []):
        fl, cl = item[:-1], item[-1]
        if fl == "1" and cl not in ("T", "E") and i not in c.post:
            res.violation("oracle", pfx + ":valid-wrong:" + c.name, "chunk %d is marked valid but does not hold its bytes (%s) in %s"
                          % (i, item, c.name), info)
            bad = True
        if fl == "-1" and c.flags[i] != 2 and cl not in ("Z", "E"):
            res.violation("oracle", pfx + ":failed-not-zeroed:" + c.name, "chunk %d is marked failed but is not zero-filled (%s) in %s"
                          % (i, item, c.name), info)
            bad = True
    # (iv) at every step of a session: after each transfer a chunk flagged valid holds its bytes
    mi = re.search(r"I=(\S*)", p["extra"])
    if mi:
        for step, snap in enumerate(mi.group(1).split(";")):
            for i, item in enumerate(snap.split(",") if snap else []):
                if item[:-1] == "1" and item[-1] not in ("T", "E"):
                    res.violation("oracle", pfx + ":valid-wrong:" + c.name, "after transfer %d of %s chunk %d is flagged valid but does "
                                  "not hold its bytes (%s)" % (step + 1, c.name, i, item), info)
                    bad = True
    # (ii) placement
    if c.expect is not None and not bad:
        if p["verdict"] != c.expect["verdict"] or p["V"] != c.expect["V"]:
            key = d32_key(c) or (pfx + ":d14:" + c.name if c.kind == "zero" else pfx + ":place:" + c.name)
            res.violation("oracle", key, "well-formed response %s: expected verdict %s flags %s, the callbacks gave R=%s flags %s"
                          % (c.name, c.expect["verdict"], c.expect["V"], p["R"], p["V"]), info)
            bad = True
    if aline is not None and aline != iline and not bad:
        res.violation("oracle", pfx + ":asan-differs:" + c.name, "sanitized build gives another result on %s: %r" % (c.name, aline[:300]), info)
        bad = True
    if compare_model and mres is not None and mres != iline and not bad:
        res.violation("correspondence", pfx + "-corr:" + c.name, "model and code disagree on %s: model %r, code %r"
                      % (c.name, mres[:300], iline[:300]), info)
    return p


def group_check(res, cases, parsed, pfx="c05"):
    groups = {}
    for c, p in zip(cases, parsed):
        if c.group and p is not None:
            groups.setdefault(c.group, []).append((c, p))
    for g, items in groups.items():
        keys = {(p["verdict"], p["L"], p["F"], p["V"]) for _, p in items}
        if len(keys) > 1:
            c0 = items[0][0]
            key = d32_key(c0) or (pfx + ":d14:" + c0.name if c0.kind == "zero" else pfx + ":frag-group:" + g)
            res.violation("oracle", key, "the same response (%s) ends in different file/flags/verdict under different "
                          "fragmentations: %s" % (g, sorted(keys)[:3]),
                          {"line": c0.line(), "name": c0.name, "kind": c0.kind, "group": g,
                           "mb": getattr(c0, "meta_boundary", None).hex() if getattr(c0, "meta_boundary", None) else None,
                           "others": [c.line() for c, _ in items[1:] if len(c.line()) < 20000][:6]})


def case_from_replay(only_case):
    return only_case["case"]["line"]


class RawCase(Case):
    """a case rebuilt from its line (replay)"""

    def __init__(self, line):
        t = line.split()
        def sp(s, sep=","):
            return [] if s == "-" else s.split(sep)
        chunks = [tuple(int(x) for x in c.split(".")) for c in sp(t[3])]
        post = {int(a): int(b) for a, b in (x.split(".") for x in sp(t[5]))}
        super().__init__("replay", chunks, [int(x) for x in sp(t[4])], vlib.unhex(t[7]), t[8], doff=int(t[2]), ht=int(t[1]),
                         post=post, hdrs=[vlib.unhex(h) for h in sp(t[6])], opts=sp(t[9]), kind="replay")


def raw_scase(line):
    """a session case rebuilt from its line (replay)"""
    t = line.split()
    def sp(x, sep=","):
        return [] if x == "-" else x.split(sep)
    chunks = [tuple(int(v) for v in c.split(".")) for c in sp(t[3])]
    trs = []
    for tr in t[4].split("/"):
        f = tr.split(":")
        trs.append(([vlib.unhex(h) for h in sp(f[0])], vlib.unhex(f[1]), f[2], f[3] if len(f) > 3 else ""))
    return SCase("replay", chunks, trs, doff=int(t[2]), ht=int(t[1]))


def replay_cases(only_case):
    cs = only_case["case"]
    out = []
    for k, line in enumerate([cs["line"]] + list(cs.get("others", []))):
        c = raw_scase(line) if line.startswith("S ") else RawCase(line)
        c.name = cs.get("name", "replay") if k == 0 else "replay-other-%d" % k
        c.kind = cs.get("kind") or "replay"
        c.expect = cs.get("expect") if k == 0 else None
        c.meta_boundary = bytes.fromhex(cs["mb"]) if cs.get("mb") else None
        c.group = cs.get("group") if cs.get("others") else None
        if "want" in cs:
            c.want = cs["want"]
        out.append(c)
    return out


def swapcase_some(rng, b):
    return bytes((c ^ 0x20) if (65 <= (c & 0xdf) <= 90 and rng.random() < 0.4) else c for c in b)


def matcher_lines(rng, n):
    """strings aimed at the case splits of Dl/LiteralMatcher.v: several / partial / overlapping content-range
    occurrences, delimiters before and after them, case and space variants, the closing delimiter, header lines"""
    bs = [b"zck17boundary", b"x", b"a.b(c", b"(paren)", b"AbC", b"b[1]^$", b"\\back", b"\x80\xfe\xc3\xa9", b"content-range:",
          b"--", b"- -", b"++"]
    out = []
    for _ in range(n):
        b = rng.choice(bs)
        kind = rng.choice("nnnnneh")
        if kind in "ne":
            toks = [b"\r\n", b"\r\n", b"--" + b + b"\r\n", b"\r\n--" + b + b"\r\n", b"--" + b + b"--", b"\r\n--" + b + b"--\r\n",
                    b"--" + b, b + b"\r\n", b"Content-Range: bytes 1-2/3", b"content-range:bytes 10 - 20 /30", b"--" + b + b"\r\n",
                    b"content-range:", b"Content-Range: ", b"bytes", b" bytes ", b" ", b"  ", b"-", b"/",
                    b"0", b"17", b"4294967296", b"Content-Range: bytes 1-2/3", b"content-range:bytes 10 - 20 /30",
                    b"CONTENT-RANGE:   BYTES   5-6/7", b"Content-Range: bytes 1-2/", b"Content-Range: bytes -2/3",
                    b"Content-Range: bytes 1-/3", b"Content-Type: text/plain", b"c", b"C", b"ontent-range:", b"\r", b"\n",
                    b"x", b"\x01", b"\xff"]
        else:
            toks = [b"boundary=", b"boundary = ", b"BOUNDARY=\"", b"\r", b"\r\n", b"boundary", b"Boundary", b"BOUNDARY", b"=", b" =", b"= ", b" ", b"  ", b"\r", b"\n", b"\r\n", b"\"", b + b"",
                    b"Content-Type: multipart/byteranges; ", b"; charset=x", b"b", b"oundary", b"x", b"==", b"\t"]
        s = b"".join(swapcase_some(rng, rng.choice(toks)) if rng.random() < 0.5 else rng.choice(toks)
                     for _ in range(rng.randrange(1, 14)))
        s = s.replace(b"\x00", b"")
        out.append("M %s %s %s" % (kind, vlib.hexs(b), vlib.hexs(s)))
    return out


def matcher_fuzz(res, tier, rng, wd, pid="C05", pfx="c05"):
    """Dl/LiteralMatcher.v against glibc regexec on generated strings (model side only)"""
    lines = matcher_lines(rng, 20000 if tier == "quick" else 300000)
    model = vlib.ensure_model(pid)
    out, _ = run_exe(model, lines, wd, "lm")
    d = res.extra.setdefault("literal_matcher_vs_glibc", {"pairs_compared": 0, "agree": 0})
    for l, o in zip(lines, out):
        m = re.search(r"LM=(\d+)/(\d+)(?: BAD=(\S+))?", o)
        if not m:
            res.violation("harness", pfx + ":lm-badline", "matcher comparison did not run: %r" % o[:200], {"line": l})
            break
        d["pairs_compared"] += int(m.group(2))
        d["agree"] += int(m.group(1))
        if m.group(3):
            pat, st = m.group(3).split(":")
            res.violation("correspondence", pfx + "-lm:" + hashlib.sha256(m.group(3).encode()).hexdigest()[:16],
                          "Dl/LiteralMatcher.v and glibc regexec disagree on pattern %r, string %r"
                          % (bytes.fromhex(pat), bytes.fromhex(st)[:300]), {"line": l, "pattern": pat, "string": st})
    res.evaluations += len(lines)


def run(res, tier, only_case=None):
    rng = vlib.Rng(vlib.seed())
    res.rule = ("requests: every subset of missing chunks of 2-6 (thorough 8) chunk tables, answered as one plain range or as "
                "multipart/byteranges; 14 boundary strings (4 plain, 10 with ERE metacharacters) x 9 part-header spellings x "
                "quoted/unquoted; payload corruption at every requested chunk; each response fed whole, byte by byte, in "
                "k-byte pieces and at every single cut; all 1- and 2-cut partitions of small responses; sampled k-cut "
                "partitions (pieces <= 16384) of 100-300 KB responses; boundaries over the whole RFC 2046 bchars alphabet with 0..8 "
                "of the ERE metacharacters ( ) + . ?, quoted and unquoted; a part > 32 KiB whose header is cut at every offset (and 0..4 "
                "bytes past its blank line) followed by a fragment of 1 / 16384 / 32767-k / 32768-k / 32769-k bytes / all the rest "
                "(k = bytes of the unfinished header kept between the calls); sessions on one zckDL: the first response cut at EVERY byte "
                "position (inside chunks, part headers, delimiters, at chunk ends), zck_dl_reset + zck_get_missing_range, then "
                "the complete response for what is still missing; two broken transfers in a row. non-trivial = a (response, partition) pair with at "
                "least one cut, counted per partition inside the exhaustive sweeps")
    if only_case is not None:
        cases = replay_cases(only_case)
    else:
        cases = gen_cases(tier, rng)
    wd = vlib.scratch(PID)
    big = lambda c: c.parts == "all2" and len(c.body) > 160
    import zlib
    # quick tier: the sanitized build skips the long 2-cut sweeps and two thirds of the single-cut sweeps over the
    # boundary spellings (the plain build runs them all); thorough runs everything under ASan/UBSan too
    light = lambda c: not big(c) and not (c.kind == "boundary" and c.parts == "all1" and zlib.crc32(c.name.encode()) % 3)
    mo, io, asan, ierr, aerr = run_all(cases, tier, wd, "C05", asan_filter=lambda c: tier == "thorough" or light(c))
    parsed = []
    for k, c in enumerate(cases):
        p = check_case(res, c, mo[k] if k < len(mo) else None, io[k], asan.get(k))
        parsed.append(p)
        if c.parts != "w":
            res.nontrivial.add(c.name)
    group_check(res, cases, parsed)
    if only_case is None:
        matcher_fuzz(res, tier, vlib.Rng(vlib.seed() + 5), wd)
    elif only_case["case"].get("line", "").startswith("M "):
        pass
    for k in (0, len(cases) // 3, len(cases) // 2, len(cases) - 1):
        if cases:
            res.sample({"case": cases[k].name, "line": cases[k].line()[:300], "impl": io[k][:300]})
    vlib.shutil.rmtree(wd, ignore_errors=True)
