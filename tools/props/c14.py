"""C14 - random access returns each chunk's exact data regardless of request history.
Tie: extracted CompRead model vs the real zck_get_chunk_data / zck_get_chunk_comp_data (ASan).
Oracle (needs no model): request g<k> must return exactly the data of entry k known to the
generator (the dictionary for k = 0) with its declared size, request c<k> exactly the stored bytes
sliced out of the file by the reference parser, whose hash is the index digest."""
import hashlib, itertools
import vlib, zckfmt
from props import c02

THEOREMS = ["C14_request_sequence_zstd_nodict_partial", "C14_request_sequence"]
ASSUMPTIONS = [
    "C14_request_sequence covers both compression types, with and without dictionary chunk; no side condition on the file",
    "model Read/CompRead.v is a hand transcription of the read path, tied by differential execution on request sequences",
    "H and zdecomp are parameters (OpenSSL / libzstd in the run)",
    "file reads are fault free (property C12); the header layer provides the header record (property C13)",
    "extraction ExtrOcamlBasic; ocaml/drv_c02.ml + zvstubs.c; harness/zh_c02.c under ASan/UBSan",
]


def run(res, tier, only_case=None):
    rng = vlib.Rng(vlib.seed())
    res.rule = ("valid files with <= 6 entries (zstd: no / raw / zstd-format / crafted zstd-format dictionary, -u, empty-content chunk; uncompressed: with and "
                "without dictionary chunk, -u): every sequence of up to 3 (thorough: 4) requests over {data, stored data} x entries incl. the dictionary and the "
                "last chunk, plus random sequences of 200 requests. non-trivial = distinct (file, sequence)")
    impl = vlib.ensure_harness("zh_c02", "asan")
    model = vlib.ensure_model("C02")
    wd = vlib.scratch("C14")
    items = []
    if only_case is not None:
        c = only_case["case"]
        items = [(c.get("tag", "replay"), c.get("expect"), c["line"])]
    else:
        bases = c02.base_files(rng, wd, impl, tier, small_only=True)
        maxlen = 3 if tier == "quick" else 4
        for b in bases:
            n = len(b.h.chunks)
            exp = {}
            for k in range(n):
                d = b.entries[k]
                exp["g%d" % k] = "%d/%d/%s" % (len(d), len(d), c02.h16(d))
                s = b.stored(k)
                assert zckfmt.H(b.h.cht, s) == b.h.chunks[k][0] or len(s) == 0
                exp["c%d" % k] = "%d/%d/%s" % (len(s), len(s), c02.h16(s))
            syms = sorted(exp)
            # short-buffer requests (the first half of the chunk must come back) and single partial zck_read calls
            # (no oracle of their own: where the stream stands after a chunk request is not part of the property,
            # the model decides it) leave decompressed bytes unconsumed before the next request
            shorts = []
            for k in range(n):
                d = b.entries[k]
                if len(d) >= 2:
                    hs = len(d) // 2
                    exp["G%d:%d" % (k, hs)] = "%d/%d/%s" % (hs, hs, c02.h16(d[:hs]))
                    shorts.append("G%d:%d" % (k, hs))
            for rs in (1, 7):
                exp["r%d" % rs] = None
                shorts.append("r%d" % rs)
            seqs = []
            for L in range(1, maxlen + 1):
                allseq = list(itertools.product(syms, repeat=L))
                cap = 700 if tier == "quick" else 30000
                if len(allseq) > cap:
                    # all sequences over the data requests, a sample of the mixed ones
                    gs = [x for x in allseq if all(y[0] == "g" for y in x)]
                    allseq = gs[:cap] + rng.sample(allseq, max(0, cap - min(cap, len(gs))))
                seqs += allseq
            for _ in range(2 if tier == "quick" else 12):
                seqs.append(tuple(rng.choice(syms) for _ in range(200)))
            gsyms = [x for x in syms if x[0] == "g"]
            for sh in shorts:
                for g in gsyms:
                    seqs.append((sh, g))
                    seqs.append((g, sh, g))
            for _ in range(4 if tier == "quick" else 40):
                seqs.append(tuple(rng.choice(syms + shorts) for _ in range(rng.choice((3, 5, 60)))))
            # requests with a buffer LARGER than the chunk in the history (the end of the chunk is then reached
            # inside the read loop, with the chunk checksum context of the request): the first <declared size>
            # bytes must be the chunk, whatever was requested before
            longs = []
            for k in range(1, n):   # not the dictionary entry: the bytes after it belong to chunk 1, which such a
                d = b.entries[k]    # request would decode without the dictionary (outside the property: larger buffer)
                if len(d):
                    exp["P%d:%d" % (k, len(d) + 3)] = "prefix:%d/%s" % (len(d), c02.h16(d))
                    longs.append("P%d:%d" % (k, len(d) + 3))
            for lg in longs:
                for g in gsyms:
                    seqs.append((g, lg))
                    seqs.append((lg, g, lg))
            for _ in range(10 if tier == "quick" else 200):
                seqs.append(tuple(rng.choice(syms + longs) for _ in range(rng.choice((4, 8)))))
            for sq in seqs:
                items.append(("%s:len%d" % (b.kind, len(sq)), [exp[x] for x in sq], "F %s %s" % (b.f.hex(), ",".join(sq))))
    lines = [it[2] for it in items]
    io, mo, ierrs = c02.run_both(lines, wd, impl, model)
    errmap = dict(ierrs)
    for k, ((tag, expect, line), i, m) in enumerate(zip(items, io, mo)):
        res.evaluations += 1
        res.count(tag.split(":")[0])
        mres, spec = vlib.split_model(m)
        key = "c14:%s:%s" % (tag.split(":")[0], hashlib.sha256(line.encode()).hexdigest()[:12])
        case = {"line": line, "tag": tag, "impl": i, "model": mres, "expect": expect}
        if c02.crashed(i):
            if i != "NOTRUN":
                res.violation("oracle", key, "a request sequence ends in %s %s" % (i, vlib.san_summary(errmap.get(k, ""))), case)
            continue
        res.nontrivial.add(hashlib.sha256(line.encode()).digest())
        toks = i.split()
        bad = None
        if not toks or toks[0] != "open=1":
            bad = "a valid file does not open"
        elif expect is not None:
            ops = line.split()[2].split(",")
            got = toks[1:]
            if len(got) != len(ops):
                bad = "%d results for %d requests" % (len(got), len(ops))
            else:
                for j, (o, g, e) in enumerate(zip(ops, got, expect)):
                    val = g.split("=", 1)[1].split("!")[0] if "=" in g else g
                    if o[0] == "r" and g.endswith("!1"):
                        break   # a failed zck_read leaves the context in the error state: later requests are refused, by contract
                    if e is not None and e.startswith("prefix:"):
                        parts = val.split("/")
                        want_len, want_h = e[7:].split("/")
                        if not (len(parts) == 4 and parts[0].isdigit() and int(parts[0]) >= int(want_len) and parts[3] == want_h):
                            bad = "request #%d (%s, buffer larger than the chunk) after %s returns %s; its first %s bytes should hash to %s" % (j + 1, o, ",".join(ops[:j]) or "nothing", val, want_len, want_h)
                            break
                        continue
                    if e is not None and val != e:
                        bad = "request #%d (%s) after %s returns %s instead of %s (return value/bytes/sha256-64)" % (j + 1, o, ",".join(ops[:j]) or "nothing", val, e)
                        break
        if bad:
            res.violation("oracle", key, "%s file: %s" % (tag.split(":")[0], bad), case)
            continue
        if i != mres:
            res.violation("correspondence", key.replace(":", "-corr:", 1),
                          "CompRead model and the library disagree on a request sequence (%s): model %s.. code %s.." % (tag, mres[:150], i[:150]), case)
    for k in (0, len(lines) // 2, len(lines) - 1):
        if lines:
            res.sample({"tag": items[k][0], "case": lines[k][-60:], "impl": io[k][:200]})
    vlib.shutil.rmtree(wd, ignore_errors=True)
