"""C09 - the validity scan classifies every chunk exactly and is side-effect free.
Tie: extracted validate_checksums / validate_data (Read/Scan.v, on top of the extracted header
reader) vs zck_validate_checksums / zck_validate_data_checksum / zck_find_valid_chunks on a
context opened READ-ONLY (harness/zh_c09.c, ASan build): return values, every valid flag and
the reader-visible state after every call.
Oracle (independent of the model): every chunk digest and the data digest recomputed with
hashlib from the reference parser's view of the file; the file's bytes before/after; a
read-to-end after any sequence of validation calls compared with the same reads without them
and, for intact files, with the content the file was made from."""
import copy, hashlib, itertools
import vlib, zckfmt, filegen

THEOREMS = ["C09_scan_exact", "C09_flag_of_chunk", "C09_verdict", "C09_scan_detached", "C09_validate_data",
            "C09_any_sequence", "C09_wf_of_parsed"]
ASSUMPTIONS = [
    "model Read/Scan.v is a hand transcription of validate_checksums / validate_chunk / validate_file / zck_validate_data_checksum "
    "(hash.c) and read_data (io.c), tied by differential execution: return value, all flags, file position and hash-context states after every call",
    "the file is a regular file without I/O faults: read() returns the requested bytes or, at end of file, fewer (fault schedules are C12); "
    "the context is opened for reading and not in an error state",
    "hash function H is a parameter of model and specification (instantiated with OpenSSL in the run); no property of H is used",
    "T9.4 is proved as state restoration (file position at the data section, fresh data-hash accumulator after every call); that comp_read "
    "re-initialises check_chunk_hash itself before its first use is read off comp.c and tested by real read-to-end calls in every run, not proved",
    "a zero-length chunk counts as matching iff its index digest is all zeros (validate_chunk), the empty first entry (sizes 0/0) always; "
    "the extent of a zero-length chunk is inside any file",
    "extraction ExtrOcamlBasic; ocaml/drv_c09.ml + zvstubs.c; harness/zh_c09.c under ASan/UBSan",
]

OPS = "vdf"


def sha(b):
    return hashlib.sha256(b).hexdigest()


# ------------------------------------------------------------------ independent oracle
def all_zero(b):
    return not any(b)


class View:
    """what the property text says about a file, from the reference parser (zckfmt) and hashlib"""

    def __init__(self, f):
        self.ok = False
        pf = zckfmt.parse_file(f)
        if pf is None:
            return
        h, body = pf
        self.h, self.f = h, f
        self.doff = len(f) - len(body)
        self.detached = h.detached
        self.uflag = bool(h.flags & 4)
        self.good, start = [], 0
        for i, (dg, ud, clen, ulen) in enumerate(h.chunks):
            if i == 0 and clen == 0 and ulen == 0:
                g = True
            elif clen == 0:
                g = all_zero(dg)
            elif self.doff + start + clen > len(f):
                g = False
            else:
                g = zckfmt.H(h.cht, f[self.doff + start:self.doff + start + clen]) == dg
            self.good.append(g)
            start += clen
        self.total = start
        self.data_present = self.doff + start <= len(f)
        self.data_good = self.data_present and zckfmt.H(h.ht, f[self.doff:self.doff + start]) == h.ddigest
        self.ok = True

    def scan(self, flags):
        """(return value, flags) of validate-all / find-valid"""
        if self.detached:
            g = self.good[0]
            return (1 if g else -1), [1 if g else -1] + flags[1:]
        allg = all(self.good)
        if allg and not self.uflag and not self.data_good:
            return -1, [-1] * len(self.good)
        return (1 if allg and (self.uflag or self.data_good) else -1), [1 if g else -1 for g in self.good]

    def data(self, flags):
        if self.uflag:
            return self.scan(flags)
        return (1 if self.data_good else -1), flags


def parse_impl_line(line):
    """'open=1 n=3 p=.. v=1[1,1]p=.. r=0/12/sha[..]p=.. end=sha/len' -> dict"""
    toks = line.split()
    out = {"open": toks[0] == "open=1", "ops": [], "end": None, "raw": toks}
    for t in toks[1:]:
        if t.startswith("end="):
            out["end"] = t[4:]
        elif t[0] in "vdfr" and t[1] == "=":
            val, rest = t[2:].split("[", 1)
            fl, st = rest.split("]", 1)
            out["ops"].append((t[0], val, [int(x) for x in fl.split(",")] if fl else [], st))
    return out


def corr_prefix(line):
    """tokens both sides must agree on: everything before the first read, and the end token"""
    toks = line.split()
    keep = []
    for t in toks:
        if t == "r" or t.startswith("r="):
            break
        if not t.startswith("end="):
            keep.append(t)
    return keep + [t for t in toks if t.startswith("end=")]


# ------------------------------------------------------------------ case generation
def damage(rng, f, doff, extents, pattern):
    """pattern: one of p z g a per chunk.  'a' (absent): a trailing run is cut off the file, an
    inner one is a hole (zeros), as in a sparse target"""
    b = bytearray(f)
    n = len(extents)
    cut = n
    while cut > 0 and pattern[cut - 1] == "a":
        cut -= 1
    for k, (s, l) in enumerate(extents):
        st = pattern[k]
        if st in "za":
            b[doff + s:doff + s + l] = bytes(l)
        elif st == "g":
            g = bytearray(rng.rbytes(l))
            if l and bytes(g) == bytes(b[doff + s:doff + s + l]):
                g[0] ^= 1
            b[doff + s:doff + s + l] = g
    end = doff + (extents[cut][0] if cut < n else (extents[-1][0] + extents[-1][1] if extents else 0))
    return bytes(b[:end]) if cut < n else bytes(b)


def base_file(rng, nchunks, ht, cht, flags, dict_len, sizes=(1, 2, 3, 5, 9)):
    chunks = [rng.rbytes(rng.choice(sizes)) for _ in range(nchunks)]
    f, h = zckfmt.build_file(chunks, ht=ht, cht=cht, flags=flags, dict_chunk=rng.rbytes(dict_len))
    doff = len(h.build())
    ext, s = [], 0
    for (_, _, clen, _) in h.chunks:
        ext.append((s, clen)); s += clen
    return f, h, doff, ext, b"".join(chunks)


def detached_of(h, f, doff):
    hh = copy.deepcopy(h); hh.detached = True
    return hh.build() + f[doff:doff + h.chunks[0][2]]


def gen_cases(rng, tier, wd):
    """list of (tag, file bytes, ops, content or None)"""
    quick = tier == "quick"
    out = []
    # (a) every present/zeroed/garbage/absent pattern
    full_n = (1, 2, 3, 4, 5) if quick else (1, 2, 3, 4, 5, 6, 7, 8)
    for n in full_n:
        ht, cht = rng.choice([0, 1, 2, 3]), rng.choice([0, 1, 2, 3])
        flags = 4 if n % 3 == 0 else 0
        f, h, doff, ext, data = base_file(rng, n, ht, cht, flags, rng.choice([0, 4]))
        for pat in itertools.product("pzga", repeat=n):
            pat = ("p",) + pat          # the dictionary entry is damaged in (b)
            out.append(("subset%d" % n, damage(rng, f, doff, ext, pat), "v" if n >= 5 else "vd", None))
    for n, cnt in ((8, 600), ) if quick else ((10, 10000), ):
        f, h, doff, ext, data = base_file(rng, n, 1, 3, 0, 3)
        for _ in range(cnt):
            pat = tuple(rng.choice("ppzga") for _ in range(n + 1))
            out.append(("subset%d" % n, damage(rng, f, doff, ext, pat), rng.choice(["v", "f", "vd", "dv"]), None))
    # (b) with / without dictionary, -u flag, detached header, all hash types: every truncation length
    for ht, cht, flags, dl in ((0, 0, 0, 0), (1, 3, 0, 5), (2, 1, 4, 0), (3, 2, 4, 6), (1, 1, 0, 7)) if quick else \
            [(a, b, c, d) for a in range(4) for b in range(4) for c in (0, 4) for d in (0, 5)]:
        f, h, doff, ext, data = base_file(rng, 3, ht, cht, flags, dl)
        out.append(("valid", f, "vdfr", data))
        for cut in range(doff - 2, len(f)):
            out.append(("trunc", f[:cut], rng.choice(["vdf", "fdv", "dvr"]), None))
        for extra in (1, 100):
            out.append(("overlong", f + rng.rbytes(extra), "vdfr", data))
        for pat in itertools.product("pzg", repeat=2):
            out.append(("dict", damage(rng, f, doff, ext, pat + ("p", "p")), "vd", None))
        d = detached_of(h, f, doff)
        out.append(("detached", d, "vdfv", None))
        for cut in range(doff - 1, len(d)):
            out.append(("detached-trunc", d[:cut], "vdf", None))
        if dl:
            g = bytearray(d); g[doff] ^= 0x40
            out.append(("detached-garbage", bytes(g), "fvd", None))
        out.append(("detached-overlong", d + f[doff + dl:], "vdf", None))
        # all chunks right, data digest wrong
        hh = copy.deepcopy(h); hh.ddigest = rng.rbytes(len(h.ddigest))
        out.append(("datadigest", hh.build() + f[doff:], "vdfr", None))
    # (c) chunks of identical 32 KiB blocks cut inside / at block borders (stale-buffer witness)
    for blocks, ht, cht in ((2, 1, 3), (3, 0, 1)) if quick else ((2, 1, 3), (3, 0, 1), (2, 2, 2), (4, 3, 0)):
        x = rng.rbytes(32768)
        chunks = [x * blocks, b"tail"]
        f, h = zckfmt.build_file(chunks, ht=ht, cht=cht)
        doff = len(h.build())
        out.append(("blocks", f, "vdr", b"".join(chunks)))
        for cut in [32768 * k + d for k in range(1, blocks + 1) for d in (-1, 0, 1, 5, 20000)]:
            if cut < len(f) - doff:
                out.append(("blocks-cut", f[:doff + cut], rng.choice(["v", "fd", "dv"]), None))
    # (c2) the same with the big chunk LAST (the file ends inside the last chunk after whole 32 KiB blocks of it), also under
    # the uncompressed-source flag (no data checksum behind the chunk verdicts)
    for blocks, ht, cht, fl in ((2, 1, 1, 0), (2, 1, 1, 4)) if quick else ((2, 1, 1, 0), (2, 1, 1, 4), (3, 0, 2, 0), (3, 2, 2, 4)):
        x = rng.rbytes(32768)
        chunks = [b"head" * 5, rng.rbytes(300), x * blocks]
        f, h = zckfmt.build_file(chunks, ht=ht, cht=cht, flags=fl)
        doff = len(h.build())
        out.append(("lastblocks", f, "vdr", b"".join(chunks)))
        for cut in [320 + 32768 * k + d for k in range(1, blocks + 1) for d in (-1, 0, 1, 5, 20000)]:
            if cut < len(f) - doff:
                for ops in ("v", "fd", "f", "dv"):
                    out.append(("lastblocks-cut", f[:doff + cut], ops, None))
    # (c3) chunks whose stored bytes ARE zeros (entirely, or in their first 32 KiB block): they look like never-written or
    # wiped extents but carry the right checksum and must be recognised as valid
    for ht, cht, fl in ((1, 1, 0), (1, 3, 4)) if quick else ((1, 1, 0), (1, 3, 4), (0, 2, 0), (2, 1, 4)):
        chunks = [bytes(5), rng.rbytes(20), bytes(32768), bytes(40000) + rng.rbytes(50), rng.rbytes(9), bytes(1)]
        if fl & 4 and cht in (0, 3):
            cht = 1
        f, h = zckfmt.build_file(chunks, ht=ht, cht=cht, flags=fl)
        doff = len(h.build())
        out.append(("zero-chunks", f, "vdr", b"".join(chunks)))
        for ops in ("f", "fv", "dvf"):
            out.append(("zero-chunks", f, ops, b"".join(chunks)))
        for cut in (doff + 5 + 20 + 32768, doff + 5 + 20 + 32768 + 40000, doff + 5 + 20 + 100, len(f) - 1):
            out.append(("zero-chunks-cut", f[:cut], rng.choice(["v", "f", "fd"]), None))
    # (d) crafted index entries
    f, h, doff, ext, data = base_file(rng, 3, 1, 3, 0, 0)
    body = f[doff:]
    def crafted(tag, mut, newbody=None, ops="vdf"):
        hh = copy.deepcopy(h); mut(hh)
        nb = body if newbody is None else newbody
        if not (hh.flags & 4):
            hh.ddigest = zckfmt.H(hh.ht, nb[:sum(c[2] for c in hh.chunks)])
        out.append((tag, hh.build() + nb, ops, None))
    c0 = rng.rbytes(3)
    crafted("first-ulen0-clen3", lambda hh: hh.chunks.__setitem__(0, (zckfmt.H(3, c0), None, 3, 0)), c0 + body)
    crafted("first-ulen0-clen3-garbage", lambda hh: hh.chunks.__setitem__(0, (zckfmt.H(3, c0), None, 3, 0)), b"\1\2\3" + body)
    crafted("first-ulen0-clen3-short", lambda hh: hh.chunks.__setitem__(0, (zckfmt.H(3, c0), None, 3, 0)), c0[:2])
    crafted("first-clen0-ulen5", lambda hh: hh.chunks.__setitem__(0, (bytes(16), None, 0, 5)))
    crafted("first-clen0-ulen5-digest", lambda hh: hh.chunks.__setitem__(0, (rng.rbytes(16), None, 0, 5)))
    crafted("first-empty-digest", lambda hh: hh.chunks.__setitem__(0, (rng.rbytes(16), None, 0, 0)))
    crafted("mid-empty-zero", lambda hh: hh.chunks.insert(2, (bytes(16), None, 0, 0)))
    crafted("mid-empty-hash", lambda hh: hh.chunks.insert(2, (zckfmt.H(3, b""), None, 0, 0)))
    crafted("last-empty-zero", lambda hh: hh.chunks.append((bytes(16), None, 0, 0)))
    crafted("last-empty-zero-cut", lambda hh: hh.chunks.append((bytes(16), None, 0, 0)), body[:-1])
    crafted("last-empty-hash", lambda hh: hh.chunks.append((zckfmt.H(3, b""), None, 0, 7)))
    crafted("clen-huge", lambda hh: hh.chunks.__setitem__(2, (hh.chunks[2][0], None, 2 ** 40, 5)))
    crafted("swap", lambda hh: hh.chunks.__setitem__(slice(1, 3), [hh.chunks[2], hh.chunks[1]]))
    # (e) every interleaving of v d f r up to length 4 on a few files
    f, h, doff, ext, data = base_file(rng, 3, 1, 3, 0, 4, sizes=(5, 9, 40))
    fu, hu, doffu, extu, datau = base_file(rng, 2, 2, 1, 4, 0, sizes=(5, 9))
    targets = [("seq-valid", f, data), ("seq-trunc", f[:-3], None), ("seq-garbage", damage(rng, f, doff, ext, "ppgp"), None),
               ("seq-uflag", fu, datau), ("seq-uflag-zero", damage(rng, fu, doffu, extu, "pzp"), None)]
    lens = (1, 2, 3) if quick else (1, 2, 3, 4)
    seqs = ["".join(s) for L in lens for s in itertools.product("vdfr", repeat=L)]
    if quick:
        seqs += ["".join(rng.choice("vdfr") for _ in range(4)) for _ in range(40)]
    for tag, g, content in targets:
        for s in seqs:
            out.append((tag, g, s, content))
    # (f) zstd files written by the tree's own zck tool
    for g, content, _ in filegen.zstd_files(rng, 6 if quick else 30, wd, "plain"):
        pf = zckfmt.parse_file(g)
        if pf is None:
            continue
        hh, body = pf
        doff = len(g) - len(body)
        # content is not compared for these: the manual-split writer has defects of its own (C01);
        # reads after validations are compared with reads without them
        out.append(("zstd", g, "vdfr", None))
        out.append(("zstd", g, "rv", None))
        out.append(("zstd", g, "fdr", None))
        ext, s = [], 0
        for (_, _, clen, _) in hh.chunks:
            ext.append((s, clen)); s += clen
        for _ in range(4 if quick else 12):
            pat = "".join(rng.choice("pppzga") for _ in ext)
            out.append(("zstd-damaged", damage(rng, g, doff, ext, pat), rng.choice(["v", "fd", "dvr", "vr"]), None))
        for _ in range(3 if quick else 8):
            if len(g) > doff:
                out.append(("zstd-trunc", g[:rng.randrange(doff, len(g))], rng.choice(["vd", "fr"]), None))
        out.append(("zstd-detached", detached_of(hh, g, doff), "vdf", None))
    return out


def stripped(ops):
    return "".join(c for c in ops if c == "r")


def run(res, tier, only_case=None):
    rng = vlib.Rng(vlib.seed())
    res.rule = ("files from the independent reference encoder (all checksum types, with/without dictionary, uncompressed-source flag, detached header) "
                "and zstd files written by the tree's zck; every present/zeroed/garbage/absent pattern of <= 5 (thorough 8) data chunks, sampled patterns "
                "of 8 (10); every truncation length of small files; over-long files; chunks of 2-4 identical 32 KiB blocks cut around every block border; "
                "wrong data digest with all chunks right; crafted entries (first entry with size 0 but stored bytes, empty chunks with zero / non-zero "
                "digest, huge stored size); every interleaving of validate-all / validate-data / find-valid / read-to-end up to length 3 (4). "
                "non-trivial = distinct (file, call sequence) whose file opens")
    wd = vlib.scratch("C09")
    if only_case is not None:
        cases = [(only_case["case"].get("tag", "replay"), vlib.unhex(only_case["case"]["line"].split()[1]), only_case["case"]["line"].split()[2], None)]
    else:
        cases = gen_cases(rng, tier, wd)
    lines = ["S %s %s" % (vlib.hexs(f), ops) for _, f, ops, _ in cases]
    # baseline runs for the read comparison: the same file with the validation calls removed
    base_idx = {}
    blines = []
    for (_, f, ops, _), line in zip(cases, lines):
        if "r" in ops and stripped(ops) != ops:
            bl = "S %s %s" % (vlib.hexs(f), stripped(ops))
            if bl not in base_idx:
                base_idx[bl] = len(blines); blines.append(bl)
    model = vlib.ensure_model("C09")
    impl = vlib.ensure_harness("zh_c09", "asan")
    env = {"ZH_TMP": wd}
    mo, _ = vlib.run_cases(model, lines, wd, "model", timeout=1500)
    io, errs = vlib.run_cases_resilient(impl, lines, wd, "impl", env=env, timeout=1500)
    bo, _ = vlib.run_cases_resilient(impl, blines, wd, "base", env=env, timeout=1500) if blines else ([], [])
    errmap = dict(errs)
    for k, ((tag, f, ops, content), line, i, m) in enumerate(zip(cases, lines, io, mo)):
        res.evaluations += 1
        hk = hashlib.sha256(line.encode()).hexdigest()[:12]
        case = {"line": line, "tag": tag, "impl": i[:600], "model": m[:600]}
        if i == "MEMFAULT" or i.endswith("HANG") or i.startswith("DIED") or i == "NOTRUN":
            if i != "NOTRUN":
                res.violation("oracle", "c09:%s:fault:%s" % (tag, hk), "validation calls [%s] on a %s file end in %s: %s" % (ops, tag, i[-30:], vlib.san_summary(errmap.get(k, ""))), case)
            continue
        pi = parse_impl_line(i)
        view = View(f)
        res.count(tag + (":open" if pi["open"] else ":refused"))
        mres, _spec = vlib.split_model(m)
        # --- correspondence
        if corr_prefix(i) != corr_prefix(mres):
            res.violation("correspondence", "c09-corr:%s:%s" % (tag, hk), "model and library disagree on [%s] over a %s file: model %s.. code %s.." % (ops, tag, mres[:200], i[:200]), case)
        # --- oracle: the file is never modified
        if pi["end"] != "%s/%d" % (sha(f), len(f)):
            res.violation("oracle", "c09:%s:modified:%s" % (tag, hk), "the file changed during [%s] on a %s file" % (ops, tag), case)
            continue
        if not pi["open"]:
            continue
        res.nontrivial.add(hk)
        if not view.ok:
            res.violation("correspondence", "c09-corr:%s:refparse:%s" % (tag, hk), "library opens a file the reference parser rejects", case)
            continue
        flags = [0] * len(view.good)
        bad = None
        for (o, val, fl, st) in pi["ops"]:
            if o == "r":
                if not val.startswith("0/"):
                    break       # a failed read leaves the context in its (sticky) error state: later calls refuse
                flags = None
                continue
            prev = flags if flags is not None else fl
            ret, exp = (view.scan(prev) if o in "vf" else view.data(prev))
            if flags is None and (o == "d" and not view.uflag or view.detached):
                exp = None      # flags after a read are the reader's business (C02/C15)
            if int(val) != ret:
                bad = "%s returns %s, the stored bytes say %d" % (o, val, ret)
            elif exp is not None and fl != exp:
                wrong = [j for j in range(len(exp)) if j < len(fl) and fl[j] != exp[j]]
                bad = "after %s chunk(s) %s are flagged %s, the stored bytes say %s" % (o, wrong, [fl[j] for j in wrong], [exp[j] for j in wrong])
            if bad:
                break
            flags = exp if exp is not None else fl
        if bad:
            res.violation("oracle", "c09:%s:%s:%s" % (tag, ops, hk), "%s file, calls [%s]: %s" % (tag, ops, bad), case)
            continue
        # --- oracle: reads after validations = reads without them (= the content for intact files)
        reads = [(val, st) for (o, val, fl, st) in pi["ops"] if o == "r"]
        if reads:
            rv = [v for v, _ in reads]
            bl = "S %s %s" % (vlib.hexs(f), stripped(ops))
            if bl in base_idx:
                b = parse_impl_line(bo[base_idx[bl]])
                bv = [val for (o, val, fl, st) in b["ops"] if o == "r"]
                def norm(a, b2):
                    # the close verdict is only taken when the read is the last call of a sequence
                    out_a, out_b = [], []
                    for x, y in zip(a, b2):
                        if x.count("/") != y.count("/"):
                            x, y = "/".join(x.split("/")[:3]), "/".join(y.split("/")[:3])
                        out_a.append(x); out_b.append(y)
                    return out_a, out_b
                na, nb = norm(rv, bv)
                if len(bv) != len(rv) or na != nb:
                    res.violation("oracle", "c09:%s:read:%s:%s" % (tag, ops, hk), "%s file: read-to-end inside [%s] gives %s, without the validation calls %s" % (tag, ops, rv, bv), case)
                    continue
            want = "0/%d/%s" % (len(content), sha(content)) if content is not None else None
            if content is not None and rv[0] not in (want, want + "/c1"):
                res.violation("oracle", "c09:%s:content:%s:%s" % (tag, ops, hk), "intact %s file: read-to-end inside [%s] gives %s, expected %d bytes %s" % (tag, ops, rv[0], len(content), sha(content)[:16]), case)
    for k in (0, len(lines) // 3, len(lines) - 1):
        res.sample({"tag": cases[k][0], "ops": cases[k][2], "file_hex": vlib.hexs(cases[k][1])[:300], "impl": io[k][:300]})
    res.extra["opened"] = sum(1 for i in io if i.startswith("open=1"))
    res.extra["read_baselines"] = len(blines)
    vlib.shutil.rmtree(wd, ignore_errors=True)
