#!/usr/bin/env python3
"""Rewrites section 11 of DESIGN.md (between the markers) from seeded/*/meta.json."""
import glob, json, os, re
VERIF = os.path.dirname(os.path.dirname(os.path.abspath(__file__)))
STRENGTHENED = {
    "C13-2": "missed at first; generator gained values aliasing the true one modulo 2^31/2^32/2^33/2^40/2^63 for every numeric field",
    "C06-1": "missed at first; bases whose header digest has an early 0x00 byte were added",
    "C06-2": "missed at first; the whole substitution sweep is now also run through the pinned-digest API path",
    "C12-3": "missed at first; a writer scenario that calls zck_clear_error() and retries was added",
    "C16-2": "missed at first; contents with content-defined boundaries planted 0..100 bytes behind the automatic minimum were added",
    "C08-3": "missed at first; pairing cases across compression types with dictionaries of different lengths were added",
    "C09-2": "first caught only as a model/code disagreement; the oracle now compares the zck_close verdict of a read after validations",
    "C03-2": "missed at first; copy scenarios with a source whose chunk digests are longer than the target's were added",
    "C05-2": "missed at first; the in-memory target index of the harness now gives every chunk an uncompressed size different from its stored size",
    "C02-1": "missed at first; every re-sealed structure mutant is now also offered under the detached-header magic (the five magic bytes are outside the header checksum)",
    "C15-1": "missed at first; call sequences with a verdict taken before the reads (validate / find-valid) and with zck_clear_error + retry were added (oracle only)",
    "C15-2": "first caught only as a model/code disagreement; the clear-error-and-retry sequences give the failing input",
    "C04-1": "missed at first (libcurl's fragmentation is not controlled): the range server can now deliver multipart bodies in pieces ending exactly at each part's last data byte; also caught by C05",
    "C04-3": "missed at first; the range server can now use boundaries made of the punctuation RFC 2046 allows (apostrophe included); also caught by C05",
    "C02-4": "missed at first by C02 and C14; C14 gained short-buffer requests (G<k>:<half>) and single partial zck_read calls in front of a request, with the first half of the chunk as expected answer",
    "C02-5": "missed at first; re-sealed mutants with the boundary values 0 and 1 for the declared sizes (uncompressed 0/1, stored 0, both 0) were added",
    "C01-4": "missed at first; minimum chunk sizes around the 10 MiB default maximum with no explicit maximum (a refusal of the option is accepted, a hang or a lossy file is not) and more than the minimum written into one chunk were added",
    "C01-6": "a short write() is an I/O fault: outside what the C01 check explores, caught by the C12 fault schedules",
    "C16-6": "missed at first by C16 (caught by C01 only as a model/code disagreement); C16 gained a tool part: the archive of `zck -s` must be byte-identical for every partition of the input into read() results",
    "C05-6": "missed at first; sessions of several transfers (broken transfer, zck_dl_reset, retry) were added to model, harness and generator",
    "C07-5": "missed at first; pins one byte off at EVERY position are now offered, also for files whose header digest contains a 0x00 byte in front of other bytes",
    "C07-6": "missed at first; the pin model gained zck_clear_error (Pins.v ClearErr), theorems C07_pin_sticky / C07_pin_survives, and sequences 'accepted pin, refused calls, clear error' on the pinned and on another file with a sequence oracle",
    "C06-4": "missed at first; every compressed integer of the header is now also offered in a longer non-minimal encoding (alone and with the enclosing size fields adjusted), plain and pinned",
    "C06-5": "missed at first; the sweep over the lead is now also run with the pin options set AFTER zck_read_lead",
    "C08-4": "first caught only as a model/code disagreement; the frame oracle now bounds the target's length, and full targets with one hole whose source copy is damaged were added (uncompressed and zstd)",
    "C08-5": "missed at first; a pairing call between two sources (flags of the source set from the indexes alone) in front of the copy was added (op M)",
    "C08-6": "first caught only as a model/code disagreement; the target now wants the source's last chunk in front of its first one, so that a source cut inside its last chunk leaves a wanted neighbour",
    "C03-4": "missed at first; hand-built zstd files (raw-block frames) whose dictionary chunk carries the zstd dictionary magic with unusable tables were added",
    "C03-5": "missed at first; call sequences with a single partial zck_read in front of a chunk request were added, and valid files now run every sequence in the quick tier",
    "C03-6": "missed at first; header opens with a pin of ANOTHER hash type whose digest bytes agree with the file's as far as they go were added (sanitized build)",
    "C11-4": "missed at first by C11 and C09; both gained new-version files whose last chunk spans several 32 KiB scan blocks, cut / killed deep inside it, also under the uncompressed-source flag",
    "C11-6": "missed at first by C11 (caught by C09); C11 gained a chunk of exactly 32768 stored bytes",
    "C19-5": "caught by the proof obligation on the inventory of writable statics (regenerated from the object files); the thread runs did not produce a differing result",
    "C19-6": "caught by the proof obligation on the inventory of writable statics",
    "C13-8": "missed at first; the header harness now re-queries the chunk count and re-iterates after building download ranges twice",
    "C13-9": "missed at first; the header harness now looks every chunk up by number (twice, ascending, descending, one past the end) and compares with the iteration",
    "C16-9": "missed at first; segmentations with chunking options set after the first data (refused, error cleared, writing continues) were added: same file required",
    "C05-8": "missed at first; multipart responses with a 33-70 KB part, a cut at every offset of a part header and next fragments around 32768 minus the stored bytes were added",
    "C05-9": "missed at first; boundaries over the full RFC 2046 alphabet with 0..8 regex metacharacters, quoted and unquoted, were added",
    "C04-9": "missed at first by C04 (caught by C05); the range server can now end a piece 0..4 bytes into the blank line of every part header",
    "C12-9": "missed at first; the tools are now also run under EINTR and ENOSPC faults on every write",
    "C17-4": "missed at first; sessions (broken transfer, optional re-scan, reset, second response of any kind) were added to C17 with theorems C17_session, C17_rescan_sound",
    "C07-7": "missed at first; C07 gained 'validate the lead now' and 'the file changes under the context' steps (pins already used once must still hold for the next read)",
    "C08-9": "missed at first; C08 gained write-mode sources (tables built by zck_generate_hashdb, op H), crafted cross-compression targets and one-sided uncompressed-source flags",
    "C03-8": "missed at first; pairings in both directions across files that differ in compression type and uncompressed-source flag were added",
    "C03-9": "missed at first; header opens with a pinned header length off by one were added (sanitized build; the context is freed after the refusal)",
    "C18-7": "missed at first (digests unchanged, the caller's buffer is damaged); C18 gained a writer+reader run through the API in both builds for every (overall, chunk) checksum type pair",
    "C20-9": "the lost bound is at the caller (header.c read_sig), not in the codec: caught by C03 and C13 (sanitized header parsing), not by C20",
    "C02-11": "the header body is not hashed when a digest is pinned: outside the streaming reads C02 explores, caught by C06 (pinned sweep over every header byte)",
    "C02-12": "missed at first; valid files whose content ends in (or consists of) whole blocks of zeros were added and every valid base file now goes through unzck with file output",
    "C03-11": "missed at first; a hand-built zstd file with an empty-frame chunk (stored bytes, 0 uncompressed bytes) behind fully read chunks was added",
    "C04-10": "cross-compression copy with the uncompressed-source flag on both sides: caught by C08; C04's scenarios use one compression type per pair",
    "C06-10": "missed at first; the header harness now clears the error after a refusal and reads the header (and the lead) again: a mutant must not open on the second try either",
    "C07-11": "missed at first; pinned lengths congruent to the real one modulo 2^31..2^62 were added (and type values beyond INT_MAX, which exposed the defect fixed in fc042ff)",
    "C07-12": "missed at first; sequences that set the pins BEFORE zck_init_adv_read were added",
    "C08-12": "missed at first; chunks with 32 KiB-aligned zero blocks copied over a target that already holds other bytes there were added",
    "C11-11": "missed at first by C11 and caught by C09 only as a model/code disagreement; both gained chunks whose stored bytes are zeros",
    "C11-12": "zck_validate_lead is not used by zckdl: caught by C07 after it gained 'a failed validate must leave the context ready: matching pins then open' (first only as a model/code disagreement)",
    "C12-11": "missed at first; the tools are now also run under a short write followed by an error on the next write (second fault through ZH_FAULT2)",
    "C12-12": "missed at first; a copy scenario whose target wants the same source chunk three times was added",
    "C17-10": "missed at first; error / zck_clear_error steps inside sessions were added",
    "C03-14": "missed at first; header mutants whose optional-element size wraps the cursor back onto the element, with an element count that never runs out, were added (and a per-case watchdog in the header harness)",
    "C05-14": "missed at first; the spelling of the Content-Type header line name (case, blanks) is now varied",
    "C05-15": "missed at first; part headers of 600 and 1500 bytes with cuts before and after byte 512 / 1024 were added",
    "C06-14": "missed at first; the substitution sweep is now also run with type, digest AND header length pinned",
    "C17-14": "missed at first; header lines arriving after body callbacks of the same transfer (a second boundary, the same one, an unrelated line) were added, modelled and compared",
    "C01-3": "caught as HANG; the per-case watchdog was shortened so that the check stays fast",
}


def main():
    rows = []
    for d in sorted(glob.glob(os.path.join(VERIF, "seeded", "*", "meta.json")), key=lambda p: (p.split("/")[-2].split("-")[0], int(p.split("/")[-2].split("-")[1]))):
        m = json.load(open(d))
        name = d.split("/")[-2]
        v = m.get("verdicts", {})
        cells = []
        for pid, x in sorted(v.items()):
            line = x.get("line", "")
            stage = "oracle (failing input)" if "_oracle_" in line else "correspondence" if "_correspondence_" in line else "proof obligation" if "_proof_" in line else "-"
            cells.append("%s: %s" % (pid, ("caught, " + stage) if x.get("caught") else "NOT caught"))
        title = (m.get("title") or m.get("what_breaks", ""))[:150].replace("|", "/")
        rows.append("| %s | %s | %s | %s |" % (name, title, "; ".join(cells) or "not run yet", STRENGTHENED.get(name, "")))
    txt = ["## 11. Seeded changes and which checks catch them", "",
           "Fresh sub-agents were given only a property's text and a scratch worktree and asked for realistic changes that break the property while the project",
           "still builds and its 37 tests still pass, each with a demonstration. Every change below was confirmed independently (`tools/seedconfirm.py`: patch applied,",
           "build, `meson test` green, demonstration fails; reverted, demonstration passes) and is kept under `seeded/<id>-<n>/` (patch.diff, demo, meta.json with the",
           "recorded verdicts). `tools/seedtest.py <dir>` applies a change to `/repo`, runs the quick check of its property and undoes it. 'oracle (failing input)' means",
           "the check printed a VIOLATION with a concrete replay; 'correspondence' / 'proof obligation' mean a VIOLATION … no-failing-input-found.", "",
           "Four rounds of twenty seeders (three changes per property and round, the second round run in two halves) and a short last round for the ten properties with the most misses; later rounds were told only in general terms what had been done before and",
           "were steered towards call sequences, option combinations, tools and error paths). %d changes in all. About one change in five slipped through the quick" % len(rows),
           "check of its property at first (%d, plus %d caught only as a model/code disagreement); each miss was turned into a generator, oracle or model" % (sum('missed at first' in v for v in STRENGTHENED.values()), sum('first caught only' in v for v in STRENGTHENED.values())),
           "extension (column 'note'), three of them into new theorems (C07 pin stickiness, C05/C17 sessions, C02 request API), and two side remarks of seeders",
           "about the UNCHANGED tree turned out to be genuine defects (dd3b01f, fc042ff). A handful are outside what the named property's check explores and are",
           "caught by the check of the property they really break (noted). `tools/seedcorpus.py` re-runs the whole corpus in parallel scratch worktrees; the",
           "last full run (240 of 240 caught, before the last round was added) is recorded in each meta.json under `rerun`.", "",
           "| seed | change | verdict of the quick check | note |", "|---|---|---|---|"] + rows + [""]
    p = os.path.join(VERIF, "DESIGN.md")
    s = open(p).read()
    a, b = "<!-- SEEDS-BEGIN -->", "<!-- SEEDS-END -->"
    block = a + "\n" + "\n".join(txt) + "\n" + b
    if a in s:
        s = s[:s.index(a)] + block + s[s.index(b) + len(b):]
    else:
        marker = "## Appendix A"
        s = s.replace(marker, block + "\n\n---------------------------------------------------------------------------------\n\n" + marker, 1)
    open(p, "w").write(s)
    print(len(rows), "seeds")


if __name__ == "__main__":
    main()
