#!/usr/bin/env python3
"""Inventory of the library's static storage, taken from the COMPILED objects of the working
tree (C19).  Rewrites coq/Gen/GenStatics.v (only when the content changed).

Every library source file is compiled (vlib.ensure_lib: 'plain' = OpenSSL backend, and the three
bundled-SHA sources from the 'bundled' variant), then for every object file

  * `readelf -S -W` gives the section table with the section FLAGS,
  * `readelf -s -W` gives the symbol table (OBJECT / TLS / COMMON symbols with their section index),

and each data symbol is classified by the section it lives in - never by its name or by the nm
letter alone:

  writable   section has flag W, has no flag T, and is not named .data.rel.ro*   -> `statics`
  relro      section named .data.rel.ro* (flag W in the object, but mapped read-only by the
             dynamic loader after relocation: tables of pointers the compiler proved constant,
             e.g. `const static char *COMP_NAME[]`)                           -> `relro_statics`
  tls        section has flag T (.tdata/.tbss: one instance per thread)          -> `tls_statics`
  read-only  section without flag W (.rodata*, e.g. `buzhash_table`)             -> counted only
  COMMON     (tentative definitions, only with -fcommon) are writable            -> `statics`

Bytes of a writable section that no symbol covers (beyond alignment padding) are reported as a
pseudo symbol "<unnamed>" so that nothing writable can hide from the inventory.  Function-local
statics appear as `name.NNN`; the numeric suffix is dropped (it changes with unrelated edits).
The object is named by its source path relative to src/lib.

A source file under src/lib that the inventory build does not compile is a hard error (the
inventory would silently miss it), as is any failure of the tools."""
import os, re, subprocess, sys

sys.path.insert(0, os.path.dirname(os.path.abspath(__file__)))
import vlib

GEN = os.environ.get("VERIF_GEN_DIR") or os.path.join(vlib.VERIF, "coq", "Gen")
SKIP_DIRS = ("win32",)          # not compiled on this platform; replaced by libc here


def die(msg):
    sys.stderr.write("gen_statics: %s\n" % msg)
    sys.exit(3)


def run(cmd):
    p = subprocess.run(cmd, stdout=subprocess.PIPE, stderr=subprocess.PIPE)
    if p.returncode != 0:
        die("%s failed: %s" % (" ".join(cmd), p.stderr.decode("utf-8", "replace")[-500:]))
    return p.stdout.decode("utf-8", "replace")


def sections(obj):
    """index -> (name, size, flags, align)"""
    out = {}
    txt = run(["readelf", "-S", "-W", obj])
    # [Nr] Name Type Address Off Size ES Flg Lk Inf Al
    rx = re.compile(r"^\s*\[\s*(\d+)\]\s+(\S*)\s+(\S+)\s+([0-9a-f]+)\s+([0-9a-f]+)\s+([0-9a-f]+)\s+([0-9a-f]+)\s+([A-Za-z]*)\s+(\d+)\s+(\d+)\s+(\d+)\s*$")
    for line in txt.splitlines():
        m = rx.match(line)
        if m:
            out[int(m.group(1))] = (m.group(2), int(m.group(6), 16), m.group(8), int(m.group(11)))
    if not out:
        die("no section table parsed from " + obj)
    return out


def symbols(obj):
    """list of (name, value, size, type, bind, ndx)"""
    out = []
    txt = run(["readelf", "-s", "-W", obj])
    rx = re.compile(r"^\s*\d+:\s+([0-9a-f]+)\s+(\d+|0x[0-9a-f]+)\s+(\S+)\s+(\S+)\s+(\S+)\s+(\S+)\s*(.*)$")
    seen = False
    for line in txt.splitlines():
        m = rx.match(line)
        if not m:
            continue
        seen = True
        size = int(m.group(2), 0)
        out.append((m.group(7).strip(), int(m.group(1), 16), size, m.group(3), m.group(4), m.group(6)))
    if not seen:
        die("no symbol table parsed from " + obj)
    return out


def classify(name, flags):
    if "T" in flags:
        return "tls"
    if name.startswith(".data.rel.ro"):
        return "relro"
    if "W" in flags:
        return "writable"
    return "readonly"


def canon(sym):
    return re.sub(r"\.\d+$", "", sym)


def inventory_object(obj, label):
    secs = sections(obj)
    syms = symbols(obj)
    res = {"writable": [], "relro": [], "tls": [], "readonly": 0, "bind": {}}
    covered = {}                      # section index -> list of (start, end)
    for name, value, size, typ, bind, ndx in syms:
        if typ not in ("OBJECT", "TLS", "COMMON", "NOTYPE"):
            continue
        if ndx == "COM":
            res["writable"].append((label, canon(name), size))
            res["bind"][(label, canon(name))] = bind
            continue
        if not ndx.isdigit():
            continue                   # UND, ABS
        i = int(ndx)
        if i not in secs:
            die("symbol %s of %s refers to unknown section %s" % (name, obj, ndx))
        sname, ssize, flags, align = secs[i]
        if "A" not in flags:
            continue                   # debug info etc.
        if typ == "NOTYPE":
            if name == "" or name.startswith(".L") or size == 0:
                continue               # local labels (.LC0 string constants, ...)
        kind = classify(sname, flags)
        if "X" in flags:
            continue
        covered.setdefault(i, []).append((value, value + size))
        if kind == "readonly":
            res["readonly"] += 1
        else:
            res[kind].append((label, canon(name), size))
            res["bind"][(label, canon(name))] = bind
    # writable bytes not covered by any symbol
    for i, (sname, ssize, flags, align) in secs.items():
        if "A" not in flags or "X" in flags or ssize == 0:
            continue
        if classify(sname, flags) != "writable":
            continue
        rs = sorted(covered.get(i, []))
        pos, hidden = 0, 0
        for a, b in rs:
            if a > pos:
                gap = a - pos
                if gap >= max(align, 1) or gap >= 64:
                    hidden += gap
            pos = max(pos, b)
        if ssize > pos:
            gap = ssize - pos
            if gap >= max(align, 1) or gap >= 64 or not rs:
                hidden += gap
        if hidden:
            res["writable"].append((label, "<unnamed:%s>" % sname, hidden))
    return res


def library_objects():
    """(source path relative to src/lib, object file) for every compiled library source"""
    lib_root = os.path.join(vlib.REPO, "src", "lib")
    known = set(vlib.LIB_SOURCES_COMMON + vlib.LIB_SOURCES_OPENSSL + vlib.LIB_SOURCES_BUNDLED)
    present = set()
    for d, _, fs in os.walk(lib_root):
        rel = os.path.relpath(d, lib_root)
        if rel.split(os.sep)[0] in SKIP_DIRS:
            continue
        for f in fs:
            if f.endswith(".c"):
                present.add(os.path.normpath(os.path.join(rel, f)).replace(os.sep, "/"))
    missing = sorted(present - known)
    if missing:
        die("library source file(s) not covered by the inventory build (add them to vlib.LIB_SOURCES_*): "
            + ", ".join(missing))
    gone = sorted(known - present)
    if gone:
        die("library source file(s) expected by the inventory build are gone: " + ", ".join(gone))
    try:
        dp = vlib.ensure_lib("plain")
        db = vlib.ensure_lib("bundled")
    except vlib.BuildError as e:
        die("cannot compile the library: %s" % e)
    out = []
    for s in vlib.LIB_SOURCES_COMMON + vlib.LIB_SOURCES_OPENSSL:
        out.append((s, os.path.join(dp, s.replace("/", "_") + ".o")))
    for s in vlib.LIB_SOURCES_BUNDLED:
        out.append((s, os.path.join(db, s.replace("/", "_") + ".o")))
    for s, o in out:
        if not os.path.exists(o):
            die("object file for %s is missing (%s)" % (s, o))
    return out


def inventory():
    tot = {"writable": [], "relro": [], "tls": [], "readonly": 0, "bind": {}}
    for s, o in library_objects():
        r = inventory_object(o, s)
        for k in ("writable", "relro", "tls"):
            tot[k] += r[k]
        tot["readonly"] += r["readonly"]
        tot["bind"].update(r["bind"])
    for k in ("writable", "relro", "tls"):
        tot[k].sort()
    return tot


# ----------------------------------------------------------------------------------
# syntactic scan: which functions contain a write-like use of a writable static
# ----------------------------------------------------------------------------------
def blank_noncode(src):
    """comments, string and character literals replaced by spaces (offsets preserved)"""
    out = list(src)
    rx = re.compile(r'/\*.*?\*/|//[^\n]*|"(?:\\.|[^"\\\n])*"|\'(?:\\.|[^\'\\\n])*\'', re.S)
    for m in rx.finditer(src):
        for i in range(m.start(), m.end()):
            if out[i] != "\n":
                out[i] = " "
    return "".join(out)


def function_spans(code):
    """[(name, body_start, body_end)] of the brace blocks at depth 0 that follow a ')'"""
    spans, depth, start, name = [], 0, None, None
    for i, ch in enumerate(code):
        if ch == "{":
            if depth == 0:
                head = code[:i].rstrip()
                if head.endswith(")"):
                    # walk back over the parameter list to the identifier before it
                    d, j = 0, len(head) - 1
                    while j >= 0:
                        if head[j] == ")":
                            d += 1
                        elif head[j] == "(":
                            d -= 1
                            if d == 0:
                                break
                        j -= 1
                    m = re.search(r"([A-Za-z_][A-Za-z0-9_]*)\s*$", head[:j])
                    name = m.group(1) if m else "<anonymous>"
                    start = i
                else:
                    name, start = None, i
            depth += 1
        elif ch == "}":
            depth -= 1
            if depth == 0 and start is not None:
                if name:
                    spans.append((name, start, i))
                start, name = None, None
    return spans


WRITE_AFTER = re.compile(r"\s*(?:\[[^\]]*\]\s*)*(?:=(?!=)|\+=|-=|\*=|/=|%=|&=|\|=|\^=|<<=|>>=|\+\+|--)")
INDEX_AFTER = re.compile(r"\s*\[")
DECL_TAIL = re.compile(r"\s*(?:\[[^\]]*\]\s*)*(?:=|;)")


def write_like_uses(code, sym, lo, hi, decl_pos):
    """offsets in code[lo:hi] where sym is assigned, incremented, has its address taken or
    decays to a pointer (used other than as sym[index] / plain scalar read)"""
    hits = []
    for m in re.finditer(r"(?<![A-Za-z0-9_.>])%s(?![A-Za-z0-9_])" % re.escape(sym), code[lo:hi]):
        a, b = lo + m.start(), lo + m.end()
        if a == decl_pos:
            continue
        before = code[:a].rstrip()
        if WRITE_AFTER.match(code, b):
            hits.append(a)
        elif before.endswith("&") and not before.endswith("&&"):
            hits.append(a)
        elif before.endswith("++") or before.endswith("--"):
            hits.append(a)
        elif decl_is_array.get(sym) and not INDEX_AFTER.match(code, b):
            hits.append(a)             # array used as a pointer (passed on, pointer arithmetic)
    return hits


decl_is_array = {}


def find_decl(code, sym, local):
    """(offset of the declared name, enclosing function or None)"""
    spans = function_spans(code)
    for m in re.finditer(r"(?<![A-Za-z0-9_.>])%s(?![A-Za-z0-9_])" % re.escape(sym), code):
        a, b = m.start(), m.end()
        if not DECL_TAIL.match(code, b):
            continue
        line_start = code.rfind("\n", 0, a) + 1
        stmt_start = max(code.rfind(";", 0, a), code.rfind("{", 0, a), code.rfind("}", 0, a)) + 1
        head = code[stmt_start:a]
        if not re.search(r"[A-Za-z_][A-Za-z0-9_]*[\s\*]+$", head):
            continue                   # no type in front of it: an assignment, not a declaration
        encl = [s for s in spans if s[1] < a < s[2]]
        if encl and not re.search(r"\bstatic\b", head):
            continue                   # an automatic variable of the same name
        decl_is_array[sym] = bool(re.match(r"\s*\[", code[b:]))
        return a, (encl[0] if encl else None)
    return None, None


def writers(tot):
    lib_root = os.path.join(vlib.REPO, "src", "lib")
    srcs = {}
    for s in vlib.LIB_SOURCES_COMMON + vlib.LIB_SOURCES_OPENSSL + vlib.LIB_SOURCES_BUNDLED:
        srcs[s] = blank_noncode(open(os.path.join(lib_root, s)).read())
    out = []
    for (f, sym, size) in tot["writable"]:
        if sym.startswith("<unnamed"):
            out.append((f, sym, ["<unnamed storage>"]))
            continue
        code = srcs[f]
        pos, encl = find_decl(code, sym, tot["bind"].get((f, sym)) == "LOCAL")
        if pos is None:
            out.append((f, sym, ["<declaration not found>"]))
            continue
        ws = []
        files = [f] if tot["bind"].get((f, sym)) == "LOCAL" else sorted(srcs)
        for g in files:
            c = srcs[g]
            spans = function_spans(c)
            if g == f and encl is not None:
                ranges = [encl]
            else:
                ranges = spans
            for (name, lo, hi) in ranges:
                if write_like_uses(c, sym, lo, hi, pos if g == f else -1):
                    ws.append(name if g == f else g + ":" + name)
            if g == f and encl is None:
                # file-scope initialisers of other objects taking its address etc.
                pass
        out.append((f, sym, sorted(set(ws))))
    return out


def coq_writers(items):
    o = ["(* functions containing a write-like use (assignment, ++/--, address-of, array decaying to a pointer)\n"
         "   of each writable static - syntactic scan of the source of the working tree *)\n",
         "Definition static_writers : list (string * string * list string) :=\n  ["]
    o.append(";\n   ".join('("%s", "%s", [%s])' % (a, b, "; ".join('"%s"' % w for w in ws)) for a, b, ws in items))
    o.append("].\n\n")
    return "".join(o)


def coq_list(name, items, doc):
    o = ["(* %s *)\n" % doc, "Definition %s : list (string * string * N) :=\n  [" % name]
    o.append(";\n   ".join('("%s", "%s", %d%%N)' % (a.replace('"', '""'), b.replace('"', '""'), n) for a, b, n in items))
    o.append("].\n\n")
    return "".join(o)


def render(tot):
    o = ["(* GENERATED by tools/gen_statics.py from the compiled objects of the working tree - do not edit *)\n",
         "From Coq Require Import NArith List String.\nImport ListNotations.\nLocal Open Scope string_scope.\n\n"]
    o.append(coq_list("statics", tot["writable"],
                      "process-wide writable static storage: (source file, symbol, bytes); sections with flag W, "
                      "without flag T, not .data.rel.ro*"))
    o.append(coq_writers(writers(tot)))
    o.append(coq_list("tls_statics", tot["tls"], "thread-local static storage (.tdata/.tbss): one instance per thread"))
    o.append(coq_list("relro_statics", tot["relro"], ".data.rel.ro*: read-only after relocation"))
    o.append("Definition readonly_symbol_count : N := %d%%N.\n" % tot["readonly"])
    return "".join(o)


def main():
    tot = inventory()
    txt = render(tot)
    p = os.path.join(GEN, "GenStatics.v")
    os.makedirs(GEN, exist_ok=True)
    if not os.path.exists(p) or open(p).read() != txt:
        with open(p + ".tmp", "w") as f:
            f.write(txt)
        os.rename(p + ".tmp", p)
    if "-v" in sys.argv:
        sys.stdout.write(txt)
    return 0


if __name__ == "__main__":
    sys.exit(main())
