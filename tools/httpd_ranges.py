#!/usr/bin/env python3
"""Loopback HTTP/1.1 range server for the C04/C11 checks (real `zckdl` on the other side).

Serves named byte strings from 127.0.0.1:<ephemeral port> with full Range support:
  no Range header            -> 200, whole body
  one range                  -> 206, Content-Range: bytes s-e/total
  several ranges             -> 206, multipart/byteranges with a random boundary, each part
                                Content-Type + Content-Range, closing delimiter
  more ranges than max_ranges-> 200, whole body (what a server that refuses the request does;
                                zckdl's header callback turns this into its range back-off)
  unsatisfiable              -> 416
Every request is appended to `log` (and to the optional log file) as
(path, raw Range value or None, status, [(s, e), ...]) BEFORE the response is sent, so that the
log is complete as soon as the client has exited.

In-process use:   srv = RangeServer(max_ranges=3); srv.start(); srv.put("B.zck", data); ...; srv.stop()
Command line:     httpd_ranges.py --max-ranges N --pidfile P --portfile Q --log L FILE   (serves /basename(FILE))
"""
import os, sys, time, socket, threading, random, socketserver, http.server


def parse_range(value, total):
    """'bytes=a-b,c-,-n' -> list of (s, e) clamped to the body, or None when malformed /
    unsatisfiable"""
    if not value or not value.startswith("bytes="):
        return None
    out = []
    for tok in value[6:].split(","):
        tok = tok.strip()
        if "-" not in tok:
            return None
        a, b = tok.split("-", 1)
        try:
            if a == "":
                n = int(b)
                if n == 0:
                    return None
                s, e = max(0, total - n), total - 1
            else:
                s = int(a)
                e = int(b) if b != "" else total - 1
        except ValueError:
            return None
        if s > e and b != "":
            return None
        if s >= total:
            return None
        out.append((s, min(e, total - 1)))
    return out or None


class _Handler(http.server.BaseHTTPRequestHandler):
    protocol_version = "HTTP/1.1"

    def log_message(self, *a):
        pass

    def setup(self):
        super().setup()
        try:
            self.connection.setsockopt(socket.IPPROTO_TCP, socket.TCP_NODELAY, 1)
        except OSError:
            pass

    def _send(self, status, headers, body):
        """status line + headers (+ the first piece of the body) go out in one write; the rest of
        the body in pieces of owner.piece bytes so that the client can see it fragmented"""
        try:
            head = "HTTP/1.1 %d %s\r\n" % (status, {200: "OK", 206: "Partial Content", 404: "Not Found",
                                                    416: "Range Not Satisfiable"}.get(status, "X"))
            for k, v in list(headers) + [("Content-Length", str(len(body))), ("Accept-Ranges", "bytes")]:
                head += "%s: %s\r\n" % (k, v)
            head = (head + "\r\n").encode("latin-1")
            step = self.server.owner.piece
            cuts = getattr(self, "_cuts", None)
            if cuts:
                # transport mode "cut at part ends": every piece of a multipart body ends exactly with the
                # last data byte of a part (then the rest), with a pause so that the client sees them separately
                self.wfile.write(head)
                self.wfile.flush()
                prev = 0
                for c in cuts + [len(body)]:
                    if c > prev:
                        time.sleep(self.server.owner.piece_delay or 0.03)
                        self.wfile.write(body[prev:c])
                        self.wfile.flush()
                        prev = c
                self._cuts = None
                return
            self.wfile.write(head + body[:step])
            self.wfile.flush()
            for i in range(step, len(body), step):
                if self.server.owner.piece_delay:
                    time.sleep(self.server.owner.piece_delay)
                self.wfile.write(body[i:i + step])
                self.wfile.flush()
        except (BrokenPipeError, ConnectionResetError, OSError):
            self.close_connection = True

    def do_GET(self):
        owner = self.server.owner
        name = self.path.lstrip("/")
        data = owner.files.get(name)
        rv = self.headers.get("Range")
        if data is None:
            owner.record(name, rv, 404, [])
            return self._send(404, [], b"not found\n")
        total = len(data)
        if rv is None:
            owner.record(name, rv, 200, [])
            return self._send(200, [("Content-Type", "application/octet-stream")], data)
        rs = parse_range(rv, total)
        if rs is None:
            # unsatisfiable -> 416; a syntactically invalid Range value (e.g. the empty "bytes=") is either
            # rejected the same way or, as RFC 7233 3.1 allows, ignored (200 with the whole body)
            if owner.ignore_invalid_range and not any(ch.isdigit() for ch in rv):
                owner.record(name, rv, 200, [])
                return self._send(200, [("Content-Type", "application/octet-stream")], data)
            owner.record(name, rv, 416, [])
            return self._send(416, [("Content-Range", "bytes */%d" % total)], b"")
        if len(rs) > owner.max_ranges:
            owner.record(name, rv, 200, rs)
            return self._send(200, [("Content-Type", "application/octet-stream")], data)
        owner.record(name, rv, 206, rs)
        if len(rs) == 1:
            s, e = rs[0]
            return self._send(206, [("Content-Type", "application/octet-stream"),
                                    ("Content-Range", "bytes %d-%d/%d" % (s, e, total))], data[s:e + 1])
        boundary = "%016x%04x" % (owner.rnd.getrandbits(64), owner.rnd.getrandbits(16))
        if owner.boundary_style == "rfc":
            # RFC 2046 bchars: digits, letters and '()+_,-./:=?  (no trailing space)
            boundary = "b'%s(%x)+_,-./:=?%x" % (boundary[:6], owner.rnd.getrandbits(16), owner.rnd.getrandbits(12))
        body = b""
        cuts = []
        hdr_k = owner.cut_at_parts[1] if isinstance(owner.cut_at_parts, (tuple, list)) else None
        for s, e in rs:
            body += ("\r\n--%s\r\nContent-Type: application/octet-stream\r\nContent-Range: bytes %d-%d/%d\r\n\r\n"
                     % (boundary, s, e, total)).encode()
            if hdr_k is not None:
                cuts.append(len(body) - 4 + hdr_k)   # a piece ends hdr_k bytes into the CRLFCRLF that ends this part header
            body += data[s:e + 1]
            if hdr_k is None:
                cuts.append(len(body))
        body += ("\r\n--%s--\r\n" % boundary).encode()
        if owner.cut_at_parts:
            self._cuts = cuts
        return self._send(206, [("Content-Type", "multipart/byteranges; boundary=%s" % boundary)], body)


class _Server(socketserver.ThreadingMixIn, http.server.HTTPServer):
    daemon_threads = True
    allow_reuse_address = True

    def handle_error(self, request, client_address):
        # a client that goes away in the middle of a response (refused request, killed zckdl) is expected
        pass


class RangeServer:
    def __init__(self, max_ranges=1000, logfile=None, seed=1, piece=1 << 16):
        self.files = {}
        self.max_ranges = max_ranges
        self.log = []
        self.logfile = logfile
        self.lock = threading.Lock()
        self.rnd = random.Random(seed)
        self.piece = piece
        self.ignore_invalid_range = False
        self.piece_delay = 0.0     # seconds between two pieces (so that the client really sees them separately)
        self.boundary_style = "hex"   # "rfc": boundaries using the punctuation RFC 2046 allows, apostrophe included
        self.cut_at_parts = False     # True: multipart bodies delivered in pieces ending exactly at each part's last data byte;
                                      # ("hdr", k): pieces ending k bytes into the blank line that ends each part header
        self.httpd = None
        self.thread = None
        self.port = None

    def put(self, name, data):
        self.files[name] = bytes(data)

    def record(self, name, rv, status, rs):
        with self.lock:
            self.log.append((name, rv, status, list(rs)))
            if self.logfile:
                with open(self.logfile, "a") as f:
                    f.write("%s\t%s\t%d\n" % (name, rv if rv is not None else "-", status))

    def take_log(self):
        with self.lock:
            l, self.log = self.log, []
        return l

    def start(self):
        self.httpd = _Server(("127.0.0.1", 0), _Handler)
        self.httpd.owner = self
        self.port = self.httpd.server_address[1]
        self.thread = threading.Thread(target=self.httpd.serve_forever, kwargs={"poll_interval": 0.05}, daemon=True)
        self.thread.start()
        return self.port

    def stop(self):
        if self.httpd is not None:
            try:
                self.httpd.shutdown()
            finally:
                self.httpd.server_close()
            self.httpd = None
        if self.thread is not None:
            self.thread.join(timeout=5)
            self.thread = None

    def url(self, name):
        return "http://127.0.0.1:%d/%s" % (self.port, name)

    def __enter__(self):
        self.start()
        return self

    def __exit__(self, *a):
        self.stop()


def main(argv):
    import argparse, signal
    ap = argparse.ArgumentParser()
    ap.add_argument("--max-ranges", type=int, default=1000)
    ap.add_argument("--pidfile")
    ap.add_argument("--portfile")
    ap.add_argument("--log")
    ap.add_argument("file")
    a = ap.parse_args(argv)
    srv = RangeServer(a.max_ranges, a.log)
    srv.put(os.path.basename(a.file), open(a.file, "rb").read())
    srv.start()
    if a.pidfile:
        with open(a.pidfile, "w") as f:
            f.write(str(os.getpid()))
    if a.portfile:
        with open(a.portfile + ".tmp", "w") as f:
            f.write(str(srv.port))
        os.rename(a.portfile + ".tmp", a.portfile)
    else:
        print(srv.port, flush=True)
    stop = threading.Event()
    signal.signal(signal.SIGTERM, lambda *x: stop.set())
    signal.signal(signal.SIGINT, lambda *x: stop.set())
    try:
        stop.wait()
    finally:
        srv.stop()
    return 0


if __name__ == "__main__":
    sys.exit(main(sys.argv[1:]))
