"""Independent reference encoder for zchunk files (written from zchunk_format.txt), used by
the case generators.  Nothing here is shared with the model or the implementation."""
import hashlib

DSIZE = {0: 20, 1: 32, 2: 64, 3: 16}


def H(t, data):
    if t == 0:
        return hashlib.sha1(data).digest()
    if t == 1:
        return hashlib.sha256(data).digest()
    if t == 2:
        return hashlib.sha512(data).digest()
    if t == 3:
        return hashlib.sha512(data).digest()[:16]
    raise ValueError(t)


def ci(v, pad=0):
    """compressed int; pad > 0 appends redundant zero groups (non-minimal encoding)"""
    out = []
    while True:
        b = v % 128
        v //= 128
        if v == 0 and pad == 0:
            out.append(b + 128)
            return bytes(out)
        out.append(b)
        if v == 0:
            for _ in range(pad - 1):
                out.append(0)
            out.append(128)
            return bytes(out)


def ci_decode(bs, off=0):
    v, sh, i = 0, 0, off
    while i < len(bs):
        b = bs[i]
        i += 1
        if b >= 128:
            return v + ((b - 128) << sh), i
        v += b << sh
        sh += 7
    return None


class Hdr:
    """description of a header; every field can be overridden with raw bytes"""

    def __init__(self, ht=1, cht=3, flags=0, comp=2, chunks=None, opts=None, sigs=0, detached=False):
        self.ht, self.cht, self.flags, self.comp = ht, cht, flags, comp
        self.chunks = chunks if chunks is not None else [(bytes(DSIZE.get(cht, 16)), None, 0, 0)]
        self.opts = opts or []          # list of (id, data bytes)
        self.sigs = sigs
        self.detached = detached
        self.ddigest = None             # data digest (default zeros of the right size)
        self.raw = {}                   # field name -> raw bytes override
        self.count = None               # count field override (int)
        self.index_size = None          # index size field override (int)
        self.hlen = None                # header size override (int)
        self.trailing = b""             # unused bytes after the signatures
        self.magic = None
        self.pad = {}                   # field name -> ci padding

    def _ci(self, name, v):
        if name in self.raw:
            return self.raw[name]
        return ci(v, self.pad.get(name, 0))

    def index_body(self):
        out = self._ci("cht", self.cht)
        out += self._ci("count", self.count if self.count is not None else len(self.chunks))
        for k, (dg, ud, clen, ulen) in enumerate(self.chunks):
            out += dg
            if ud is not None:
                out += ud
            out += self._ci("clen%d" % k, clen)
            out += self._ci("ulen%d" % k, ulen)
        return out

    def build(self):
        ds = DSIZE.get(self.ht, 32)
        idx = self.raw.get("index", self.index_body())
        pre = self.ddigest if self.ddigest is not None else bytes(ds)
        pre += self._ci("flags", self.flags)
        pre += self._ci("comp", self.comp)
        if self.flags & 2 or "optcount" in self.raw:
            pre += self._ci("optcount", len(self.opts))
            for k, (i, d) in enumerate(self.opts):
                pre += self._ci("optid%d" % k, i)
                pre += self._ci("optsize%d" % k, len(d))
                pre += d
        pre += self._ci("index_size", self.index_size if self.index_size is not None else len(idx))
        body = pre + idx + self._ci("sigs", self.sigs) + self.trailing
        magic = self.magic if self.magic is not None else (b"\0ZHR1" if self.detached else b"\0ZCK1")
        lead0 = self._ci("ht", self.ht) + self._ci("hlen", self.hlen if self.hlen is not None else len(body))
        digest = self.raw.get("hdigest")
        if digest is None:
            try:
                digest = H(self.ht, b"\0ZCK1" + lead0 + body)
            except ValueError:
                digest = bytes(ds)
        return magic + lead0 + digest + body

    def lead_len(self):
        ds = DSIZE.get(self.ht, 32)
        return 5 + len(self._ci("ht", self.ht)) + len(self._ci("hlen", self.hlen if self.hlen is not None else 0)) + ds


def reseal(f):
    """recompute the header checksum of a (possibly mutated) file in place; returns None when
    the lead cannot be parsed"""
    r = ci_decode(f, 5)
    if r is None:
        return None
    ht, o1 = r
    if ht not in DSIZE:
        return None
    r = ci_decode(f, o1)
    if r is None:
        return None
    hlen, o2 = r
    ds = DSIZE[ht]
    lead = o2 + ds
    if len(f) < lead + hlen:
        return None
    dg = H(ht, b"\0ZCK1" + f[5:o2] + f[lead:lead + hlen])
    return f[:o2] + dg + f[lead:]


def parse_lead(f):
    r = ci_decode(f, 5)
    if r is None:
        return None
    ht, o1 = r
    r = ci_decode(f, o1)
    if r is None or ht not in DSIZE:
        return None
    hlen, o2 = r
    return {"ht": ht, "hlen": hlen, "dloc": o2, "lead": o2 + DSIZE[ht]}


def build_file(chunks, ht=1, cht=3, flags=0, dict_chunk=b"", detached=False, uflag_digests=False):
    """complete uncompressed (comp type 0) zchunk file from chunk payloads; entry 0 is the
    dictionary chunk (empty by default: zero digest, sizes 0)"""
    ds = DSIZE[cht]
    entries, body = [], b""
    allc = [dict_chunk] + list(chunks)
    for k, c in enumerate(allc):
        if k == 0 and len(c) == 0:
            dg = bytes(ds)
        else:
            dg = H(cht, c)
        ud = H(cht, c) if (flags & 4) else None
        if flags & 4 and k == 0 and len(c) == 0:
            ud = bytes(ds)
        entries.append((dg, ud, len(c), len(c)))
        body += c
    h = Hdr(ht=ht, cht=cht, flags=flags, comp=0, chunks=entries, detached=detached)
    h.ddigest = bytes(DSIZE[ht]) if (flags & 4) else H(ht, body)
    return h.build() + (b"" if detached else body), h


def parse_file(f):
    """parse a well-formed file into (Hdr, body); None if it is not well-formed"""
    l = parse_lead(f)
    if l is None or len(f) < l["lead"] + l["hlen"]:
        return None
    ht, ds = l["ht"], DSIZE[l["ht"]]
    hdr = f[l["lead"]:l["lead"] + l["hlen"]]
    o = 0
    ddg = hdr[o:o + ds]; o += ds
    r = ci_decode(hdr, o)
    if r is None:
        return None
    flags, o = r
    r = ci_decode(hdr, o)
    if r is None:
        return None
    comp, o = r
    opts = []
    if flags & 2:
        r = ci_decode(hdr, o)
        if r is None:
            return None
        oc, o = r
        for _ in range(oc):
            r = ci_decode(hdr, o)
            if r is None:
                return None
            oid, o = r
            r = ci_decode(hdr, o)
            if r is None:
                return None
            osz, o = r
            opts.append((oid, hdr[o:o + osz])); o += osz
    r = ci_decode(hdr, o)
    if r is None:
        return None
    isz, o = r
    idx_end = o + isz
    r = ci_decode(hdr, o)
    if r is None:
        return None
    cht, o = r
    if cht not in DSIZE:
        return None
    r = ci_decode(hdr, o)
    if r is None:
        return None
    count, o = r
    cds = DSIZE[cht]
    chunks = []
    while o < idx_end:
        dg = hdr[o:o + cds]; o += cds
        ud = None
        if flags & 4:
            ud = hdr[o:o + cds]; o += cds
        r = ci_decode(hdr, o)
        if r is None:
            return None
        clen, o = r
        r = ci_decode(hdr, o)
        if r is None:
            return None
        ulen, o = r
        chunks.append((dg, ud, clen, ulen))
    h = Hdr(ht=ht, cht=cht, flags=flags, comp=comp, chunks=chunks, opts=opts, detached=f[:5] == b"\0ZHR1")
    h.ddigest = ddg
    return h, f[l["lead"] + l["hlen"]:]


def ci_fields(f):
    """(name, absolute offset, encoded length, value) of every compressed integer in the header region of a
    well-formed file, in file order; None if the file is not well-formed"""
    l = parse_lead(f)
    if l is None or parse_file(f) is None:
        return None
    out = []

    def take(name, o):
        v, o2 = ci_decode(f, o)
        out.append((name, o, o2 - o, v))
        return v, o2
    o = 5
    ht, o = take("hash_type", o)
    hlen, o = take("header_size", o)
    o = l["lead"]
    o += DSIZE[ht]
    flags, o = take("flags", o)
    comp, o = take("comp_type", o)
    if flags & 2:
        oc, o = take("opt_count", o)
        for k in range(oc):
            _, o = take("opt%d_id" % k, o)
            osz, o = take("opt%d_size" % k, o)
            o += osz
    isz, o = take("index_size", o)
    idx_end = o + isz
    cht, o = take("chunk_hash_type", o)
    cnt, o = take("chunk_count", o)
    k = 0
    while o < idx_end:
        o += DSIZE[cht] * (2 if flags & 4 else 1)
        _, o = take("clen%d" % k, o)
        _, o = take("ulen%d" % k, o)
        k += 1
    _, o = take("sig_count", o)
    return out
