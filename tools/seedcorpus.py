#!/usr/bin/env python3
"""Re-run the whole corpus of seeded changes (regression test of the checks themselves).
Each seed is applied in its own scratch worktree of /repo under /tmp and checked there (VERIF_REPO), several at a
time.  A seed whose patch changes what the translator generates (coq/Gen/*.v) cannot share the Coq build with the
others: those are listed and run one after the other with tools/seedtest.py on /repo itself.
  tools/seedcorpus.py [-j N] [seed names ...]        results: seeded/<name>/meta.json "rerun", summary on stdout"""
import filecmp, json, os, shutil, subprocess, sys, time
from concurrent.futures import ThreadPoolExecutor
VERIF = os.path.dirname(os.path.dirname(os.path.abspath(__file__)))
REPO = "/repo"
GENS = ["GenConsts.v", "GenBuzTable.v", "GenSha.v", "GenStatics.v"]
REF = "/tmp/seedgen_ref"      # what the translator generates for the unchanged /repo


def sh(cmd, **kw):
    return subprocess.run(cmd, stdout=subprocess.PIPE, stderr=subprocess.STDOUT, **kw)


def one(name):
    d = os.path.join(VERIF, "seeded", name)
    meta = json.load(open(os.path.join(d, "meta.json")))
    wt = "/tmp/seedwt_" + name
    sh(["git", "-C", REPO, "worktree", "remove", "--force", wt])
    r = sh(["git", "-C", REPO, "worktree", "add", "--detach", wt, "HEAD"])
    if r.returncode != 0:
        return name, "setup-failed", r.stdout.decode()[-200:]
    try:
        r = sh(["git", "-C", wt, "apply", os.path.join(d, "patch.diff")])
        if r.returncode != 0:
            return name, "noapply", r.stdout.decode()[-200:]
        gd = "/tmp/seedgen_" + name
        shutil.rmtree(gd, ignore_errors=True)
        os.makedirs(gd)
        env = dict(os.environ, VERIF_REPO=wt, VERIF_GEN_DIR=gd)
        r = sh([sys.executable, os.path.join(VERIF, "tools", "gen_consts.py")], env=env, timeout=600)
        same = r.returncode == 0 and all(os.path.exists(os.path.join(gd, g)) and
                                         filecmp.cmp(os.path.join(gd, g), os.path.join(REF, g), shallow=False) and
                                         filecmp.cmp(os.path.join(REF, g), os.path.join(VERIF, "coq", "Gen", g), shallow=False) for g in GENS)
        shutil.rmtree(gd, ignore_errors=True)
        if not same:
            return name, "serial", "generated files differ"
        t0 = time.time()
        env = dict(os.environ, VERIF_REPO=wt, VERIF_GEN_FROZEN="1", VERIF_NO_SEARCH=os.environ.get("VERIF_NO_SEARCH", ""))
        props = [meta["property"]] + [p for p, v in meta.get("verdicts", {}).items() if p != meta["property"] and v.get("caught")
                                      and not meta.get("verdicts", {}).get(meta["property"], {}).get("caught")]
        res = {}
        for p in props:
            r = sh([os.path.join(VERIF, "check"), p, "--tier", "quick"], cwd=VERIF, env=env, timeout=3600)
            out = r.stdout.decode("utf-8", "replace")
            viol = [l for l in out.splitlines() if l.startswith("VIOLATION")]
            res[p] = {"caught": bool(viol) and r.returncode == 1, "line": (viol[0] if viol else (out.strip().splitlines() or [""])[-1])[:200],
                      "wall_s": round(time.time() - t0, 1)}
        meta["rerun"] = res
        with open(os.path.join(d, "meta.json"), "w") as f:
            json.dump(meta, f, indent=1)
        ok = any(v["caught"] for v in res.values())
        return name, "caught" if ok else "MISSED", "; ".join("%s:%s" % (p, "caught" if v["caught"] else "no") for p, v in res.items())
    finally:
        sh(["git", "-C", REPO, "worktree", "remove", "--force", wt])


def main():
    args = sys.argv[1:]
    j = 4
    if args[:1] == ["-j"]:
        j = int(args[1]); args = args[2:]
    names = args or sorted(os.listdir(os.path.join(VERIF, "seeded")), key=lambda n: (n.split("-")[0], int(n.split("-")[1])))
    shutil.rmtree(REF, ignore_errors=True)
    os.makedirs(REF)
    sh([sys.executable, os.path.join(VERIF, "tools", "gen_consts.py")], env=dict(os.environ, VERIF_GEN_DIR=REF), timeout=600)
    sh([sys.executable, os.path.join(VERIF, "tools", "gen_consts.py")], timeout=600)      # coq/Gen as for /repo
    serial = []
    with ThreadPoolExecutor(max_workers=j) as ex:
        for name, verdict, info in ex.map(one, names):
            print(name, verdict, info, flush=True)
            if verdict == "serial":
                serial.append(name)
    sh(["git", "-C", REPO, "worktree", "prune"])
    for name in serial:
        r = sh([sys.executable, os.path.join(VERIF, "tools", "seedtest.py"), os.path.join(VERIF, "seeded", name)], cwd=VERIF)
        print(name, "serial-run", r.stdout.decode().strip().splitlines()[-1][:160] if r.stdout.strip() else "", flush=True)


if __name__ == "__main__":
    main()
