#!/usr/bin/env python3
"""Evaluate seeded changes: for each /verif/seeded/<name>/ (patch.diff + meta.json) apply the
patch to /repo's working tree, run the quick check of the property it targets (plus any
extra properties named on the command line), record the verdict in meta.json, undo the patch.
  tools/seedtest.py <seed dir> [<ID> ...]"""
import json, os, subprocess, sys, time
VERIF = os.path.dirname(os.path.dirname(os.path.abspath(__file__)))
REPO = "/repo"


def sh(cmd, **kw):
    return subprocess.run(cmd, stdout=subprocess.PIPE, stderr=subprocess.STDOUT, **kw)


def main():
    d = os.path.abspath(sys.argv[1])
    meta = json.load(open(os.path.join(d, "meta.json")))
    props = sys.argv[2:] or [meta["property"]]
    import fcntl
    lk = open("/tmp/.verif_tree_lock", "a")
    fcntl.flock(lk, fcntl.LOCK_EX)
    os.environ["VERIF_TREE_LOCKED"] = "1"
    st = sh(["git", "-C", REPO, "status", "--porcelain", "--untracked-files=no"]).stdout.decode()
    if st.strip():
        print("refusing: /repo has local changes:\n" + st)
        return 2
    r = sh(["git", "-C", REPO, "apply", os.path.join(d, "patch.diff")])
    if r.returncode != 0:
        print("patch does not apply: " + r.stdout.decode()[-500:])
        return 2
    results = {}
    try:
        for p in props:
            t0 = time.time()
            r = sh([os.path.join(VERIF, "check"), p, "--tier", os.environ.get("SEED_TIER", "quick")], cwd=VERIF, timeout=3600)
            out = r.stdout.decode("utf-8", "replace")
            viol = [l for l in out.splitlines() if l.startswith("VIOLATION")]
            results[p] = {"exit": r.returncode, "caught": bool(viol) and r.returncode == 1,
                          "line": viol[0] if viol else out.strip().splitlines()[-1][:300] if out.strip() else "",
                          "detail": [l.strip()[:300] for l in out.splitlines() if l.startswith("  ")][:2],
                          "wall_s": round(time.time() - t0, 1)}
            print(p, results[p]["caught"], results[p]["line"][:200])
    finally:
        sh(["git", "-C", REPO, "checkout", "--", "."])
    meta.setdefault("verdicts", {}).update(results)
    meta["ran"] = "git -C /repo apply patch.diff; ./check <id> --tier quick; git -C /repo checkout -- ."
    with open(os.path.join(d, "meta.json"), "w") as f:
        json.dump(meta, f, indent=1)
    return 0


if __name__ == "__main__":
    sys.exit(main())
