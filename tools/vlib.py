"""Common machinery for the /verif checks: builds (Coq, extracted OCaml model, C harness
compiled from /repo's working tree), case-file helpers, evidence and verdict plumbing."""
import fcntl, hashlib, json, os, random, re, shutil, subprocess, sys, time

VERIF = os.path.dirname(os.path.dirname(os.path.abspath(__file__)))
REPO = os.environ.get("VERIF_REPO", "/repo")
COQ = os.path.join(VERIF, "coq")
CACHE = os.path.join(VERIF, ".cache")
GUARD = "ZCHUNK_VERIF"
NCPU = os.cpu_count() or 4

LIB_SOURCES_COMMON = [
    "buzhash/buzhash.c", "comp/comp.c", "comp/zstd/zstd.c", "comp/nocomp/nocomp.c",
    "hash/hash.c", "index/index_create.c", "index/index_read.c", "index/index_common.c",
    "dl/range.c", "dl/dl.c", "dl/multipart.c", "zck.c", "header.c", "io.c", "log.c",
    "compint.c", "error.c",
]
LIB_SOURCES_OPENSSL = ["hash/openssl/openssl.c"]
LIB_SOURCES_BUNDLED = ["hash/bundled/libsha.c", "hash/bundled/sha1/sha1.c", "hash/bundled/sha2/sha2.c"]

VARIANTS = {
    # name: (compiler, cflags, ldflags, openssl?)
    "plain":   ("gcc", ["-O1", "-g"], [], True),
    "asan":    ("gcc", ["-O1", "-g", "-fsanitize=address,undefined", "-fno-sanitize-recover=all",
                        "-fno-sanitize=nonnull-attribute", "-fno-omit-frame-pointer"],
                ["-fsanitize=address,undefined"], True),
    "bundled": ("gcc", ["-O1", "-g"], [], False),
    "tsan":    ("gcc", ["-O1", "-g", "-fsanitize=thread"], ["-fsanitize=thread"], True),
}

ASAN_ENV = {"ASAN_OPTIONS": "detect_leaks=0:allocator_may_return_null=1:abort_on_error=0:exitcode=97",
            "UBSAN_OPTIONS": "halt_on_error=1:exitcode=97:print_stacktrace=0"}


class BuildError(Exception):
    def __init__(self, stage, detail):
        super().__init__("%s: %s" % (stage, detail[-2000:]))
        self.stage = stage
        self.detail = detail


def sh(cmd, timeout=600, cwd=None, env=None, input=None, check=False):
    e = dict(os.environ)
    if env:
        e.update(env)
    p = subprocess.run(cmd, cwd=cwd, env=e, input=input, stdout=subprocess.PIPE,
                       stderr=subprocess.STDOUT, timeout=timeout)
    out = p.stdout.decode("utf-8", "replace")
    if check and p.returncode != 0:
        raise BuildError(" ".join(cmd[:3]), out)
    return p.returncode, out


class Lock:
    def __init__(self, name="build.lock"):
        os.makedirs(CACHE, exist_ok=True)
        self.path = os.path.join(CACHE, name)

    def __enter__(self):
        self.f = open(self.path, "w")
        fcntl.flock(self.f, fcntl.LOCK_EX)
        return self

    def __exit__(self, *a):
        fcntl.flock(self.f, fcntl.LOCK_UN)
        self.f.close()


# ----------------------------------------------------------------------------------
# /repo working tree
# ----------------------------------------------------------------------------------
def repo_files():
    out = []
    for top in ("src", "include"):
        for d, _, fs in os.walk(os.path.join(REPO, top)):
            for f in fs:
                out.append(os.path.join(d, f))
    for f in ("meson.build", "meson_options.txt"):
        p = os.path.join(REPO, f)
        if os.path.exists(p):
            out.append(p)
    return sorted(out)


_tree_hash = None


def tree_hash():
    global _tree_hash
    if _tree_hash is None:
        h = hashlib.sha256()
        for f in repo_files():
            h.update(f.encode())
            with open(f, "rb") as fh:
                h.update(hashlib.sha256(fh.read()).digest())
        _tree_hash = h.hexdigest()[:16]
    return _tree_hash


def cache_dir():
    d = os.path.join(CACHE, tree_hash())
    os.makedirs(d, exist_ok=True)
    return d


def prune_cache(keep=3, min_age_s=7200):
    """drop library/harness builds of older trees: everything but the `keep` most recently
    used ones, and never one used in the last two hours (several checks may run at once)"""
    if not os.path.isdir(CACHE):
        return
    try:
        os.utime(cache_dir(), None)
    except OSError:
        pass
    ds = [os.path.join(CACHE, d) for d in os.listdir(CACHE)
          if os.path.isdir(os.path.join(CACHE, d)) and re.fullmatch(r"[0-9a-f]{16}", d)]
    ds.sort(key=lambda p: os.path.getmtime(p), reverse=True)
    now = time.time()
    for d in ds[keep:]:
        if os.path.basename(d) != tree_hash() and now - os.path.getmtime(d) > min_age_s:
            shutil.rmtree(d, ignore_errors=True)


def project_version():
    txt = open(os.path.join(REPO, "meson.build")).read()
    m = re.search(r"version\s*:\s*'([^']+)'", txt)
    return m.group(1) if m else "0"


def gen_zck_h(dst_inc):
    os.makedirs(dst_inc, exist_ok=True)
    src = open(os.path.join(REPO, "include", "zck.h.in")).read()
    src = src.replace("@version@", project_version())
    p = os.path.join(dst_inc, "zck.h")
    if not os.path.exists(p) or open(p).read() != src:
        with open(p, "w") as f:
            f.write(src)
    return dst_inc


def _par(cmds, stage):
    """run a list of (cmd, outfile) in parallel"""
    procs = []
    fails = []
    pending = list(cmds)
    while pending or procs:
        while pending and len(procs) < NCPU:
            c = pending.pop()
            procs.append((c, subprocess.Popen(c, stdout=subprocess.PIPE, stderr=subprocess.STDOUT)))
        c, p = procs.pop(0)
        out, _ = p.communicate()
        if p.returncode != 0:
            fails.append(" ".join(c) + "\n" + out.decode("utf-8", "replace"))
    if fails:
        raise BuildError(stage, "\n".join(fails))


def ensure_lib(variant="plain"):
    """static libzck built from the working tree, with the hook guard enabled"""
    cc, cflags, ldflags, ossl = VARIANTS[variant]
    d = os.path.join(cache_dir(), variant)
    lib = os.path.join(d, "libzck.a")
    with Lock():
        if os.path.exists(lib):
            return d
        os.makedirs(d, exist_ok=True)
        inc = gen_zck_h(os.path.join(cache_dir(), "include"))
        srcs = LIB_SOURCES_COMMON + (LIB_SOURCES_OPENSSL if ossl else LIB_SOURCES_BUNDLED)
        base = [cc, "-std=gnu11", "-D_FILE_OFFSET_BITS=64", "-D_GNU_SOURCE", "-w", "-DZCHUNK_ZSTD", "-D" + GUARD,
                "-I" + os.path.join(REPO, "src", "lib"), "-I" + inc] + cflags
        if ossl:
            base.append("-DZCHUNK_OPENSSL")
        cmds, objs = [], []
        for s in srcs:
            o = os.path.join(d, s.replace("/", "_") + ".o")
            objs.append(o)
            cmds.append(base + ["-c", os.path.join(REPO, "src", "lib", s), "-o", o])
        _par(cmds, "libzck(%s)" % variant)
        sh(["ar", "rcs", lib + ".tmp"] + objs, check=True)
        os.rename(lib + ".tmp", lib)
    return d


def ensure_harness(name, variant="plain", extra=(), libs=("-lzstd", "-lcrypto")):
    """harness/<name>.c linked against the working tree's library"""
    d = ensure_lib(variant)
    cc, cflags, ldflags, ossl = VARIANTS[variant]
    hh = hashlib.sha256()
    # every file of harness/ goes into the key: harnesses include each other (zh_c17.c -> zh_c05.c) and iowrap.h
    for f in sorted(os.listdir(os.path.join(VERIF, "harness"))):
        if f.endswith((".c", ".h")):
            hh.update(f.encode())
            hh.update(open(os.path.join(VERIF, "harness", f), "rb").read())
    hh.update(name.encode())
    hh.update(repr((extra, libs)).encode())
    exe = os.path.join(d, name + "_" + hh.hexdigest()[:10])
    with Lock():
        if os.path.exists(exe):
            return exe
        for old in os.listdir(d):
            if old.startswith(name + "_"):
                os.unlink(os.path.join(d, old))
        inc = os.path.join(cache_dir(), "include")
        cmd = [cc, "-std=gnu11", "-D_FILE_OFFSET_BITS=64", "-D_GNU_SOURCE", "-w", "-DZCHUNK_ZSTD", "-D" + GUARD,
               "-DREPO_SRC=\"%s\"" % os.path.join(REPO, "src"),
               "-I" + os.path.join(REPO, "src", "lib"), "-I" + os.path.join(REPO, "src"), "-I" + inc,
               "-I" + os.path.join(VERIF, "harness")] + cflags
        if ossl:
            cmd.append("-DZCHUNK_OPENSSL")
        cmd += list(extra) + [os.path.join(VERIF, "harness", name + ".c"), "-o", exe + ".tmp",
                              os.path.join(d, "libzck.a")] + ldflags + list(libs) + ["-lpthread"]
        sh(cmd, check=True)
        os.rename(exe + ".tmp", exe)
    return exe


TOOLS = {
    "zck": ["zck.c", "util_common.c", "memmem.c"],
    "unzck": ["unzck.c", "util_common.c"],
    "zck_read_header": ["zck_read_header.c", "util_common.c"],
    "zck_delta_size": ["zck_delta_size.c", "util_common.c", "memmem.c"],
    "zck_gen_zdict": ["zck_gen_zdict.c", "util_common.c"],
    "zckdl": ["zck_dl.c", "util_common.c"],
}


def ensure_tool(tool, variant="plain", wrap=False):
    """command-line tool built from the working tree; wrap=True links harness/iowrap_tool.c so
    that ZH_FAULT=<op>:<k>:<kind>:<short> makes the k-th read/write/lseek fail"""
    d = ensure_lib(variant)
    cc, cflags, ldflags, ossl = VARIANTS[variant]
    exe = os.path.join(d, tool + ("_wrap" if wrap else ""))
    if wrap:
        hh = hashlib.sha256()
        for f in ("iowrap.h", "iowrap_tool.c"):
            hh.update(open(os.path.join(VERIF, "harness", f), "rb").read())
        exe += "_" + hh.hexdigest()[:8]
    with Lock():
        if os.path.exists(exe):
            return exe
        inc = os.path.join(cache_dir(), "include")
        cmd = [cc, "-std=gnu11", "-D_FILE_OFFSET_BITS=64", "-D_GNU_SOURCE", "-w", "-DZCHUNK_ZSTD", "-D" + GUARD,
               "-I" + os.path.join(REPO, "src", "lib"), "-I" + os.path.join(REPO, "src"), "-I" + inc] + cflags
        if ossl:
            cmd.append("-DZCHUNK_OPENSSL")
        cmd += [os.path.join(REPO, "src", s) for s in TOOLS[tool]]
        if wrap:
            cmd += ["-I" + os.path.join(VERIF, "harness"), os.path.join(VERIF, "harness", "iowrap_tool.c"),
                    "-Wl,--wrap=read", "-Wl,--wrap=write", "-Wl,--wrap=lseek", "-Wl,--wrap=lseek64"]
        cmd += ["-o", exe + ".tmp", os.path.join(d, "libzck.a")] + ldflags + ["-lzstd", "-lcrypto"]
        if tool == "zckdl":
            cmd.append("-lcurl")
        sh(cmd, check=True)
        os.rename(exe + ".tmp", exe)
    return exe


# ----------------------------------------------------------------------------------
# Coq
# ----------------------------------------------------------------------------------
FORBIDDEN = re.compile(r"\b(Admitted|admit|give_up|Axioms?|Parameters?|Conjectures?|Unset\s+Guard|Unset\s+Positivity|Unset\s+Universe\s+Checking|"
                       r"bypass_check|Admit\s+Obligations)\b|type-in-type|impredicative-set")
SENTENCE_HEAD = re.compile(r"(?:^|\.\s)\s*(?:(?:Local|Global|Polymorphic|Monomorphic|#\[[^\]]*\])\s+)*(Section|Module\s+Type|Module|End|Variables?|Hypothes[ie]s|Context)\b\s*([A-Za-z_][A-Za-z0-9_']*)?")


def outside_section_decls(txt):
    """Variable / Hypothesis / Context sentences that are not inside a Section (they would declare axioms)"""
    stack, bad = [], []
    for m in SENTENCE_HEAD.finditer(txt):
        kw, name = m.group(1).split()[0], m.group(2)
        if kw in ("Section", "Module"):
            # `Module X := Y.` opens nothing; a plain `Module X.` / `Module Type X.` does
            rest = txt[m.end():m.end() + 200]
            if kw == "Module" and re.match(r"[^.]*:=", rest):
                continue
            stack.append(kw)
        elif kw == "End":
            if stack:
                stack.pop()
        elif "Section" not in stack:
            bad.append("%s outside a section" % m.group(1))
    return bad


def coq_sources():
    out = []
    for d, _, fs in os.walk(COQ):
        for f in fs:
            if f.endswith(".v"):
                out.append(os.path.relpath(os.path.join(d, f), COQ))
    return sorted(out)


def coq_project():
    """(re)write _CoqProject and the coq_makefile Makefile when the file list changed"""
    lines = ["-Q . ZV", "-arg -w", "-arg -notation-overridden,-deprecated-hint-without-locality,-extraction-opaque-accessed,-extraction-reserved-identifier"] + coq_sources()
    txt = "\n".join(lines) + "\n"
    p = os.path.join(COQ, "_CoqProject")
    if not os.path.exists(p) or open(p).read() != txt or not os.path.exists(os.path.join(COQ, "Makefile")):
        with open(p, "w") as f:
            f.write(txt)
        sh(["coq_makefile", "-f", "_CoqProject", "-o", "Makefile"], cwd=COQ, check=True)


def coq_deps_closure(target_v):
    """.v files the given file depends on (transitively), from coq_makefile's dependency file"""
    depf = os.path.join(COQ, ".Makefile.d")
    deps = {}
    if os.path.exists(depf):
        for line in open(depf).read().replace("\\\n", " ").splitlines():
            if ":" not in line:
                continue
            lhs, rhs = line.split(":", 1)
            tg = [x for x in lhs.split() if x.endswith(".vo")]
            if not tg:
                continue
            src = tg[0][:-1]
            deps[src] = [x[:-1] for x in rhs.split() if x.endswith(".vo")]
    seen, todo = set(), [target_v]
    while todo:
        x = todo.pop()
        if x in seen:
            continue
        seen.add(x)
        todo += deps.get(x, [])
    return sorted(seen)


def coq_scan_forbidden(files=None):
    bad = []
    for s in (files if files is not None else coq_sources()):
        pth = os.path.join(COQ, s)
        if not os.path.exists(pth):
            continue
        txt = open(pth).read()
        txt = re.sub(r"\(\*.*?\*\)", "", txt, flags=re.S)
        for m in FORBIDDEN.finditer(txt):
            bad.append("%s: %s" % (s, m.group(0)))
        for b in outside_section_decls(txt):
            bad.append("%s: %s" % (s, b))
    return bad


def run_generators():
    if os.environ.get("VERIF_GEN_FROZEN"):
        # set only by tools/seedcorpus.py, after it has established that the generators produce exactly the files
        # that are in coq/Gen for the tree under test (lets seeded trees be checked in parallel without touching coq/Gen)
        return
    rc, out = sh([sys.executable, os.path.join(VERIF, "tools", "gen_consts.py")], timeout=120)
    if rc != 0:
        raise BuildError("generator", out)


def coq_make(targets, timeout=1500):
    """regenerate the generated files, then build; the (possibly long) build lock is only taken
    when something is out of date, so that a check does not queue behind an unrelated build"""
    with Lock("gen.lock"):
        run_generators()
        coq_project()
    if targets:
        rc, out = sh(["make", "-q"] + targets, cwd=COQ, timeout=300)
        if rc == 0:
            return "up to date"
    with Lock("coq.lock"):
        rc, out = sh(["make", "-j%d" % NCPU] + targets, cwd=COQ, timeout=timeout)
        if rc != 0:
            raise BuildError("coq", out)
    return out


def coq_property(pid, timeout=900):
    """build Props/Properties_<pid>.vo (and the extraction file); re-run coqc on the
    property file itself to capture theorem names and Print Assumptions output"""
    tg = ["Props/Properties_%s.vo" % pid]
    if os.path.exists(os.path.join(COQ, "Extract", "Extract_%s.v" % pid)):
        tg.append("Extract/Extract_%s.vo" % pid)
    coq_make(tg, timeout)
    sd = os.path.join(CACHE, "scratch_%s_%d" % (pid, os.getpid()))
    os.makedirs(sd, exist_ok=True)
    try:
        rc, out = sh(["coqc", "-Q", ".", "ZV", "-w", "-notation-overridden", "-o",
                      os.path.join(sd, "Properties_%s.vo" % pid),
                      "Props/Properties_%s.v" % pid], cwd=COQ, timeout=300)
    finally:
        shutil.rmtree(sd, ignore_errors=True)
    if rc != 0:
        raise BuildError("coq", out)
    src = open(os.path.join(COQ, "Props", "Properties_%s.v" % pid)).read()
    src_nc = re.sub(r"\(\*.*?\*\)", "", src, flags=re.S)
    theorems = re.findall(r"^\s*(?:Theorem|Corollary)\s+([A-Za-z0-9_']+)", src_nc, flags=re.M)
    assumptions = parse_assumptions(out)
    bad = coq_scan_forbidden(coq_deps_closure("Props/Properties_%s.v" % pid))
    if bad:
        raise BuildError("coq-forbidden", "\n".join(bad))
    return {"theorems": theorems, "assumptions": assumptions, "raw": out}


def parse_assumptions(out):
    """Print Assumptions blocks in order: either 'Closed under the global context' or
    'Axioms:' followed by lines"""
    blocks = []
    cur = None
    for line in out.splitlines():
        if line.startswith("Closed under the global context"):
            blocks.append("closed")
            cur = None
        elif line.startswith("Axioms:") or line.startswith("Section Variables:"):
            cur = [line]
            blocks.append(cur)
        elif cur is not None and (line.startswith(" ") or ":" in line):
            cur.append(line)
        else:
            cur = None
    return [b if isinstance(b, str) else " ".join(x.strip() for x in b) for b in blocks]


def ensure_model(pid):
    """OCaml driver for property pid: extracted module + ocaml/common.ml + ocaml/drv_<pid>.ml
    (+ stubs.c for the hash / zstd / regex oracle instances)"""
    lp = pid.lower()
    ext_ml = os.path.join(COQ, "Extract", "m_%s.ml" % lp)
    ext_mli = os.path.join(COQ, "Extract", "m_%s.mli" % lp)
    common = os.path.join(VERIF, "ocaml", "common.ml")
    drv = os.path.join(VERIF, "ocaml", "drv_%s.ml" % lp)
    stubs = os.path.join(VERIF, "ocaml", "zvstubs.c")
    stubs_ml = os.path.join(VERIF, "ocaml", "stubs.ml")
    srcs = [ext_ml, ext_mli, common, os.path.join(VERIF, "ocaml", "common_z.ml"), drv, stubs, stubs_ml]
    h = hashlib.sha256()
    for s in srcs:
        if os.path.exists(s):
            h.update(open(s, "rb").read())
    od = os.path.join(CACHE, "ocaml")
    d = os.path.join(od, lp + "_" + h.hexdigest()[:12])
    exe = os.path.join(d, "model")
    with Lock("ocaml.lock"):
        if os.path.exists(exe):
            return exe
        os.makedirs(d, exist_ok=True)
        shutil.copy(ext_ml, d)
        shutil.copy(ext_mli, d)
        order = ["m_%s.mli" % lp, "m_%s.ml" % lp]
        use_stubs = os.path.exists(stubs) and "Stubs." in open(drv).read()
        if use_stubs:
            shutil.copy(stubs, d)
            shutil.copy(stubs_ml, d)
            order += ["zvstubs.c", "stubs.ml"]
        with open(os.path.join(d, "drv.ml"), "w") as f:
            f.write("module BZ = Z\nopen M_%s\n" % lp)
            f.write(open(common).read())
            if re.search(r"^type z =", open(ext_ml).read(), flags=re.M):
                f.write(open(os.path.join(VERIF, "ocaml", "common_z.ml")).read())
            f.write(open(drv).read())
        order.append("drv.ml")
        cmd = ["ocamlfind", "ocamlopt", "-inline", "50", "-package", "zarith,unix", "-linkpkg", "-w", "-a"] + order
        if use_stubs:
            cmd += ["-cclib", "-lcrypto", "-cclib", "-lzstd"]
        cmd += ["-o", "model"]
        rc, out = sh(cmd, cwd=d, timeout=600)
        if rc != 0:
            shutil.rmtree(d, ignore_errors=True)
            raise BuildError("ocaml", out)
        for x in os.listdir(od):
            if x.startswith(lp + "_") and os.path.join(od, x) != d:
                shutil.rmtree(os.path.join(od, x), ignore_errors=True)
    return exe


# ----------------------------------------------------------------------------------
# running both sides
# ----------------------------------------------------------------------------------
def run_lines(cmd, infile=None, timeout=600, env=None, input=None):
    """run a command, return (rc, list of stdout lines, stderr text); output goes through
    files, not pipes (hundreds of thousands of flushed lines)"""
    e = dict(os.environ)
    e.update(ASAN_ENV)
    if env:
        e.update(env)
    os.makedirs(os.path.join(CACHE, "work"), exist_ok=True)
    base = os.path.join(CACHE, "work", "out_%d_%d" % (os.getpid(), time.time_ns()))
    fo = open(base + ".out", "wb")
    fe = open(base + ".err", "wb")
    stdin = open(infile, "rb") if infile else (subprocess.PIPE if input is not None else subprocess.DEVNULL)
    rc = None
    try:
        p = subprocess.Popen(cmd, stdin=stdin, stdout=fo, stderr=fe, env=e)
        try:
            p.communicate(input=input, timeout=timeout)
            rc = p.returncode
        except subprocess.TimeoutExpired:
            p.kill()
            p.wait()
            rc = -9999
    finally:
        if infile:
            stdin.close()
        fo.close()
        fe.close()
    out = open(base + ".out", "rb").read().decode("utf-8", "replace").splitlines()
    err = open(base + ".err", "rb").read()[-20000:].decode("utf-8", "replace")
    os.unlink(base + ".out")
    os.unlink(base + ".err")
    if rc == -9999:
        err += "TIMEOUT"
    return rc, out, err


def hexs(b):
    return bytes(b).hex() if len(b) else "-"


def unhex(s):
    return b"" if s == "-" else bytes.fromhex(s)


class Rng(random.Random):
    def rbytes(self, n):
        return bytes(self.getrandbits(8) for _ in range(n))


def seed():
    try:
        return int(os.environ.get("VERIF_SEED", "1"))
    except ValueError:
        return 1


def scratch(pid):
    d = os.path.join(CACHE, "work", "%s_%d" % (pid, os.getpid()))
    shutil.rmtree(d, ignore_errors=True)
    os.makedirs(d)
    return d


# ----------------------------------------------------------------------------------
# findings, evidence, verdict
# ----------------------------------------------------------------------------------
def load_findings():
    p = os.path.join(VERIF, "known_findings.json")
    if not os.path.exists(p):
        return {"findings": [], "fixed": []}
    return json.load(open(p))


def finding_for(pid, viol, findings):
    """a violation is known iff an entry of the same property names the same 'key'"""
    for f in findings.get("findings", []):
        if f.get("property") == pid and f.get("key") and f.get("key") == viol.get("key"):
            return f
    return None


class Result:
    def __init__(self, pid, tier):
        self.pid = pid
        self.tier = tier
        self.t0 = time.time()
        self.evaluations = 0
        self.nontrivial = set()
        self.nontrivial_extra = 0
        self.samples = []
        self.rule = ""
        self.violations = []     # dicts: key, stage, what, case
        self.dist = {}
        self.extra = {}
        self.exhaustive = False
        self.traces = 0

    def count(self, k, n=1):
        self.dist[k] = self.dist.get(k, 0) + n

    def sample(self, s, cap=6):
        if len(self.samples) < cap:
            self.samples.append(s)

    def violation(self, stage, key, what, case):
        self.violations.append({"stage": stage, "key": key, "what": what, "case": case})


def write_replay(pid, viol, idx=0):
    d = os.path.join(VERIF, "replays")
    os.makedirs(d, exist_ok=True)
    p = os.path.join(d, "%s_%s_%d.json" % (pid, viol["stage"], idx))
    with open(p, "w") as f:
        json.dump({"property": pid, "stage": viol["stage"], "key": viol.get("key"), "what": viol["what"],
                   "case": viol["case"], "seed": seed(), "tree": tree_hash()}, f, indent=1)
    return p


def finish(res, proof, level_assumptions, checker_cmd):
    """write evidence, print verdict lines, return exit code"""
    pid = res.pid
    findings = load_findings()
    known, new = [], []
    for v in res.violations:
        f = finding_for(pid, v, findings)
        (known if f else new).append((v, f))
    theorems = proof.get("theorems", []) if proof else []
    ass = proof.get("assumptions", []) if proof else []
    proof_ok = bool(proof) and not proof.get("broken")
    tb = ["Coq 8.16.1 kernel (coqc, vm_compute inside proofs; no native_compute)"]
    for i, t in enumerate(theorems):
        a = ass[i] if i < len(ass) else "?"
        tb.append("Print Assumptions %s: %s" % (t, "Closed under the global context" if a == "closed" else a))
    tb += level_assumptions
    cov = {
        "obligations": max(1, len(theorems)),
        "discharged": len(theorems) if proof_ok else 0,
        "checker_cmd": checker_cmd,
        "trusted_base": tb,
        "theorems": theorems,
        "evaluations": res.evaluations,
        "distinct_nontrivial": len(res.nontrivial) + res.nontrivial_extra,
        "rule": res.rule,
        "samples": res.samples or ["(no case ran)"],
        "traces_validated_against_impl": res.traces or res.evaluations,
        "input_distribution": res.dist,
        "exhaustive": res.exhaustive,
        "known_findings_reproduced": [v["key"] for v, _ in known],
        "tree_hash": tree_hash(),
    }
    cov.update(res.extra)
    if not proof_ok:
        # nothing is discharged when a proof obligation or the build is broken: say so without the proof-level key set
        # (the run is a violation; the exploration counts below still describe what was searched)
        del cov["discharged"]
        cov["proof_broken"] = True
    ev = {"property_id": pid, "tier": res.tier, "seed": seed(), "level": "proof", "coverage": cov,
          "assumptions": level_assumptions, "wall_s": round(time.time() - res.t0, 2),
          "violations": len(new)}
    os.makedirs(os.path.join(VERIF, "evidence"), exist_ok=True)
    with open(os.path.join(VERIF, "evidence", pid + ".json"), "w") as f:
        json.dump(ev, f, indent=1, sort_keys=True)
        f.write("\n")
    seen = set()
    for v, f in known:
        if v["key"] in seen:
            continue
        seen.add(v["key"])
        print("KNOWN-FINDING: property=%s %s" % (pid, f.get("what", v["what"])))
    # findings that no run can reach are re-established on every run by a theorem of the property file (a `..._refuted`
    # statement with its witness): listed when that theorem was checked just now
    for f in findings.get("findings", []):
        th = f.get("established_by_theorem")
        if f.get("property") == pid and th and f.get("key") not in seen and proof_ok and th in theorems:
            seen.add(f.get("key"))
            cov["known_findings_reproduced"].append(f.get("key"))
            print("KNOWN-FINDING: property=%s %s" % (pid, f.get("what", "")))
    if not new:
        print("OK property=%s tier=%s theorems=%d evaluations=%d nontrivial=%d wall=%.1fs" %
              (pid, res.tier, len(theorems), res.evaluations, cov["distinct_nontrivial"], ev["wall_s"]))
        return 0
    # prefer a violation with a concrete failing input
    concrete = [v for v, _ in new if v["stage"] == "oracle"]
    others = [v for v, _ in new if v["stage"] != "oracle"]
    if concrete:
        p = write_replay(pid, concrete[0])
        for i, v in enumerate(concrete[1:6], 1):
            write_replay(pid, v, i)
        print("VIOLATION property=%s replay=%s" % (pid, p))
        print("  " + concrete[0]["what"][:400])
    else:
        p = write_replay(pid, others[0])
        print("  " + others[0]["what"][:400])
        print("VIOLATION property=%s replay=%s no-failing-input-found" % (pid, p))
    return 1


# ----------------------------------------------------------------------------------
# line-oriented differential runs
# ----------------------------------------------------------------------------------
def run_cases(exe, cases, workdir, tag, timeout=900, env=None, args=()):
    """feed 'cases' (list of str lines) to exe, return list of output lines (padded with
    CRASH markers when the process died early) and the stderr tail"""
    inp = os.path.join(workdir, tag + ".in")
    with open(inp, "w") as f:
        f.write("\n".join(cases))
        f.write("\n")
    rc, lines, err = run_lines([exe] + list(args), infile=inp, timeout=timeout, env=env)
    if len(lines) < len(cases):
        marker = "HANG" if rc == -9999 else ("MEMFAULT" if rc in (97, 96, -11, -6, -7, -8) or "Sanitizer" in err else "DIED(%d)" % rc)
        lines = lines + [marker] + ["NOTRUN"] * (len(cases) - len(lines) - 1)
    return lines, err[:6000] + err[-1500:]


def run_cases_resilient(exe, cases, workdir, tag, timeout=900, env=None, args=(), max_restarts=200):
    """like run_cases, but when the process dies on a case (sanitizer report, signal, watchdog)
    that case is marked and the remaining cases are run in a fresh process"""
    out, errs, start, restarts = [], [], 0, 0
    while start < len(cases):
        o, err = run_cases(exe, cases[start:], workdir, tag, timeout=timeout, env=env, args=args)
        bad = None
        for k, l in enumerate(o):
            if l == "NOTRUN":
                break
            out.append(l)
            if l == "MEMFAULT" or l.endswith("HANG") or l.startswith("DIED"):
                bad = k
                errs.append((start + k, err))
                break
        if bad is None:
            if len(out) < len(cases) and o and o[-1] == "NOTRUN":
                pass
            break
        # a HANG line printed by the watchdog replaces the case's own output line
        start = start + bad + 1
        restarts += 1
        if restarts > max_restarts:
            out += ["NOTRUN"] * (len(cases) - len(out))
            break
    if len(out) < len(cases):
        out += ["NOTRUN"] * (len(cases) - len(out))
    return out, errs


def san_summary(err):
    """the informative lines of a sanitizer report"""
    keep = [l.strip() for l in err.splitlines()
            if "ERROR:" in l or "SUMMARY:" in l or "runtime error" in l or re.match(r"\s*#[0-5] ", l)]
    return " | ".join(keep[:9])[:900]


def split_model(line):
    """model lines are '<impl-model result> | SPEC <spec result>'"""
    if " | SPEC " in line:
        a, b = line.split(" | SPEC ", 1)
        return a.strip(), b.strip()
    return line.strip(), None
