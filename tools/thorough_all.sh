#!/bin/bash
./check setup | tail -1
for p in C20 C13 C06 C07 C03 C10 C05 C17 C08 C09 C02 C15 C14 C16 C01 C04 C11 C12 C18 C19; do
  /usr/bin/time -f "%e s" ./check $p --tier thorough 2>&1 | grep -E "^OK|^VIOLATION|^KNOWN| s$|^  " | cut -c1-220
done
