"""Complete zchunk files for the reader-side checks: uncompressed ones from the reference
encoder, zstd ones written by the working tree's own zck tool."""
import os, subprocess
import vlib, zckfmt


def contents(rng, n):
    """payload classes: empty, tiny, repetitive, random, text-like"""
    out = []
    words = [b"alpha", b"beta", b"gamma", b"<text:", b"delta\n", b"0123456789", b" "]
    for i in range(n):
        k = i % 6
        if k == 0:
            out.append(b"")
        elif k == 1:
            out.append(rng.rbytes(rng.randrange(1, 40)))
        elif k == 2:
            out.append(bytes([rng.randrange(256)]) * rng.randrange(1, 70000))
        elif k == 3:
            out.append(rng.rbytes(rng.randrange(100, 40000)))
        else:
            out.append(b"".join(rng.choice(words) for _ in range(rng.randrange(10, 6000))))
    return out


def nocomp_files(rng, n):
    out = []
    for i in range(n):
        nch = rng.choice([0, 1, 2, 3, 5])
        chunks = [rng.rbytes(rng.choice([1, 7, 100, 1000, 33000])) if rng.random() < 0.7 else bytes([65 + i % 20]) * rng.choice([5, 32768, 65536]) for _ in range(nch)]
        ht, cht = rng.choice([0, 1, 2, 3]), rng.choice([0, 1, 2, 3])
        flags = rng.choice([0, 0, 0, 4])
        if flags & 4 and cht in (0, 3):
            cht = 1
        d = rng.rbytes(rng.choice([0, 0, 30]))
        f, h = zckfmt.build_file(chunks, ht=ht, cht=cht, flags=flags, dict_chunk=d)
        out.append((f, b"".join(chunks), h))
    return out


def zstd_files(rng, n, wd, variant="plain"):
    """files produced by the real zck tool (zstd, with and without dictionary, manual/auto)"""
    zck = vlib.ensure_tool("zck", variant)
    out = []
    for i, data in enumerate(contents(rng, n)):
        src = os.path.join(wd, "in%d" % i)
        dst = os.path.join(wd, "in%d.zck" % i)
        with open(src, "wb") as f:
            f.write(data)
        cmd = [zck, "-o", dst]
        if rng.random() < 0.3:
            dpath = os.path.join(wd, "dict%d" % i)
            with open(dpath, "wb") as f:
                f.write(rng.rbytes(200) + data[:300])
            cmd += ["-D", dpath]
        if rng.random() < 0.3:
            cmd += ["-m", "-s", "<text:"]
        if rng.random() < 0.2:
            cmd += ["-u"]
        cmd.append(src)
        p = subprocess.run(cmd, stdout=subprocess.PIPE, stderr=subprocess.PIPE, timeout=120, env=dict(os.environ, **vlib.ASAN_ENV))
        if p.returncode == 0 and os.path.exists(dst):
            out.append((open(dst, "rb").read(), data, None))
        for pth in (src, dst):
            try:
                os.unlink(pth)
            except OSError:
                pass
    return out


def raw_frame(data):
    """a zstd frame holding `data` in raw (uncompressed) blocks: no entropy coding, so it can be built without libzstd
    and decodes with or without a dictionary"""
    n = len(data)
    if n < 256:
        hdr = bytes([0x20, n])                      # single segment, 1-byte content size
    elif n < 65536 + 256:
        hdr = bytes([0x60]) + (n - 256).to_bytes(2, "little")
    else:
        hdr = bytes([0xa0]) + n.to_bytes(4, "little")
    out = b"\x28\xb5\x2f\xfd" + hdr
    if n == 0:
        return out + (1).to_bytes(3, "little")     # one empty raw last block
    for o in range(0, n, 100000):
        blk = data[o:o + 100000]
        last = 1 if o + 100000 >= n else 0
        out += ((len(blk) << 3) | last).to_bytes(3, "little") + blk
    return out


def zstd_crafted_files(rng):
    """sealed zstd-type files built by hand from raw-block frames; the dictionary chunk of some of them starts with the
    zstd dictionary magic followed by unusable entropy tables (ZSTD_createDDict fails: the error path of the
    dictionary import after the buffer has been handed to the compression context)"""
    out = []
    for dict_kind in ("badmagic", "rawcontent", "none", "magic-only", "none+emptyframe"):
        chunks = [rng.rbytes(rng.choice([20, 300, 1000])) for _ in range(3)]
        if dict_kind == "none+emptyframe":
            # a chunk that HAS stored bytes (a valid empty zstd frame) but declares 0 uncompressed bytes, behind a chunk
            # that has been read completely (a request for 0 more decompressed bytes in the middle of the stream)
            chunks = [rng.rbytes(1000), b"", rng.rbytes(1000), b""]
        if dict_kind == "badmagic":
            d = b"\x37\xa4\x30\xec" + rng.rbytes(4) + bytes([0xff]) * 40 + rng.rbytes(60)
        elif dict_kind == "magic-only":
            d = b"\x37\xa4\x30\xec" + rng.rbytes(4)
        elif dict_kind == "rawcontent":
            d = rng.rbytes(120)
        else:
            d = b""
        cht = rng.choice([1, 3])
        entries, body = [], b""
        for k, c in enumerate([d] + chunks):
            if k == 0 and not c:
                entries.append((bytes(zckfmt.DSIZE[cht]), None, 0, 0))
                continue
            st = raw_frame(c)
            entries.append((zckfmt.H(cht, st), None, len(st), len(c)))
            body += st
        h = zckfmt.Hdr(ht=1, cht=cht, flags=0, comp=2, chunks=entries)
        h.ddigest = zckfmt.H(1, body)
        out.append((h.build() + body, b"".join(chunks), h))
    return out
