"""./check setup : build everything from files on disk (Coq development, extracted models,
library + harness builds for the current /repo tree)."""
import json, os, sys, time
import vlib


def main():
    t0 = time.time()
    try:
        out = vlib.coq_make([], timeout=3000)
        bad = vlib.coq_scan_forbidden()
        if bad:
            print("forbidden constructs in the Coq development:\n" + "\n".join(bad))
            return 1
        man = json.load(open(os.path.join(vlib.VERIF, "MANIFEST.json")))
        for c in man["checks"]:
            pid = c["property_id"]
            if os.path.exists(os.path.join(vlib.COQ, "Extract", "m_%s.ml" % pid.lower())):
                vlib.ensure_model(pid)
        for v in ("plain", "asan"):
            vlib.ensure_lib(v)
    except vlib.BuildError as e:
        print("setup failed at %s:\n%s" % (e.stage, e.detail[-4000:]))
        return 1
    print("setup ok in %.0fs" % (time.time() - t0))
    return 0


if __name__ == "__main__":
    sys.exit(main())
