"""Structured header cases: valid headers from the reference encoder, their re-sealed field
mutants (the checksum gate is passed so parsing proceeds), truncations and raw flips."""
import zckfmt
from zckfmt import Hdr, DSIZE, ci

BIG = [0, 1, 127, 128, 16383, 16384, 2**31 - 1, 2**31, 2**32 - 1, 2**32, 2**32 + 5, 2**62, 2**63 - 1, 2**63, 2**64 - 1]


def raw_ci_bytes(n, last):
    """n-byte compressed int: n-1 continuation bytes then 'last'"""
    return bytes([0x7f] * (n - 1) + [last])


def mk_chunks(rng, n, cht, uflag, sizes=None):
    ds = DSIZE.get(cht, 16)
    out = []
    for k in range(n):
        dg = rng.rbytes(ds) if k or rng.random() < 0.5 else bytes(ds)
        ud = rng.rbytes(ds) if uflag else None
        if sizes:
            clen, ulen = sizes[k % len(sizes)]
        else:
            clen = rng.choice([0, 1, 5, 100, 127, 128, 300, 70000, rng.randrange(1 << 20)])
            ulen = rng.choice([0, clen, clen * 3, rng.randrange(1 << 22)])
        out.append((dg, ud, clen, ulen))
    return out


def valid_headers(rng, n):
    out = []
    for i in range(n):
        ht = rng.choice([0, 1, 1, 2, 3])
        cht = rng.choice([0, 1, 2, 3, 3])
        flags = rng.choice([0, 0, 2, 4, 6])
        h = Hdr(ht=ht, cht=cht, flags=flags, comp=rng.choice([0, 2]),
                chunks=mk_chunks(rng, rng.choice([1, 1, 2, 3, 5, 12]), cht, bool(flags & 4)),
                detached=rng.random() < 0.15)
        h.ddigest = rng.rbytes(DSIZE[ht])
        if flags & 2:
            h.opts = [(rng.randrange(300), rng.rbytes(rng.choice([0, 1, 7, 200]))) for _ in range(rng.randrange(0, 4))]
        if rng.random() < 0.2:
            h.trailing = rng.rbytes(rng.randrange(1, 9))
        if rng.random() < 0.25:
            h.pad[rng.choice(["flags", "comp", "index_size", "cht", "count", "clen0", "ulen0", "sigs", "ht", "hlen"])] = rng.randrange(1, 4)
        out.append(("valid", h))
    return out


def field_mutants(rng, base_n=6):
    """re-sealed mutations of every numeric field"""
    out = []
    for i in range(base_n):
        for uflag in (0, 4):
            for ht in (1, 3, 0, 2)[: 2 if i else 4]:
                cht = rng.choice([1, 3, 0, 2])

                def base():
                    h = Hdr(ht=ht, cht=cht, flags=uflag, comp=2, chunks=mk_chunks(rng, rng.choice([1, 2, 3]), cht, bool(uflag)))
                    h.ddigest = bytes(range(DSIZE[ht]))
                    return h
                n = len(base().chunks)
                # count field
                for c in (0, 1, n - 1, n + 1, 5, 2**31, 2**64 - 1):
                    h = base(); h.count = c; out.append(("count=%d" % c, h))
                # values that alias the true one modulo a narrower type (k * 2^32 + v, 2^31 + v, ...)
                b0 = base()
                truth = {"count": n, "index_size": len(b0.index_body()), "flags": uflag, "comp": 2, "ht": ht, "cht": cht, "sigs": 0,
                         "clen0": b0.chunks[0][2], "ulen0": b0.chunks[0][3], "hlen": None}
                for fld, v in truth.items():
                    if v is None:
                        continue
                    for add in (2**31, 2**32, 2**33, 3 * 2**32, 2**40, 2**47, 2**63):
                        if v + add < 2**64:
                            h = base(); h.raw[fld] = ci(v + add); out.append(("%s+2^%d" % (fld, add.bit_length() - 1), h))
                # zero entries
                h = base(); h.chunks = []; out.append(("noentries", h))
                h = base(); h.chunks = []; h.count = 0; out.append(("noentries-count0", h))
                # index size
                for d in (-1, 1, -3, 7):
                    h = base(); h.index_size = max(0, len(h.index_body()) + d); out.append(("isz%+d" % d, h))
                for v in (0, 1, 2**31 - 1, 2**31, 2**32 + 3, 2**64 - 1):
                    h = base(); h.index_size = v; out.append(("isz=%d" % v, h))
                # sizes
                for v in BIG:
                    for fld in ("clen0", "ulen0", "clen%d" % (n - 1), "ulen%d" % (n - 1)):
                        h = base(); h.raw[fld] = ci(v); out.append(("%s=%d" % (fld, v), h))
                # sums that overflow
                h = base(); h.chunks = mk_chunks(rng, 2, cht, bool(uflag), [(2**64 - 1, 5), (5, 5)]); out.append(("sumwrap64", h))
                h = base(); h.chunks = mk_chunks(rng, 3, cht, bool(uflag), [(2**62, 1), (2**62, 1), (5, 5)]); out.append(("sum>=2^63", h))
                h = base(); h.chunks = mk_chunks(rng, 2, cht, bool(uflag), [(2**63 - 1 - 500, 1), (100, 1)]); out.append(("sum<2^63", h))
                # over-long / overflowing integers in every field
                for fld in ("flags", "comp", "index_size", "cht", "count", "clen0", "ulen0", "sigs", "ht", "hlen"):
                    for raw in (raw_ci_bytes(10, 0x81), raw_ci_bytes(10, 0x82), raw_ci_bytes(11, 0x80), raw_ci_bytes(9, 0xff),
                                bytes([0] * 9 + [0x82]), bytes([1] + [0] * 8 + [0x84]), bytes([5, 0, 0, 0, 0x90])):
                        h = base(); h.raw[fld] = raw; out.append(("%s:raw%s" % (fld, raw.hex()), h))
                # enumerations out of range
                for fld, vals in (("flags", [1, 3, 8, 16, 2**32, 2**63]), ("comp", [1, 3, 2**31 - 1, 2**31]), ("ht", [4, 5, 2**31 - 1, 2**31]),
                                  ("cht", [4, 100, 2**31]), ("sigs", [1, 2, 2**31])):
                    for v in vals:
                        h = base(); h.raw[fld] = ci(v); out.append(("%s=%d" % (fld, v), h))
                # optional elements
                for sz in (0, 1, 50, 200, 2**31, 2**40, 2**64 - 1, 2**64 - 40):
                    h = base(); h.flags = uflag | 2; h.opts = [(7, b"ab")]; h.raw["optsize0"] = ci(sz); out.append(("optsize=%d" % sz, h))
                for oc in (0, 1, 2, 3, 1000, 2**64 - 1):
                    h = base(); h.flags = uflag | 2; h.opts = [(7, b"ab"), (9, b"")]; h.raw["optcount"] = ci(oc); out.append(("optcount=%d" % oc, h))
                # an element whose size makes the cursor wrap back onto the element itself (id + size field = L bytes, size =
                # 2^64 - L), with an element count that never runs out: a bound check that adds before comparing loops for ever
                for oc in (2**63, 2**64 - 1, 10**7):
                    L = len(ci(0)) + len(ci(2**64 - 11))
                    for sz in (2**64 - L, 2**64 - L - 1, 2**64 - L + 1, 2**64 - 1):
                        h = base(); h.flags = uflag | 2; h.opts = [(0, b"")]; h.raw["optcount"] = ci(oc); h.raw["optsize0"] = ci(sz)
                        out.append(("optwrap=%d/%d" % (oc, sz), h))
                # header size field
                for d in (-1, 1):
                    h = base(); body_len = len(h.build()) - h.lead_len()
                    h.hlen = None
                    hb = h.build()
                    h2 = base(); h2.raw = dict(h.raw); out.append(("plain", h2))
                # signature count missing: cut the last byte and adjust hlen through trailing
                h = base(); h.raw["sigs"] = b""; out.append(("nosig", h))
                # -u flag set but entries without second digest (and the reverse)
                h = base(); h.flags = uflag ^ 4; out.append(("uflag-flip", h))
                # entries overrunning the index size: index_size cut inside the last entry
                h = base(); h.index_size = len(h.index_body()) - 2; out.append(("entry-straddles", h))
                h = base(); h.trailing = b"\x80" * 3; h.index_size = len(h.index_body()) - 1; out.append(("entry-straddles-trailing", h))
    return out


def build_all(rng, tier):
    hs = valid_headers(rng, 250 if tier == "quick" else 4000) + field_mutants(rng, 3 if tier == "quick" else 12)
    files = []
    for tag, h in hs:
        try:
            f = h.build()
        except Exception as e:  # encoder cannot express it
            continue
        body = rng.rbytes(rng.choice([0, 0, 3, 40]))
        files.append((tag, f + body))
    # truncations and raw (unsealed) flips of a few valid ones
    valids = [f for t, f in files if t == "valid"][:12 if tier == "quick" else 60]
    for f in valids:
        for cut in sorted(set([0, 1, 4, 5, 6, 7, 24, 25, 26, len(f) - 1, len(f) // 2] + [rng.randrange(len(f)) for _ in range(6)])):
            files.append(("trunc@%d" % cut, f[:cut]))
        for _ in range(10):
            p = rng.randrange(len(f))
            g = bytearray(f); g[p] ^= 1 << rng.randrange(8)
            files.append(("flip@%d" % p, bytes(g)))
            r = zckfmt.reseal(bytes(g))
            if r is not None:
                files.append(("flip-resealed@%d" % p, r))
    return files
