#!/usr/bin/env python3
"""Regenerates MANIFEST.json from the table below (one place to edit; the file must stay valid)."""
import json, os
VERIF = os.path.dirname(os.path.dirname(os.path.abspath(__file__)))
ENGINE = "coq-proof+correspondence"

CLAIMS = {
 "C20": dict(
  text="Seven Coq theorems (round trip, bounded reads, exactness, complete decision, int destination) about a faithful model of compint.c, for all inputs; the model is tied to the code by differential execution on ~570k (quick) exhaustive-small and boundary-targeted inputs, each placed flush against a guard page.",
  note="trusted: Coq kernel, extraction (ExtrOcamlBasic), the hand transcription as far as the correspondence run checks it, LP64; Print Assumptions: closed for every theorem",
  tech="Coq proof by induction over the byte list; extracted model vs compint.c differential run with guard page", ref="DESIGN.md 6 C20"),
 "C13": dict(
  text="Refinement theorem: whenever the faithful model of read_lead/read_header_from_file/read_preface/index_read/read_sig accepts, the independent specification parser (exact arithmetic, from zchunk_format.txt) accepts with the identical record; plus count = number of chunks >= 1, start offsets = exact prefix sums, everything fits ssize_t. For all byte strings, any hash function. Tie: model vs library getters on thousands of sealed headers and field mutants under ASan; oracle: the specification parser on the same bytes.",
  note="trusted: Coq kernel; hash as a parameter; the hand transcription is validated by the differential run only on the generated inputs; files < 2^63 bytes; fewer than 2^31 index entries (int counter of index_read not modelled)",
  tech="Coq refinement proof (implementation model to specification parser) + extracted-model/library differential run on re-sealed headers", ref="DESIGN.md 6 C13"),
 "C06": dict(
  text="Theorems: open implies stored digest = H(covered bytes); the covered bytes together with the stored digest determine every header byte except the five magic bytes (nothing escapes the checksum); two different headers with the same type and digest that both open exhibit an explicit collision. Tie/oracle: every single-byte substitution (quick: 32 per position, thorough: all 255), insertion and deletion in the header region of valid files of every hash type must be rejected by the real library, and the model must agree on every mutant.",
  note="the 'any change makes open fail' consequence is proved up to an explicit collision of the same hash type; cross-type second preimages are outside what collision-freedom gives and are covered only by the sweep",
  tech="Coq proofs (injectivity of the hash input) + exhaustive mutation sweep against model and library", ref="DESIGN.md 6 C06"),
 "C07": dict(
  text="hex_to_int proved equal to the hex-digit specification on all 256 char values (finite sweep lifted by forallb_forall); digest option accepted iff exact length and all hex, stored by value; type-before-digest rule; lead accepted under pins iff accepted without and every set pin equals the stored value; two files opening under the same (type, digest) pins have identical header bytes or exhibit a collision. Tie: exhaustive 256-value sweep on the real static function, every byte value at first/odd/last digest-string position, full pin matrix incl. both setter orders and zck_validate_lead.",
  note="chars are signed 8-bit; hash is a parameter; model validated against the library on the generated matrix",
  tech="Coq proofs (finite sweep + iff characterisations) + exhaustive/matrix differential run", ref="DESIGN.md 6 C07"),
 "C03": dict(
  text="Partial by nature. Proved for all byte strings: the modelled header parser never reads outside its buffers and its loops terminate within explicit fuel; a successful open guarantees the facts later calls rely on (>= 1 chunk, count = list length, exact offsets, ssize_t-representable sizes). Not provable in the model (heap lifetime, allocator failures, libzstd/OpenSSL/glibc internals, the tools' argument handling): covered by running the real library and the four file-reading tools under ASan/UBSan with a watchdog on sealed headers, structure-aware mutants, truncations and API call sequences.",
  note="memory safety beyond index arithmetic and termination of the modelled parser rests on the sanitizer runs; a hang is a call sequence exceeding the 20 s watchdog",
  tech="Coq proof of no-OOB/no-out-of-fuel for the parser model + sanitizer-backed execution of library and tools on generated files", ref="DESIGN.md 6 C03"),
 "C19": dict(
  text="Partial by nature: machine-checked non-interference over an abstract step model for all N-thread interleavings, plus a vm_compute-checked inventory obligation on the library's writable static storage regenerated from the compiled objects on every run. The C operations themselves are not modelled: that they touch only their own contexts, and heap or external-library races generally, is covered by ThreadSanitizer and serial-vs-concurrent differential runs only.",
  note="T19.1 holds for any steps that never write the shared store. T19.2 ties it to this tree: the .data/.bss symbols of all library objects are on a reviewed list (log level, fd and callback written only by zck_set_log_*; bundled SHA-2 tables never written); .data.rel.ro* treated as read-only, .tdata/.tbss as per-thread. libc, OpenSSL, zstd internals trusted. TSan sees only executed interleavings.",
  tech="Coq induction over schedules; vm_compute on the generated static-storage inventory; pthread harness with wrapped read/write (forced witness schedule, random yields); ThreadSanitizer", ref="DESIGN.md 6 C19"),
}

PENDING_REASON = "not built yet in this revision of /verif (work in progress, DESIGN.md section 10): will be claimed once its model, theorems and correspondence run exist"


def main():
    props = [json.loads(l) for l in open(os.path.join(VERIF, "properties.jsonl"))]
    extra = {}
    p = os.path.join(VERIF, "tools", "manifest_extra.json")
    if os.path.exists(p):
        extra = json.load(open(p))
    claims = dict(CLAIMS)
    claims.update(extra)
    man = {
        "version": 1,
        "setup_cmd": "./check setup",
        "hooks": {"guard": "ZCHUNK_VERIF",
                  "enable": "the checks compile /repo's working tree themselves with -DZCHUNK_VERIF (tools/vlib.py ensure_lib); no source hooks exist: static functions are reached by #include of the .c file, system calls by -Wl,--wrap",
                  "baseline_off_cmd": "ninja -C /repo/_build && meson test -C /repo/_build",
                  "source_commits": [], "add_only": True},
        "engines": [{"name": ENGINE, "path": "/verif/check", "serves_properties": sorted(claims),
                     "kind_free_text": "Coq 8.16 theorems about Gallina models of the C code; models tied to /repo's working tree on every run by regenerated constants/tables/inventories (tools/gen_*.py) and by running the extracted models against C harnesses compiled from the working tree"}],
        "checks": [], "not_applicable": [],
        "notes": "DESIGN.md explains the approach; known_findings.json lists recorded and fixed defects; ./check replay <file> re-runs a stored case",
    }
    for pr in props:
        i = pr["id"]
        if i in claims:
            d = claims[i]
            man["checks"].append({
                "property_id": i, "quick_cmd": "./check %s --tier quick" % i, "thorough_cmd": "./check %s --tier thorough" % i,
                "evidence_file": "/verif/evidence/%s.json" % i, "replay_cmd_template": "./check replay {path}", "engine": ENGINE,
                "level_claimed": {"category": "proof", "text": d["text"], "design_ref": d["ref"]},
                "level_note": d["note"], "technique": d["tech"]})
        else:
            man["not_applicable"].append({"property_id": i, "reason": PENDING_REASON})
    with open(os.path.join(VERIF, "MANIFEST.json"), "w") as f:
        json.dump(man, f, indent=1)
        f.write("\n")


if __name__ == "__main__":
    main()
