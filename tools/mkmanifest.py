#!/usr/bin/env python3
"""Regenerates MANIFEST.json from the table below (one place to edit; the file must stay valid)."""
import json, os
VERIF = os.path.dirname(os.path.dirname(os.path.abspath(__file__)))
ENGINE = "coq-proof+correspondence"

CLAIMS = {
 "C20": dict(
  text="Seven Coq theorems (round trip, bounded reads, exactness, complete decision, int destination) about a faithful model of compint.c, for all inputs; the model is tied to the code by differential execution on ~570k (quick) exhaustive-small and boundary-targeted inputs, each placed flush against a guard page.",
  note="trusted: Coq kernel, extraction (ExtrOcamlBasic), the hand transcription as far as the correspondence run checks it, LP64; Print Assumptions: closed for every theorem",
  tech="Coq proof by induction over the byte list; extracted model vs compint.c differential run with guard page", ref="DESIGN.md 6 C20"),
 "C13": dict(
  text="Refinement theorem: whenever the faithful model of read_lead/read_header_from_file/read_preface/index_read/read_sig accepts, the independent specification parser (exact arithmetic, from zchunk_format.txt) accepts with the identical record; plus count = number of chunks >= 1, start offsets = exact prefix sums, everything fits ssize_t. For all byte strings, any hash function. Tie: model vs library getters on thousands of sealed headers and field mutants under ASan; oracle: the specification parser on the same bytes.",
  note="trusted: Coq kernel; hash as a parameter; the hand transcription is validated by the differential run only on the generated inputs; files < 2^63 bytes; fewer than 2^31 index entries (int counter of index_read not modelled)",
  tech="Coq refinement proof (implementation model to specification parser) + extracted-model/library differential run on re-sealed headers", ref="DESIGN.md 6 C13"),
 "C06": dict(
  text="Theorems: open implies stored digest = H(covered bytes); the covered bytes together with the stored digest determine every header byte except the five magic bytes (nothing escapes the checksum); two different headers with the same type and digest that both open exhibit an explicit collision. Tie/oracle: every single-byte substitution (quick: 32 per position, thorough: all 255), insertion and deletion in the header region of valid files of every hash type must be rejected by the real library, and the model must agree on every mutant.",
  note="the 'any change makes open fail' consequence is proved up to an explicit collision of the same hash type; cross-type second preimages are outside what collision-freedom gives and are covered only by the sweep",
  tech="Coq proofs (injectivity of the hash input) + exhaustive mutation sweep against model and library", ref="DESIGN.md 6 C06"),
 "C07": dict(
  text="hex_to_int proved equal to the hex-digit specification on all 256 char values (finite sweep lifted by forallb_forall); digest option accepted iff exact length and all hex, stored by value; type-before-digest rule; lead accepted under pins iff accepted without and every set pin equals the stored value; two files opening under the same (type, digest) pins have identical header bytes or exhibit a collision. Tie: exhaustive 256-value sweep on the real static function, every byte value at first/odd/last digest-string position, full pin matrix incl. both setter orders and zck_validate_lead.",
  note="chars are signed 8-bit; hash is a parameter; model validated against the library on the generated matrix",
  tech="Coq proofs (finite sweep + iff characterisations) + exhaustive/matrix differential run", ref="DESIGN.md 6 C07"),
 "C03": dict(
  text="Partial by nature. Proved for all byte strings: the modelled header parser never reads outside its buffers and its loops terminate within explicit fuel; a successful open guarantees the facts later calls rely on (>= 1 chunk, count = list length, exact offsets, ssize_t-representable sizes). Not provable in the model (heap lifetime, allocator failures, libzstd/OpenSSL/glibc internals, the tools' argument handling): covered by running the real library and the four file-reading tools under ASan/UBSan with a watchdog on sealed headers, structure-aware mutants, truncations and API call sequences.",
  note="memory safety beyond index arithmetic and termination of the modelled parser rests on the sanitizer runs; a hang is a call sequence exceeding the 20 s watchdog",
  tech="Coq proof of no-OOB/no-out-of-fuel for the parser model + sanitizer-backed execution of library and tools on generated files", ref="DESIGN.md 6 C03"),
 "C19": dict(
  text="Partial by nature: machine-checked non-interference over an abstract step model for all N-thread interleavings, plus a vm_compute-checked inventory obligation on the library's writable static storage regenerated from the compiled objects on every run. The C operations themselves are not modelled: that they touch only their own contexts, and heap or external-library races generally, is covered by ThreadSanitizer and serial-vs-concurrent differential runs only.",
  note="T19.1 holds for any steps that never write the shared store. T19.2 ties it to this tree: the .data/.bss symbols of all library objects are on a reviewed list (log level, fd and callback written only by zck_set_log_*; bundled SHA-2 tables never written); .data.rel.ro* treated as read-only, .tdata/.tbss as per-thread. libc, OpenSSL, zstd internals trusted. TSan sees only executed interleavings.",
  tech="Coq induction over schedules; vm_compute on the generated static-storage inventory; pthread harness with wrapped read/write (forced witness schedule, random yields); ThreadSanitizer", ref="DESIGN.md 6 C19"),
 "C05": dict(
  text="Thirteen Coq theorems about faithful models of dl_write_range and multipart_extract, for arbitrary inputs: streaming law (every partition into non-empty callbacks, down to one byte, gives the same final state), placement of well-formed payloads, verification invariant (marked valid implies the extent hashes to the digest), confinement invariant (nothing outside the extents of requested, not-yet-valid chunks changes), mismatch implies zero-filled, marked failed, error reported. Hash and POSIX regex are universally quantified parameters. Tie: differential execution against the real zck_header_cb/zck_write_chunk_cb (plain and ASan): all 1-/2-cut partitions of small responses, every subset of missing chunks, 14 boundaries x 9 header spellings, corruption at every chunk.",
  note="not a theorem: that the three POSIX patterns hand exactly the part payloads of a well-formed multipart body to the writer (regex semantics; differential runs and the direct oracle only). The streaming law needs non-empty pieces and no zero-length index entries (true of every range index obtainable through zck_get_missing_range; a refuted example documents why).",
  tech="Coq invariants/streaming lemma over the callback state machine + extracted-model/callback differential run with glibc regex as shared oracle", ref="DESIGN.md 6 C05/C17"),
 "C17": dict(
  text="Partial by nature. Seven theorems for every regex oracle under the regexec contract: the models of multipart_get_boundary, multipart_extract and zck_write_chunk_cb never read outside their buffers and always return, and whatever is written satisfies the C05 confinement and verification invariants. Heap lifetime, libc internals and single buffers of 2 GiB or more are covered only by ASan/UBSan runs on malformed header lines and bodies (incl. continuing after zck_clear_error).",
  note="regex behaviour is an oracle parameter under the contract 'group offsets lie inside the searched string'; sanitizer runs back the rest",
  tech="Coq no-OOB/totality proofs over the parser model for arbitrary bytes + sanitizer-backed differential run on malformed responses", ref="DESIGN.md 6 C05/C17"),
 "C16": dict(
  text="Sixteen Coq theorems about a faithful model of the chunker (comp_init limits, both loops of zck_write with the code's batching, end-chunk, close): the batched loop equals the per-byte fold; every segmentation into write calls gives the same chunk list; termination with an explicit per-byte iteration bound resting on a vm_compute sweep over the regenerated buzhash table; prefix locality; suffix resynchronisation; size bounds - for all contents, segmentations and legal min/max options. Tie: differential execution of ~450 (thorough ~4000) content x configuration x segmentation cases plus file-hash, edit-locality and size oracles on the implementation.",
  note="zstd and hash determinism are checked by oracles (same file hash over runs and segmentations), not proved; locality theorems are for automatic mode; buzhash table regenerated from buzhash.c on every run",
  tech="Coq loop-to-fold refactoring lemma, frame lemma, bit-level lemma + table sweep; extracted-model/library differential run", ref="DESIGN.md 6 C01/C16"),
 "C12": dict(
  text="Theorems for every fault schedule: write_data (one retry) reports success only if exactly the data reached the descriptor and otherwise leaves a prefix; zck_close = true implies the output received exactly header ++ body whatever the outcomes of the temp-file writes, the seek, the temp-file reads and the output writes; a download chunk is completed only if every byte was accepted by a successful write. Reader, scan, copy and download call sites and the zck/unzck tools are decided by exhaustive single-fault enumeration (every k-th read/write/lseek x EIO/ENOSPC/EINTR/short) with the oracle 'success implies the fault-free result', plus sampled double faults; the writer model's predictions are compared with the library under each fault.",
  note="POSIX calls transfer a prefix or fail; close(2) results and logging not modelled; only the writer's I/O skeleton is a theorem, the other paths rest on the enumeration",
  tech="Coq proof over all fault schedules for io.c + writer skeleton; --wrap'd syscalls for exhaustive single-fault and sampled double-fault runs", ref="DESIGN.md 6 C12"),
 "C18": dict(
  text="Ten Coq theorems: for every message and every split into update calls the modelled bundled SHA-1 / SHA-256 code returns the FIPS 180-4 digest (no length bound); the same for SHA-512 and SHA-512/128 below 2^61 bytes (bound forced by the 64-bit length counter); the digest is independent of the split; scraped constants equal the FIPS ones. SHA-1/256/512 are defined in Coq and checked against NIST vectors. OpenSSL and the C compression functions are compared, not proved: both builds and the extracted Coq functions run on every length 0..300 with several splits for the 4 types, on 200 long messages, on random blocks, and on file-level cross-build writes and reads.",
  note="trusted: Coq kernel, extraction, the hand transcription of sha2.c/sha1.c/libsha.c as far as the differential run checks it, equality of the C and FIPS compression functions (tested on random blocks), OpenSSL (tested), LP64; constants, widths and layout regenerated from the sources on every run (tools/gen_sha.py)",
  tech="executable FIPS spec in Coq; C-shaped model with explicit u32/u64 arithmetic; streaming = one-shot via a byte-wise absorb form; three-way differential run (Coq, OpenSSL build, bundled build); cross-build archive identity", ref="DESIGN.md 6 C18"),
 "C10": dict(
  text="Twelve Coq theorems about faithful models of range.c for all well-formed tables, all validity vectors and all limits: the request is ascending/non-overlapping/non-adjacent, covers exactly the bytes of a prefix of the missing chunks (all when unlimited, >= 1 when any is missing, <= max(limit,1) ranges), never header or non-missing bytes; range index = covered chunks with stored sizes, count = number of ranges; model = spec function; the rendered string is the comma-join for every list up to INT_MAX*2/3 characters through all buffer growths, empty list safe. Tie: differential execution on ~116k (quick) / ~504k (thorough) cases incl. exhaustive vectors <= 10/12 chunks x 8 limits x 8 families and buffer-edge tables/lists, plain and ASan.",
  note="trusted: Coq kernel, extraction, the hand transcription as far as the correspondence run checks it, LP64, C99 snprintf contract, no allocation failure, < 2^32 chunks; Print Assumptions closed",
  tech="Coq: invariant reduces the general insertion walk + merge pass to append-or-merge-with-last, induction over the chunk list; growth loop on fuel; extracted model vs range.c on in-memory indexes; independent Python and Coq-spec oracle", ref="DESIGN.md 6 C10"),
 "C09": dict(
  text="Exact-classification theorem for the faithful model of validate_checksums / zck_validate_data_checksum: for every header with prefix-sum offsets, every file and every prior state the result equals the specification (chunk i valid iff empty first entry, or extent inside the file and hash / zero-digest match; all-failed override; verdict 1 iff all chunks and the data digest match; detached header: dictionary only), the file is unchanged and the reader-relevant state is the state after open, for every sequence of validate-all / validate-data / find-valid calls. Any hash function. Tie: model vs library (flags, return values, position, hash-context states) on all damage patterns <= 5/8 chunks, every truncation length, call interleavings <= 3/4 incl. real read-to-end; oracle: hashlib recomputation.",
  note="regular file without I/O faults (C12 covers those); comp_read's re-initialisation of the chunk hash context is read off the code and tested by real reads, not proved; a zero-length chunk is valid iff its digest is all zeros",
  tech="Coq induction over the chunk list / call list (implementation model = executable specification) + extracted-model/library differential run + independent hashlib oracle", ref="DESIGN.md 6 C09"),
 "C08": dict(
  text="Soundness and frame theorems for the faithful model of zck_copy_chunks / write_and_verify_chunk / zero_chunk with the uthash lookup as 'first chunk with these digest bytes and length': newly valid implies extent inside the file and H(target type)(bytes) = target digest (also over any sequence of sources); newly failed implies zero-filled; valid chunks, header and all bytes outside fillable extents unchanged; source unchanged; a source chunk is used only if digest, stored size and size are equal; equal digest size implies equal hash type (generated constants); find_matching pairs only equal (uncompressed) digest + length. Any hash function, any crafted, corrupted or truncated source. Tie: flags, pairings and the whole target file after every call on 900 / 12 900 (source, target) pairs.",
  note="source and target are different files, no I/O faults (C12); zck_find_matching_chunks sets valid=1 without data - only its pairing contract is claimed (it is not used by the download path)",
  tech="Coq invariant proof over the copy loop with a block-wise stale-buffer model + extracted-model/library differential run + independent hashlib/frame oracle", ref="DESIGN.md 6 C08"),
 "C01": dict(
  text="Theorems for all contents, configurations and op sequences: the write path terminates; the chunk list at close concatenates to exactly the bytes written; segmentation into write calls is irrelevant; the file the writer emits (chunker -> header creation model, both faithful to the C) opens in the reader model with the expected header, passes header/chunk/data checksum verification of the specification and the specification decoder returns exactly the written bytes (zstd through its round-trip contract only); the zck tool's scanner never crashes, hands exactly the input to the library for every split string and every partition into read() results, cuts chunks in front of split strings and reports read errors. Tie/oracle: real writer+reader round trips under random legal configurations (incl. descriptor 0 free) x 12 content classes x segmentations x read-size sequences under ASan; header bytes model vs library; real zck binary through a FIFO with controlled read sizes vs the scanner model; unzck read-back.",
  note="the reader's data-path completeness (a valid file is read to the end under every buffer-size sequence) is covered by the differential run and by C02's soundness theorems, not by a completeness theorem; an index larger than 2^31-1 bytes is written but refused by the reader (recorded finding, needs ~16.5 M chunks)",
  tech="Coq: loop-to-fold chunker lemmas, encode/decode proof of the whole header, scanner invariant; real library and tool round trips incl. FIFO-controlled read partitions", ref="DESIGN.md 6 C01/C16"),
 "C02": dict(
  text="Proved for every byte sequence, hash, decoder, fuel and sequence of non-empty buffer sizes, for zstd AND uncompressed files, with and without dictionary, with and without the uncompressed-source flag: if the file opens, reads continue until one returns 0 and close succeeds, then the specification's header/chunk/data verification holds and the bytes handed out equal the specification decoder's content; a successful specification decode implies every chunk has exactly its declared size; unzck model: exit 0 implies output = specification content, failure leaves no output. Tie: model vs ASan library on ~17k quick / 280k thorough valid and mutated files (body bit flips, substitutions, insertions, deletions, every truncation length of small files, re-sealed structure edits, six read-size patterns) with the specification decoder as oracle, plus unzck on a sample.",
  note="hash and zstd decoder are parameters (no hypothesis used); zck_validate_data_checksum enters the unzck theorem through its C09 contract; ZSTD_createDDict failure not modelled",
  tech="faithful Gallina model of comp_read as one fuelled loop + stream invariants (zstd: released ++ buffered = decode of a checksum-verified table prefix; uncompressed: released ++ dc ++ comp.data = body prefix read so far, every closed chunk verified); extracted model vs library; independent specification decoder (OpenSSL/libzstd instances) as oracle", ref="DESIGN.md 6 C02/C15/C14"),
 "C15": dict(
  text="Proved for every zstd file and every sequence of reads: the bytes returned (after the dictionary's data) are a prefix of the decode of a chunk-table prefix in which every stored chunk hashes to its index digest; after the first failed read every later read fails (sticky error state). Tie and model-independent oracle: single-bit flips of first/middle/last chunk bodies that still decompress x buffer sizes {1, c-1, c, c+1, 32 KiB}, each followed by further reads and close: nothing of the bad chunk is ever handed out.",
  note="no assumption on hash or decoder; error stickiness modelled through error_state (VALIDATE macros)",
  tech="Coq stream invariant over the comp_read loop model + bit-flip enumeration against the real reader", ref="DESIGN.md 6 C02/C15/C14"),
 "C14": dict(
  text="Partial. Proved for zstd files without a dictionary whose specification verification and decode succeed: every sequence of chunk-data / stored-data requests with buffers of the declared sizes returns the chunk's decoded data / stored bytes (whose hash is the index digest), independent of history. Files with a dictionary chunk and uncompressed files are decided by exhaustive request sequences up to length 3 (thorough 4) over {data, stored} x entries on files of <= 6 entries plus random length-200 sequences, compared with the generator's chunk data and with the model.",
  note="fuel >= largest stored chunk + 3; side condition: no entry with 0 stored bytes but a non-zero declared size; check_full_hash accumulation across requests only matters for a later zck_close (outside C14)",
  tech="forward simulation lemmas per loop phase + ready-state invariant; exhaustive/random request sequences against model and library", ref="DESIGN.md 6 C02/C15/C14"),
 "C04": dict(
  text="Coq theorems over a chunk-level model of zck_dl.c's update procedure (header fetch with the 89-byte probe, validity scan, copy from the old file, failed->missing reset, request loop with the range_attempt back-off scraped from the source, final truncate and data validation): for every old file (or none, also damaged), every valid new file B, every initial target (any bytes in every extent and the header region, truncated anywhere, over-long) and every server range limit incl. no range support, the procedure terminates within chunks + table length + 1 iterations, never indexes outside the back-off table, and ends with exit code 0, target = B, all chunks valid and data validation passing - or an explicit checksum collision exists; the extents transferred are exactly, each once and in file order, those of the chunks that fail the scan after the header fetch and have no usable equal-digest/equal-size chunk in the old file; refused requests ask for nothing else; header bytes are requested once and zck_read_header starts at the right offset for every lead length. Tie: the real zckdl against a loopback HTTP range server (single range, multipart, per-request range limit -> 200) over generated (A, B, target, limit) scenarios: exit 0 and target == B, transferred ranges == independently computed missing extents, nothing twice; the extracted model must predict the logged request sequence exactly.",
  note="chunk-level composition: the per-chunk effects of parser, scan, copy, range computation and callbacks are the subjects of C13, C09, C08, C10, C05 and are tied here end to end by the real-tool runs, not by a machine-checked refinement; checksum functions arbitrary (collision clause explicit); well-behaved server, no I/O faults; libcurl/TCP outside the model.",
  tech="Coq invariant proof with explicit fuel + vm_compute table-shape check on scraped constants; extracted model vs real binary + loopback multi-range HTTP server; independent Python oracle for the missing set", ref="DESIGN.md 6 C04/C11"),
 "C11": dict(
  text="Corollaries of the C04 development for every target state, hence every state an interruption can leave (each write step of the procedure, cut after any number of bytes, is proved to keep the target well-formed): a restart with fresh contexts converges to B; whatever it marks valid - after the scan, after the copy, at the end - is a complete extent whose checksum equals the index digest (partial chunks never trusted); no extent that passes the validity test, in particular none that held B's bytes at the interruption, appears in any request (modulo an explicit collision). Tie: real zckdl with wrapped write(2) killed at every write call of small scenarios (0 or half of the bytes written; header writes, copy writes, mid-chunk, responses delivered in 7/13-byte pieces so multipart headers straddle callbacks; sampled for larger scenarios; double interruptions), then restarted on the partial file: exit 0, target == B, transferred ranges == extents of the chunks not intact in the partial file and not in A; the extracted model predicts the restart's request sequence.",
  note="crash states over-approximated by all well-formed targets; an interruption is process death between or inside write(2) calls (written bytes reach the file; no power-loss semantics); otherwise as C04",
  tech="C04 theorems instantiated on arbitrary states + soundness-of-valid-flag invariant; --wrap'd write with a kill fault at every k, restart on the partial file, oracle from an independent scan of the partial file", ref="DESIGN.md 6 C04/C11"),
}

PENDING_REASON = "not built yet in this revision of /verif (work in progress, DESIGN.md section 10): will be claimed once its model, theorems and correspondence run exist"


def main():
    props = [json.loads(l) for l in open(os.path.join(VERIF, "properties.jsonl"))]
    extra = {}
    p = os.path.join(VERIF, "tools", "manifest_extra.json")
    if os.path.exists(p):
        extra = json.load(open(p))
    claims = dict(CLAIMS)
    claims.update(extra)
    man = {
        "version": 1,
        "setup_cmd": "./check setup",
        "hooks": {"guard": "ZCHUNK_VERIF",
                  "enable": "the checks compile /repo's working tree themselves with -DZCHUNK_VERIF (tools/vlib.py ensure_lib); no source hooks exist: static functions are reached by #include of the .c file, system calls by -Wl,--wrap",
                  "baseline_off_cmd": "ninja -C /repo/_build && meson test -C /repo/_build",
                  "source_commits": [], "add_only": True},
        "engines": [{"name": ENGINE, "path": "/verif/check", "serves_properties": sorted(claims),
                     "kind_free_text": "Coq 8.16 theorems about Gallina models of the C code; models tied to /repo's working tree on every run by regenerated constants/tables/inventories (tools/gen_*.py) and by running the extracted models against C harnesses compiled from the working tree"}],
        "checks": [], "not_applicable": [],
        "notes": "DESIGN.md explains the approach; known_findings.json lists recorded and fixed defects; ./check replay <file> re-runs a stored case",
    }
    for pr in props:
        i = pr["id"]
        if i in claims:
            d = claims[i]
            man["checks"].append({
                "property_id": i, "quick_cmd": "./check %s --tier quick" % i, "thorough_cmd": "./check %s --tier thorough" % i,
                "evidence_file": "/verif/evidence/%s.json" % i, "replay_cmd_template": "./check replay {path}", "engine": ENGINE,
                "level_claimed": {"category": "proof", "text": d["text"], "design_ref": d["ref"]},
                "level_note": d["note"], "technique": d["tech"]})
        else:
            man["not_applicable"].append({"property_id": i, "reason": PENDING_REASON})
    with open(os.path.join(VERIF, "MANIFEST.json"), "w") as f:
        json.dump(man, f, indent=1)
        f.write("\n")


if __name__ == "__main__":
    main()
