#!/usr/bin/env python3
"""Independent confirmation of a seeded change delivered in <worktree>/seeds/<n>/: apply the patch in the
scratch worktree, build, run the repo's tests (must still pass), run the demonstration (must fail), revert,
rebuild, run the demonstration again (must pass).  On success copy the seed to /verif/seeded/<ID>-<n>/.
  tools/seedconfirm.py <worktree> <ID> <n> [<number under seeded/>]"""
import json, os, shutil, subprocess, sys
VERIF = os.path.dirname(os.path.dirname(os.path.abspath(__file__)))


def sh(cmd, cwd=None, timeout=1200):
    p = subprocess.run(cmd, cwd=cwd, shell=isinstance(cmd, str), stdout=subprocess.PIPE, stderr=subprocess.STDOUT, timeout=timeout)
    return p.returncode, p.stdout.decode("utf-8", "replace")


def tests_ok(wt):
    rc, out = sh(["meson", "test", "-C", os.path.join(wt, "_build")])
    ok = "Ok:                 36" in out and "Fail:               0" in out
    return ok, out[-400:]


def run_demo(wt, sd):
    lib = os.path.join(wt, "_build", "src", "lib")
    for script in ("demo.sh", "run.sh"):
        if os.path.exists(os.path.join(sd, script)):
            rc, out = sh(["bash", os.path.join(sd, script)], cwd=wt, timeout=900)
            return rc, out[-600:]
    meta = json.load(open(os.path.join(sd, "meta.json")))
    exe = os.path.join(sd, "demo.bin")
    cmd = ["gcc", os.path.join(sd, "demo.c"), "-I" + os.path.join(wt, "_build", "include"), "-I" + os.path.join(wt, "include"),
           "-I" + os.path.join(wt, "src", "lib"), "-I" + os.path.join(wt, "_build", "src", "lib"),
           "-L" + lib, "-lzck", "-Wl,-rpath," + lib, "-lpthread", "-lzstd", "-lcrypto", "-o", exe]
    rc, out = sh(cmd, cwd=wt)
    if rc != 0:
        # the demo may document its own build line
        d = meta.get("demo", "")
        rc, out2 = sh(d, cwd=wt) if d else (rc, out)
        return (rc, ("custom build/run: " + out2)[-600:])
    rc, out = sh([exe], cwd=wt, timeout=600)
    os.unlink(exe)
    return rc, out[-600:]


def main():
    wt, pid, n = sys.argv[1], sys.argv[2], sys.argv[3]
    destn = sys.argv[4] if len(sys.argv) > 4 else n
    sd = os.path.join(wt, "seeds", n)
    rep = {}
    sh(["git", "-C", wt, "checkout", "--", "."])
    rc, out = sh(["git", "-C", wt, "apply", os.path.join(sd, "patch.diff")])
    if rc != 0:
        print("patch does not apply", out[-300:]); return 1
    try:
        rc, out = sh(["ninja", "-C", os.path.join(wt, "_build")])
        rep["builds_with_patch"] = rc == 0
        ok, tail = tests_ok(wt)
        rep["tests_pass_with_patch"] = ok
        rc, out = run_demo(wt, sd)
        rep["demo_with_patch"] = {"exit": rc, "tail": out[-300:]}
    finally:
        sh(["git", "-C", wt, "checkout", "--", "."])
    sh(["ninja", "-C", os.path.join(wt, "_build")])
    rc2, out2 = run_demo(wt, sd)
    rep["demo_without_patch"] = {"exit": rc2, "tail": out2[-200:]}
    good = rep["builds_with_patch"] and rep["tests_pass_with_patch"] and rep["demo_with_patch"]["exit"] != 0 and rc2 == 0
    rep["confirmed"] = good
    print(json.dumps(rep, indent=1)[:1500])
    if good:
        dst = os.path.join(VERIF, "seeded", "%s-%s" % (pid, destn))
        shutil.rmtree(dst, ignore_errors=True)
        shutil.copytree(sd, dst)
        meta = json.load(open(os.path.join(dst, "meta.json")))
        meta["property"] = pid
        meta["confirmation"] = rep
        meta["confirmed_by"] = "tools/seedconfirm.py in the seeder's scratch worktree: patch applied -> ninja -> meson test (36 OK + 1 expected fail) -> demo fails; reverted -> demo passes"
        json.dump(meta, open(os.path.join(dst, "meta.json"), "w"), indent=1)
    return 0 if good else 1


if __name__ == "__main__":
    sys.exit(main())
