/* Oracle instances for the extracted model: OpenSSL EVP digests, libzstd, glibc regex. */
#define CAML_NAME_SPACE
#include <caml/mlvalues.h>
#include <caml/memory.h>
#include <caml/alloc.h>
#include <caml/fail.h>
#include <string.h>
#include <stdlib.h>
#include <regex.h>
#include <openssl/evp.h>
#include <zstd.h>

/* zv_hash : int -> string -> string   (0 SHA-1, 1 SHA-256, 2 SHA-512, 3 SHA-512/128) */
CAMLprim value zv_hash(value vt, value vs) {
    CAMLparam2(vt, vs);
    CAMLlocal1(res);
    int t = Int_val(vt);
    const EVP_MD *md = t == 0 ? EVP_sha1() : t == 1 ? EVP_sha256() : EVP_sha512();
    unsigned char out[EVP_MAX_MD_SIZE]; unsigned int n = 0;
    EVP_MD_CTX *ctx = EVP_MD_CTX_new();
    EVP_DigestInit_ex(ctx, md, NULL);
    EVP_DigestUpdate(ctx, String_val(vs), caml_string_length(vs));
    EVP_DigestFinal_ex(ctx, out, &n);
    EVP_MD_CTX_free(ctx);
    if(t == 3) n = 16;
    res = caml_alloc_initialized_string(n, (char*)out);
    CAMLreturn(res);
}

/* zv_zstd_decompress : string (dict, may be empty) -> string -> int -> (int * string)
   returns (status, data): status 0 ok (data has exactly the produced bytes, padded to
   dst_size with zeros as zchunk's zmalloc'd buffer is), 1 error */
CAMLprim value zv_zstd_decompress(value vd, value vs, value vn) {
    CAMLparam3(vd, vs, vn);
    CAMLlocal2(res, str);
    size_t n = Long_val(vn);
    char *dst = calloc(n ? n : 1, 1);
    ZSTD_DCtx *dctx = ZSTD_createDCtx();
    size_t r;
    if(caml_string_length(vd) > 0) {
        ZSTD_DDict *dd = ZSTD_createDDict(String_val(vd), caml_string_length(vd));
        r = ZSTD_decompress_usingDDict(dctx, dst, n, String_val(vs), caml_string_length(vs), dd);
        ZSTD_freeDDict(dd);
    } else {
        r = ZSTD_decompressDCtx(dctx, dst, n, String_val(vs), caml_string_length(vs));
    }
    ZSTD_freeDCtx(dctx);
    res = caml_alloc_tuple(3);
    if(ZSTD_isError(r)) {
        Store_field(res, 0, Val_int(1));
        Store_field(res, 1, Val_long(0));
        str = caml_alloc_string(0);
    } else {
        Store_field(res, 0, Val_int(0));
        Store_field(res, 1, Val_long(r));
        str = caml_alloc_initialized_string(n, dst);
    }
    Store_field(res, 2, str);
    free(dst);
    CAMLreturn(res);
}

/* zv_zstd_compress : int (level) -> string (dict) -> string -> string
   same parameters as zchunk's zstd.c: level, ZSTD_btopt strategy, loadDictionary */
CAMLprim value zv_zstd_compress(value vl, value vd, value vs) {
    CAMLparam3(vl, vd, vs);
    CAMLlocal1(res);
    ZSTD_CCtx *c = ZSTD_createCCtx();
    ZSTD_CCtx_setParameter(c, ZSTD_c_compressionLevel, Int_val(vl));
    ZSTD_CCtx_setParameter(c, ZSTD_c_strategy, ZSTD_btopt);
    if(caml_string_length(vd) > 0)
        ZSTD_CCtx_loadDictionary(c, String_val(vd), caml_string_length(vd));
    size_t cap = ZSTD_compressBound(caml_string_length(vs));
    char *dst = malloc(cap ? cap : 1);
    size_t r = ZSTD_compress2(c, dst, cap, String_val(vs), caml_string_length(vs));
    ZSTD_freeCCtx(c);
    if(ZSTD_isError(r)) { free(dst); caml_failwith("zstd compress"); }
    res = caml_alloc_initialized_string(r, dst);
    free(dst);
    CAMLreturn(res);
}

/* zv_regex : string (pattern) -> string (subject, NUL-free) -> int (ngroups) -> int array
   result: [| status; so0; eo0; so1; eo1; ... |], status 0 match, 1 no match, 2 regcomp failed */
CAMLprim value zv_regex(value vp, value vs, value vn) {
    CAMLparam3(vp, vs, vn);
    CAMLlocal1(res);
    int n = Int_val(vn);
    regex_t re;
    regmatch_t m[16];
    memset(m, 0, sizeof(m));
    int status;
    if(regcomp(&re, String_val(vp), REG_ICASE | REG_EXTENDED) != 0) {
        status = 2;
    } else {
        status = regexec(&re, String_val(vs), n, m, 0) == 0 ? 0 : 1;
        regfree(&re);
    }
    res = caml_alloc_tuple(1 + 2 * n);
    Store_field(res, 0, Val_int(status));
    for(int i = 0; i < n; i++) {
        Store_field(res, 1 + 2 * i, Val_int(status == 0 ? m[i].rm_so : -1));
        Store_field(res, 2 + 2 * i, Val_int(status == 0 ? m[i].rm_eo : -1));
    }
    CAMLreturn(res);
}
