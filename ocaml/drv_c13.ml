(* header-layer driver: O <ptype|-> <pdigest hex|-> <psize|-> <file hex> *)
let h_stub (t : n) (m : n list) : n list =
  bytes_of_string (Stubs.hash (n_to_int t) (string_of_bytes m))
let show_chunk c =
  Printf.sprintf "%s/%s/%s/%s/%s" (hex_of_bytes c.c_digest)
    (match c.c_udigest with Some u -> hex_of_bytes u | None -> "_")
    (n_to_string c.c_clen) (n_to_string c.c_ulen) (n_to_string c.c_start)
let show_header h =
  Printf.sprintf "OK d=%d ht=%s lead=%s hlen=%s hdg=%s ddg=%s fl=%s comp=%s cht=%s n=%s [%s]"
    (if h.h_detached then 1 else 0) (n_to_string h.h_hash) (n_to_string h.h_lead) (n_to_string h.h_hlen)
    (hex_of_bytes h.h_hdigest) (hex_of_bytes h.h_ddigest) (n_to_string h.h_flags) (n_to_string h.h_comp)
    (n_to_string h.h_chash) (n_to_string h.h_count) (String.concat "," (List.map show_chunk h.h_chunks))
let opt f s = if s = "-" then None else Some (f s)
let base = ref ""
let cur_pins = ref no_pins
let open_file p (fs : string) =
  let f = bytes_of_string fs in
  let r = match parse_impl h_stub p f with
    | POk h -> show_header h | PErr -> "ERR" | POOB -> "OOB" | PFuel -> "FUEL" in
  let s = match parse_spec h_stub f with Some h -> show_header h | None -> "NONE" in
  Printf.printf "%s | SPEC %s\n" r s
let () = iter_lines (fun line ->
  match split_ws line with
  | ["O"; pt; _; _; hex] when String.length pt > 0 && pt.[0] = 'L' ->
      (* options set after zck_read_lead are never compared: the open behaves as without pins *)
      open_file no_pins (string_of_hex hex)
  | ["P"; pt; _; _] when String.length pt > 0 && pt.[0] = 'L' ->
      cur_pins := no_pins; print_endline "PINS | SPEC -"
  | ["O"; pt; pd; ps; hex] ->
      let p = { p_type = opt n_of_string pt; p_digest = opt bytes_of_hex pd; p_size = opt n_of_string ps } in
      open_file p (string_of_hex hex)
  | ["B"; hex] -> base := string_of_hex hex; cur_pins := no_pins; print_endline "BASE | SPEC -"
  | ["P"; pt; pd; ps] ->
      cur_pins := { p_type = opt n_of_string pt; p_digest = opt bytes_of_hex pd; p_size = opt n_of_string ps };
      print_endline "PINS | SPEC -"
  | ["m"; pos; v] ->   (* substitute one byte of the base file *)
      let b = Bytes.of_string !base in
      Bytes.set b (int_of_string pos) (Char.chr (int_of_string v));
      open_file !cur_pins (Bytes.to_string b)
  | ["i"; pos; v] ->   (* insert a byte *)
      let k = int_of_string pos in
      open_file !cur_pins (String.sub !base 0 k ^ String.make 1 (Char.chr (int_of_string v)) ^ String.sub !base k (String.length !base - k))
  | ["x"; pos] ->      (* delete a byte *)
      let k = int_of_string pos in
      open_file !cur_pins (String.sub !base 0 k ^ String.sub !base (k + 1) (String.length !base - k - 1))
  | _ -> print_endline "BADCASE")
