(* C10 driver: one case per input line, one canonical result per output line *)
let show_items l =
  if l = [] then "-" else
  String.concat ";" (List.map (fun (s, e) -> n_to_string s ^ "-" ^ n_to_string e) l)
let show_index l =
  if l = [] then "-" else
  String.concat ";" (List.map (fun (k, sz) -> n_to_string k ^ ":" ^ n_to_string sz) l)
let show_str b = if b = [] then "-" else string_of_bytes b
let show_rc = function
  | RcString s -> show_str s
  | RcFault -> "MEMFAULT"
  | RcIntOvf -> "INTOVF"
  | RcFuel -> "FUEL"
let rec chunks_run start toks acc = match toks with
  | l :: v :: r ->
      let ln = n_of_string l in
      chunks_run (BZ.add start (n_to_bz ln)) r ({ c_start = n_of_bz start; c_len = ln; c_valid = z_of_string v } :: acc)
  | _ -> List.rev acc
let rec chunks_abs toks acc = match toks with
  | s :: l :: v :: r ->
      chunks_abs r ({ c_start = n_of_string s; c_len = n_of_string l; c_valid = z_of_string v } :: acc)
  | _ -> List.rev acc
let result ((items, index), count) =
  Printf.sprintf "R %s %s I %s S " (n_to_string count) (show_items items) (show_index index)
let () = iter_lines (fun line ->
  match split_ws line with
  | kind :: hdr :: limit :: _n :: toks when kind = "M" || kind = "T" ->
      let chunks = if kind = "M" then chunks_run BZ.zero toks [] else chunks_abs toks [] in
      let h = n_of_string hdr and lim = z_of_string limit in
      let ((items, _), _) as r = missing_range h chunks lim in
      let ((sitems, _), _) as sr = spec_missing_ranges h chunks lim in
      let wf = if wf_tableb h chunks then "" else " NOTWF" in
      Printf.printf "%s%s | SPEC %s%s\n" (result r) (show_rc (range_char items))
        (result sr) (show_str (spec_range_string sitems) ^ wf)
  | "C" :: _n :: toks ->
      let rec items t acc = match t with
        | s :: e :: r -> items r ((n_of_string s, n_of_string e) :: acc)
        | _ -> List.rev acc in
      let l = items toks [] in
      Printf.printf "S %s | SPEC S %s\n" (show_rc (range_char l)) (show_str (spec_range_string l))
  | ["G"; s; e] ->
      let p = (n_of_string s, n_of_string e) in
      Printf.printf "S %s | SPEC S %s\n" (show_rc (get_range (fst p) (snd p))) (show_str (spec_range_string [p]))
  | _ -> print_endline "BADCASE")
