(* local chunk reuse driver: K <nsrc> <src hex>{nsrc} <target hex> <ops>
   ops: comma list of f | z | c<k> | m<k> *)
let h_stub (t : n) (m : n list) : n list =
  bytes_of_string (Stubs.hash (n_to_int t) (string_of_bytes m))
let show_flags fl = "[" ^ String.concat "," (List.map z_to_string fl) ^ "]"
let show_pair = function PUnset -> "-" | PSelf -> "=" | PSrc (k, n) -> Printf.sprintf "%s:%d" (n_to_string k) (nat_to_int n)
let show_pairs pr = "{" ^ String.concat "," (List.map show_pair pr) ^ "}"
let sha256_hex s =
  let d = Stubs.hash 1 s in
  String.concat "" (List.init (String.length d) (fun i -> Printf.sprintf "%02x" (Char.code d.[i])))
let () = iter_lines (fun line ->
  match split_ws line with
  | "K" :: ns :: rest when (try int_of_string ns >= 0 with _ -> false) && List.length rest = int_of_string ns + 2 ->
      let nsrc = int_of_string ns in
      (* a source field W<hex> is a write-mode context that has just written that file's chunks: its lookup tables do
         not exist until zck_generate_hashdb (op H) is called; a read-mode source has them from the start *)
      let wmode = Array.init nsrc (fun k -> let f = List.nth rest k in String.length f > 0 && f.[0] = 'W') in
      let hashdb = Array.init nsrc (fun k -> not wmode.(k)) in
      let srcs = Array.init nsrc (fun k -> let f = List.nth rest k in
                                    bytes_of_hex (if wmode.(k) then String.sub f 1 (String.length f - 1) else f)) in
      let shs = Array.map (fun f -> match parse_impl h_stub no_pins f with POk h -> Some h | _ -> None) srcs in
      let tf = ref (bytes_of_hex (List.nth rest nsrc)) and ops = List.nth rest (nsrc + 1) in
      let b = Buffer.create 1024 in
      let opened_srcs = String.concat "" (Array.to_list (Array.map (fun h -> if h = None then ",0" else ",1") shs)) in
      (match parse_impl h_stub no_pins !tf with
       | POk th ->
           let n = List.length th.h_chunks in
           let fl = ref (List.init n (fun _ -> Z0)) and pr = ref (List.init n (fun _ -> PUnset)) in
           Buffer.add_string b ("open=1" ^ opened_srcs);
           let dump () = Buffer.add_string b (show_flags !fl ^ show_pairs !pr ^ "T=" ^ hex_of_bytes !tf) in
           List.iter (fun o ->
             if o <> "" then begin
               let k = (try int_of_string (String.sub o 1 (String.length o - 1)) with _ -> 0) in
               (match o.[0] with
                | 'f' ->
                    (match run_op h_stub th OpFind !tf !fl (opened th) with
                     | Some r -> Buffer.add_string b (Printf.sprintf " f=%s" (z_to_string r.s_ret)); fl := r.s_flags
                     | None -> Buffer.add_string b " f=FUEL")
                | 'z' -> fl := List.map (fun v -> if v = Zneg XH then Z0 else v) !fl; Buffer.add_string b " z=1"
                | 'c' ->
                    (match (if k < nsrc then shs.(k) else None) with
                     | Some sh ->
                         (match copy_chunks h_stub sh srcs.(k) th !tf !fl with
                          | Some ((fl', tf'), sf') ->
                              fl := fl'; tf := tf'; srcs.(k) <- sf'; Buffer.add_string b (Printf.sprintf " c%d=1" k)
                          | None -> Buffer.add_string b (Printf.sprintf " c%d=FUEL" k))
                     | None -> Buffer.add_string b (Printf.sprintf " c%d=nosrc" k))
                | 'H' ->
                    (* zck_generate_hashdb on a source: the lookup tables are a function of the index, no visible effect *)
                    if k < nsrc && shs.(k) <> None then begin
                      Buffer.add_string b (Printf.sprintf " H%d=%d" k (if hashdb.(k) then 0 else 1));   (* refused when the tables exist *)
                      hashdb.(k) <- true end
                    else Buffer.add_string b (Printf.sprintf " H%d=nosrc" k)
                | 'M' ->
                    (* pairing two sources: the model of the copy does not look at a source's flags, nothing changes *)
                    let j = Char.code o.[1] - 48 and k2 = Char.code o.[2] - 48 in
                    if j < nsrc && k2 < nsrc && shs.(j) <> None && shs.(k2) <> None
                    then Buffer.add_string b (Printf.sprintf " M%d%d=1" j k2)
                    else Buffer.add_string b (Printf.sprintf " M%d%d=nosrc" j k2)
                | 'm' ->
                    (match (if k < nsrc then shs.(k) else None) with
                     | Some sh ->
                         let sh = if hashdb.(k) then sh else { sh with h_chunks = [] } in
                         let (fl', pr') = find_matching (n_of_int k) sh th !fl !pr in
                         fl := fl'; pr := pr'; Buffer.add_string b (Printf.sprintf " m%d=1" k)
                     | None -> Buffer.add_string b (Printf.sprintf " m%d=nosrc" k))
                | _ -> Buffer.add_string b " ?=0");
               dump ()
             end) (String.split_on_char ',' ops)
       | _ -> Buffer.add_string b ("open=0" ^ opened_srcs));
      Array.iteri (fun k f ->
        let s = string_of_bytes f in
        Buffer.add_string b (Printf.sprintf " src%d=%s/%d" k (sha256_hex s) (String.length s))) srcs;
      Printf.printf "%s | SPEC -\n" (Buffer.contents b)
  | _ -> print_endline "BADCASE")
