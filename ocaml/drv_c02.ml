(* reader-layer driver (C02, C15, C14): F <file hex> <ops>, same ops and output as harness/zh_c02.c,
   followed by  | SPEC V=<spec_verify> D=<len>/<h16 of spec_decode>|NONE K=<per chunk data len/h16|X,...> S=<per chunk stored len/h16,...> *)
let h_stub (t : n) (m : n list) : n list =
  bytes_of_string (Stubs.hash (n_to_int t) (string_of_bytes m))
let zdecomp_stub (dict : n list option) (src : n list) (cap : n) : n list option =
  let d = match dict with Some d -> string_of_bytes d | None -> "" in
  let (st, produced, data) = Stubs.zstd_decompress d (string_of_bytes src) (n_to_int cap) in
  if st <> 0 then None else Some (bytes_of_string (String.sub data 0 produced))
let rec inf = S inf
let h16s (s : string) = String.sub (hex_of_bytes (bytes_of_string (Stubs.hash 1 s))) 0 16
let h16 (l : n list) = h16s (string_of_bytes l)
let zs (z : z) : string = match z with Z0 -> "0" | Zpos p -> n_to_string (Npos p) | Zneg p -> "-" ^ n_to_string (Npos p)
let size_cap = BZ.of_int (1 lsl 26)
let sane h = List.for_all (fun c -> BZ.leq (n_to_bz c.c_clen) size_cap && BZ.leq (n_to_bz c.c_ulen) size_cap) h.h_chunks
let rec nth_opt l k = match l with [] -> None | x :: t -> if k = 0 then Some x else nth_opt t (k - 1)
let () = iter_lines (fun line ->
  match split_ws line with
  | ["F"; hex; ops] ->
    let fs = string_of_hex hex in
    let f = bytes_of_string fs in
    (match parse_impl h_stub no_pins f with
     | POk h when not (sane h) -> print_endline "SKIP | SPEC -"
     | POk h ->
       let b = Buffer.create 256 in
       Buffer.add_string b "open=1";
       let st = ref (open_state h f) in
       let err () = n_to_string !st.r_err in
       List.iter (fun o ->
         if o <> "" then
         match o.[0] with
         | 'R' ->
           let sizes = List.map int_of_string (List.filter (fun x -> x <> "") (String.split_on_char ':' (String.sub o 1 (String.length o - 1)))) in
           let sizes = Array.of_list (if sizes = [] then [32768] else sizes) in
           let acc = Buffer.create 4096 in
           let calls = ref 0 and ret = ref "" in
           while !ret = "" do
             let (r, st') = zck_read h_stub zdecomp_stub h inf !st (n_of_int sizes.(!calls mod Array.length sizes)) in
             st := st';
             (match r with
              | ROk [] -> ret := "0"
              | ROk o -> Buffer.add_string acc (string_of_bytes o); incr calls
              | RErr c -> ret := zs c
              | RFuel -> ret := "FUEL")
           done;
           Buffer.add_string b (Printf.sprintf " R=%s/%d/%s!%s" !ret (Buffer.length acc) (h16s (Buffer.contents acc)) (err ()))
         | 'r' ->
           let (r, st') = zck_read h_stub zdecomp_stub h inf !st (n_of_string (String.sub o 1 (String.length o - 1))) in
           st := st';
           (match r with
            | ROk o -> Buffer.add_string b (Printf.sprintf " r=%d/%d/%s!%s" (List.length o) (List.length o) (h16 o) (err ()))
            | RErr c -> Buffer.add_string b (Printf.sprintf " r=%s/0/%s!%s" (zs c) (h16s "") (err ()))
            | RFuel -> Buffer.add_string b " r=FUEL")
         | 'q' ->
           let (r, st') = zck_close h_stub h !st in
           st := st';
           Buffer.add_string b (Printf.sprintf " q=%d!%s" (if r then 1 else 0) (err ()))
         | 'M' ->
           (* pairing with a second file: the read path never looks at the valid marks it sets, so the
              reader state of the model is untouched; only whether the other file opens is reported *)
           let other = bytes_of_string (string_of_hex (String.sub o 1 (String.length o - 1))) in
           (match parse_impl h_stub no_pins other with
            | POk _ -> Buffer.add_string b " M=11"
            | _ -> Buffer.add_string b " M=noopen")
         | 'g' | 'c' | 'G' | 'P' ->
           let body = String.sub o 1 (String.length o - 1) in
           let (k, sz) = match String.split_on_char ':' body with
             | [k] -> (int_of_string k, None) | k :: s :: _ -> (int_of_string k, Some (n_of_string s)) | [] -> (0, None) in
           (match nth_opt h.h_chunks k with
            | None -> Buffer.add_string b (Printf.sprintf " %c=nochunk" o.[0])
            | Some c when n_to_int !st.r_err > 0 -> Buffer.add_string b (Printf.sprintf " %c=nochunk" o.[0])
            | Some c ->
              let want = match sz with Some s when o.[0] = 'G' || o.[0] = 'P' -> s | _ -> if o.[0] = 'c' then c.c_clen else c.c_ulen in
              let (r, st') = if o.[0] = 'c' then zck_get_chunk_comp_data h f !st (nat_of_int k) want
                             else zck_get_chunk_data h_stub zdecomp_stub h f inf !st (nat_of_int k) want in
              st := st';
              let pre o' = if o.[0] = 'P' then (let s = string_of_bytes o' in let d = n_to_int c.c_ulen in
                                                   "/" ^ h16s (String.sub s 0 (min d (String.length s)))) else "" in
              (match r with
               | ROk o' -> Buffer.add_string b (Printf.sprintf " %c=%d/%d/%s%s!%s" o.[0] (List.length o') (List.length o') (h16 o') (pre o') (err ()))
               | RErr cd -> Buffer.add_string b (Printf.sprintf " %c=%s/0/%s%s!%s" o.[0] (zs cd) (h16s "") (pre []) (err ()))
               | RFuel -> Buffer.add_string b (Printf.sprintf " %c=FUEL" o.[0])))
         | _ -> Buffer.add_string b " ?") (String.split_on_char ',' ops);
       let v = spec_verify h_stub h f in
       let d = match spec_decode zdecomp_stub h f with Some d -> Printf.sprintf "%d/%s" (List.length d) (h16 d) | None -> "NONE" in
       let ks = List.mapi (fun k _ -> match spec_chunk_data zdecomp_stub h f (nat_of_int k) with
                                      | Some d -> Printf.sprintf "%d/%s" (List.length d) (h16 d) | None -> "X") h.h_chunks in
       let ss = List.map (fun c -> let s = stored (body h f) c in Printf.sprintf "%d/%s" (List.length s) (h16 s)) h.h_chunks in
       (* per entry: does the stored chunk match its index digest / content the spec decodes from the entry alone *)
       let all_zero l = List.for_all (fun x -> n_to_int x = 0) l in
       let cs = List.mapi (fun k c ->
           let st = stored (body h f) c in
           let ok = if n_to_int c.c_clen = 0 then all_zero c.c_digest else h_stub h.h_chash st = c.c_digest in
           let cont = match spec_chunk_content zdecomp_stub h f (nat_of_int k) with
             | Some d -> Printf.sprintf "%d/%s" (List.length d) (h16 d) | None -> "X" in
           Printf.sprintf "%d/%s" (if ok then 1 else 0) cont) h.h_chunks in
       Printf.printf "%s | SPEC V=%d D=%s K=%s S=%s C=%s\n" (Buffer.contents b) (if v then 1 else 0) d (String.concat "," ks) (String.concat "," ss) (String.concat "," cs)
     | _ -> print_endline "open=0 | SPEC -")
  | _ -> print_endline "BADCASE")
