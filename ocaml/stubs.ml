external hash : int -> string -> string = "zv_hash"
external zstd_decompress : string -> string -> int -> (int * int * string) = "zv_zstd_decompress"
external zstd_compress : int -> string -> string -> string = "zv_zstd_compress"
external regex : string -> string -> int -> int array = "zv_regex"
