(* C16 driver: runs the chunker model on (configuration, content, segmentation) cases.
   case line:  <none|zstd> <manual 0|1> <min|0> <max|0> <dict> <content> <ops>   (see harness/zh_c16.c)
   result:     OK n=<chunks> lens=<l1,l2,..|-> | SPEC total=<sum> [bytes=<hex of each chunk, small cases>]
               FUEL   when the model's per-byte iteration bound is exhausted (the code would not return) *)
let load_blob spec =
  if spec = "-" then ""
  else if String.length spec >= 2 && String.sub spec 0 2 = "H:" then
    string_of_hex (String.sub spec 2 (String.length spec - 2))
  else if String.length spec >= 2 && String.sub spec 0 2 = "F:" then begin
    let ic = open_in_bin (String.sub spec 2 (String.length spec - 2)) in
    let n = in_channel_length ic in
    let s = really_input_string ic n in close_in ic; s end
  else failwith "blob"

let bytes_of_sub (s : string) (pos : int) (n : int) : n list =
  let r = ref [] in
  for i = pos + n - 1 downto pos do r := byte_tbl.(Char.code s.[i]) :: !r done; !r

exception Bad
(* apply the op tokens to the state; returns the final result *)
let run_case cfg (data : string) (ops : string) : wres =
  let n = String.length data in
  let pos = ref 0 in
  let st = ref (WOk w_init) in
  let write k =
    if !pos + k > n then raise Bad;
    (match !st with
     | WOk s -> st := zck_write_model cfg s (bytes_of_sub data !pos k)
     | WFuel -> ());
    pos := !pos + k in
  List.iter (fun tok ->
    if tok = "E" then (match !st with WOk s -> st := WOk (end_chunk_model cfg s) | WFuel -> ())
    else if tok.[0] = 'O' then ()   (* a chunking option after the first data: refused by the library, no effect *)
    else if tok = "R" then write (n - !pos)
    else if tok.[0] = '*' then begin
      let k = int_of_string (String.sub tok 1 (String.length tok - 1)) in
      if k <= 0 then raise Bad;
      while !pos < n do write (min k (n - !pos)) done end
    else match String.index_opt tok 'x' with
      | Some j ->
          let reps = int_of_string (String.sub tok 0 j) in
          let k = int_of_string (String.sub tok (j + 1) (String.length tok - j - 1)) in
          for _ = 1 to reps do write k done
      | None -> write (int_of_string tok))
    (String.split_on_char ',' ops);
  !st

let () = iter_lines (fun line ->
  match split_ws line with
  | [_comp; manual; mn; mx; _dict; content; ops] ->
      (try
        let cfg = comp_init_cfg (manual <> "0") (n_of_string mn) (n_of_string mx) in
        let data = load_blob content in
        (match run_case cfg data ops with
         | WFuel -> print_endline "FUEL | SPEC -"
         | WOk s ->
             let chs = chunks (close_model cfg s) in
             let lens = List.map List.length chs in
             let total = List.fold_left (+) 0 lens in
             let ls = if lens = [] then "-" else String.concat "," (List.map string_of_int lens) in
             let small = if total <= 64 then " bytes=" ^ String.concat "," (List.map hex_of_bytes chs) else "" in
             Printf.printf "OK n=%d lens=%s | SPEC total=%d%s\n" (List.length lens) ls total small)
      with Bad -> print_endline "BADCASE")
  | _ -> print_endline "BADCASE")
