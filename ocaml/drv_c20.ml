(* C20 driver: one case per input line, one canonical result per output line *)
let show = function
  | COk (v, l) -> Printf.sprintf "OK %s %s" (n_to_string v) (n_to_string l)
  | CErr -> "ERR"
  | COOB -> "OOB"
let () = iter_lines (fun line ->
  match split_ws line with
  | ["D"; mode; hex; cur; maxl] ->
      let buf = bytes_of_hex hex in
      let c = int_of_string cur in
      let suf = drop c buf in
      let ln = n_of_int c and ml = n_of_string maxl in
      let r = if mode = "int" then ci_to_int suf ln ml else ci_to_size suf ln ml in
      let spec =
        match ci_spec_decode suf ln ml with
        | COk (v, l) when mode = "int" && BZ.gt (n_to_bz v) (BZ.of_int 2147483647) -> CErr
        | x -> x in
      Printf.printf "%s | SPEC %s\n" (show r) (show spec)
  | ["E"; v] ->
      let e = ci_from_size (n_of_string v) in
      let back = match ci_value e with
        | Some (w, k) -> Printf.sprintf "%s %d" (n_to_string w) (nat_to_int k)
        | None -> "NONE" in
      Printf.printf "%s | SPEC %s\n" (hex_of_bytes e) back
  | ["I"; v] ->
      (match ci_from_int (z_of_string v) with
       | Some e -> Printf.printf "%s | SPEC -\n" (hex_of_bytes e)
       | None -> Printf.printf "NEG | SPEC -\n")
  | _ -> print_endline "BADCASE")
