(* C12 driver for the fault-aware scan / copy models:
     V <file hex> <fault>             -> v=<ret> flags=<V|m|F per chunk> vr=.. flagsr=.. (with the proposed re-seek fix)
     C <src hex> <tgt hex> <fault>    -> k=<0|1> flags=... tgt=<sha256>/<len>
   fault = - | op:k:kind:short  (the k-th read / write / lseek of the call) *)
let h_stub (t : n) (m : n list) : n list =
  bytes_of_string (Stubs.hash (n_to_int t) (string_of_bytes m))
let sha s = let d = Stubs.hash 1 s in String.concat "" (List.map (fun c -> Printf.sprintf "%02x" (Char.code c)) (List.init (String.length d) (String.get d)))
let rec rep n x = if n <= 0 then [] else x :: rep (n - 1) x
let big = n_of_int 1000000000
let schedules fault =
  if fault = "-" then [], [], [] else
  match String.split_on_char ':' fault with
  | [op; k; kind; sh] ->
      let k = int_of_string k and sh = int_of_string sh in
      if op = "read" then rep (k - 1) (RGive big) @ [if kind = "short" then RGive (n_of_int sh) else RErr], [], []
      else if op = "write" then [], rep (k - 1) WFull @ [if kind = "short" then WShort (n_of_int sh) else WErr], []
      else [], [], rep (k - 1) true @ [false]
  | _ -> [], [], []
let flag_char v = if v = Zpos XH then 'V' else if v = Z0 then 'm' else 'F'
let show_flags fl = String.init (List.length fl) (fun i -> flag_char (List.nth fl i))
let () = iter_lines (fun line ->
  match split_ws line with
  | ["V"; fh; fault] ->
      let f = bytes_of_hex fh in
      (match parse_impl h_stub no_pins f with
       | POk h ->
           let (rs, _, ss) = schedules fault in
           let fl = List.map (fun _ -> Z0) h.h_chunks in
           (* the code as it is, and the variant with the proposed re-seek fix (vr / flagsr) *)
           (match validate_checksums_f h_stub h f fl (opened h) rs ss false, validate_checksums_r h_stub h f fl (opened h) rs ss false with
            | Some r, Some q ->
                Printf.printf "open=1 v=%s flags=%s vr=%s flagsr=%s | SPEC -\n" (z_to_string r.f_res.s_ret) (show_flags r.f_res.s_flags)
                  (z_to_string q.f_res.s_ret) (show_flags q.f_res.s_flags)
            | _ -> print_endline "FUEL | SPEC -")
       | _ -> print_endline "open=0 | SPEC -")
  | ["C"; sh; th; fault] ->
      let sf = bytes_of_hex sh and tf = bytes_of_hex th in
      (match parse_impl h_stub no_pins sf, parse_impl h_stub no_pins tf with
       | POk hs, POk ht ->
           let (rs, ws, ss) = schedules fault in
           let fl = List.map (fun _ -> Z0) ht.h_chunks in
           (match copy_chunks_f h_stub hs sf ht tf fl { k_rs = rs; k_ws = ws; k_ss = ss; k_serr = false; k_terr = false } with
            | Some ((((ret, fl'), tf'), _), _) ->
                let s = string_of_bytes tf' in
                Printf.printf "open=11 k=%d flags=%s tgt=%s/%d | SPEC -\n" (if ret then 1 else 0) (show_flags fl') (sha s) (String.length s)
            | None -> print_endline "FUEL | SPEC -")
       | _ -> print_endline "open=0 | SPEC -")
  | _ -> print_endline "BADCASE")
