(* validity-scan driver: S <file hex> <ops>   (ops over v d f r; the model stops at the first r:
   reads are not part of this model, the check compares the prefix and judges reads itself) *)
let h_stub (t : n) (m : n list) : n list =
  bytes_of_string (Stubs.hash (n_to_int t) (string_of_bytes m))
let show_flags fl = "[" ^ String.concat "," (List.map z_to_string fl) ^ "]"
let show_state st =
  Printf.sprintf "p=%s,%d,%d" (n_to_string st.r_pos)
    (match st.r_full with HClosed -> 0 | HOpen _ -> 1) (match st.r_chunk with HClosed -> 0 | HOpen _ -> 1)
let sha256_hex s =
  let d = Stubs.hash 1 s in
  String.concat "" (List.init (String.length d) (fun i -> Printf.sprintf "%02x" (Char.code d.[i])))
let () = iter_lines (fun line ->
  match split_ws line with
  | ["S"; hex; ops] ->
      let fs = string_of_hex hex in
      let f = bytes_of_string fs in
      let b = Buffer.create 256 and sp = Buffer.create 256 in
      (match parse_impl h_stub no_pins f with
       | POk h ->
           let n = List.length h.h_chunks in
           let fl = ref (List.init n (fun _ -> Z0)) and st = ref (opened h) and file = ref f in
           Buffer.add_string b (Printf.sprintf "open=1 n=%d %s" n (show_state !st));
           (try String.iter (fun c ->
              let o = match c with 'v' -> Some OpValidate | 'd' -> Some OpData | 'f' -> Some OpFind
                                   | 'r' -> Buffer.add_string b " r"; raise Exit | _ -> None in
              match o with
              | None -> ()
              | Some o ->
                  let (sr, sfl) = spec_op h_stub h !file o !fl in
                  Buffer.add_string sp (Printf.sprintf " %c=%s%s" c (z_to_string sr) (show_flags sfl));
                  (match run_op h_stub h o !file !fl !st with
                   | Some r ->
                       Buffer.add_string b (Printf.sprintf " %c=%s%s%s" c (z_to_string r.s_ret) (show_flags r.s_flags) (show_state r.s_state));
                       fl := r.s_flags; st := r.s_state; file := r.s_file
                   | None -> Buffer.add_string b " FUEL"; raise Exit)) ops
            with Exit -> ());
           Buffer.add_string b (Printf.sprintf " end=%s/%d" (sha256_hex (string_of_bytes !file)) (List.length !file))
       | _ -> Buffer.add_string b (Printf.sprintf "open=0 end=%s/%d" (sha256_hex fs) (String.length fs)));
      Printf.printf "%s | SPEC%s\n" (Buffer.contents b) (if Buffer.length sp = 0 then " -" else Buffer.contents sp)
  | _ -> print_endline "BADCASE")
