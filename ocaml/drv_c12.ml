(* C12 driver: W <payload hex list comma|-> <header hex> <ntemp> <fault op:k:kind:short | ->
   predicts (close_ok, sha256/len of the bytes reaching the output descriptor) *)
let sha s = let d = Stubs.hash 1 s in String.concat "" (List.map (fun c -> Printf.sprintf "%02x" (Char.code c)) (List.init (String.length d) (String.get d)))
let rec rep n x = if n <= 0 then [] else x :: rep (n - 1) x
let () = iter_lines (fun line ->
  match split_ws line with
  | ["W"; pl; hdr; fault] ->
      let payloads = if pl = "-" then [] else List.map bytes_of_hex (String.split_on_char ',' pl) in
      let payloads = List.filter (fun p -> p <> []) payloads in
      let header = bytes_of_hex hdr in
      let ntemp = List.length payloads in
      let ws_temp, seek_ok, rs, ws_out =
        if fault = "-" then [], true, [], [] else
        match String.split_on_char ':' fault with
        | [op; k; kind; sh] ->
            let k = int_of_string k and sh = int_of_string sh in
            if op = "write" then begin
              let o = if kind = "short" then WShort (n_of_int sh) else WErr in
              if k <= ntemp then rep (k - 1) WFull @ [o], true, [], []
              else [], true, [], rep (k - ntemp - 1) WFull @ [o]
            end else if op = "lseek" then (if k = 1 then [], false, [], [] else [], true, [], [])
            else begin
              let o = if kind = "short" then RGive (n_of_int sh) else RErr in
              [], true, rep (k - 1) (RGive (n_of_int 1000000)) @ [o], []
            end
        | _ -> [], true, [], [] in
      let (ok, out) = writer_run ws_temp seek_ok rs ws_out payloads header in
      let s = string_of_bytes out in
      Printf.printf "close=%d out=%s/%d | SPEC -\n" (if ok then 1 else 0) (sha s) (String.length s)
  | _ -> print_endline "BADCASE")
