(* C18 driver.  Case lines:
     H <type 0..3> <hex message> <cut,cut,...|->    digest of the message fed in the pieces
                                                     delimited by the cut positions
     C <1|256|512> <hex state> <hex block>           one compression-function call
   Output: "<bundled-model result> | SPEC <FIPS (ShaSpec) result>" *)
let ty_of = function
  | "0" -> H_SHA1 | "1" -> H_SHA256 | "2" -> H_SHA512 | "3" -> H_SHA512_128
  | _ -> failwith "type"
let split_at (s : string) (cuts : int list) : string list =
  let n = String.length s in
  let rec go pos cs acc = match cs with
    | [] -> List.rev (String.sub s pos (n - pos) :: acc)
    | c :: r -> let c = max pos (min c n) in go c r (String.sub s pos (c - pos) :: acc) in
  go 0 cuts []
let last_spec : (string * string, string) Hashtbl.t = Hashtbl.create 7
let () = iter_lines (fun line ->
  match split_ws line with
  | ["H"; t; hex; cuts] ->
      let ty = ty_of t in
      let raw = string_of_hex hex in
      let cs = if cuts = "-" then [] else List.map int_of_string (String.split_on_char ',' cuts) in
      let frags = List.map bytes_of_string (split_at raw cs) in
      let model = hex_of_bytes (zck_digest ty frags) in
      let spec =
        match Hashtbl.find_opt last_spec (t, hex) with
        | Some d -> d
        | None ->
            let d = hex_of_bytes (spec_digest ty (bytes_of_string raw)) in
            if Hashtbl.length last_spec > 16 then Hashtbl.reset last_spec;
            Hashtbl.replace last_spec (t, hex) d; d in
      Printf.printf "%s | SPEC %s\n" model spec
  | ["C"; alg; st; blk] ->
      let s = bytes_of_hex st and b = bytes_of_hex blk in
      let r = match alg with
        | "1" -> out32 (sha1_compress (words32 s) b)
        | "256" -> out32 (sha256_compress (words32 s) b)
        | "512" -> out64 (sha512_compress (words64 s) b)
        | _ -> failwith "alg" in
      Printf.printf "%s | SPEC %s\n" (hex_of_bytes r) (hex_of_bytes r)
  | _ -> print_endline "BADCASE")
