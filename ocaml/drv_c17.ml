(* C05 / C17 driver: the extracted model of zck_header_cb / zck_write_chunk_cb
   (Dl/DlWrite.v, Dl/Multipart.v) run on the same case lines as harness/zh_c05.c.
   Case line (space separated):
     X <ht> <doff> <chunks> <ridx> <post> <hdrs> <body> <parts> <opts>
   chunks = len.flag.seed,...   flag 0/1/2 (2 = -1); true bytes = prng(seed,len)
   ridx   = target indices of the range-index entries in order, or "-"
   post   = idx.flag,... applied after the range was built, or "-"
   hdrs   = hex,hex,... header lines or "-";  body = hex or "-"
   parts  = w | k<n> | c<cut>.<cut>... | all1 | all2
   opts   = "-" or comma list of: trunc<n>, clr, auto, fault=<write|lseek>.<k>.<kind>.<n> (C12: k-th call fails)
   Session form (several transfers on one zckDL, reset + new missing range before each):
     S <ht> <doff> <chunks> <t>/<t>/... <opts>     t = <hdrs>:<body>:<parts>[:r]  (parts = w | k<n> | c<cut>.<cut>...;
     :<steps> before this transfer, letters in order: r = zck_find_valid_chunks + zck_reset_failed_chunks,
     e = zck_clear_error); the line ends with I=<flags after
     each transfer> *)
let prng_bytes seed n =
  let x = ref (((seed * 2654435761) + 1) land 0xFFFFFFFF) in
  if !x = 0 then x := 1;
  String.init n (fun _ ->
    x := !x lxor ((!x lsl 13) land 0xFFFFFFFF);
    x := !x lxor (!x lsr 17);
    x := !x lxor ((!x lsl 5) land 0xFFFFFFFF);
    Char.chr (!x land 0xff))
let hdr_pattern n = String.init n (fun i -> Char.chr ((i * 131 + 17) land 255))
let sha256hex s =
  let d = Stubs.hash 1 s in
  String.concat "" (List.init (String.length d) (fun i -> Printf.sprintf "%02x" (Char.code d.[i])))
let split_on c s = if s = "-" || s = "" then [] else String.split_on_char c s
let sub_clip s off n =
  let l = String.length s in
  if off >= l then "" else String.sub s off (min n (l - off))

(* oracle instances, memoised: the same part headers recur across partitions *)
let comp_tbl : (string, bool) Hashtbl.t = Hashtbl.create 16
let exec_tbl : (string * string, ((n * n) * (n * n)) option) Hashtbl.t = Hashtbl.create 1024
let rx_comp pat =
  let p = string_of_bytes pat in
  match Hashtbl.find_opt comp_tbl p with
  | Some b -> b
  | None -> let r = Stubs.regex p "" 1 in let b = r.(0) <> 2 in Hashtbl.replace comp_tbl p b; b
(* tie of Dl/LiteralMatcher.v: every distinct (pattern, string) pair the model hands to the regex oracle is also
   given to the Gallina literal matcher; the results must be equal *)
let lm_total = ref 0 and lm_agree = ref 0 and lm_bad = ref ""
let hex_of_string s = String.concat "" (List.init (String.length s) (fun i -> Printf.sprintf "%02x" (Char.code s.[i])))
let rx_exec pat str =
  let p = string_of_bytes pat and s = string_of_bytes str in
  match Hashtbl.find_opt exec_tbl (p, s) with
  | Some r -> r
  | None ->
    let r = Stubs.regex p s 3 in
    let g i = if r.(i) < 0 then n_of_int 0 else n_of_int r.(i) in
    let v = if r.(0) = 0 then Some ((g 3, g 4), (g 5, g 6)) else None in
    if r.(0) <> 2 then begin
      incr lm_total;
      if lit_exec pat str = v then incr lm_agree
      else if !lm_bad = "" then lm_bad := hex_of_string p ^ ":" ^ hex_of_string s
    end;
    if Hashtbl.length exec_tbl > 200000 then Hashtbl.reset exec_tbl;
    Hashtbl.replace exec_tbl (p, s) v; v
let lm_report () =
  let r = Printf.sprintf "LM=%d/%d%s" !lm_agree !lm_total (if !lm_bad = "" then "" else " BAD=" ^ !lm_bad) in
  lm_total := 0; lm_agree := 0; lm_bad := ""; r

type cs = { ht : int; doff : int; lens : int array; flags0 : int array; data : string array;
            starts : int array; ridx_t : int list; flags : int array; hdrs : string list;
            body : string; init_file : string; clr : bool; sched : wout list * bool list }

let vflag_of = function 0 -> VUnknown | 1 -> VValid | _ -> VFailed
let int_of_vflag = function VUnknown -> 0 | VValid -> 1 | VFailed -> -1

let run_partition (c : cs) (frags : string list) =
  let dsz = match c.ht with 0 -> 20 | 1 -> 32 | 2 -> 64 | _ -> 16 in
  let h (b : n list) = bytes_of_string (Stubs.hash c.ht (string_of_bytes b)) in
  let nchunks = Array.length c.lens in
  let digest i = if c.lens.(i) = 0 then String.make dsz '\000' else Stubs.hash c.ht c.data.(i) in
  let tab = List.init nchunks (fun i ->
    { c_start = n_of_int c.starts.(i); c_len = n_of_int c.lens.(i);
      c_digest = bytes_of_string (digest i); c_valid = vflag_of c.flags.(i) }) in
  let pos = ref 0 in
  let ridx = List.map (fun t ->
    let e = { r_start = n_of_int !pos; r_len = n_of_int c.lens.(t);
              r_digest = bytes_of_string (digest t); r_tgt = nat_of_int t } in
    pos := !pos + c.lens.(t); e) c.ridx_t in
  let dl0 = { d_err = false; d_pos = n_of_int 0; d_wic = n_of_int 0; d_tgt = None; d_cur = None;
              d_acc = None; d_fpos = n_of_int 0; d_file = bytes_of_string c.init_file; d_tab = tab } in
  let x0 = { x_dl = dl0; x_mp = { m_state = false; m_length = n_of_int 0; m_buf = [] };
             x_boundary = None; x_rx = None } in
  let doff = n_of_int c.doff in
  let x = List.fold_left (fun x l -> header_cb rx_comp rx_exec x (bytes_of_string l)) x0 c.hdrs in
  let rets = Buffer.create 16 in
  let sched = ref c.sched in
  let faulty = c.sched <> ([], []) in
  let rec go x = function
    | [] -> x
    | fr :: rest ->
      let ((x', ok), st) =
        if faulty then begin
          (* Io/DlFaults.v: the same callback with write(2)/lseek(2) on the target following the schedule *)
          let (((x', k'), ok), st) = write_cb_F h doff ridx rx_comp rx_exec x !sched (bytes_of_string fr) in
          sched := k'; ((x', ok), st) end
        else write_cb h doff ridx rx_comp rx_exec x (bytes_of_string fr) in
      (match st with
       | MOOB -> Buffer.add_char rets 'X'; x'
       | MFuel -> Buffer.add_char rets 'U'; x'
       | _ ->
         Buffer.add_char rets (if ok then '1' else '0');
         if ok then go x' rest
         else if c.clr then
           go { x' with x_dl = { x'.x_dl with d_err = false } } rest
         else x') in
  let xf = go x frags in
  let file = string_of_bytes xf.x_dl.d_file in
  let flags = List.map (fun ch -> int_of_vflag ch.c_valid) xf.x_dl.d_tab in
  (Buffer.contents rets, file, flags)

(* several transfers on one zckDL: before each one zck_dl_reset + zck_get_missing_range + zck_dl_set_range
   (Dl/Session.v: dl_reset, missing_ridx); a transfer is (header lines, fragments), possibly cut short *)
let chunk_class (c : cs) file i =
  let o = c.doff + c.starts.(i) and n = c.lens.(i) in
  let b = sub_clip file o n in
  if n = 0 then 'E' else if b = c.data.(i) then 'T'
  else if String.length b = n && b = String.make n '\000' then 'Z'
  else if b = sub_clip c.init_file o n then 'I' else 'O'
let vstring (c : cs) file flags =
  String.concat "," (List.mapi (fun i f -> Printf.sprintf "%d%c" f (chunk_class c file i)) flags)

let run_session (c : cs) (transfers : (string * string list * string list) list) =
  let dsz = match c.ht with 0 -> 20 | 1 -> 32 | 2 -> 64 | _ -> 16 in
  let h (b : n list) = bytes_of_string (Stubs.hash c.ht (string_of_bytes b)) in
  let nchunks = Array.length c.lens in
  let digest i = if c.lens.(i) = 0 then String.make dsz '\000' else Stubs.hash c.ht c.data.(i) in
  let tab = List.init nchunks (fun i ->
    { c_start = n_of_int c.starts.(i); c_len = n_of_int c.lens.(i);
      c_digest = bytes_of_string (digest i); c_valid = vflag_of c.flags.(i) }) in
  let dl0 = { d_err = false; d_pos = n_of_int 0; d_wic = n_of_int 0; d_tgt = None; d_cur = None;
              d_acc = None; d_fpos = n_of_int 0; d_file = bytes_of_string c.init_file; d_tab = tab } in
  let x0 = { x_dl = dl0; x_mp = { m_state = false; m_length = n_of_int 0; m_buf = [] };
             x_boundary = None; x_rx = None } in
  let doff = n_of_int c.doff in
  let rets = Buffer.create 16 in
  let snaps = ref [] in
  let cur_ridx = ref [] in
  let xf = List.fold_left (fun (x, first) (steps, hdrs, frags) ->
    begin
    if not first then Buffer.add_char rets '/';
    (* steps before the transfer, in the order given: e = zck_clear_error, r = re-scan of the target *)
    let x = ref x in
    String.iter (fun ch -> if ch = 'e' then x := clear_error !x else if ch = 'r' then x := rescan h doff !x) steps;
    (* n = no reset and no new range: the header lines / fragments continue the transfer in progress *)
    let cont = String.contains steps 'n' && not first in
    let x = if cont then !x else dl_reset !x in
    (* with an error pending zck_get_missing_range returns NULL (marked E): no range is set, and every header line
       and fragment is refused at the entry checks - as the model does whatever the range *)
    if x.x_dl.d_err then Buffer.add_char rets 'E';
    let ridx = if cont then !cur_ridx else missing_ridx x.x_dl.d_tab in
    cur_ridx := ridx;
    let x = List.fold_left (fun x l -> header_cb rx_comp rx_exec x (bytes_of_string l)) x hdrs in
    let rec go x = function
      | [] -> x
      | fr :: rest ->
        let ((x', ok), st) = write_cb h doff ridx rx_comp rx_exec x (bytes_of_string fr) in
        (match st with
         | MOOB -> Buffer.add_char rets 'X'; x'
         | MFuel -> Buffer.add_char rets 'U'; x'
         | _ -> Buffer.add_char rets (if ok then '1' else '0'); if ok then go x' rest else x') in
    let x = go x frags in
    snaps := vstring c (string_of_bytes x.x_dl.d_file) (List.map (fun ch -> int_of_vflag ch.c_valid) x.x_dl.d_tab) :: !snaps;
    (x, false) end) (x0, true) transfers |> fst in
  let file = string_of_bytes xf.x_dl.d_file in
  let flags = List.map (fun ch -> int_of_vflag ch.c_valid) xf.x_dl.d_tab in
  ((Buffer.contents rets, file, flags), String.concat ";" (List.rev !snaps))

let describe (c : cs) (rets, file, flags) =
  let fill = List.filter (fun t -> c.flags.(t) <> 1) c.ridx_t in
  let masked = Bytes.of_string file in
  List.iter (fun t ->
    let o = c.doff + c.starts.(t) in
    for i = o to min (o + c.lens.(t)) (Bytes.length masked) - 1 do Bytes.set masked i '\000' done) fill;
  let cls i =
    let o = c.doff + c.starts.(i) and n = c.lens.(i) in
    let b = sub_clip file o n in
    if n = 0 then 'E' else if b = c.data.(i) then 'T'
    else if String.length b = n && b = String.make n '\000' then 'Z'
    else if b = sub_clip c.init_file o n then 'I' else 'O' in
  let v = String.concat "," (List.mapi (fun i f -> Printf.sprintf "%d%c" f (cls i)) flags) in
  let verdict = String.for_all (fun ch -> ch = '1' || ch = '/') rets in
  let key = Printf.sprintf "%b L=%d F=%s V=%s" verdict (String.length file) (sha256hex file) v in
  (Printf.sprintf "R=%s L=%d F=%s M=%s V=%s" rets (String.length file) (sha256hex file)
     (sha256hex (Bytes.to_string masked)) v, key)

let frags_of_cuts body cuts =
  let n = String.length body in
  let cuts = List.sort_uniq compare (List.filter (fun k -> k > 0 && k < n) cuts) in
  let rec go prev = function
    | [] -> if n > prev then [String.sub body prev (n - prev)] else []
    | k :: r -> String.sub body prev (k - prev) :: go k r in
  go 0 cuts

let cuts_of_parts parts nb =
  if parts = "w" then []
  else if parts.[0] = 'k' then
    let k = int_of_string (String.sub parts 1 (String.length parts - 1)) in
    List.init (if k > 0 then nb / k else 0) (fun i -> (i + 1) * k)
  else if parts.[0] = 'c' then
    List.map int_of_string (String.split_on_char '.' (String.sub parts 1 (String.length parts - 1)))
  else failwith "parts"

let mk_case ht doff chunks ridx post hdrs body opts =
  let ht = int_of_string ht and doff = int_of_string doff in
  let cl = List.map (fun s -> match String.split_on_char '.' s with
    | [l; f; sd] -> (int_of_string l, int_of_string f, int_of_string sd) | _ -> failwith "chunk")
    (split_on ',' chunks) in
  let lens = Array.of_list (List.map (fun (l, _, _) -> l) cl) in
  let flags0 = Array.of_list (List.map (fun (_, f, _) -> f) cl) in
  let data = Array.of_list (List.map (fun (l, _, sd) -> prng_bytes sd l) cl) in
  let n = Array.length lens in
  let starts = Array.make n 0 in
  for i = 1 to n - 1 do starts.(i) <- starts.(i-1) + lens.(i-1) done;
  let flags = Array.copy flags0 in
  List.iter (fun s -> match String.split_on_char '.' s with
    | [i; f] -> flags.(int_of_string i) <- int_of_string f | _ -> failwith "post") (split_on ',' post);
  let opts = split_on ',' opts in
  let buf = Buffer.create 1024 in
  Buffer.add_string buf (hdr_pattern doff);
  Array.iteri (fun i l -> Buffer.add_string buf (if flags0.(i) = 1 then data.(i) else String.make l '\xee')) lens;
  let init_file = List.fold_left (fun f o ->
    if String.length o > 5 && String.sub o 0 5 = "trunc" then
      let k = int_of_string (String.sub o 5 (String.length o - 5)) in
      if k < String.length f then String.sub f 0 k else f
    else f) (Buffer.contents buf) opts in
  (* fault=<write|lseek>.<k>.<eio|enospc|eintr|short>.<n>: the k-th call of that kind on the target fails (C12) *)
  let sched = List.fold_left (fun acc o ->
    if String.length o > 6 && String.sub o 0 6 = "fault=" then
      match String.split_on_char '.' (String.sub o 6 (String.length o - 6)) with
      | [op; k; kind; sh] ->
        let k = int_of_string k in
        if op = "write" then
          (List.init (k - 1) (fun _ -> WFull) @ [if kind = "short" then WShort (n_of_int (int_of_string sh)) else WErr], [])
        else if op = "lseek" then ([], List.init (k - 1) (fun _ -> true) @ [false])
        else acc
      | _ -> failwith "fault"
    else acc) ([], []) opts in
  { ht; doff; lens; flags0; data; starts; ridx_t = List.map int_of_string (split_on ',' ridx);
    flags; hdrs = List.map string_of_hex (split_on ',' hdrs);
    body = string_of_hex body; init_file; clr = List.mem "clr" opts; sched }

let () = iter_lines (fun line ->
  match split_ws line with
  | ["X"; ht; doff; chunks; ridx; post; hdrs; body; parts; opts] ->
    (try
      let c = mk_case ht doff chunks ridx post hdrs body opts in
      let nb = String.length c.body in
      let one cuts = describe c (run_partition c (frags_of_cuts c.body cuts)) in
      if parts = "all1" || parts = "all2" then begin
        let (bl, bk) = one [] in
        let total = ref 0 and agree = ref 0 and first = ref "" in
        let chk cuts =
          let (l, k) = one cuts in
          incr total;
          if k = bk then incr agree
          else if !first = "" then
            first := Printf.sprintf "%s:%s" (String.concat "." (List.map string_of_int cuts)) l in
        for a = 1 to nb - 1 do chk [a] done;
        if parts = "all2" then
          for a = 1 to nb - 1 do for b = a + 1 to nb - 1 do chk [a; b] done done;
        Printf.printf "B[%s] N=%d AG=%d D[%s] | SPEC %s\n" bl !total !agree !first (lm_report ())
      end else begin
        let (l, _) = one (cuts_of_parts parts nb) in
        Printf.printf "%s | SPEC %s\n" l (lm_report ())
      end
    with Failure m -> Printf.printf "BADCASE %s\n" m)
  | ["S"; ht; doff; chunks; transfers; opts] ->
    (* session: transfers = t/t/...; t = hdrs:body:parts (hdrs = hex,hex or -, body = hex or -) *)
    (try
      let c0 = mk_case ht doff chunks "-" "-" "-" "-" opts in
      (* what may be filled: chunks missing at the start; with a re-scan step (r) also those flagged failed at the start *)
      let rescans = String.contains transfers 'r' in
      let fill = List.filter (fun i -> c0.lens.(i) > 0 && (c0.flags0.(i) = 0 || (rescans && c0.flags0.(i) = 2)))
                   (List.init (Array.length c0.lens) (fun i -> i)) in
      let c = { c0 with ridx_t = fill } in
      let ts = List.map (fun t -> match String.split_on_char ':' t with
        | hd :: body :: parts :: rest when List.length rest <= 1 ->
          let body = string_of_hex body in
          ((match rest with [f] -> f | _ -> ""), List.map string_of_hex (split_on ',' hd),
           frags_of_cuts body (cuts_of_parts parts (String.length body)))
        | _ -> failwith "transfer") (String.split_on_char '/' transfers) in
      let (res, snaps) = run_session c ts in
      let (l, _) = describe c res in
      Printf.printf "%s I=%s | SPEC %s\n" l snaps (lm_report ())
    with Failure m -> Printf.printf "BADCASE %s\n" m)
  | ["M"; kind; bhex; shex] ->
    (* literal matcher vs glibc on one string: kind n = part-header pattern, e = closing delimiter, h = header line *)
    let b = bytes_of_hex bhex and str = bytes_of_hex shex in
    let pat = if kind = "n" then pat_next b else if kind = "e" then pat_end b else pat_hdr in
    ignore (rx_exec pat str);
    Printf.printf "M | SPEC %s\n" (lm_report ())
  | _ -> print_endline "BADCASE")
