(* conversions for the extracted [z] type; pasted only when the extracted module defines it *)
let z_of_bz (v : BZ.t) : z =
  if BZ.sign v = 0 then Z0 else if BZ.sign v > 0 then Zpos (pos_of_bz v) else Zneg (pos_of_bz (BZ.neg v))
let z_to_bz = function Z0 -> BZ.zero | Zpos p -> pos_to_bz p | Zneg p -> BZ.neg (pos_to_bz p)
let z_of_string s = z_of_bz (BZ.of_string s)
let z_to_string x = BZ.to_string (z_to_bz x)
