(* C04/C11 driver.  One case per line:
     U <cht> <ht> <uncomp 0|1> <srv_limit> <hdr hex> <lead> <ddigest hex> <extra hex> <A> <slots>
       A     = - (no source) | comma list of  digest:clen:ulen:data      (hex, - = empty)
       slots = comma list of  digest:clen:ulen:srv:cur                   (hex, - = empty)
     H <lead> <hlen>      header fetch arithmetic
   Output:
     st=<D<code>|FUEL|OOB|EMPTY> ev=<S|R>:<i.j.k>:<count>;... flags=<V|F|M per chunk> eq=<0|1> hdr=<0|1> extra=<n>
       | SPEC needed=<i.j.k> scan=<flags after the validity scan> all=<0|1> *)
let hx s = if s = "-" then [] else bytes_of_hex s
let hash_of t = fun (d : n list) -> bytes_of_string (Stubs.hash t (string_of_bytes d))
let parse_chunk dg cl ul = { c_digest = hx dg; c_clen = n_of_string cl; c_ulen = n_of_string ul }
let idxs l = if l = [] then "-" else String.concat "." (List.map (fun i -> string_of_int (nat_to_int i)) l)
let flagc = function Valid -> "V" | Failed -> "F" | Missing -> "M"
let flags sl = String.concat "" (List.map (fun s -> flagc s.s_flag) sl)
let () = iter_lines (fun line ->
  match split_ws line with
  | ["U"; cht; ht; uncomp; srv; hdr; lead; ddg; extra; a; slots] ->
      let hc = hash_of (int_of_string cht) and hf = hash_of (int_of_string ht) in
      let b = { b_hdr = hx hdr; b_lead = n_of_string lead; b_uncomp = (uncomp = "1"); b_ddigest = hx ddg } in
      let a = if a = "-" then None else
        Some (List.map (fun e -> match String.split_on_char ':' e with
                | [dg; cl; ul; data] -> (parse_chunk dg cl ul, hx data)
                | _ -> failwith "A") (String.split_on_char ',' a)) in
      let sl = List.map (fun e -> match String.split_on_char ':' e with
                | [dg; cl; ul; sv; cur] -> { s_chunk = parse_chunk dg cl ul; s_srv = hx sv; s_cur = hx cur; s_flag = Missing }
                | _ -> failwith "slot") (String.split_on_char ',' slots) in
      let t = { t_hdr = []; t_slots = sl; t_extra = hx extra } in
      let o = update hc hf a b (n_of_string srv) t in
      let st = match o.o_status with Done e -> "D" ^ n_to_string e | OutOfFuel -> "FUEL" | TableOOB -> "OOB" | EmptyRange -> "EMPTY" in
      let ev = if o.o_events = [] then "-" else String.concat ";" (List.map (function
                | Served (r, c) -> "S:" ^ idxs r ^ ":" ^ n_to_string c
                | Refused (r, c) -> "R:" ^ idxs r ^ ":" ^ n_to_string c) o.o_events) in
      let fin = o.o_target.t_slots in
      let eq = List.for_all (fun s -> s.s_cur = s.s_srv) fin in
      let t1 = fetch_header b t in
      let (all, scanned) = find_valid hc hf b t1.t_slots in
      Printf.printf "st=%s ev=%s flags=%s eq=%d hdr=%d extra=%d | SPEC needed=%s scan=%s all=%d\n"
        st ev (flags fin) (if eq then 1 else 0) (if o.o_target.t_hdr = b.b_hdr then 1 else 0)
        (List.length o.o_target.t_extra) (idxs (needed hc a true O t1.t_slots)) (flags scanned) (if all then 1 else 0)
  | ["H"; lead; hlen] ->
      let f = dl_header_fetch true (n_of_string lead) (n_of_string hlen) in
      let g = dl_header_fetch false (n_of_string lead) (n_of_string hlen) in
      Printf.printf "req=%s pos=%s loaded=%s | SPEC oldpos=%s\n"
        (String.concat "," (List.map (fun (s, e) -> n_to_string s ^ "-" ^ n_to_string e) f.hf_requests))
        (n_to_string f.hf_pos) (n_to_string f.hf_loaded) (n_to_string g.hf_pos)
  | _ -> print_endline "BADCASE")
