(* glue shared by all drivers; pasted after [module BZ = Z  open M_<id>] *)
let rec pos_of_bz (z : BZ.t) : positive =
  if BZ.equal z BZ.one then XH
  else let q = pos_of_bz (BZ.shift_right z 1) in if BZ.testbit z 0 then XI q else XO q
let n_of_bz (z : BZ.t) : n = if BZ.sign z = 0 then N0 else Npos (pos_of_bz z)
let rec pos_to_bz (p : positive) : BZ.t = match p with
  | XH -> BZ.one
  | XO q -> BZ.shift_left (pos_to_bz q) 1
  | XI q -> BZ.succ (BZ.shift_left (pos_to_bz q) 1)
let n_to_bz = function N0 -> BZ.zero | Npos p -> pos_to_bz p
let n_of_int i = n_of_bz (BZ.of_int i)
let n_to_int x = BZ.to_int (n_to_bz x)
let n_of_string s = n_of_bz (BZ.of_string s)
let n_to_string x = BZ.to_string (n_to_bz x)
let rec nat_of_int i = if i <= 0 then O else S (nat_of_int (i - 1))
let rec nat_to_int = function O -> 0 | S k -> 1 + nat_to_int k

(* small-number cache so that byte lists convert fast *)
let byte_tbl = Array.init 256 n_of_int
let bytes_of_string (s : string) : n list =
  let r = ref [] in
  for i = String.length s - 1 downto 0 do r := byte_tbl.(Char.code s.[i]) :: !r done; !r
let hex_digit c = match c with
  | '0'..'9' -> Char.code c - 48 | 'a'..'f' -> Char.code c - 87 | 'A'..'F' -> Char.code c - 55
  | _ -> failwith "hex"
let string_of_hex (h : string) : string =
  if h = "-" then "" else
  String.init (String.length h / 2) (fun i -> Char.chr (hex_digit h.[2*i] * 16 + hex_digit h.[2*i+1]))
let bytes_of_hex h = bytes_of_string (string_of_hex h)
let hex_of_bytes (l : n list) : string =
  if l = [] then "-" else begin
    let b = Buffer.create 64 in
    List.iter (fun x -> Buffer.add_string b (Printf.sprintf "%02x" (n_to_int x land 0xff))) l;
    Buffer.contents b end
let string_of_bytes (l : n list) : string =
  let b = Buffer.create 64 in
  List.iter (fun x -> Buffer.add_char b (Char.chr (n_to_int x land 0xff))) l; Buffer.contents b
let rec drop k l = if k <= 0 then l else match l with [] -> [] | _ :: t -> drop (k - 1) t
let split_ws s = List.filter (fun x -> x <> "") (String.split_on_char ' ' s)
let iter_lines (f : string -> unit) =
  (try while true do f (input_line stdin) done with End_of_file -> ())
