(* C01hw driver: the file zck_close writes, from the models.
   case:  W <hash type> <chunk hash type> <uorder 0|1|2> <dict hex|-> <frag,frag,..|->
          uorder 0 = no ZCK_UNCOMP_HEADER, 1 = set before ZCK_HASH_CHUNK_TYPE (the chunk type
          stays as requested), 2 = set after it (SHA-1 / SHA-512/128 become SHA-256);
          every fragment is one zck_write followed by zck_end_chunk ("-" = empty write);
          compression type none, manual chunking, default limits.
   result: OK hl=<lead+header length> file=<hex> | SPEC ok=<wfile_ok> parse=<parse_impl gives expected_header> read=<spec_read gives the content> n=<entries> *)
let h_stub (t : n) (m : n list) : n list =
  bytes_of_string (Stubs.hash (n_to_int t) (string_of_bytes m))
let () = iter_lines (fun line ->
  match split_ws line with
  | ["W"; hs; cs; uo; dict; frags] ->
      let ht = n_of_string hs and cht0 = n_of_string cs in
      let uo = int_of_string uo in
      let cht = if uo = 2 then uncomp_header_option cht0 else cht0 in
      let wc = { w_hash = ht; w_chash = cht; w_comp = n_of_int 0; w_uflag = (uo <> 0) } in
      let dict = if dict = "-" then None else Some (bytes_of_hex dict) in
      let frags = if frags = "-" then [] else List.map bytes_of_hex (String.split_on_char ',' frags) in
      let ops = List.concat (List.map (fun d -> [OpWrite d; OpEnd]) frags) in
      (match write_file (comp_init_cfg true N0 N0) ops with
       | None -> print_endline "FUEL | SPEC -"
       | Some chs ->
           let idz _ x = x in
           let e = written_entries h_stub idz wc dict chs in
           let f = written_file h_stub idz wc dict chs in
           let hd = expected_header h_stub wc e in
           let parse = (match parse_impl h_stub no_pins f with POk h' -> h' = hd | _ -> false) in
           let rd = (spec_read h_stub (fun _ _ _ -> None) hd f = Some (List.concat frags)) in
           Printf.printf "OK hl=%s file=%s | SPEC ok=%b parse=%b read=%b n=%d\n"
             (BZ.to_string (BZ.add (n_to_bz hd.h_lead) (n_to_bz hd.h_hlen))) (hex_of_bytes f)
             (wfile_ok wc e) parse rd (List.length e))
  | _ -> print_endline "BADCASE")
