(* C01 (zck tool scanner) driver.  One case per line:
     S <split hex | -> <block hex> <block hex> ...     fixed loop, input ends with EOF
     O <split hex | -> <block hex> ...                 the loop before the D21-D23 fixes
     F <split hex | -> <block hex> ...                 fixed loop, read() fails after the blocks
   Output: the library calls as tokens  W<hex> (zck_write)  E (zck_end_chunk), or CRASH;
   for F the tokens are preceded by EXIT1 (no zck_close).
   After " | SPEC ": the hex of the concatenated input (what the archive must decode to). *)
let rec int_of_pos = function XH -> 1 | XO p -> 2 * int_of_pos p | XI p -> 2 * int_of_pos p + 1
let int_of_n = function N0 -> 0 | Npos p -> int_of_pos p
let hex_tbl = Array.init 256 (fun i -> Printf.sprintf "%02x" i)
let add_hex b (l : n list) = List.iter (fun x -> Buffer.add_string b hex_tbl.(int_of_n x land 0xff)) l
let show_ops b ops =
  let first = ref true in
  List.iter (fun o ->
    if not !first then Buffer.add_char b ' ';
    first := false;
    match o with
    | TWrite w -> Buffer.add_char b 'W'; add_hex b w
    | TEnd -> Buffer.add_char b 'E') ops;
  if !first then Buffer.add_char b '-'
let () = iter_lines (fun line ->
  match split_ws line with
  | mode :: sp :: blocks when mode = "S" || mode = "O" || mode = "F" ->
      let split = bytes_of_hex sp in
      let bl = List.map bytes_of_hex blocks in
      let b = Buffer.create 65536 in
      (if mode = "F" then
         (match zck_tool split bl RFail with
          | ToolExit1 ops -> Buffer.add_string b "EXIT1 "; show_ops b ops
          | ToolClose ops -> Buffer.add_string b "CLOSE "; show_ops b ops
          | ToolCrash -> Buffer.add_string b "CRASH")
       else
         (match (if mode = "S" then zck_scan split bl else zck_scan_orig split bl) with
          | ScanOk ops -> show_ops b ops
          | ScanCrash -> Buffer.add_string b "CRASH"));
      Buffer.add_string b " | SPEC ";
      let all = List.concat bl in
      if all = [] then Buffer.add_char b '-' else add_hex b all;
      print_endline (Buffer.contents b)
  | _ -> print_endline "BADCASE")
