(* C07 driver.
   X <c>                      hex_to_int on one char value
   P <ops> <V|-> <file hex>   ops = comma list of t<int> | s<int> | d<hex of the string bytes> | e (zck_clear_error) | v (zck_validate_lead now) | F<hex> (file replaced); V = validate_lead first *)
let h_stub (t : n) (m : n list) : n list =
  bytes_of_string (Stubs.hash (n_to_int t) (string_of_bytes m))
let zchars_of_string s = List.map (fun c -> let v = Char.code c in z_of_bz (BZ.of_int (if v >= 128 then v - 256 else v)))
    (List.init (String.length s) (String.get s))
let parse_op o =
  let rest = String.sub o 1 (String.length o - 1) in
  match o.[0] with
  | 't' -> SetType (z_of_string rest)
  | 's' -> SetSize (z_of_string rest)
  | 'd' -> SetDigest (zchars_of_string (string_of_hex rest))
  | 'e' -> ClearErr
  | _ -> failwith "op"
let () = iter_lines (fun line ->
  match split_ws line with
  | ["X"; c] ->
      let z = z_of_string c in
      Printf.printf "%s | SPEC %s\n" (z_to_string (hex_to_int z))
        (match hexval z with Some v -> z_to_string v | None -> "-1")
  | ["P"; ops; v; hex] ->
      (* ops are applied one by one with the extracted set_opt; two more steps live here: v = zck_validate_lead now
         (read_lead under the current pins on the current file; error cleared, nothing kept), F<hex> = the file's
         bytes are replaced *)
      let f = ref (bytes_of_hex hex) in
      let st = ref prep_init and rs = ref [] in
      List.iter (fun o ->
        if o <> "" then begin
          if o.[0] = 'v' then
            rs := !rs @ [ (n_to_int !st.pr_err) = 0 && (match read_lead (pins_of !st) !f with POk _ -> true | _ -> false) ]
          else if o.[0] = 'I' then rs := !rs @ [true]     (* zck_init_adv_read in the middle: the pins set before stay *)
          else if o.[0] = 'F' then begin f := bytes_of_hex (String.sub o 1 (String.length o - 1)); rs := !rs @ [true] end
          else begin let (st', r) = set_opt !st (parse_op o) in st := st'; rs := !rs @ [r] end
        end) (if ops = "-" then [] else String.split_on_char ',' ops);
      let st = !st and rs = !rs and f = !f in
      let p = pins_of st in
      let bs = String.concat "" (List.map (fun b -> if b then "1" else "0") rs) in
      let errd = (n_to_int st.pr_err) > 0 in
      let lead_ok = (not errd) && (match read_lead p f with POk _ -> true | _ -> false) in
      let openr = if errd then "ERR" else
        match parse_impl h_stub p f with
        | POk h -> Printf.sprintf "OK ht=%s hdg=%s total=%s" (n_to_string h.h_hash) (hex_of_bytes h.h_hdigest)
                     (BZ.to_string (BZ.add (n_to_bz h.h_lead) (n_to_bz h.h_hlen)))
        | _ -> "ERR" in
      let dg = match st.pr_digest with Some d -> hex_of_bytes d | None -> "_" in
      Printf.printf "set=%s prep=%s val=%s open=%s | SPEC -\n" (if bs = "" then "-" else bs) dg
        (if v = "V" then (if lead_ok then "1" else "0") else "-") openr
  | _ -> print_endline "BADCASE")
