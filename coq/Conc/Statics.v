(** C19 - the reviewed list of process-wide writable statics of libzck, checked against the
    inventory regenerated from the compiled objects of the working tree (Gen/GenStatics.v).

    The shared store of Conc/Interleave.v is, for this library, exactly [statics].  T19.1 needs
    that no step of a thread (= no library call other than the zck_set_log_* setup calls, which
    the property lets happen once before the threads start) writes it.  An entry is [allowed]
    when it was reviewed to be "written only by the zck_set_log_* setup calls, or never written
    after start-up"; every entry names the only functions that may contain a write-like use of
    the symbol, and that too is checked against the generated scan [static_writers]. *)
From Coq Require Import NArith List String Bool.
From ZV Require Import Gen.GenStatics.
Import ListNotations.
Local Open Scope string_scope.
Local Open Scope N_scope.

Record reviewed_static := mkrev {
  r_file : string;            (* source file, relative to src/lib *)
  r_sym : string;             (* symbol (numeric suffix of function-local statics dropped) *)
  r_maxsize : N;              (* the object reviewed was at most this large *)
  r_writers : list string;    (* functions that may write it: setup calls only, or none *)
  r_why : string }.

Definition reviewed : list reviewed_static :=
  [ mkrev "log.c" "log_level" 4 ["zck_set_log_level"]
      "read by zck_log_v; assigned only in zck_set_log_level (setup, before the threads start)";
    mkrev "log.c" "log_fd" 4 ["zck_set_log_fd"]
      "read by zck_log_v; assigned only in zck_set_log_fd (setup)";
    mkrev "log.c" "callback" 8 ["zck_set_log_callback"]
      "read by zck_log_v; assigned only in zck_set_log_callback (setup)";
    (* bundled SHA-2 (build without OpenSSL): constant tables that lack a const qualifier *)
    mkrev "hash/bundled/sha2/sha2.c" "sha224_h0" 32 [] "initial hash value, only read (sha224_init)";
    mkrev "hash/bundled/sha2/sha2.c" "sha256_h0" 32 [] "initial hash value, only read (sha256_init)";
    mkrev "hash/bundled/sha2/sha2.c" "sha384_h0" 64 [] "initial hash value, only read (sha384_init)";
    mkrev "hash/bundled/sha2/sha2.c" "sha512_h0" 64 [] "initial hash value, only read (sha512_init)";
    mkrev "hash/bundled/sha2/sha2.c" "sha256_k" 256 [] "round constants, only read (sha256_transf)";
    mkrev "hash/bundled/sha2/sha2.c" "sha512_k" 640 [] "round constants, only read (sha512_transf)" ].

Definition setup_call (f : string) : bool := String.prefix "zck_set_log_" f.

Definition find_reviewed (f s : string) : option reviewed_static :=
  find (fun r => String.eqb (r_file r) f && String.eqb (r_sym r) s) reviewed.

Definition allowed (e : string * string * N) : bool :=
  let '(f, s, n) := e in
  match find_reviewed f s with
  | Some r => (n <=? r_maxsize r) && forallb setup_call (r_writers r)
  | None => false
  end.

Definition subset (a b : list string) : bool :=
  forallb (fun x => existsb (String.eqb x) b) a.

(** the scanned writers of an inventory entry are among the reviewed (setup-only) writers *)
Definition writers_ok (e : string * string * list string) : bool :=
  let '(f, s, ws) := e in
  match find_reviewed f s with
  | Some r => subset ws (r_writers r)
  | None => false
  end.

Definition same_keys (a : list (string * string * N)) (b : list (string * string * list string)) : bool :=
  (Nat.eqb (List.length a) (List.length b)) &&
  forallb (fun p => let '((f, s, _), (f', s', _)) := p in String.eqb f f' && String.eqb s s') (combine a b).

(** the offenders, for the diagnostics of a failing run *)
Definition not_allowed : list (string * string * N) := filter (fun e => negb (allowed e)) statics.
