(** C19 - proofs about the step model of Conc/Interleave.v. *)
From Coq Require Import List Bool Arith Lia.
From ZV Require Import Conc.Interleave.
Import ListNotations.

Section Proofs.
  Variables P S O T : Type.
  Variable T_eqb : T -> T -> bool.
  Hypothesis T_eqb_spec : forall a b, T_eqb a b = true <-> a = b.

  Notation step := (step P S O).
  Notation cfg := (cfg P S O T).

  Lemma T_eqb_refl : forall a, T_eqb a a = true.
  Proof. intro a. apply T_eqb_spec. reflexivity. Qed.

  Lemma T_eqb_neq : forall a b, a <> b -> T_eqb a b = false.
  Proof.
    intros a b H. destruct (T_eqb a b) eqn:E; [|reflexivity].
    apply T_eqb_spec in E. contradiction.
  Qed.

  Lemma T_eqb_false_neq : forall a b, T_eqb a b = false -> a <> b.
  Proof. intros a b H E. subst. rewrite T_eqb_refl in H. discriminate. Qed.

  Lemma T_eqb_sym : forall a b, T_eqb a b = T_eqb b a.
  Proof.
    intros a b. destruct (T_eqb a b) eqn:E.
    - apply T_eqb_spec in E. subst. symmetry. apply T_eqb_refl.
    - symmetry. apply T_eqb_neq. intro H. subst. rewrite T_eqb_refl in E. discriminate.
  Qed.

  (** the core invariant: under the discipline, running any schedule leaves the shared store
      alone and gives every thread the result of running ITS projection of the schedule *)
  Lemma run_frame : forall (sched : list (T * step)) (c : cfg),
    Forall (fun x => frame_ok (snd x)) sched ->
    shared (run T_eqb sched c) = shared c /\
    forall i,
      priv (run T_eqb sched c) i = fst (fst (run_thread (project T_eqb i sched) (priv c i) (shared c))) /\
      outs (run T_eqb sched c) i = outs c i ++ snd (run_thread (project T_eqb i sched) (priv c i) (shared c)).
  Proof.
    induction sched as [|[j st] r IH]; intros c HF.
    - cbn. split; [reflexivity|]. intro i. split; [reflexivity|]. rewrite app_nil_r. reflexivity.
    - inversion HF as [|x l Hst Hr]; subst. cbn [snd] in Hst.
      cbn [run].
      pose proof (Hst (priv c j) (shared c)) as Hs.
      destruct (st (priv c j) (shared c)) as [[p1 s1] o] eqn:E. cbn in Hs. subst s1.
      specialize (IH (mkcfg (upd T_eqb (priv c) j p1) (shared c) (upd T_eqb (outs c) j (outs c j ++ [o]))) Hr).
      destruct IH as [IHs IHi]. cbn [shared priv outs] in *.
      split; [exact IHs|].
      intro i. specialize (IHi i). destruct IHi as [IHp IHo].
      cbn [project]. unfold upd in *.
      destruct (T_eqb i j) eqn:Eij.
      + apply T_eqb_spec in Eij. subst j. rewrite T_eqb_refl in IHp, IHo.
        cbn [run_thread]. rewrite E.
        destruct (run_thread (project T_eqb i r) p1 (shared c)) as [[p2 s2] os] eqn:E2.
        cbn [fst snd] in *. split; [exact IHp|]. rewrite IHo. rewrite <- app_assoc. reflexivity.
      + rewrite T_eqb_sym in Eij. rewrite Eij in IHp, IHo. split; assumption.
  Qed.

  Lemma in_project : forall (sched : list (T * step)) j st,
    In (j, st) sched -> In st (project T_eqb j sched).
  Proof.
    induction sched as [|[k s] r IH]; intros j st H; [contradiction|].
    cbn [project]. destruct H as [H|H].
    - inversion H; subst. rewrite T_eqb_refl. left. reflexivity.
    - destruct (T_eqb j k); [right|]; apply IH; exact H.
  Qed.

  Lemma interleaving_frame : forall (prog : T -> list step) sched,
    is_interleaving T_eqb prog sched ->
    (forall i, Forall frame_ok (prog i)) ->
    Forall (fun x => frame_ok (snd x)) sched.
  Proof.
    intros prog sched HI HF. apply Forall_forall. intros [j st] Hin. cbn [snd].
    specialize (HF j). rewrite Forall_forall in HF. apply HF.
    rewrite <- (HI j). apply in_project. exact Hin.
  Qed.

  (** T19.1 - N threads, every interleaving, no bound *)
  Theorem noninterference : forall (prog : T -> list step) (sched : list (T * step)) (c : cfg),
    is_interleaving T_eqb prog sched ->
    (forall i, Forall frame_ok (prog i)) ->
    shared (run T_eqb sched c) = shared c /\
    forall i,
      priv (run T_eqb sched c) i = fst (fst (run_thread (prog i) (priv c i) (shared c))) /\
      outs (run T_eqb sched c) i = outs c i ++ snd (run_thread (prog i) (priv c i) (shared c)).
  Proof.
    intros prog sched c HI HF.
    destruct (run_frame sched c (interleaving_frame prog sched HI HF)) as [Hs Hi].
    split; [exact Hs|]. intro i. rewrite <- (HI i). apply Hi.
  Qed.

  (** any two interleavings of the same threads agree on every thread (in particular an
      arbitrary one and "one after another") *)
  Corollary interleavings_agree : forall (prog : T -> list step) s1 s2 (c : cfg),
    is_interleaving T_eqb prog s1 -> is_interleaving T_eqb prog s2 ->
    (forall i, Forall frame_ok (prog i)) ->
    shared (run T_eqb s1 c) = shared (run T_eqb s2 c) /\
    forall i, priv (run T_eqb s1 c) i = priv (run T_eqb s2 c) i /\
              outs (run T_eqb s1 c) i = outs (run T_eqb s2 c) i.
  Proof.
    intros prog s1 s2 c H1 H2 HF.
    destruct (noninterference prog s1 c H1 HF) as [A1 B1].
    destruct (noninterference prog s2 c H2 HF) as [A2 B2].
    split; [congruence|]. intro i. destruct (B1 i), (B2 i). split; congruence.
  Qed.

  (** the serial schedule is one of the interleavings *)
  Lemma project_app : forall i (a b : list (T * step)),
    project T_eqb i (a ++ b) = project T_eqb i a ++ project T_eqb i b.
  Proof.
    induction a as [|[j st] r IH]; intro b; [reflexivity|].
    cbn [app project]. destruct (T_eqb i j); [cbn; f_equal|]; apply IH.
  Qed.

  Lemma project_tagged : forall i j (l : list step),
    project T_eqb i (map (fun st => (j, st)) l) = if T_eqb i j then l else [].
  Proof.
    induction l as [|st r IH]; cbn [map project]; [destruct (T_eqb i j); reflexivity|].
    rewrite IH. destruct (T_eqb i j); reflexivity.
  Qed.

  Lemma project_serial_notin : forall (prog : T -> list step) ids i,
    ~ In i ids -> project T_eqb i (serial_schedule ids prog) = [].
  Proof.
    induction ids as [|j r IH]; intros i H; [reflexivity|].
    cbn [serial_schedule flat_map]. rewrite project_app, project_tagged.
    rewrite T_eqb_neq by (intro E; apply H; left; auto).
    cbn. apply IH. intro Hin. apply H. right. exact Hin.
  Qed.

  Lemma serial_is_interleaving : forall (prog : T -> list step) ids,
    NoDup ids -> (forall i, In i ids \/ prog i = []) ->
    is_interleaving T_eqb prog (serial_schedule ids prog).
  Proof.
    intros prog ids ND Hall i.
    assert (G : forall ids, NoDup ids -> In i ids -> project T_eqb i (serial_schedule ids prog) = prog i).
    { clear ND Hall ids. induction ids as [|j r IH]; intros ND Hin; [contradiction|].
      inversion ND as [|x l Hnotin ND']; subst.
      cbn [serial_schedule flat_map]. rewrite project_app, project_tagged.
      destruct (T_eqb i j) eqn:E.
      - apply T_eqb_spec in E. subst j.
        change (flat_map (fun i0 => map (fun st => (i0, st)) (prog i0)) r) with (serial_schedule r prog).
        rewrite project_serial_notin by exact Hnotin. apply app_nil_r.
      - destruct Hin as [Hin|Hin]; [subst; rewrite T_eqb_refl in E; discriminate|].
        cbn. apply IH; assumption. }
    destruct (Hall i) as [Hin|Hnil].
    - apply G; assumption.
    - rewrite Hnil.
      assert (F : forall ids, project T_eqb i (serial_schedule ids prog) = []).
      { clear ND Hall G ids. induction ids as [|j r IH]; [reflexivity|].
        cbn [serial_schedule flat_map]. rewrite project_app, project_tagged.
        destruct (T_eqb i j) eqn:E.
        - apply T_eqb_spec in E. subst j. rewrite Hnil. cbn. apply IH.
        - cbn. apply IH. }
      apply F.
  Qed.

  (** T19.1, read as in the property text: whatever the interleaving, every thread ends with
      the private state and the outputs it has when the threads run one after another *)
  Corollary concurrent_equals_serial : forall (prog : T -> list step) ids sched (c : cfg),
    NoDup ids -> (forall i, In i ids \/ prog i = []) ->
    is_interleaving T_eqb prog sched ->
    (forall i, Forall frame_ok (prog i)) ->
    shared (run T_eqb sched c) = shared (run T_eqb (serial_schedule ids prog) c) /\
    forall i, priv (run T_eqb sched c) i = priv (run T_eqb (serial_schedule ids prog) c) i /\
              outs (run T_eqb sched c) i = outs (run T_eqb (serial_schedule ids prog) c) i.
  Proof.
    intros prog ids sched c ND Hall HI HF.
    apply (interleavings_agree prog); auto using serial_is_interleaving.
  Qed.
End Proofs.

(* --------------------------------------------------------------------------------------- *)
(** two threads: [interleavings a b] enumerates exactly the interleavings *)
Section Two.
  Variables P S O : Type.
  Notation step := (step P S O).

  Lemma eqb_spec_bool : forall a b, Bool.eqb a b = true <-> a = b.
  Proof. intros a b. apply Bool.eqb_true_iff. Qed.

  Lemma interleavings_nil_l : forall A (b : list A), interleavings [] b = [map (fun x => (false, x)) b].
  Proof. intros A b. destruct b; reflexivity. Qed.

  Lemma interleavings_nil_r : forall A (a : list A), interleavings a [] = [map (fun x => (true, x)) a].
  Proof. intros A a. destruct a; reflexivity. Qed.

  Lemma interleavings_cons : forall A (x : A) a y b,
    interleavings (x :: a) (y :: b) =
    map (cons (true, x)) (interleavings a (y :: b)) ++ map (cons (false, y)) (interleavings (x :: a) b).
  Proof. reflexivity. Qed.

  Definition prog2 (a b : list step) : bool -> list step := fun t => if t then a else b.

  Lemma project_map_other : forall (t u : bool) (l : list step),
    t <> u -> project Bool.eqb t (map (fun x => (u, x)) l) = [].
  Proof.
    intros t u l H. induction l as [|x r IH]; [reflexivity|].
    cbn [map project]. destruct (Bool.eqb t u) eqn:E; [apply Bool.eqb_prop in E; contradiction|exact IH].
  Qed.

  Lemma project_map_same : forall (t : bool) (l : list step),
    project Bool.eqb t (map (fun x => (t, x)) l) = l.
  Proof.
    intros t l. induction l as [|x r IH]; [reflexivity|].
    cbn [map project]. rewrite Bool.eqb_reflx. f_equal. exact IH.
  Qed.

  Lemma interleavings_sound : forall (a b : list step) m,
    In m (interleavings a b) -> is_interleaving Bool.eqb (prog2 a b) m.
  Proof.
    induction a as [|x a IHa].
    - intros b m H. rewrite interleavings_nil_l in H. destruct H as [H|[]]. subst m.
      intros [|]; cbn [prog2]; [apply project_map_other; discriminate|apply project_map_same].
    - induction b as [|y b IHb]; intros m H.
      + rewrite interleavings_nil_r in H. destruct H as [H|[]]. subst m.
        intros [|]; cbn [prog2]; [apply project_map_same|apply project_map_other; discriminate].
      + rewrite interleavings_cons in H. apply in_app_or in H. destruct H as [H|H];
          apply in_map_iff in H; destruct H as [m' [Hm Hin]]; subst m.
        * specialize (IHa (y :: b) m' Hin). intros [|]; cbn [project Bool.eqb prog2].
          -- f_equal. exact (IHa true).
          -- exact (IHa false).
        * specialize (IHb m' Hin). intros [|]; cbn [project Bool.eqb prog2].
          -- exact (IHb true).
          -- f_equal. exact (IHb false).
  Qed.

  Lemma only_true : forall (m : list (bool * step)),
    project Bool.eqb false m = [] -> m = map (fun x => (true, x)) (project Bool.eqb true m).
  Proof.
    induction m as [|[[|] x] r IH]; intro H; [reflexivity| |].
    - cbn [project Bool.eqb] in *. cbn [map]. f_equal. apply IH. exact H.
    - cbn [project Bool.eqb] in H. discriminate.
  Qed.

  Lemma only_false : forall (m : list (bool * step)),
    project Bool.eqb true m = [] -> m = map (fun x => (false, x)) (project Bool.eqb false m).
  Proof.
    induction m as [|[[|] x] r IH]; intro H; [reflexivity| |].
    - cbn [project Bool.eqb] in H. discriminate.
    - cbn [project Bool.eqb] in *. cbn [map]. f_equal. apply IH. exact H.
  Qed.

  Lemma interleavings_complete : forall (m : list (bool * step)) (a b : list step),
    is_interleaving Bool.eqb (prog2 a b) m -> In m (interleavings a b).
  Proof.
    induction m as [|[t x] r IH]; intros a b H.
    - pose proof (H true) as Ht. pose proof (H false) as Hf. cbn in Ht, Hf. subst a b. left. reflexivity.
    - pose proof (H true) as Ht. pose proof (H false) as Hf. cbn [prog2] in Ht, Hf.
      destruct t; cbn [project Bool.eqb] in Ht, Hf.
      + destruct a as [|x' a]; [discriminate|].
        assert (Ex : x' = x) by congruence. assert (Ea : project Bool.eqb true r = a) by congruence.
        subst x'. clear Ht.
        assert (Hr : In r (interleavings a b)).
        { apply IH. intros [|]; cbn [prog2]; assumption. }
        destruct b as [|y b].
        * rewrite interleavings_nil_r. left. cbn [map]. f_equal.
          rewrite <- Ea. symmetry. exact (only_true r Hf).
        * rewrite interleavings_cons. apply in_or_app. left. apply in_map. exact Hr.
      + destruct b as [|y' b]; [discriminate|].
        assert (Ey : y' = x) by congruence. assert (Eb : project Bool.eqb false r = b) by congruence.
        subst y'. clear Hf.
        assert (Hr : In r (interleavings a b)).
        { apply IH. intros [|]; cbn [prog2]; assumption. }
        destruct a as [|x' a].
        * rewrite interleavings_nil_l. left. cbn [map]. f_equal.
          rewrite <- Eb. symmetry. exact (only_false r Ht).
        * rewrite interleavings_cons. apply in_or_app. right. apply in_map. exact Hr.
  Qed.

  Lemma interleavings_exact : forall (a b : list step) (m : list (bool * step)),
    In m (interleavings a b) <-> is_interleaving Bool.eqb (prog2 a b) m.
  Proof. intros a b m. split; [apply interleavings_sound|apply interleavings_complete]. Qed.

  (** T19.1 for two threads, in terms of the enumeration *)
  Theorem noninterference2 : forall (a b : list step) m (c : cfg P S O bool),
    Forall frame_ok a -> Forall frame_ok b -> In m (interleavings a b) ->
    shared (run Bool.eqb m c) = shared c /\
    priv (run Bool.eqb m c) true = fst (fst (run_thread a (priv c true) (shared c))) /\
    outs (run Bool.eqb m c) true = outs c true ++ snd (run_thread a (priv c true) (shared c)) /\
    priv (run Bool.eqb m c) false = fst (fst (run_thread b (priv c false) (shared c))) /\
    outs (run Bool.eqb m c) false = outs c false ++ snd (run_thread b (priv c false) (shared c)).
  Proof.
    intros a b m c Ha Hb Hin.
    destruct (noninterference P S O bool Bool.eqb eqb_spec_bool (prog2 a b) m c
                (interleavings_sound a b m Hin)) as [Hs Hi].
    { intros [|]; assumption. }
    destruct (Hi true) as [A1 A2]. destruct (Hi false) as [B1 B2]. cbn [prog2] in *.
    repeat split; assumption.
  Qed.
End Two.

(* --------------------------------------------------------------------------------------- *)
(** N threads: everything [interleavingsN] enumerates is an interleaving *)
Section NThreads.
  Variables P S O : Type.
  Notation step := (step P S O).

  Lemma eqb_spec_nat : forall a b, Nat.eqb a b = true <-> a = b.
  Proof. intros a b. apply Nat.eqb_eq. Qed.

  Lemma project_cons_nil : forall i (x : nat * step) l,
    project Nat.eqb i (x :: l) = [] -> project Nat.eqb i l = [].
  Proof. intros i [j st] l H. cbn [project] in H. destruct (Nat.eqb i j); [discriminate|exact H]. Qed.

  Lemma merges_project : forall fuel (a b m : list (nat * step)) i,
    In m (merges fuel a b) ->
    (project Nat.eqb i a = [] \/ project Nat.eqb i b = []) ->
    project Nat.eqb i m = project Nat.eqb i a ++ project Nat.eqb i b.
  Proof.
    induction fuel as [|f IH]; intros a b m i Hin Hd; [contradiction|].
    cbn [merges] in Hin. destruct a as [|x a'].
    - destruct Hin as [E|[]]. subst. reflexivity.
    - destruct b as [|y b'].
      + destruct Hin as [E|[]]. subst. rewrite app_nil_r. reflexivity.
      + apply in_app_or in Hin. destruct Hin as [Hin|Hin];
          apply in_map_iff in Hin; destruct Hin as [m' [E Hin]]; subst m.
        * assert (Hd' : project Nat.eqb i a' = [] \/ project Nat.eqb i (y :: b') = []).
          { destruct Hd as [Hd|Hd]; [left; eapply project_cons_nil; exact Hd|right; exact Hd]. }
          specialize (IH a' (y :: b') m' i Hin Hd').
          destruct x as [j st]. cbn [project]. destruct (Nat.eqb i j); [cbn; f_equal|]; exact IH.
        * assert (Hd' : project Nat.eqb i (x :: a') = [] \/ project Nat.eqb i b' = []).
          { destruct Hd as [Hd|Hd]; [left; exact Hd|right; eapply project_cons_nil; exact Hd]. }
          specialize (IH (x :: a') b' m' i Hin Hd').
          destruct y as [j st]. cbn [project] in *. destruct (Nat.eqb i j) eqn:E.
          -- destruct Hd as [Hd|Hd]; [|discriminate]. rewrite Hd in *. cbn. f_equal. exact IH.
          -- exact IH.
  Qed.

  Lemma project_tag : forall i k (l : list step),
    project Nat.eqb i (tag k l) = if Nat.eqb i k then l else [].
  Proof.
    intros i k l. unfold tag. induction l as [|x r IH]; cbn [map project].
    - destruct (Nat.eqb i k); reflexivity.
    - rewrite IH. destruct (Nat.eqb i k); reflexivity.
  Qed.

  Lemma interleavingsN_from_sound : forall (ts : list (list step)) k m i,
    In m (interleavingsN_from k ts) ->
    project Nat.eqb i m = if Nat.ltb i k then [] else nth (i - k) ts [].
  Proof.
    induction ts as [|t r IH]; intros k m i Hin.
    - destruct Hin as [E|[]]. subst. cbn [project]. destruct (Nat.ltb i k); [reflexivity|]. destruct (i - k); reflexivity.
    - cbn [interleavingsN_from] in Hin. apply in_flat_map in Hin. destruct Hin as [m0 [Hm0 Hin]].
      specialize (IH (Datatypes.S k) m0 i Hm0).
      rewrite (merges_project _ _ _ _ i Hin).
      + rewrite project_tag, IH.
        destruct (Nat.eqb i k) eqn:E.
        * apply Nat.eqb_eq in E. subst i.
          replace (Nat.ltb k (Datatypes.S k)) with true by (symmetry; apply Nat.ltb_lt; lia).
          replace (Nat.ltb k k) with false by (symmetry; apply Nat.ltb_ge; lia).
          rewrite Nat.sub_diag. cbn. apply app_nil_r.
        * apply Nat.eqb_neq in E. cbn [app].
          destruct (Nat.ltb i k) eqn:L.
          -- apply Nat.ltb_lt in L.
             replace (Nat.ltb i (Datatypes.S k)) with true by (symmetry; apply Nat.ltb_lt; lia). reflexivity.
          -- apply Nat.ltb_ge in L.
             replace (Nat.ltb i (Datatypes.S k)) with false by (symmetry; apply Nat.ltb_ge; lia).
             replace (i - k) with (Datatypes.S (i - Datatypes.S k)) by lia. reflexivity.
      + rewrite project_tag, IH. destruct (Nat.eqb i k) eqn:E.
        * apply Nat.eqb_eq in E. subst i. right.
          replace (Nat.ltb k (Datatypes.S k)) with true by (symmetry; apply Nat.ltb_lt; lia). reflexivity.
        * left. reflexivity.
  Qed.

  Theorem interleavingsN_sound : forall (ts : list (list step)) m,
    In m (interleavingsN ts) -> is_interleaving Nat.eqb (fun i => nth i ts []) m.
  Proof.
    intros ts m Hin i. unfold interleavingsN in Hin.
    rewrite (interleavingsN_from_sound ts 0 m i Hin). cbn. rewrite Nat.sub_0_r. reflexivity.
  Qed.

  (** T19.1 for N threads, in terms of the enumeration *)
  Theorem noninterferenceN : forall (ts : list (list step)) m (c : cfg P S O nat),
    Forall (Forall frame_ok) ts -> In m (interleavingsN ts) ->
    shared (run Nat.eqb m c) = shared c /\
    forall i,
      priv (run Nat.eqb m c) i = fst (fst (run_thread (nth i ts []) (priv c i) (shared c))) /\
      outs (run Nat.eqb m c) i = outs c i ++ snd (run_thread (nth i ts []) (priv c i) (shared c)).
  Proof.
    intros ts m c HF Hin.
    apply (noninterference P S O nat Nat.eqb eqb_spec_nat (fun i => nth i ts [])).
    - apply interleavingsN_sound. exact Hin.
    - intro i. destruct (Nat.ltb i (length ts)) eqn:L.
      + apply Nat.ltb_lt in L. rewrite Forall_forall in HF. apply HF. apply nth_In. exact L.
      + apply Nat.ltb_ge in L. rewrite nth_overflow by exact L. constructor.
  Qed.
End NThreads.

(* --------------------------------------------------------------------------------------- *)
(** T19.3 - the copy loop with its buffer in the shared store, and the repaired twin *)

Lemma witness_is_interleaving : In witness_schedule (interleavings (copy_shared 1) (copy_shared 1)).
Proof. cbn. right. left. reflexivity. Qed.

Lemma witness_serial_A :
  file (fst (fst (run_thread (copy_shared 1) (mkcpriv srcA []) []))) = [1; 2; 3].
Proof. vm_compute. reflexivity. Qed.

Lemma witness_concurrent_A :
  file (priv (run Bool.eqb witness_schedule witness_start) true) = [7; 8; 9].
Proof. vm_compute. reflexivity. Qed.

(** the conclusion of T19.1 is FALSE for the shared-buffer copy: an interleaving exists in which
    thread A's file receives thread B's bytes *)
Theorem shared_buffer_refuted :
  ~ (forall m, In m (interleavings (copy_shared 1) (copy_shared 1)) ->
       priv (run Bool.eqb m witness_start) true =
       fst (fst (run_thread (copy_shared 1) (priv witness_start true) (shared witness_start)))).
Proof.
  intro H. specialize (H witness_schedule witness_is_interleaving).
  apply (f_equal file) in H. vm_compute in H. discriminate.
Qed.

(** ... because its read step breaks the discipline *)
Lemma rd_shared_not_frame_ok : ~ frame_ok rd_shared.
Proof. intro H. specialize (H (mkcpriv [[1]] []) []). cbn in H. discriminate. Qed.

(** the repaired twin keeps the discipline for every number of blocks ... *)
Lemma copy_private_frame_ok : forall n, Forall frame_ok (copy_private n).
Proof.
  induction n as [|n IH]; [constructor|]. cbn [copy_private].
  constructor; [|constructor; [|exact IH]].
  - intros p s. unfold rd_private. destruct (src' p); reflexivity.
  - intros p s. reflexivity.
Qed.

(** ... it copies (serially) exactly the blocks of its source ... *)
Lemma copy_private_serial : forall bs b f s,
  file' (fst (fst (run_thread (copy_private (length bs)) (mkcpriv' bs b f) s))) = f ++ concat bs /\
  snd (fst (run_thread (copy_private (length bs)) (mkcpriv' bs b f) s)) = s.
Proof.
  induction bs as [|x bs IH]; intros b f s.
  - cbn. rewrite app_nil_r. split; reflexivity.
  - cbn [length copy_private run_thread]. unfold rd_private, wr_private. cbn [src' file' buf'].
    specialize (IH x (f ++ x) s).
    destruct (run_thread (copy_private (length bs)) (mkcpriv' bs x (f ++ x)) s) as [[p2 s2] os] eqn:E.
    cbn [fst snd] in *. destruct IH as [IH1 IH2]. split; [|exact IH2].
    rewrite IH1. cbn [concat]. rewrite app_assoc. reflexivity.
Qed.

(** ... hence under EVERY interleaving each thread's file is the copy of its own source *)
Theorem private_buffer_repaired : forall bsA bsB m s0,
  In m (interleavings (copy_private (length bsA)) (copy_private (length bsB))) ->
  let c0 := mkcfg (fun t : bool => if t then mkcpriv' bsA [] [] else mkcpriv' bsB [] []) s0 (fun _ => []) in
  file' (priv (run Bool.eqb m c0) true) = concat bsA /\
  file' (priv (run Bool.eqb m c0) false) = concat bsB /\
  shared (run Bool.eqb m c0) = s0.
Proof.
  intros bsA bsB m s0 Hin c0.
  destruct (noninterference2 _ _ _ _ _ m c0 (copy_private_frame_ok (length bsA))
              (copy_private_frame_ok (length bsB)) Hin) as [Hs [HA [_ [HB _]]]].
  subst c0. cbn [priv shared] in *.
  rewrite HA, HB, Hs.
  destruct (copy_private_serial bsA [] [] s0) as [EA _].
  destruct (copy_private_serial bsB [] [] s0) as [EB _].
  rewrite EA, EB. repeat split; reflexivity.
Qed.

(** non-vacuity, by computation: the six interleavings of two one-block copies *)
Example private_buffer_all_six :
  map (fun m => (file' (priv (run Bool.eqb m witness_start') true),
                 file' (priv (run Bool.eqb m witness_start') false)))
      (interleavings (copy_private 1) (copy_private 1))
  = repeat ([1; 2; 3], [7; 8; 9]) 6.
Proof. vm_compute. reflexivity. Qed.

Example shared_buffer_all_six :
  map (fun m => file (priv (run Bool.eqb m witness_start) true))
      (interleavings (copy_shared 1) (copy_shared 1))
  = [[1; 2; 3]; [7; 8; 9]; [7; 8; 9]; [1; 2; 3]; [1; 2; 3]; [1; 2; 3]].
Proof. vm_compute. reflexivity. Qed.

Example interleavingsN_count :
  length (interleavingsN [copy_private 1; copy_private 1; copy_private 1]) = 90.
Proof. vm_compute. reflexivity. Qed.
