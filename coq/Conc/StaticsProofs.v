(** C19 - the inventory obligation (T19.2), discharged by computation on the GENERATED
    inventory: a new writable static anywhere in the library, a grown one, or a new function
    writing one of the reviewed ones makes this file fail to compile on the next run. *)
From Coq Require Import NArith List String Bool.
From ZV Require Import Gen.GenStatics Conc.Statics.
Import ListNotations.
Local Open Scope string_scope.

Lemma inventory_allowed : forallb allowed statics = true.
Proof. vm_compute. reflexivity. Qed.

Lemma inventory_writers :
  same_keys statics static_writers = true /\ forallb writers_ok static_writers = true.
Proof. split; vm_compute; reflexivity. Qed.

Lemma inventory_no_offender : not_allowed = [].
Proof. vm_compute. reflexivity. Qed.

(** what [allowed] means *)
Lemma allowed_sound : forall f s n,
  allowed (f, s, n) = true ->
  exists r, In r reviewed /\ r_file r = f /\ r_sym r = s /\ (n <= r_maxsize r)%N /\
            forall w, In w (r_writers r) -> setup_call w = true.
Proof.
  intros f s n H. unfold allowed, find_reviewed in H.
  destruct (find _ reviewed) as [r|] eqn:E; [|discriminate].
  apply find_some in E. destruct E as [Hin Hm].
  apply andb_true_iff in Hm. destruct Hm as [Hf Hs].
  apply String.eqb_eq in Hf. apply String.eqb_eq in Hs.
  apply andb_true_iff in H. destruct H as [Hn Hw].
  exists r. repeat split; try assumption.
  - apply N.leb_le. exact Hn.
  - intros w Hw'. rewrite forallb_forall in Hw. apply Hw. exact Hw'.
Qed.

Lemma every_static_reviewed : forall f s n,
  In (f, s, n) statics ->
  exists r, In r reviewed /\ r_file r = f /\ r_sym r = s /\ (n <= r_maxsize r)%N /\
            forall w, In w (r_writers r) -> setup_call w = true.
Proof.
  intros f s n Hin. apply allowed_sound.
  pose proof inventory_allowed as H. rewrite forallb_forall in H. apply (H _ Hin).
Qed.

(** the check discriminates: the three buffers of the unchanged tree (D30, D31) are rejected *)
Example D30_copy_buffer_not_allowed : allowed ("dl/dl.c", "buf", 32768%N) = false.
Proof. vm_compute. reflexivity. Qed.
Example D31_comp_scratch_not_allowed : allowed ("comp/comp.c", "unknown", 30%N) = false.
Proof. vm_compute. reflexivity. Qed.
Example D31_hash_scratch_not_allowed : allowed ("hash/hash.c", "unknown", 31%N) = false.
Proof. vm_compute. reflexivity. Qed.
Example grown_static_not_allowed : allowed ("log.c", "log_level", 4096%N) = false.
Proof. vm_compute. reflexivity. Qed.
Example foreign_writer_rejected : writers_ok ("log.c", "log_level", ["zck_set_log_level"; "zck_log_v"]) = false.
Proof. vm_compute. reflexivity. Qed.
