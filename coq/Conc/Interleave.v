(** C19 - abstract step model of threads driving their own contexts (definitions only).

    A thread is a list of steps.  A step sees the thread's PRIVATE state (everything reachable
    from the contexts the thread owns: zckCtx, zckDL, its files, its stack, its thread-local
    storage) and the SHARED store (the process-wide writable static storage of the library -
    exactly the inventory Gen/GenStatics.v [statics]); it returns the new private state, the
    new shared store and an observable output (return code, bytes written, ...).

    A schedule is a list of (thread id, step): the order in which the steps of all threads
    are executed.  It is an interleaving of the threads [prog] iff its projection on every
    thread id is that thread's step list. *)
From Coq Require Import List Bool Arith.
Import ListNotations.

Section Model.
  Variables P S O : Type.          (* private state, shared store, output *)

  Definition step := P -> S -> P * S * O.

  (** serial run of one thread *)
  Fixpoint run_thread (steps : list step) (p : P) (s : S) : P * S * list O :=
    match steps with
    | [] => (p, s, [])
    | st :: r =>
        let '(p1, s1, o) := st p s in
        let '(p2, s2, os) := run_thread r p1 s1 in
        (p2, s2, o :: os)
    end.

  (** thread ids of any type with decidable equality ([bool] for two threads, [nat] for N) *)
  Variable T : Type.
  Variable T_eqb : T -> T -> bool.

  Record cfg := mkcfg { priv : T -> P; shared : S; outs : T -> list O }.

  Definition upd {A} (f : T -> A) (i : T) (v : A) : T -> A :=
    fun j => if T_eqb i j then v else f j.

  Fixpoint run (sched : list (T * step)) (c : cfg) : cfg :=
    match sched with
    | [] => c
    | (i, st) :: r =>
        let '(p1, s1, o) := st (priv c i) (shared c) in
        run r (mkcfg (upd (priv c) i p1) s1 (upd (outs c) i (outs c i ++ [o])))
    end.

  Fixpoint project (i : T) (sched : list (T * step)) : list step :=
    match sched with
    | [] => []
    | (j, st) :: r => if T_eqb i j then st :: project i r else project i r
    end.

  (** [sched] is an interleaving of the N threads [prog] *)
  Definition is_interleaving (prog : T -> list step) (sched : list (T * step)) : Prop :=
    forall i, project i sched = prog i.

  (** the discipline: a step never changes the shared store *)
  Definition frame_ok (st : step) : Prop := forall p s, snd (fst (st p s)) = s.

  (** "run one after another": all steps of the threads [ids] in that order *)
  Definition serial_schedule (ids : list T) (prog : T -> list step) : list (T * step) :=
    flat_map (fun i => map (fun st => (i, st)) (prog i)) ids.
End Model.

Arguments run_thread {P S O}.
Arguments run {P S O T}.
Arguments project {P S O T}.
Arguments is_interleaving {P S O T}.
Arguments frame_ok {P S O}.
Arguments serial_schedule {P S O T}.
Arguments mkcfg {P S O T}.
Arguments priv {P S O T}.
Arguments shared {P S O T}.
Arguments outs {P S O T}.
Arguments upd {T} T_eqb {A}.

(** all merges of two lists, tagged with the side they come from (two threads) *)
Fixpoint interleavings {A} (a : list A) : list A -> list (list (bool * A)) :=
  fix inner (b : list A) : list (list (bool * A)) :=
    match a, b with
    | [], _ => [map (fun x => (false, x)) b]
    | _, [] => [map (fun x => (true, x)) a]
    | x :: a', y :: b' =>
        map (cons (true, x)) (interleavings a' b) ++ map (cons (false, y)) (inner b')
    end.

(** ... and of N lists, tagged with the index of the list *)
Definition tag {A} (i : nat) (l : list A) : list (nat * A) := map (fun x => (i, x)) l.

Fixpoint merges {A} (fuel : nat) (a b : list (nat * A)) : list (list (nat * A)) :=
  match fuel with
  | O => []
  | S f =>
      match a, b with
      | [], _ => [b]
      | _, [] => [a]
      | x :: a', y :: b' => map (cons x) (merges f a' b) ++ map (cons y) (merges f a b')
      end
  end.

Fixpoint interleavingsN_from {A} (k : nat) (ts : list (list A)) : list (list (nat * A)) :=
  match ts with
  | [] => [[]]
  | t :: r =>
      flat_map (fun m => merges (S (length t + length m)) (tag k t) m) (interleavingsN_from (S k) r)
  end.

Definition interleavingsN {A} (ts : list (list A)) : list (list (nat * A)) := interleavingsN_from 0 ts.

(* --------------------------------------------------------------------------------------- *)
(** The copy loop of write_and_verify_chunk, two steps per block: read a block of the source
    into the buffer, write the buffer to the target.  Blocks are lists of byte values. *)
Definition block := list nat.

(** D30 shape: the buffer lives in the SHARED store (function-local [static char buf[]]). *)
Record cpriv := mkcpriv { src : list block; file : list nat }.

Definition rd_shared : step cpriv block unit :=
  fun p buf => match src p with
               | [] => (p, buf, tt)
               | b :: r => (mkcpriv r (file p), b, tt)
               end.
Definition wr_shared : step cpriv block unit :=
  fun p buf => (mkcpriv (src p) (file p ++ buf), buf, tt).

Fixpoint copy_shared (nblocks : nat) : list (step cpriv block unit) :=
  match nblocks with O => [] | S n => rd_shared :: wr_shared :: copy_shared n end.

(** repaired shape: the buffer is part of the thread's private state (automatic variable). *)
Record cpriv' := mkcpriv' { src' : list block; buf' : block; file' : list nat }.

Definition rd_private : step cpriv' block unit :=
  fun p s => match src' p with
             | [] => (p, s, tt)
             | b :: r => (mkcpriv' r b (file' p), s, tt)
             end.
Definition wr_private : step cpriv' block unit :=
  fun p s => (mkcpriv' (src' p) (buf' p) (file' p ++ buf' p), s, tt).

Fixpoint copy_private (nblocks : nat) : list (step cpriv' block unit) :=
  match nblocks with O => [] | S n => rd_private :: wr_private :: copy_private n end.

(** the witness: thread A (true) copies [1;2;3], thread B (false) copies [7;8;9] *)
Definition srcA : list block := [[1; 2; 3]].
Definition srcB : list block := [[7; 8; 9]].
Definition witness_schedule : list (bool * step cpriv block unit) :=
  [(true, rd_shared); (false, rd_shared); (true, wr_shared); (false, wr_shared)].
Definition witness_start : cfg cpriv block unit bool :=
  mkcfg (fun t : bool => if t then mkcpriv srcA [] else mkcpriv srcB []) [] (fun _ => []).
Definition witness_start' : cfg cpriv' block unit bool :=
  mkcfg (fun t : bool => if t then mkcpriv' srcA [] [] else mkcpriv' srcB [] []) [] (fun _ => []).
