(** Extraction of the C17 check (same model as C05) for the correspondence run (ExtrOcamlBasic only). *)
From Coq Require Import Extraction ExtrOcamlBasic.
From ZV Require Import Base.Bytes Dl.DlWrite Dl.Multipart Dl.LiteralMatcher Dl.Session Io.Faults Io.DlFaults.
Extraction Language OCaml.
Extraction "Extract/m_c17.ml" dlw mpx get_boundary header_cb write_cb feed_frags pat_next pat_end pat_hdr escape_ere lit_exec lit_comp dl_reset missing_ridx run_transfer rescan write_cb_F clear_error.
