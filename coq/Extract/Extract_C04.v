(** Extraction of the chunk-level update model for the C04 / C11 correspondence runs
    against the real zckdl binary (ExtrOcamlBasic only). *)
From Coq Require Import Extraction ExtrOcamlBasic.
From ZV Require Import Base.Bytes Dl.Update.
Extraction Language OCaml.
Extraction "Extract/m_c04.ml" update needed fetch_header find_valid served_chunks asked_chunks
  dl_header_fetch extents bytes_eqb.
