(** Extraction of the local chunk reuse model, the validity scan (to pre-mark a target) and
    the header reader they run on (C08). *)
From Coq Require Import Extraction ExtrOcamlBasic.
From ZV Require Import Base.Bytes Format.Header Format.ParseImpl Read.Scan Dl.Copy.
Extraction Language OCaml.
Extraction "Extract/m_c08.ml" parse_impl no_pins run_op opened copy_chunks find_matching data_offset.
