(** Extraction of the header layer (used by the C13, C03, C06, C07 correspondence runs). *)
From Coq Require Import Extraction ExtrOcamlBasic.
From ZV Require Import Base.Bytes Format.Compint Format.Header Format.ParseImpl.
Extraction Language OCaml.
Extraction "Extract/m_c13.ml" parse_impl parse_spec read_lead no_pins covered dsize.
