(** Extraction for the correspondence run of the writer-side header model (part of C01):
    the chunker (C16's model), the entries zck_close finds, the header writer, the reader
    model and the reader specification. *)
From Coq Require Import Extraction ExtrOcamlBasic.
From ZV Require Import Base.Bytes Format.Compint Format.Header Format.ParseImpl Format.HeaderWrite
                       Chunk.Writer Read.ReadSpec Format.WriteRead.
Extraction Language OCaml.
Extraction "Extract/m_c01hw.ml" uncomp_header_option finish_chunk file_create header_create
           expected_header wfile_ok written_entries written_file write_file comp_init_cfg
           parse_impl no_pins spec_read.
