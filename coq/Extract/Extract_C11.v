(** C11 uses the same extracted model as C04 (restart = update on the crashed target). *)
From Coq Require Import Extraction ExtrOcamlBasic.
From ZV Require Import Base.Bytes Dl.Update.
Extraction Language OCaml.
Extraction "Extract/m_c11.ml" update needed fetch_header find_valid served_chunks asked_chunks
  dl_header_fetch extents bytes_eqb.
