(** Extraction of the zck tool scanner model (command-line half of C01) for the
    correspondence run with the real [zck] binary (ExtrOcamlBasic only). *)
From Coq Require Import Extraction ExtrOcamlBasic.
From ZV Require Import Base.Bytes Chunk.ZckTool.
Extraction Language OCaml.
Extraction "Extract/m_c01tool.ml" zck_scan zck_scan_orig zck_tool payload.
