(** Extraction of the reader layer (used by the C02, C15 and C14 correspondence runs). *)
From Coq Require Import Extraction ExtrOcamlBasic.
From ZV Require Import Base.Bytes Format.Compint Format.Header Format.ParseImpl Read.ReadSpec Read.CompRead.
Extraction Language OCaml.
Extraction "Extract/m_c02.ml" parse_impl no_pins open_state zck_read zck_close zck_get_chunk_data
  zck_get_chunk_comp_data spec_verify spec_decode spec_chunk_data spec_chunk_content stored body.
