(** Extraction of the C18 specification (FIPS SHA functions) and of the bundled-backend
    model for the correspondence run (ExtrOcamlBasic only). *)
From Coq Require Import Extraction ExtrOcamlBasic.
From ZV Require Import Base.Bytes Hash.ShaSpec Hash.Bundled.
Extraction Language OCaml.
Extraction "Extract/m_c18.ml" sha1 sha256 sha512 sha512_128 spec_digest zck_digest
  sha1_compress sha256_compress sha512_compress words32 words64 out32 out64
  lib_hash_init hash_update lib_hash_final digest_size.
