(** Extraction of the validity-scan model and the header reader it runs on (C09). *)
From Coq Require Import Extraction ExtrOcamlBasic.
From ZV Require Import Base.Bytes Format.Header Format.ParseImpl Read.Scan.
Extraction Language OCaml.
Extraction "Extract/m_c09.ml" parse_impl no_pins run_op opened spec_op data_offset.
