(** Extraction of the C20 model for the correspondence run (ExtrOcamlBasic only). *)
From Coq Require Import Extraction ExtrOcamlBasic.
From ZV Require Import Base.Bytes Format.Compint Format.CompintProofs.
Extraction Language OCaml.
Extraction "Extract/m_c20.ml" ci_value ci_from_size ci_to_size ci_to_int ci_spec_decode ci_from_int.
