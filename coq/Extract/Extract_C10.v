(** Extraction of the C10 model for the correspondence run (ExtrOcamlBasic only). *)
From Coq Require Import Extraction ExtrOcamlBasic.
From ZV Require Import Base.Bytes Dl.Range Dl.RangeChar.
Extraction Language OCaml.
Extraction "Extract/m_c10.ml" missing_range spec_missing_ranges range_char get_range spec_range_string
  wf_tableb mkChunk.
