(** Extraction for the C07 correspondence run. *)
From Coq Require Import Extraction ExtrOcamlBasic.
From ZV Require Import Base.Bytes Format.Compint Format.Header Format.ParseImpl Format.Pins.
Extraction Language OCaml.
Extraction "Extract/m_c07.ml" hex_to_int hexval set_opts set_opt prep_init pins_of read_lead parse_impl unhex_spec.
