(** Extraction of the C16 chunker model for the correspondence run (ExtrOcamlBasic only). *)
From Coq Require Import Extraction ExtrOcamlBasic.
From ZV Require Import Base.Bytes Chunk.Buzhash Chunk.Writer.
Extraction Language OCaml.
Extraction "Extract/m_c16.ml" comp_init_cfg w_init zck_write_model end_chunk_model close_model
  run_ops chunks cur buzhash_update tbl rol32.
