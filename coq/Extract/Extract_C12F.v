(** Extraction for the C12 correspondence run of the fault-aware scan and copy models
    (Io/ScanFaults.v, Io/CopyFaults.v) on top of the header reader. *)
From Coq Require Import Extraction ExtrOcamlBasic.
From ZV Require Import Base.Bytes Format.Header Format.ParseImpl Read.Scan Dl.Copy Io.Faults Io.ScanFaults Io.CopyFaults Io.ScanReseek.
Extraction Language OCaml.
Extraction "Extract/m_c12f.ml" parse_impl no_pins opened validate_checksums_f validate_data_f copy_chunks_f validate_checksums_r.
