(** Extraction for the C12 correspondence run (writer I/O skeleton under a fault schedule). *)
From Coq Require Import Extraction ExtrOcamlBasic.
From ZV Require Import Base.Bytes Io.Faults.
Extraction Language OCaml.
Extraction "Extract/m_c12.ml" writer_run write_data dl_chunk.
