(** Shared conventions: bytes are [N] below 256, buffers are lists, C unsigned 64-bit
    arithmetic is made explicit with [u64]. *)
From Coq Require Export NArith ZArith List Bool Lia.
Export ListNotations.
Local Open Scope N_scope.

Definition byte := N.
Definition bytes := list byte.

Definition wf_bytes (l : bytes) : Prop := Forall (fun b => b < 256) l.
Definition wf_bytesb (l : bytes) : bool := forallb (fun b => b <? 256) l.

Definition two64 : N := 18446744073709551616.
Definition u64 (x : N) : N := x mod two64.
Definition INT_MAX : N := 2147483647.

Definition len (l : bytes) : N := N.of_nat (length l).

Lemma two64_eq : two64 = 2 ^ 64.
Proof. reflexivity. Qed.

Lemma u64_small x : x < two64 -> u64 x = x.
Proof. intros H. unfold u64. apply N.mod_small. exact H. Qed.

Lemma u64_lt x : u64 x < two64.
Proof. unfold u64. apply N.mod_lt. discriminate. Qed.

Lemma len_app (a b : bytes) : len (a ++ b) = len a + len b.
Proof. unfold len. rewrite app_length. lia. Qed.

Lemma len_cons (x : byte) (l : bytes) : len (x :: l) = 1 + len l.
Proof. unfold len. cbn [length]. lia. Qed.

Lemma len_nil : len [] = 0.
Proof. reflexivity. Qed.

Lemma wf_bytesb_spec l : wf_bytesb l = true <-> wf_bytes l.
Proof.
  unfold wf_bytesb, wf_bytes. rewrite forallb_forall, Forall_forall.
  split; intros H x Hx; specialize (H x Hx); apply N.ltb_lt; exact H.
Qed.
