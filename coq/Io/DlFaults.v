(** C12: the download callbacks (Dl/DlWrite.v, Dl/Multipart.v) under a fault schedule —
    definitions only.

    Every system call the download path issues on the target descriptor is routed through a
    schedule, following what the C does:
    - [dl_write]: [write_data(zck, fd, at, wb)] (io.c: nothing for length 0, one retry after a
      short write; Io/Faults.v [write_data]).  What reaches the file is a prefix of the block;
      on failure the (fatal) error state is set and dl_write returns -1 BEFORE write_in_chunk,
      the hash and dl_chunk_data are updated; the descriptor has advanced by what was written.
    - the search loop of [dl_write_range]: after tgt_check, the hash and write_in_chunk are set,
      [seek_data] to the chunk start; when lseek fails the error state is set and the function
      returns 0 (range->index.current is not advanced).
    - [set_chunk_valid] on a checksum mismatch: validate_chunk has already set the flag to -1;
      [zero_chunk] = [seek_data] (failure: error state, nothing written) and then zero blocks of
      BUF_SIZE through [write_data] (failure: error state, a prefix of the zeros written).
    - validation hashes the bytes as they were handed over; nothing is read back.
    - the multipart layer issues no system calls of its own; it is repeated here only because
      the fault-free definitions have [dlw] built in.
    Schedules: [list wout] for write(2), [list bool] for lseek(2) ([false] = -1); the empty
    schedules are the fault-free run.  Once the error state is set every entry point returns
    at once (VALIDATE macros), so nothing more is written; continuing after zck_clear_error
    is outside this model. *)
From ZV Require Import Base.Bytes Gen.GenConsts Dl.DlWrite Dl.Multipart Io.Faults.
Local Open Scope N_scope.

Definition fsch : Type := (list wout * list bool)%type.

Definition seek_d (ss : list bool) : bool * list bool :=
  match ss with
  | [] => (true, [])
  | b :: r => (b, r)
  end.

(** zero_chunk's write loop: success?, file, descriptor position, schedule left *)
Fixpoint zero_F (fuel : nat) (ws : list wout) (f : bytes) (pos n : N) : bool * bytes * N * list wout :=
  if n =? 0 then (true, f, pos, ws) else
  match fuel with
  | O => (true, f, pos, ws)
  | S fuel' =>
      let rb := N.min BUF_SIZE n in
      match write_data ws (repeat 0 (N.to_nat rb)) with
      | (true, a, ws') => zero_F fuel' ws' (file_write f pos a) (pos + len a) (n - rb)
      | (false, a, ws') => (false, file_write f pos a, pos + len a, ws')
      end
  end.

Section WithHash.
Variable H : bytes -> bytes.
Variable doff : N.
Variable ridx : list rentry.

Definition dl_write_F (s : dlstate) (k : fsch) (bs : bytes) : dlstate * fsch * bool :=
  if 0 <? d_wic s then
    let wb := N.min (d_wic s) (len bs) in
    let w := firstn (N.to_nat wb) bs in
    match w with
    | [] => (set_err (mkDl (d_err s) (d_pos s) (d_wic s - wb) (d_tgt s) (d_cur s) (d_acc s) (d_fpos s + wb)
                           (d_file s) (d_tab s)), k, false)
    | _ =>
      let '(ok, a, ws') := write_data (fst k) w in
      let f' := file_write (d_file s) (d_fpos s) a in
      if ok then
        match d_acc s with
        | None => (mkDl true (d_pos s) (d_wic s - wb) (d_tgt s) (d_cur s) None (d_fpos s + len a) f' (d_tab s),
                   (ws', snd k), false)
        | Some acc =>
            (mkDl (d_err s) (d_pos s + wb) (d_wic s - wb) (d_tgt s) (d_cur s) (Some (acc ++ w))
                  (d_fpos s + len a) f' (d_tab s), (ws', snd k), true)
        end
      else
        (mkDl true (d_pos s) (d_wic s) (d_tgt s) (d_cur s) (d_acc s) (d_fpos s + len a) f' (d_tab s),
         (ws', snd k), false)
    end
  else (s, k, true).

Definition set_chunk_valid_F (s : dlstate) (k : fsch) : dlstate * fsch * bool :=
  match d_tgt s with
  | None => (s, k, true)
  | Some t =>
    match nth_error (d_tab s) t with
    | None => (s, k, true)
    | Some c =>
      match d_acc s with
      | None =>
          (mkDl true (d_pos s) (d_wic s) (d_tgt s) (d_cur s) None (d_fpos s) (d_file s)
                (set_flag (d_tab s) t VFailed), k, false)
      | Some acc =>
          if chunk_digest_ok H c acc then
            (mkDl (d_err s) (d_pos s) (d_wic s) None (d_cur s) None (d_fpos s) (d_file s)
                  (set_flag (d_tab s) t VValid), k, true)
          else
            let tab' := set_flag (d_tab s) t VFailed in
            match seek_d (snd k) with
            | (false, ss') =>
                (mkDl true (d_pos s) (d_wic s) (d_tgt s) (d_cur s) None (d_fpos s) (d_file s) tab',
                 (fst k, ss'), false)
            | (true, ss') =>
                let '(ok, f', pos', ws') :=
                  zero_F (S (N.to_nat (c_len c / BUF_SIZE))) (fst k) (d_file s) (doff + c_start c) (c_len c) in
                (mkDl (negb ok || d_err s) (d_pos s) (d_wic s) (d_tgt s) (d_cur s) None pos' f' tab',
                 (ws', ss'), false)
            end
      end
    end
  end.

Definition select_F (s : dlstate) (k : fsch) : dlstate * fsch * bool :=
  let k0 := match d_cur s with None => 0%nat | Some j => j end in
  match search (d_tab s) (d_pos s) (skipn k0 ridx) k0 with
  | None => (mkDl (d_err s) (d_pos s) (d_wic s) (d_tgt s) (Some k0) (d_acc s) (d_fpos s)
                  (d_file s) (d_tab s), k, true)
  | Some (j, e, c) =>
      match seek_d (snd k) with
      | (true, ss') =>
          (mkDl (d_err s) (d_pos s) (r_len e) (Some (r_tgt e))
                (if (S j <? length ridx)%nat then Some (S j) else None)
                (Some []) (doff + c_start c) (d_file s) (d_tab s), (fst k, ss'), true)
      | (false, ss') =>
          (mkDl true (d_pos s) (r_len e) (Some (r_tgt e)) (d_cur s) (Some []) (d_fpos s) (d_file s) (d_tab s),
           (fst k, ss'), false)
      end
  end.

Definition settle_F (s : dlstate) (k : fsch) : dlstate * fsch * bool :=
  let '(s1, k1, ok) := set_chunk_valid_F s k in
  if ok then select_F s1 k1 else (s1, k1, false).

Fixpoint dlw_fF (fuel : nat) (s : dlstate) (k : fsch) (bs : bytes) : dlstate * fsch * dres :=
  match fuel with
  | O => (s, k, DFuel)
  | S f =>
    if d_err s then (s, k, DFail) else
    match ridx, d_tab s with
    | [], _ | _, [] => (set_err s, k, DFail)
    | _, _ =>
      let wb := if 0 <? d_wic s then N.min (d_wic s) (len bs) else 0 in
      let '(s1, k1, ok) := dl_write_F s k bs in
      if negb ok then (s1, k1, DFail) else
      let '(s2, k2, ok2) := if d_wic s1 =? 0 then settle_F s1 k1 else (s1, k1, true) in
      if negb ok2 then (s2, k2, DFail) else
      if (0 <? d_wic s2) && (wb <? len bs) then
        match dlw_fF f s2 k2 (skipn (N.to_nat wb) bs) with
        | (s3, k3, DOk wb2) => if wb2 =? 0 then (s3, k3, DFail) else (s3, k3, DOk (wb + wb2))
        | r => r
        end
      else (s2, k2, DOk wb)
    end
  end.

Definition dlw_F (s : dlstate) (k : fsch) (bs : bytes) : dlstate * fsch * dres :=
  dlw_fF (S (S (length bs))) s k bs.

(** * The multipart layer and the callbacks over [dlw_F] (copies of Multipart.v) *)
Variable rx_comp : bytes -> bool.
Variable rx_exec : bytes -> bytes -> option ((N * N) * (N * N)).

Fixpoint mp_loop_F (fuel : nat) (pn pe : bytes) (dl : dlstate) (k : fsch) (st : bool) (mlen : N) (isuf : bytes)
  : (dlstate * fsch * mpstate) * mstatus :=
  match fuel with
  | O => ((dl, k, mkMp st mlen []), MFuel)
  | S f =>
    if st then
      match isuf with
      | [] => ((dl, k, mkMp st mlen []), MOk)
      | _ =>
        let avail := len isuf in
        let size := if mlen <=? avail then mlen else avail in
        let st' := if mlen <=? avail then false else true in
        let mlen' := if mlen <=? avail then 0 else mlen - avail in
        let '(dl', k', r) := dlw_F dl k (firstn (N.to_nat size) isuf) in
        if dret r =? size then mp_loop_F f pn pe dl' k' st' mlen' (skipn (N.to_nat size) isuf)
        else ((dl', k', mkMp st' mlen' []), MErr)
      end
    else
      match isuf with
      | [] => ((dl, k, mkMp st mlen []), MOk)
      | _ =>
        match scan isuf (len isuf) 0 with
        | ScanOOB => ((dl, k, mkMp st mlen []), MOOB)
        | ScanNone => ((dl, k, mkMp st mlen isuf), MOk)
        | ScanFound j =>
          let mut := firstn (N.to_nat (j + 3)) isuf ++ 0 :: skipn (N.to_nat (j + 4)) isuf in
          match cstr mut with
          | None => ((dl, k, mkMp st mlen []), MOOB)
          | Some str =>
            match rx_exec pn str with
            | None =>
                match rx_exec pe str with
                | None => ((set_err dl, k, mkMp st mlen []), MNoRange)
                | Some _ => ((dl, k, mkMp st mlen []), MEnd)
                end
            | Some ((so1, eo1), (so2, eo2)) =>
                match take_exact mut so1 (eo1 - so1), take_exact mut so2 (eo2 - so2) with
                | Some d1, Some d2 =>
                    mp_loop_F f pn pe dl k true (u64 (parse_dec d2 + two64 - parse_dec d1 + 1))
                              (skipn (N.to_nat (j + 4)) isuf)
                | _, _ => ((dl, k, mkMp st mlen []), MOOB)
                end
            end
          end
        end
      end
  end.

Definition mpx_F (x : xstate) (k : fsch) (b : bytes) : xstate * fsch * mstatus :=
  if d_err (x_dl x) then (x, k, MErr) else
  let buf := m_buf (x_mp x) ++ b in
  let boundary := match x_boundary x with Some bd => bd | None => [] end in
  match (match x_rx x with Some r => Some r | None => gen_regex rx_comp boundary end) with
  | None => (mkX (set_err (x_dl x)) (mkMp (m_state (x_mp x)) (m_length (x_mp x)) [])
                 (x_boundary x) None, k, MErr)
  | Some (pn, pe) =>
      let '((dl', k', mp'), r) :=
        mp_loop_F (2 * length buf + 4) pn pe (x_dl x) k (m_state (x_mp x)) (m_length (x_mp x)) buf in
      (mkX dl' mp' (x_boundary x) (Some (pn, pe)), k', r)
  end.

Definition write_cb_F (x : xstate) (k : fsch) (frag : bytes) : xstate * fsch * bool * mstatus :=
  match x_boundary x with
  | Some _ =>
      let '(x', k', r) := mpx_F x k frag in
      let l := len (m_buf (x_mp x) ++ frag) in
      let ret := match r with MOk | MEnd | MNoRange => l | _ => 0 end in
      (x', k', negb (ret =? 0) || (len frag =? 0), r)
  | None =>
      let '(dl', k', r) := dlw_F (x_dl x) k frag in
      (mkX dl' (x_mp x) None (x_rx x), k',
       negb (dret r =? 0) || (len frag =? 0),
       match r with DFuel => MFuel | _ => MOk end)
  end.

Fixpoint feed_frags_F (x : xstate) (k : fsch) (frags : list bytes) : xstate * fsch * list bool * bool :=
  match frags with
  | [] => (x, k, [], true)
  | fr :: rest =>
      let '(x', k', ok, r) := write_cb_F x k fr in
      match r with
      | MOOB | MFuel => (x', k', [false], false)
      | _ =>
        if ok then let '(x'', k'', l, a) := feed_frags_F x' k' rest in (x'', k'', true :: l, a)
        else (x', k', [false], false)
      end
  end.

End WithHash.
