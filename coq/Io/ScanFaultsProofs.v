(** C12: proofs about the validity scan under fault schedules (Io/ScanFaults.v). *)
From ZV Require Import Base.Bytes Gen.GenConsts Format.Header Format.ParseProofs Read.Scan Read.ScanProofs
                       Io.Faults Io.ScanFaults.
Local Open Scope N_scope.

(** * read_data under a schedule *)
Lemma read_f_some rs rest n got rs' e' :
  read_f false rs rest n = (Some got, rs', e') ->
  e' = false /\ exists m, m <= n /\ got = firstn (N.to_nat m) rest.
Proof.
  unfold read_f. destruct rs as [|[k|] rs0]; intros E; try discriminate; injection E as <- <- <-.
  - split; [reflexivity|]. exists n. split; [lia|reflexivity].
  - split; [reflexivity|]. exists (N.min (N.max 1 k) n). split; [lia|reflexivity].
Qed.

Lemma read_f_full rs rest n got rs' e' :
  read_f false rs rest n = (Some got, rs', e') -> len got = n ->
  e' = false /\ got = firstn (N.to_nat n) rest /\ n <= len rest.
Proof.
  intros E Hl. destruct (read_f_some _ _ _ _ _ _ E) as (-> & m & Hm & ->).
  rewrite len_firstn in Hl. assert (m = n) by lia. subst m.
  split; [reflexivity|]. split; [reflexivity|lia].
Qed.

Lemma read_f_err rs rest n : read_f true rs rest n = (None, rs, true).
Proof. reflexivity. Qed.

Lemma only_errors_tl o rs : only_errors (o :: rs) -> only_errors rs.
Proof. intros Hf. inversion Hf; assumption. Qed.

(** with errors as the only faults a read without error is the plain read *)
Lemma read_f_only_errors rs rest n r rs' e' :
  only_errors rs -> read_f false rs rest n = (r, rs', e') ->
  only_errors rs' /\ ((r = None /\ e' = true) \/ (r = Some (firstn (N.to_nat n) rest) /\ e' = false)).
Proof.
  unfold read_f. intros Ho E. destruct rs as [|[k|] rs0].
  - injection E as <- <- <-. split; [exact Ho|]. right. auto.
  - inversion Ho as [|? ? Hk]. discriminate Hk.
  - injection E as <- <- <-. split; [exact (only_errors_tl _ _ Ho)|]. left. auto.
Qed.

Lemma seek_f_go ss m s e : seek_f false ss = (true, m, s, e) -> e = false.
Proof. unfold seek_f. destruct ss as [|[|] ss']; intros E; inversion E; reflexivity. Qed.

Section Proofs.
Variable H : N -> bytes -> bytes.

(** * Fault-free schedule = the model of Read/Scan.v *)
Lemma rd_f_faultfree fuel : forall rest n cacc facc upd,
  rd_blocks_f fuel [] false rest n cacc facc upd =
  match rd_blocks fuel rest n cacc facc upd with
  | Some (c, r, a, b) => Some (c, r, a, b, [], false)
  | None => None
  end.
Proof.
  induction fuel as [|fuel IH]; intros rest n cacc facc upd; cbn [rd_blocks_f rd_blocks].
  - destruct (n =? 0); reflexivity.
  - destruct (n =? 0); [reflexivity|]. cbn [read_f].
    set (rsize := N.min BUF_SIZE n).
    destruct (len (firstn (N.to_nat rsize) rest) =? rsize) eqn:E; [apply IH|].
    apply N.eqb_neq in E. rewrite len_firstn in E.
    rewrite !skipn_all2; [reflexivity| |]; rewrite ?firstn_length; unfold len in E; lia.
Qed.

Lemma scan_loop_f_faultfree h : forall cs first fl rest facc good ch,
  scan_loop_f H h first cs fl rest facc good ch [] false =
  match scan_loop H h first cs fl rest facc good ch with
  | Some (a, b, c, d, e) => Some (a, b, c, d, e, [], false)
  | None => None
  end.
Proof.
  induction cs as [|c cs IH]; intros first fl rest facc good ch; cbn [scan_loop_f scan_loop]; [reflexivity|].
  destruct (first && (c_ulen c =? 0) && (c_clen c =? 0)).
  - destruct (h_detached h); [reflexivity|]. rewrite IH.
    destruct (scan_loop H h false cs (tl fl) rest facc good ch) as [[[[[a b] c0] d] e]|]; reflexivity.
  - rewrite rd_f_faultfree.
    destruct (rd_blocks (S (length rest)) rest (c_clen c) [] facc (negb (uflag h))) as [[[[cp r] ca] fa]|]; [|reflexivity].
    cbn [negb]. rewrite andb_true_r. unfold validate_chunk_f.
    destruct (h_detached h); [reflexivity|]. rewrite IH.
    destruct (scan_loop H h false cs (tl fl) r fa _ _) as [[[[[a b] c0] d] e]|]; reflexivity.
Qed.

Theorem validate_checksums_f_faultfree h f fl st :
  data_offset h <> 0 ->
  validate_checksums_f H h f fl st [] [] false =
  match validate_checksums H h f fl st with
  | Some r => Some (mkF r [] [] false)
  | None => None
  end.
Proof.
  intros H0. unfold validate_checksums_f, validate_checksums.
  replace (data_offset h =? 0) with false by (symmetry; apply N.eqb_neq; exact H0).
  cbn [seek_f]. rewrite scan_loop_f_faultfree.
  destruct (scan_loop H h true (h_chunks h) fl _ [] true (r_chunk st)) as [[[[[fl1 r1] facc] good] ch]|]; [|reflexivity].
  destruct (uflag h || h_detached h); [reflexivity|]. destruct good; reflexivity.
Qed.

Lemma data_loop_f_ff : forall cs rest facc,
  match data_loop_f cs rest facc [] false, data_loop cs rest facc with
  | Some (Some c', _, fa', rs', e'), Some (c, fa) => c' = c /\ fa' = fa /\ rs' = [] /\ e' = false
  | None, None => True
  | _, _ => False
  end.
Proof.
  induction cs as [|c cs IH]; intros rest facc; cbn [data_loop_f data_loop]; [auto|].
  rewrite rd_f_faultfree.
  destruct (rd_blocks (S (length rest)) rest (c_clen c) [] facc true) as [[[[cp r] ca] fa]|]; [|exact I].
  destruct cp; [apply IH|]. auto.
Qed.

Theorem validate_data_f_faultfree h f fl st :
  data_offset h <> 0 ->
  validate_data_f H h f fl st [] [] false =
  match validate_data H h f fl st with
  | Some r => Some (mkF r [] [] false)
  | None => None
  end.
Proof.
  intros H0. unfold validate_data_f, validate_data. destruct (uflag h); [apply validate_checksums_f_faultfree; exact H0|].
  cbn [seek_f].
  pose proof (data_loop_f_ff (h_chunks h) (skipn (N.to_nat (data_offset h)) f) []) as L.
  destruct (data_loop_f (h_chunks h) _ [] [] false) as [[[[[[c'|] r1] fa'] rs'] e']|];
    destruct (data_loop (h_chunks h) _ []) as [[c fa]|]; try contradiction; [|reflexivity].
  destruct L as (-> & -> & -> & ->). cbn [seek_f]. reflexivity.
Qed.

(** * A complete chunk read was read without any fault taking effect *)
Lemma rd_f_complete fuel : forall rs rest n cacc facc upd rest' cacc' facc' rs' err',
  rd_blocks_f fuel rs false rest n cacc facc upd = Some (true, rest', cacc', facc', rs', err') ->
  n <= len rest /\ rest' = skipn (N.to_nat n) rest /\ cacc' = cacc ++ firstn (N.to_nat n) rest /\
  facc' = (if upd then facc ++ firstn (N.to_nat n) rest else facc) /\ err' = false.
Proof.
  induction fuel as [|fuel IH]; intros rs rest n cacc facc upd rest' cacc' facc' rs' err' E;
    cbn [rd_blocks_f] in E; destruct (n =? 0) eqn:E0.
  - apply N.eqb_eq in E0. subst n. injection E as <- <- <- <- <-. cbn [N.to_nat firstn skipn].
    rewrite !app_nil_r. split; [lia|]. destruct upd; auto.
  - discriminate.
  - apply N.eqb_eq in E0. subst n. injection E as <- <- <- <- <-. cbn [N.to_nat firstn skipn].
    rewrite !app_nil_r. split; [lia|]. destruct upd; auto.
  - apply N.eqb_neq in E0. pose proof BUF_pos as HB. set (rsize := N.min BUF_SIZE n) in *.
    assert (Hr : 0 < rsize /\ rsize <= n) by (unfold rsize; lia).
    destruct (read_f false rs rest rsize) as [[[got|] rs1] e1] eqn:Er; [|discriminate].
    destruct (len got =? rsize) eqn:Eg; [|discriminate]. apply N.eqb_eq in Eg.
    destruct (read_f_full _ _ _ _ _ _ Er Eg) as (-> & -> & Hle).
    destruct (IH _ _ _ _ _ _ _ _ _ _ _ E) as (I1 & I2 & I3 & I4 & I5).
    rewrite len_skipn in I1.
    assert (Hsp : firstn (N.to_nat n) rest =
                  firstn (N.to_nat rsize) rest ++ firstn (N.to_nat (n - rsize)) (skipn (N.to_nat rsize) rest)).
    { rewrite <- firstn_add_split. f_equal. lia. }
    split; [lia|]. split.
    { rewrite I2, skipn_add. f_equal. lia. }
    split; [rewrite I3, Hsp, <- app_assoc; reflexivity|]. split; [|exact I5].
    rewrite I4, Hsp. destruct upd; rewrite <- ?app_assoc; reflexivity.
Qed.

(** in the error state no read is issued: a chunk with bytes is never complete *)
Lemma rd_f_in_error fuel rs rest n cacc facc upd c rest' cacc' facc' rs' err' :
  rd_blocks_f fuel rs true rest n cacc facc upd = Some (c, rest', cacc', facc', rs', err') ->
  err' = true /\ rs' = rs /\ rest' = rest /\ (c = true -> n = 0).
Proof.
  destruct fuel; cbn [rd_blocks_f]; destruct (n =? 0) eqn:E0; intros E; try discriminate.
  - injection E as <- <- <- <- <- <-. apply N.eqb_eq in E0. auto.
  - injection E as <- <- <- <- <- <-. apply N.eqb_eq in E0. auto.
  - rewrite read_f_err in E. injection E as <- <- <- <- <- <-. repeat split; auto. discriminate.
Qed.

(** with errors as the only faults: an incomplete read is an error or the end of the file *)
Lemma rd_f_only_errors fuel : forall rs rest n cacc facc upd c rest' cacc' facc' rs' err',
  only_errors rs ->
  rd_blocks_f fuel rs false rest n cacc facc upd = Some (c, rest', cacc', facc', rs', err') ->
  only_errors rs' /\ (c = false -> err' = true \/ (err' = false /\ len rest < n /\ rest' = [])).
Proof.
  induction fuel as [|fuel IH]; intros rs rest n cacc facc upd c rest' cacc' facc' rs' err' Ho E;
    cbn [rd_blocks_f] in E; destruct (n =? 0) eqn:E0; try discriminate.
  - injection E as <- <- <- <- <- <-. split; [exact Ho|discriminate].
  - injection E as <- <- <- <- <- <-. split; [exact Ho|discriminate].
  - apply N.eqb_neq in E0. pose proof BUF_pos as HB. set (rsize := N.min BUF_SIZE n) in *.
    assert (Hr : 0 < rsize /\ rsize <= n) by (unfold rsize; lia).
    destruct (read_f false rs rest rsize) as [[r rs1] e1] eqn:Er.
    destruct (read_f_only_errors _ _ _ _ _ _ Ho Er) as [Ho1 [[-> ->]|[-> ->]]].
    + injection E as <- <- <- <- <- <-. split; [exact Ho1|]. auto.
    + destruct (len (firstn (N.to_nat rsize) rest) =? rsize) eqn:Eg.
      * apply N.eqb_eq in Eg. rewrite len_firstn in Eg.
        destruct (IH _ _ _ _ _ _ _ _ _ _ _ _ Ho1 E) as [I1 I2]. split; [exact I1|].
        intros Hc. destruct (I2 Hc) as [Ie|(Ie & Il & Ir)]; [left; exact Ie|right].
        rewrite len_skipn in Il. split; [exact Ie|]. split; [lia|exact Ir].
      * apply N.eqb_neq in Eg. rewrite len_firstn in Eg.
        injection E as <- <- <- <- <- <-. split; [exact Ho1|]. intros _. right.
        split; [reflexivity|]. split; [lia|].
        apply skipn_all2. rewrite firstn_length. unfold len in Eg. lia.
Qed.

(** * The chunk loop *)
Section Loop.
Variable h : header.
Variable f : bytes.
Let doff := data_offset h.

Lemma scan_loop_f_good_mono : forall cs first fl rest facc good ch rs err fl' rest' facc' good' ch' rs' err',
  scan_loop_f H h first cs fl rest facc good ch rs err = Some (fl', rest', facc', good', ch', rs', err') ->
  good' = true -> good = true.
Proof.
  induction cs as [|c cs IH]; intros first fl rest facc good ch rs err fl' rest' facc' good' ch' rs' err' E Hg;
    cbn [scan_loop_f] in E.
  - injection E as <- <- <- <- <- <- <-. exact Hg.
  - destruct (first && (c_ulen c =? 0) && (c_clen c =? 0)).
    + destruct (h_detached h); [injection E as <- <- <- <- <- <- <-; exact Hg|].
      destruct (scan_loop_f H h false cs _ _ _ _ _ _ _) as [[[[[[[r a] b] g] s] q] e]|] eqn:El; [|discriminate].
      injection E as <- <- <- <- <- <- <-. exact (IH _ _ _ _ _ _ _ _ _ _ _ _ _ _ _ El Hg).
    + destruct (rd_blocks_f _ _ _ _ _ _ _ _) as [[[[[[cp r1] ca] fa] rs1] e1]|]; [|discriminate].
      destruct (h_detached h).
      * injection E as <- <- <- <- <- <- <-. apply andb_prop in Hg. apply Hg.
      * destruct (scan_loop_f H h false cs _ _ _ _ _ _ _) as [[[[[[[r a] b] g] s] q] e]|] eqn:El; [|discriminate].
        injection E as <- <- <- <- <- <- <-.
        pose proof (IH _ _ _ _ _ _ _ _ _ _ _ _ _ _ _ El Hg) as Hg'. apply andb_prop in Hg'. apply Hg'.
Qed.

(** if the loop ends with [all_good] then no fault took effect: it computed what the
    fault-free loop computes *)
Lemma scan_loop_f_good : forall cs first fl rest facc good ch rs start fl' rest' facc' good' ch' rs' err',
  h_detached h = false ->
  starts_ok start cs ->
  rest = skipn (N.to_nat (doff + start)) f ->
  (good = true -> uflag h = false -> facc = sub f doff start) ->
  scan_loop_f H h first cs fl rest facc good ch rs false = Some (fl', rest', facc', good', ch', rs', err') ->
  good' = true ->
  fl' = map flag_of (classify H h f first cs) /\ all_true (classify H h f first cs) = true /\
  err' = false /\ (uflag h = false -> facc' = sub f doff (start + data_total cs)).
Proof.
  induction cs as [|c cs IH]; intros first fl rest facc good ch rs start fl' rest' facc' good' ch' rs' err'
                                     Hd Hst Hrest Hacc E Hg.
  - cbn [scan_loop_f] in E. injection E as <- <- <- <- <- <- <-.
    cbn [classify map all_true forallb data_total fold_right]. rewrite N.add_0_r.
    split; [reflexivity|]. split; [reflexivity|]. split; [reflexivity|]. intros Hu. exact (Hacc Hg Hu).
  - cbn [starts_ok] in Hst. destruct Hst as [Hcs Hst].
    cbn [scan_loop_f] in E. cbn [classify map data_total fold_right].
    change (fold_right (fun c a => c_clen c + a) 0 cs) with (data_total cs).
    unfold chunk_good. fold (empty_first first c) in E |- *. rewrite Hd in E.
    destruct (empty_first first c) eqn:Eef.
    + unfold empty_first in Eef. apply andb_prop in Eef. destruct Eef as [_ E2]. apply N.eqb_eq in E2.
      destruct (scan_loop_f H h false cs _ _ _ _ _ _ _) as [[[[[[[r a] b] g] s] q] e]|] eqn:El; [|discriminate].
      injection E as <- <- <- <- <- <- <-.
      rewrite E2 in Hst. rewrite N.add_0_r in Hst.
      destruct (IH _ _ _ _ _ _ _ _ _ _ _ _ _ _ _ Hd Hst Hrest Hacc El Hg) as (I1 & I2 & I3 & I4).
      cbn [orb flag_of all_true forallb andb]. rewrite E2, N.add_0_l.
      split; [rewrite I1; reflexivity|]. auto.
    + cbn [orb].
      destruct (rd_blocks_f _ _ _ _ _ _ _ _) as [[[[[[cp r1] ca] fa] rs1] e1]|] eqn:Er; [|discriminate].
      destruct (scan_loop_f H h false cs _ _ _ _ _ _ _) as [[[[[[[r a] b] g] s] q] e]|] eqn:El; [|discriminate].
      injection E as <- <- <- <- <- <- <-.
      pose proof (scan_loop_f_good_mono _ _ _ _ _ _ _ _ _ _ _ _ _ _ _ _ El Hg) as Hg1.
      apply andb_prop in Hg1. destruct Hg1 as [Hgood Hv]. apply Z.eqb_eq in Hv.
      destruct cp; [|discriminate Hv].
      destruct (rd_f_complete _ _ _ _ _ _ _ _ _ _ _ _ Er) as (R1 & R2 & R3 & R4 & R5). subst e1.
      cbn [app] in R3.
      assert (Hlr : len rest = len f - (doff + start)) by (rewrite Hrest, len_skipn; lia).
      assert (Hstored : ca = stored h f c).
      { rewrite R3. unfold stored, sub. rewrite Hcs, Hrest. reflexivity. }
      assert (Hpres : present h f c = true).
      { unfold present. destruct (c_clen c =? 0) eqn:E0; [reflexivity|]. apply N.eqb_neq in E0.
        cbn [orb]. apply N.leb_le. rewrite Hcs. fold doff. lia. }
      pose proof Hv as Hv0.
      unfold validate_chunk_f in Hv. rewrite Hstored, validate_chunk_spec in Hv.
      destruct (digest_ok H h c (stored h f c)) eqn:Edo; [|discriminate Hv].
      rewrite Hpres, Hv0. cbn [andb flag_of all_true forallb].
      assert (Hr' : r1 = skipn (N.to_nat (doff + (start + c_clen c))) f).
      { rewrite R2, Hrest, skipn_add. f_equal. lia. }
      assert (Hacc' : good && (validate_chunk_f H false (h_chash h) c ca =? 1)%Z = true -> uflag h = false ->
                      fa = sub f doff (start + c_clen c)).
      { intros _ Hu. rewrite R4, Hu. cbn [negb]. rewrite (Hacc Hgood Hu), <- R3, Hstored.
        unfold stored. rewrite Hcs. fold doff. apply (sub_app H). }
      destruct (IH _ _ _ _ _ _ _ _ _ _ _ _ _ _ _ Hd Hst Hr' Hacc' El Hg) as (I1 & I2 & I3 & I4).
      split; [rewrite I1; reflexivity|]. split; [exact I2|]. split; [exact I3|].
      rewrite N.add_assoc. exact I4.
Qed.

(** with errors as the only faults every flag 1 the loop writes is deserved *)
Lemma scan_loop_f_sound : forall cs first fl rest facc good ch rs err start fl' rest' facc' good' ch' rs' err',
  h_detached h = false ->
  starts_ok start cs -> only_errors rs ->
  (err = false -> rest = skipn (N.to_nat (doff + start)) f) ->
  scan_loop_f H h first cs fl rest facc good ch rs err = Some (fl', rest', facc', good', ch', rs', err') ->
  forall i c, nth_error cs i = Some c -> nth_error fl' i = Some 1%Z ->
              chunk_good H h f (first && (i =? 0)%nat) c = true.
Proof.
  induction cs as [|c cs IH]; intros first fl rest facc good ch rs err start fl' rest' facc' good' ch' rs' err'
                                     Hd Hst Ho Hrest E i c0 Ei Hi; [destruct i; discriminate|].
  cbn [starts_ok] in Hst. destruct Hst as [Hcs Hst].
  cbn [scan_loop_f] in E. fold (empty_first first c) in E. rewrite Hd in E.
  destruct (empty_first first c) eqn:Eef.
  - destruct (scan_loop_f H h false cs _ _ _ _ _ _ _) as [[[[[[[r a] b] g] s] q] e]|] eqn:El; [|discriminate].
    injection E as <- <- <- <- <- <- <-.
    pose proof Eef as Eef'. unfold empty_first in Eef'. apply andb_prop in Eef'. destruct Eef' as [Ef E2].
    apply andb_prop in Ef. destruct Ef as [Ef _]. apply N.eqb_eq in E2.
    destruct i as [|i]; cbn [nth_error] in Ei, Hi.
    + injection Ei as <-. subst first. cbn [andb Nat.eqb]. unfold chunk_good. rewrite Eef. reflexivity.
    + cbn [Nat.eqb]. rewrite andb_false_r.
      rewrite E2, N.add_0_r in Hst.
      apply (IH _ _ _ _ _ _ _ _ _ _ _ _ _ _ _ _ Hd Hst Ho Hrest El i c0 Ei Hi).
  - destruct (rd_blocks_f _ _ _ _ _ _ _ _) as [[[[[[cp r1] ca] fa] rs1] e1]|] eqn:Er; [|discriminate].
    destruct (scan_loop_f H h false cs _ _ _ _ _ _ _) as [[[[[[[r a] b] g] s] q] e]|] eqn:El; [|discriminate].
    injection E as <- <- <- <- <- <- <-.
    destruct err.
    + (* already in the error state *)
      destruct (rd_f_in_error _ _ _ _ _ _ _ _ _ _ _ _ _ Er) as (-> & -> & -> & Hc).
      destruct i as [|i]; cbn [nth_error] in Ei, Hi.
      * injection Hi as Hv. destruct cp; [cbn in Hv; discriminate Hv|discriminate Hv].
      * cbn [Nat.eqb]. rewrite andb_false_r.
        refine (IH _ _ _ _ _ _ _ _ (start + c_clen c) _ _ _ _ _ _ _ Hd Hst Ho _ El i c0 Ei Hi). discriminate.
    + specialize (Hrest eq_refl).
      destruct (rd_f_only_errors _ _ _ _ _ _ _ _ _ _ _ _ _ Ho Er) as [Ho1 Hinc].
      assert (Hlr : len rest = len f - (doff + start)) by (rewrite Hrest, len_skipn; lia).
      destruct i as [|i]; cbn [nth_error] in Ei, Hi.
      * injection Ei as <-. injection Hi as Hv. rewrite andb_true_r.
        destruct cp; [|discriminate Hv].
        destruct (rd_f_complete _ _ _ _ _ _ _ _ _ _ _ _ Er) as (R1 & R2 & R3 & R4 & R5). subst e1.
        cbn [app] in R3. unfold validate_chunk_f in Hv.
        assert (Hstored : ca = stored h f c) by (rewrite R3; unfold stored, sub; rewrite Hcs, Hrest; reflexivity).
        rewrite Hstored, validate_chunk_spec in Hv.
        destruct (digest_ok H h c (stored h f c)) eqn:Edo; [|discriminate Hv].
        unfold chunk_good. rewrite Edo, andb_true_r.
        replace (present h f c) with true; [apply orb_true_r|]. symmetry.
        unfold present. destruct (c_clen c =? 0) eqn:E0; [reflexivity|]. apply N.eqb_neq in E0.
        cbn [orb]. apply N.leb_le. rewrite Hcs. fold doff. lia.
      * cbn [Nat.eqb]. rewrite andb_false_r.
        refine (IH _ _ _ _ _ _ _ _ (start + c_clen c) _ _ _ _ _ _ _ Hd Hst Ho1 _ El i c0 Ei Hi).
        intros He1. destruct cp.
        -- destruct (rd_f_complete _ _ _ _ _ _ _ _ _ _ _ _ Er) as (R1 & R2 & _).
           rewrite R2, Hrest, skipn_add. f_equal. lia.
        -- destruct (Hinc eq_refl) as [He|(_ & Hl & ->)]; [congruence|].
           symmetry. apply skipn_all2. unfold len in *. lia.
Qed.
End Loop.

(** * T12.scan *)
(** success under any schedule is the fault-free success, with the fault-free flags *)
Theorem scan_f_success_full h f fl st rs ss err r :
  scan_wf h f -> h_detached h = false ->
  validate_checksums_f H h f fl st rs ss err = Some r -> s_ret (f_res r) = 1%Z ->
  expected_ret H h f = 1%Z /\ s_flags (f_res r) = expected_flags H h f /\ f_err r = false.
Proof.
  intros (H0 & Hle & Hst) Hd E Hret. unfold validate_checksums_f in E.
  destruct err; [injection E as <-; discriminate Hret|].
  replace (data_offset h =? 0) with false in E by (symmetry; apply N.eqb_neq; exact H0).
  destruct (seek_f false ss) as [[[go mv] ss1] e1] eqn:Es.
  destruct go; [|injection E as <-; discriminate Hret].
  destruct (scan_loop_f H h true (h_chunks h) fl _ [] true (r_chunk st) rs false)
    as [[[[[[[fl1 r1] facc] good] ch] rs1] err1]|] eqn:El; [|discriminate].
  rewrite Hd, orb_false_r in E.
  assert (Hgood : good = true).
  { destruct good; [reflexivity|]. destruct (uflag h).
    - destruct (seek_f err1 ss1) as [[[g2 m2] s2] e2]; destruct g2; injection E as <-; discriminate Hret.
    - destruct (seek_f err1 ss1) as [[[g2 m2] s2] e2]; destruct g2; injection E as <-; discriminate Hret. }
  subst good.
  pose proof (scan_loop_f_good h f (h_chunks h) true fl (skipn (N.to_nat (data_offset h)) f) [] true (r_chunk st) rs 0
                fl1 r1 facc true ch rs1 err1 Hd Hst) as L.
  rewrite N.add_0_r in L. specialize (L eq_refl (fun _ _ => eq_refl) El eq_refl).
  destruct L as (L1 & L2 & L3 & L4). subst err1. rewrite N.add_0_l in L4.
  unfold expected_ret, expected_flags. rewrite L2. cbn [andb].
  destruct (uflag h) eqn:Eu.
  - cbn [orb negb andb] in *.
    destruct (seek_f false ss1) as [[[g2 m2] s2] e2] eqn:Es2; destruct g2; injection E as <-; [|discriminate Hret].
    cbn [f_res s_flags f_err]. split; [reflexivity|]. split; [exact L1|].
    exact (seek_f_go _ _ _ _ Es2).
  - cbn [orb negb andb] in *. rewrite (L4 eq_refl), validate_file_spec in E.
    destruct (data_good H h f) eqn:Edg; cbn [flag_of Z.eqb] in E.
    + destruct (seek_f false ss1) as [[[g2 m2] s2] e2] eqn:Es2; destruct g2; injection E as <-; [|discriminate Hret].
      cbn [f_res s_flags f_err negb]. split; [reflexivity|]. split; [exact L1|].
      exact (seek_f_go _ _ _ _ Es2).
    + destruct (seek_f false ss1) as [[[g2 m2] s2] e2]; destruct g2; injection E as <-; discriminate Hret.
Qed.

Theorem scan_f_success_detached h f fl st rs ss err r :
  scan_wf h f -> h_detached h = true ->
  validate_checksums_f H h f fl st rs ss err = Some r -> s_ret (f_res r) = 1%Z ->
  dict_good H h f = true.
Proof.
  intros (H0 & Hle & Hst) Hd E Hret. unfold validate_checksums_f in E.
  destruct err; [injection E as <-; discriminate Hret|].
  replace (data_offset h =? 0) with false in E by (symmetry; apply N.eqb_neq; exact H0).
  destruct (seek_f false ss) as [[[go mv] ss1] e1] eqn:Es.
  destruct go; [|injection E as <-; discriminate Hret].
  unfold dict_good. destruct (h_chunks h) as [|c cs]; [reflexivity|].
  cbn [starts_ok] in Hst. destruct Hst as [Hcs _].
  cbn [scan_loop_f] in E. fold (empty_first true c) in E. rewrite Hd, orb_true_r in E.
  unfold chunk_good. destruct (empty_first true c); [reflexivity|]. cbn [orb].
  destruct (rd_blocks_f _ _ _ _ _ _ _ _) as [[[[[[cp r1] ca] fa] rs1] e1']|] eqn:Er; [|discriminate].
  cbn [andb] in E.
  destruct ((if cp then validate_chunk_f H e1' (h_chash h) c ca else (-1)%Z) =? 1)%Z eqn:Ev.
  - apply Z.eqb_eq in Ev. destruct cp; [|discriminate Ev].
    destruct (rd_f_complete _ _ _ _ _ _ _ _ _ _ _ _ Er) as (R1 & R2 & R3 & R4 & R5). subst e1'.
    cbn [app] in R3. unfold validate_chunk_f in Ev.
    set (rest := skipn (N.to_nat (data_offset h)) f) in *.
    assert (Hlr : len rest = len f - data_offset h) by (unfold rest; rewrite len_skipn; lia).
    assert (Hstored : ca = stored h f c) by (rewrite R3; unfold stored, sub, rest; rewrite Hcs, N.add_0_r; reflexivity).
    rewrite Hstored, validate_chunk_spec in Ev.
    destruct (digest_ok H h c (stored h f c)); [|discriminate Ev]. rewrite andb_true_r.
    unfold present. destruct (c_clen c =? 0) eqn:E0; [reflexivity|]. apply N.eqb_neq in E0.
    cbn [orb]. apply N.leb_le. rewrite Hcs. lia.
  - destruct (seek_f e1' ss1) as [[[g2 m2] s2] e2]; destruct g2; injection E as <-; discriminate Hret.
Qed.

(** both in the words of the specification of Read/Scan.v *)
Theorem scan_f_success_real h f fl st rs ss err r :
  scan_wf h f ->
  validate_checksums_f H h f fl st rs ss err = Some r -> s_ret (f_res r) = 1%Z ->
  fst (spec_op H h f OpValidate fl) = 1%Z.
Proof.
  intros Hwf E Hret. cbn [spec_op]. destruct (h_detached h) eqn:Hd; cbn [fst].
  - rewrite (scan_f_success_detached _ _ _ _ _ _ _ _ Hwf Hd E Hret). reflexivity.
  - apply (scan_f_success_full _ _ _ _ _ _ _ _ Hwf Hd E Hret).
Qed.

(** with errors (of any errno) as the only faults, every flag 1 left by the call is deserved —
    unless the call returned before it touched the flags *)
Theorem scan_f_flags_sound h f fl st rs ss err r :
  scan_wf h f -> h_detached h = false -> only_errors rs ->
  validate_checksums_f H h f fl st rs ss err = Some r ->
  s_flags (f_res r) = fl \/ flags_sound H h f (s_flags (f_res r)).
Proof.
  intros (H0 & Hle & Hst) Hd Ho E. unfold validate_checksums_f in E.
  destruct err; [injection E as <-; left; reflexivity|].
  destruct (data_offset h =? 0); [injection E as <-; left; reflexivity|].
  destruct (seek_f false ss) as [[[go mv] ss1] e1] eqn:Es.
  destruct go; [|injection E as <-; left; reflexivity].
  destruct (scan_loop_f H h true (h_chunks h) fl _ [] true (r_chunk st) rs false)
    as [[[[[[[fl1 r1] facc] good] ch] rs1] err1]|] eqn:El; [|discriminate].
  assert (S1 : flags_sound H h f fl1).
  { intros i c Ei Hi.
    pose proof (scan_loop_f_sound h f (h_chunks h) true fl (skipn (N.to_nat (data_offset h)) f) [] true (r_chunk st)
                  rs false 0 fl1 r1 facc good ch rs1 err1 Hd Hst Ho) as L.
    rewrite N.add_0_r in L. specialize (L (fun _ => eq_refl) El i c Ei Hi). cbn [andb] in L. exact L. }
  assert (S2 : flags_sound H h f (map (fun _ => (-1)%Z) fl1)).
  { intros i c Ei Hi. rewrite nth_error_map in Hi. destruct (nth_error fl1 i); discriminate Hi. }
  right.
  destruct (uflag h || h_detached h).
  - destruct (seek_f err1 ss1) as [[[g2 m2] s2] e2]; destruct g2; injection E as <-; exact S1.
  - destruct good.
    + destruct err1; [injection E as <-; exact S1|].
      destruct (validate_file H h facc =? -1)%Z;
        destruct (seek_f false ss1) as [[[g2 m2] s2] e2]; destruct g2; injection E as <-; assumption.
    + destruct (seek_f err1 ss1) as [[[g2 m2] s2] e2]; destruct g2; injection E as <-; exact S1.
Qed.

(** * T12.data *)
Lemma data_loop_f_complete : forall cs rest facc rs rest' facc' rs' err',
  data_loop_f cs rest facc rs false = Some (Some true, rest', facc', rs', err') ->
  data_total cs <= len rest /\ facc' = facc ++ firstn (N.to_nat (data_total cs)) rest /\ err' = false.
Proof.
  induction cs as [|c cs IH]; intros rest facc rs rest' facc' rs' err' E; cbn [data_loop_f] in E.
  - injection E as <- <- <- <-. cbn [data_total fold_right N.to_nat firstn]. rewrite app_nil_r.
    split; [lia|auto].
  - cbn [data_total fold_right]. change (fold_right (fun c a => c_clen c + a) 0 cs) with (data_total cs).
    destruct (rd_blocks_f _ _ _ _ _ _ _ _) as [[[[[[cp r1] ca] fa] rs1] e1]|] eqn:Er; [|discriminate].
    destruct cp.
    + destruct (rd_f_complete _ _ _ _ _ _ _ _ _ _ _ _ Er) as (R1 & R2 & R3 & R4 & R5). subst e1.
      destruct (IH _ _ _ _ _ _ _ E) as (I1 & I2 & I3). rewrite R2, len_skipn in I1.
      split; [lia|]. split; [|exact I3]. rewrite I2, R4, R2, <- app_assoc. f_equal.
      replace (N.to_nat (c_clen c + data_total cs)) with (N.to_nat (c_clen c) + N.to_nat (data_total cs))%nat by lia.
      symmetry. apply firstn_add_split.
    + destruct e1; discriminate E.
Qed.

Theorem data_f_success_real h f fl st rs ss err r :
  scan_wf h f ->
  validate_data_f H h f fl st rs ss err = Some r -> s_ret (f_res r) = 1%Z ->
  fst (spec_op H h f OpData fl) = 1%Z.
Proof.
  intros Hwf E Hret. cbn [spec_op]. unfold validate_data_f in E.
  destruct err; [injection E as <-; discriminate Hret|].
  destruct (uflag h) eqn:Eu.
  - pose proof (scan_f_success_real _ _ _ _ _ _ _ _ Hwf E Hret) as S. cbn [spec_op] in S. exact S.
  - cbn [fst]. destruct Hwf as (H0 & Hle & Hst).
    destruct (seek_f false ss) as [[[go mv] ss1] e1] eqn:Es.
    destruct go; [|injection E as <-; discriminate Hret].
    destruct (data_loop_f (h_chunks h) _ [] rs false) as [[[[[c r1] facc] rs1] err1]|] eqn:El; [|discriminate].
    destruct c as [[|]|]; [| |injection E as <-; discriminate Hret].
    + destruct (data_loop_f_complete _ _ _ _ _ _ _ _ El) as (D1 & D2 & D3). subst err1.
      rewrite len_skipn in D1. cbn [app] in D2.
      destruct (seek_f false ss1) as [[[g2 m2] s2] e2]; destruct g2; injection E as <-; [|discriminate Hret].
      cbn [f_res s_ret] in Hret. unfold expected_data_ret.
      replace (data_offset h + data_total (h_chunks h) <=? len f) with true by (symmetry; apply N.leb_le; lia).
      cbn [andb]. rewrite D2 in Hret. exact Hret.
    + destruct (seek_f err1 ss1) as [[[g2 m2] s2] e2]; destruct g2; injection E as <-; discriminate Hret.
Qed.
End Proofs.
