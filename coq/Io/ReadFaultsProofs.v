(** C12, reader half, proofs: the stream invariants of Read/ReadProofs.v (zstd) and
    Read/ReadNocomp.v (compression type 0) are preserved by every iteration of the loop
    whatever the outcome of its read(2) call, hence T12.2. *)
From ZV Require Import Base.Bytes Gen.GenConsts Format.Compint Format.Header Format.ParseProofs
                       Read.ReadSpec Read.CompRead Read.ReadLemmas Read.ReadProofs Read.ReadNocomp
                       Io.Faults Io.ReadFaults.
Local Open Scope N_scope.
Ltac Zify.zify_post_hook ::= Z.to_euclidean_division_equations.

Section FProofs.
Variable H : N -> bytes -> bytes.
Variable zdecomp : option bytes -> bytes -> N -> option bytes.
Variable hd : header.
Variable f : bytes.
Notation cks := (h_chunks hd).
Notation b := (body hd f).
Notation ver' := (ver H zdecomp hd f).
Notation step_chunk_f' := (step_chunk_f H zdecomp hd).
Notation comp_step_f' := (comp_step_f H zdecomp hd).
Notation comp_loop_f' := (comp_loop_f H zdecomp hd).

Hypothesis Hstarts : starts_ok 0 (h_chunks hd).
Hypothesis Hsizes : data_total (h_chunks hd) < two64.
Hypothesis Hnonempty : h_chunks hd <> [].

(** outside the bounded-read branch the iteration is the fault-free one *)
Lemma step_chunk_f_noread o ud n st out (frd : bool) :
  (match r_idx st with [] => True | c :: _ => r_loc st = c_clen c \/ frd = true end) ->
  fst (step_chunk_f' o ud n st out frd) = step_chunk H zdecomp hd ud n st out frd.
Proof.
  intros Hc. unfold step_chunk_f, step_chunk. destruct (r_idx st) as [|c next]; [reflexivity|].
  destruct (N.eqb_spec (r_loc st) (c_clen c)) as [|Hne]; [reflexivity|].
  destruct Hc as [Hc | ->]; [contradiction|reflexivity].
Qed.

Lemma read_cnt_bounds o rs m : 0 < rs -> read_cnt o rs = Some m -> 0 < m /\ m <= rs.
Proof. intros Hrs E. destruct o as [[k|]|]; cbn in E; [injection E as <-; lia|discriminate|injection E as <-; lia]. Qed.

Section FZ.
Hypothesis Hz : is_zstd hd = true.
Notation RUNz := (RUN H zdecomp hd f).
Notation Jz' := (Jz H zdecomp hd f).

Lemma chunk_inv_fz o imp n del st out1 frd c next :
  0 < n -> r_err st = 0 -> r_started st = true -> RUNz imp del st -> r_dc st = [] -> r_idx st = c :: next ->
  (imp = true -> len del < first_ulen hd) ->
  (imp = false -> first_ulen hd = 0 \/ r_dict st <> None) ->
  match fst (step_chunk_f' o (negb imp) n st out1 frd) with
  | SCont st' out' _ => out' = out1 /\ Jz' imp del st' /\ r_dict st' = r_dict st
  | SDone (ROk _) _ => False
  | SDone (CompRead.RErr _) st' => 0 < r_err st'
  | SDone RFuel _ => True
  end.
Proof.
  intros Hn He Hst HR Hdc Hidx Hil Hu.
  destruct (N.eq_dec (r_loc st) (c_clen c)) as [Hend|Hmid].
  { rewrite step_chunk_f_noread by (rewrite Hidx; now left).
    exact (chunk_inv H zdecomp hd f Hstarts Hsizes Hz imp n del st out1 frd c next Hn He Hst HR Hdc Hidx Hil Hu). }
  destruct frd.
  { rewrite step_chunk_f_noread by (rewrite Hidx; now right).
    exact (chunk_inv H zdecomp hd f Hstarts Hsizes Hz imp n del st out1 true c next Hn He Hst HR Hdc Hidx Hil Hu). }
  destruct HR as (pre & Hck & Heof & Hver & Hloc & Hb & Hrest & Hdata & Hch & Hfh & Hpd & Himp & Husr).
  dst st. subst idx dc err started. unfold cur_clen in Hloc. rsimpl.
  destruct (chunk_sizes H zdecomp hd f Hstarts Hsizes pre c next Hck) as [Hlt Hstart].
  set (off := data_total pre) in *.
  unfold step_chunk_f. rsimpl.
  destruct (N.eqb_spec loc (c_clen c)) as [|_]; [contradiction|].
  set (rs := if c_clen c <? loc + n then u64 (c_clen c + two64 - loc) else n).
  assert (Hrs : 0 < rs /\ rs <= c_clen c - loc).
  { unfold rs. destruct (N.ltb_spec (c_clen c) (loc + n)).
    - assert (Hl : c_clen c < two64) by lia. unfold u64, two64 in *. lia.
    - lia. }
  destruct (read_cnt o rs) as [m|] eqn:Ecnt; [|cbn [fst]; rsimpl; lia].
  destruct (read_cnt_bounds o rs m ltac:(lia) Ecnt) as [Hm0 Hm1].
  cbv zeta. cbn [fst]. rsimpl. rewrite Hch.
  remember (takeN m rest) as src eqn:Esrc.
  assert (Hls : len src <= m /\ data_total pre + loc + len src <= len b).
  { subst src rest. rewrite len_takeN, len_dropN. fold off. lia. }
  assert (Hfin : src <> [] ->
            Jz' imp del (mkR (dropN m rest) (data ++ src) (loc + len src) (c :: next) eof [] dcloc
                            (Some (sub b off loc ++ src))
                            (if uflag hd then fhash else Some (takeN (off + loc) b ++ src)) dict true 0)).
  { intros Hne. split; [reflexivity|]. split; [reflexivity|]. right. exists pre. rsimpl. unfold cur_clen. rsimpl. fold off.
    assert (E1 : dropN m rest = dropN (off + (loc + len src)) b).
    { subst src rest. rewrite dropN_extend. f_equal. lia. }
    assert (E2 : sub b off loc ++ src = sub b off (loc + len src)).
    { subst src rest. apply sub_extend. }
    assert (E3 : takeN (off + loc) b ++ src = takeN (off + (loc + len src)) b).
    { subst src rest. rewrite takeN_extend. f_equal. lia. }
    split; [exact Hck|]. split; [exact Heof|]. split; [exact Hver|]. split; [lia|]. split; [lia|].
    split; [exact E1|]. split; [rewrite Hdata; exact E2|]. split; [now rewrite E2|].
    split; [intros Huf; rewrite Huf; now rewrite E3|].
    split; [exact Hpd|]. split; [exact Himp|exact Husr]. }
  destruct src as [|x src'].
  { destruct (uflag hd); cbn [hash_update]; rsimpl; lia. }
  specialize (Hfin ltac:(discriminate)).
  destruct (uflag hd) eqn:Huf.
  + cbn [hash_update]. rsimpl. split; [reflexivity|]. split; [exact Hfin|reflexivity].
  + rewrite (Hfh eq_refl) in *. cbn [hash_update]. rsimpl. split; [reflexivity|]. split; [exact Hfin|reflexivity].
Qed.

Lemma step_inv_fz o imp n del0 st out frd :
  0 < n -> len out < n ->
  (imp = true -> n = first_ulen hd /\ del0 = []) ->
  (imp = false -> first_ulen hd = 0 \/ r_dict st <> None) ->
  Jz' imp (del0 ++ out) st ->
  match fst (comp_step_f' o (negb imp) n st out frd) with
  | SCont st' out' _ => Jz' imp (del0 ++ out') st' /\ len out' < n /\ r_dict st' = r_dict st
  | SDone (ROk o) st' => Jz' imp (del0 ++ o) st' /\ r_dict st' = r_dict st /\ (len o < n -> finished hd st')
  | SDone (CompRead.RErr _) st' => 0 < r_err st'
  | SDone RFuel _ => True
  end.
Proof.
  intros Hn Hlo Hi Hu HJ.
  unfold comp_step_f. cbv zeta.
  set (dl := N.min (n - len out) (len (r_dc st))).
  pose proof (Jz_take H zdecomp hd f imp (del0 ++ out) st dl (r_dcloc st + dl) HJ) as HJ1.
  rewrite <- app_assoc in HJ1.
  set (out1 := out ++ takeN dl (r_dc st)) in *.
  set (st1 := set_dc st (dropN dl (r_dc st)) (r_dcloc st + dl)) in *.
  assert (Hd1 : r_dict st1 = r_dict st) by reflexivity.
  assert (Hl1 : len out1 <= n).
  { unfold out1. rewrite len_app, len_takeN. fold dl. lia. }
  destruct (N.eqb_spec (len out1) n) as [Hfull|Hnf].
  { cbn [fst]. split; [exact HJ1|]. split; [exact Hd1|]. lia. }
  destruct (N.ltb_spec 0 dl) as [Hdl|Hdl].
  { cbn [fst]. split; [exact HJ1|]. split; [lia|exact Hd1]. }
  assert (Hdc : r_dc st = []).
  { apply len_0_nil. unfold dl in Hdl. lia. }
  assert (Hdc1 : r_dc st1 = []) by (unfold st1; rsimpl; rewrite Hdc; apply dropN_nil).
  destruct (r_eof st1) eqn:Heof1.
  { cbn [fst]. split; [exact HJ1|]. split; [exact Hd1|]. intros _. left. split; assumption. }
  assert (Hdec : (if 0 <? len (r_data st1) then decompress hd st1 else st1) = st1).
  { unfold decompress. rewrite (zstd_true hd Hz). now destruct (0 <? len (r_data st1)). }
  rewrite Hdec. rewrite !N.eqb_refl. cbn [negb orb].
  rewrite <- Hd1 in Hu. rewrite <- Hd1.
  assert (Hil : imp = true -> len (del0 ++ out1) < first_ulen hd).
  { intros E. destruct (Hi E) as [-> ->]. cbn [app]. lia. }
  clearbody st1 out1. clear HJ Hdc Hdec Hd1 dl Hdl st.
  destruct HJ1 as (He & Hs & [HN|HR]).
  - (* not started: the first entry *)
    destruct HN as (A1 & A2 & A3 & A4 & A5 & A6 & A7 & A8 & A9).
    dst st1. subst idx eof loc data dc rest dict err started.
    unfold step_init. rsimpl.
    assert (Hex : exists c0 cs, h_chunks hd = c0 :: cs).
    { pose proof Hnonempty as Hq. destruct (h_chunks hd) as [|c0 cs]; [congruence|eauto]. }
    destruct Hex as (c0 & cs & Eck). rewrite Eck.
    apply app_eq_nil in A6. destruct A6 as [-> ->].
    change (0 <? 0) with false. cbv iota.
    destruct (chunk_sizes H zdecomp hd f Hstarts Hsizes [] c0 cs Eck) as [_ Hst0]. cbn in Hst0.
    fold (skip0 c0).
    remember (if skip0 c0 then cs else c0 :: cs) as idx0 eqn:Eidx.
    set (pre := if skip0 c0 then [c0] else []).
    unfold set_chash, set_idx. rsimpl.
    set (st3 := mkR b [] 0 idx0 false [] dcloc (Some []) fhash None true 0).
    destruct idx0 as [|c next].
    { (* only an empty dictionary entry: return 0 *)
      unfold step_chunk_f. subst st3. rsimpl. cbn [fst].
      destruct (skip0 c0) eqn:Hsk; [|discriminate]. subst cs.
      split; [|split; [reflexivity|]].
      - split; [reflexivity|]. split; [reflexivity|]. left. repeat split; try reflexivity. exact A8.
      - intros _. right. exists c0. repeat split; reflexivity || assumption. }
    assert (HR : RUNz imp [] st3).
    { exists pre. subst st3. rsimpl. unfold cur_clen. rsimpl.
      assert (Ht : data_total pre = 0).
      { unfold pre. destruct (skip0 c0) eqn:Hsk; [|reflexivity]. unfold skip0 in Hsk. apply andb_true_iff in Hsk.
        destruct Hsk as [Hc0 _]. apply N.eqb_eq in Hc0. cbn. lia. }
      rewrite Ht. cbn [N.add].
      split. { rewrite Eidx, Eck. unfold pre. destruct (skip0 c0); reflexivity. }
      split. { split; discriminate. }
      split.
      { unfold pre. destruct (skip0 c0) eqn:Hsk; [|reflexivity]. cbn [ver]. unfold dec1. rewrite Hsk. cbn [andb].
        unfold chunk_ok. rewrite Hst0. unfold skip0 in Hsk. apply andb_true_iff in Hsk. destruct Hsk as [Hc0 Hu0].
        rewrite Hc0, Hu0. apply N.eqb_eq in Hc0. rewrite Hc0. cbn [N.add andb orb].
        destruct (N.leb_spec 0 (len b)); [reflexivity|lia]. }
      split; [lia|]. split; [lia|]. split; [reflexivity|]. split; [reflexivity|]. split; [reflexivity|].
      split; [exact A8|]. split; [reflexivity|]. split.
      - intros _. split; [reflexivity|]. unfold pre. destruct (skip0 c0); cbn; lia.
      - intros _ Hp. unfold pre in Hp. destruct (skip0 c0) eqn:Hsk; [|congruence].
        unfold skip0 in Hsk. apply andb_true_iff in Hsk. destruct Hsk as [_ Hu0].
        unfold first_ulen. rewrite Eck, Hu0. reflexivity. }
    pose proof (chunk_inv_fz o imp n [] st3 [] frd c next Hn eq_refl eq_refl HR eq_refl eq_refl) as Hc.
    cbn [app] in Hil. specialize (Hc Hil Hu).
    destruct (fst (step_chunk_f' o (negb imp) n st3 [] frd)) as [st' out' frd'|[o'| |] st']; try exact Hc.
    + destruct Hc as (-> & Hc1 & Hc2). split; [exact Hc1|]. split; [lia|exact Hc2].
    + contradiction.
  - (* running *)
    assert (Hcopy := HR).
    destruct HR as (pre & B1 & B2 & _).
    destruct (r_idx st1) as [|c next] eqn:Eidx.
    { destruct B2 as [_ B2]. rewrite (B2 eq_refl) in Heof1. discriminate. }
    unfold step_init. rewrite Eidx.
    pose proof (chunk_inv_fz o imp n (del0 ++ out1) st1 out1 frd c next Hn He Hs Hcopy Hdc1 Eidx Hil Hu) as Hc.
    destruct (fst (step_chunk_f' o (negb imp) n st1 out1 frd)) as [st' out' frd'|[o'| |] st']; try exact Hc.
    + destruct Hc as (-> & Hc1 & Hc2). split; [exact Hc1|]. split; [lia|exact Hc2].
    + contradiction.
Qed.

Lemma loop_inv_fz imp n del0 fuel : forall sched st out frd,
  0 < n -> len out < n ->
  (imp = true -> n = first_ulen hd /\ del0 = []) ->
  (imp = false -> first_ulen hd = 0 \/ r_dict st <> None) ->
  Jz' imp (del0 ++ out) st ->
  match comp_loop_f' fuel sched (negb imp) n st out frd with
  | (ROk o, st', _) => Jz' imp (del0 ++ o) st' /\ r_dict st' = r_dict st /\ (len o < n -> finished hd st')
  | (CompRead.RErr _, st', _) => 0 < r_err st'
  | (RFuel, _, _) => True
  end.
Proof.
  induction fuel as [|fuel IH]; intros sched st out frd Hn Hlo Hi Hu HJ; cbn [comp_loop_f]; [exact I|].
  pose proof (step_inv_fz (hd_error sched) imp n del0 st out frd Hn Hlo Hi Hu HJ) as Hs.
  destruct (comp_step_f' (hd_error sched) (negb imp) n st out frd) as [[st' out' frd'|[o| |] st'] used]; cbn [fst] in Hs; try exact Hs.
  destruct Hs as (HJ' & Hlo' & Hd').
  assert (Hu' : imp = false -> first_ulen hd = 0 \/ r_dict st' <> None) by (rewrite Hd'; exact Hu).
  pose proof (IH (sched_next sched used) st' out' frd' Hn Hlo' Hi Hu' HJ') as Hr.
  destruct (comp_loop_f' fuel (sched_next sched used) (negb imp) n st' out' frd') as [[[o| |] st''] s'']; try exact Hr.
  destruct Hr as (R1 & R2 & R3). split; [exact R1|]. split; [congruence|exact R3].
Qed.

Notation CIz := (CI H zdecomp hd f).

Lemma import_inv_fz fuel sched st :
  r_err st = 0 -> r_started st = true -> NS hd f [] st -> 0 < first_ulen hd ->
  match import_dict_f H zdecomp hd fuel sched st with
  | (true, st', _) => exists d, r_dict st' = Some d /\ RUNz false d st' /\ r_err st' = 0 /\ r_started st' = true
  | (false, st', _) => 0 < r_err st'
  end.
Proof.
  intros He Hs HN Hfu. unfold import_dict_f. rewrite He. change (0 <? 0) with false. cbv iota.
  destruct (N.eqb_spec (first_ulen hd) 0) as [E|_]; [lia|].
  unfold comp_read_nd_f. rewrite He, Hs. change (0 <? 0) with false. cbn [negb]. cbv iota.
  destruct (N.eqb_spec (first_ulen hd) 0) as [E|_]; [lia|].
  assert (HJ : Jz' true ([] ++ []) st) by (split; [exact He|split; [exact Hs|now left]]).
  pose proof (loop_inv_fz true (first_ulen hd) [] fuel sched st [] false Hfu ltac:(cbn; lia) ltac:(intros _; split; reflexivity)
                ltac:(intros; discriminate) HJ) as Hl.
  cbn [negb] in Hl.
  destruct (comp_loop_f' fuel sched false (first_ulen hd) st [] false) as [[[d| |] st1] s1]; rsimpl; try lia.
  destruct Hl as (HJ1 & Hd1 & _). cbn [app] in HJ1.
  destruct (N.eqb_spec (len d) (first_ulen hd)) as [Hld|Hld]; [|rsimpl; lia].
  destruct HJ1 as (He1 & Hs1 & [HN1|HR1]).
  { destruct HN1 as (_ & _ & _ & _ & _ & Hd0 & _). subst d. cbn in Hld. lia. }
  unfold comp_reset, comp_init. rsimpl. rewrite He1. change (0 <? 0) with false. cbv iota. rsimpl.
  rewrite He1. change (0 <? 0) with false. cbv iota.
  exists d. rsimpl. split; [reflexivity|]. split; [|split; reflexivity].
  destruct HR1 as (pre & B1 & B2 & B3 & B4 & B5 & B6 & B7 & B8 & B9 & B10 & B11 & B12).
  destruct (B11 eq_refl) as [Hdn Hlp].
  destruct pre as [|p0 pre0].
  { cbn [ver] in B3. injection B3 as B3. symmetry in B3. apply app_eq_nil in B3. destruct B3 as [-> _]. cbn in Hld. lia. }
  destruct pre0; [|cbn in Hlp; lia].
  assert (Hfu0 : first_ulen hd = c_ulen p0) by (unfold first_ulen; now rewrite B1).
  assert (Hdc : r_dc st1 = [] /\ ver' true (Some d) [p0] = Some (d ++ [])).
  { rewrite Hdn in B3. rewrite (ver_first_dict H zdecomp hd f (Some d) None). cbn [ver] in B3 |- *.
    destruct (chunk_ok H hd b true p0); [|discriminate]. unfold dec1 in *. cbn [andb] in *.
    destruct (skip0 p0) eqn:Hsk.
    - unfold skip0 in Hsk. apply andb_true_iff in Hsk. destruct Hsk as [_ Hu0]. apply N.eqb_eq in Hu0. lia.
    - rewrite Hz in *. destruct (decode_chunk zdecomp true None p0 (stored b p0)) as [d0|] eqn:Ed0; [|discriminate].
      apply decode_zstd_len in Ed0. injection B3 as B3. rewrite app_nil_r in B3.
      assert (Hl : len d0 = len d + len (r_dc st1)) by (rewrite B3, len_app; reflexivity).
      assert (Hdc0 : r_dc st1 = []) by (apply len_0_nil; lia).
      rewrite Hdc0, app_nil_r in B3. subst d0. split; [exact Hdc0|now rewrite !app_nil_r]. }
  destruct Hdc as [Hdc Hver].
  exists [p0]. dst st1. unfold cur_clen in *. rsimpl. subst dc.
  repeat split; try assumption; try apply B2; try (intros; discriminate).
  intros _ _. destruct (N.eqb_spec (first_ulen hd) 0) as [E|_]; [lia|].
  exists d, []. split; [reflexivity|]. split; [exact Hld|reflexivity].
Qed.

Lemma read_inv_fz fuel sched st n uout :
  0 < n -> CIz uout st ->
  match zck_read_f H zdecomp hd fuel sched st n with
  | (ROk o, st', _) => CIz (uout ++ o) st' /\ (len o < n -> finished hd st')
  | (CompRead.RErr _, st', _) => 0 < r_err st'
  | (RFuel, _, _) => True
  end.
Proof.
  intros Hn (He & Hs & HC). unfold zck_read_f. rewrite He, Hs. change (0 <? 0) with false. cbn [negb]. cbv iota.
  destruct (N.eqb_spec n 0) as [E|_]; [lia|].
  destruct ((0 <? first_ulen hd) && match r_dict st with None => true | Some _ => false end) eqn:Hcond.
  - apply andb_true_iff in Hcond. destruct Hcond as [Hfu Hdn]. apply N.ltb_lt in Hfu.
    destruct (r_dict st) eqn:Ed; [discriminate|].
    destruct HC as [[HN ->]|[_ [Hc|Hc]]]; [|lia|congruence].
    pose proof (import_inv_fz fuel sched st He Hs HN Hfu) as Hi.
    destruct (import_dict_f H zdecomp hd fuel sched st) as [[[|] st1] s1]; [|exact Hi].
    destruct Hi as (d & Hd & HR & He1 & Hs1).
    assert (HJ : Jz' false (d ++ []) st1) by (rewrite app_nil_r; split; [exact He1|split; [exact Hs1|now right]]).
    pose proof (loop_inv_fz false n d fuel s1 st1 [] false Hn ltac:(cbn; lia) ltac:(intros; discriminate)
                  ltac:(intros _; right; congruence) HJ) as Hl.
    cbn [negb] in Hl.
    destruct (comp_loop_f' fuel s1 true n st1 [] false) as [[[o| |] st2] s2]; try exact Hl.
    destruct Hl as ((He2 & Hs2 & HJ2) & Hd2 & Hf). split; [|exact Hf].
    split; [exact He2|]. split; [exact Hs2|]. right.
    destruct HJ2 as [HN2|HR2].
    { destruct HN2 as (_ & _ & _ & _ & _ & _ & _ & _ & Hx). congruence. }
    unfold dpart. rewrite Hd2, Hd. cbn [app]. split; [exact HR2|right; congruence].
  - assert (Hu : false = false -> first_ulen hd = 0 \/ r_dict st <> None).
    { intros _. apply andb_false_iff in Hcond. destruct Hcond as [Hc|Hc].
      - left. apply N.ltb_ge in Hc. lia.
      - right. destruct (r_dict st); [discriminate|discriminate]. }
    assert (HJ : Jz' false ((dpart st ++ uout) ++ []) st).
    { rewrite app_nil_r. split; [exact He|]. split; [exact Hs|]. destruct HC as [[HN ->]|[HR _]].
      - left. destruct HN as (A1 & A2 & A3 & A4 & A5 & A6 & A7 & A8 & A9). unfold dpart. rewrite A9.
        repeat split; assumption.
      - now right. }
    pose proof (loop_inv_fz false n (dpart st ++ uout) fuel sched st [] false Hn ltac:(cbn; lia) ltac:(intros; discriminate) Hu HJ) as Hl.
    cbn [negb] in Hl.
    destruct (comp_loop_f' fuel sched true n st [] false) as [[[o| |] st2] s2]; try exact Hl.
    destruct Hl as ((He2 & Hs2 & HJ2) & Hd2 & Hf). split; [|exact Hf].
    split; [exact He2|]. split; [exact Hs2|].
    destruct HJ2 as [HN2|HR2].
    + left. destruct HN2 as (A1 & A2 & A3 & A4 & A5 & A6 & A7 & A8 & A9).
      apply app_eq_nil in A6. destruct A6 as [A6 ->]. apply app_eq_nil in A6. destruct A6 as [_ ->].
      split; [|reflexivity]. repeat split; assumption.
    + right. unfold dpart in *. rewrite Hd2. rewrite <- app_assoc in HR2. split; [exact HR2|]. now apply Hu.
Qed.

Lemma read_all_inv_fz fuel : forall sizes sched st acc out st' s',
  Forall (fun n => 0 < n) sizes -> CIz acc st ->
  read_all_f H zdecomp hd fuel sched st sizes acc = (out, Some true, st', s') -> CIz out st' /\ finished hd st'.
Proof.
  induction sizes as [|n sizes IH]; intros sched st acc out st' s' Hpos HC E; cbn [read_all_f] in E; [discriminate|].
  inversion Hpos as [|? ? Hn Hpos']; subst.
  pose proof (read_inv_fz fuel sched st n acc Hn HC) as Hr.
  destruct (zck_read_f H zdecomp hd fuel sched st n) as [[[o| |] st1] s1]; try discriminate.
  destruct Hr as [HC1 Hf]. destruct o as [|x o].
  - injection E as <- <- <-. rewrite app_nil_r in HC1. split; [exact HC1|]. apply Hf. cbn. exact Hn.
  - apply (IH s1 st1 (acc ++ x :: o) out st' s' Hpos' HC1 E).
Qed.

Theorem read_faults_zstd fuel sched sizes out st' s' st2 :
  Forall (fun n => 0 < n) sizes ->
  read_all_f H zdecomp hd fuel sched (open_state hd f) sizes [] = (out, Some true, st', s') ->
  zck_close H hd st' = (true, st2) ->
  spec_verify H hd f = true /\ spec_decode zdecomp hd f = Some out.
Proof.
  intros Hpos Er Hc.
  destruct (read_all_inv_fz fuel sizes _ _ _ _ _ _ Hpos (open_CI H zdecomp hd f) Er) as [HC Hf].
  exact (final_spec H zdecomp hd f Hstarts Hsizes Hz Hnonempty out st' st2 HC Hf Hc).
Qed.
End FZ.

Section FN.
Hypothesis Hn : is_zstd hd = false.
Notation RUNn' := (RUNn H zdecomp hd f).
Notation Jn' := (Jn H zdecomp hd f).

Lemma chunk_inv_fn o imp n del st out1 frd c next :
  0 < n -> r_err st = 0 -> r_started st = true -> RUNn' imp frd del st ->
  r_dc st = [] -> r_data st = [] -> r_idx st = c :: next ->
  (imp = true -> len del < n /\ n = first_ulen hd) ->
  match fst (step_chunk_f' o (negb imp) n st out1 frd) with
  | SCont st' out' frd' => out' = out1 /\ Jn' imp frd' del st' /\ r_dict st' = r_dict st
  | SDone (ROk _) _ => False
  | SDone (CompRead.RErr _) st' => 0 < r_err st'
  | SDone RFuel _ => True
  end.
Proof.
  intros Hpos He Hst HR Hdc Hdata Hidx Hil.
  destruct (N.eq_dec (r_loc st) (c_clen c)) as [Hend|Hmid].
  { rewrite step_chunk_f_noread by (rewrite Hidx; now left).
    exact (chunk_inv_n H zdecomp hd f Hstarts Hsizes Hn imp n del st out1 frd c next Hpos He Hst HR Hdc Hdata Hidx Hil). }
  destruct frd.
  { rewrite step_chunk_f_noread by (rewrite Hidx; now right).
    exact (chunk_inv_n H zdecomp hd f Hstarts Hsizes Hn imp n del st out1 true c next Hpos He Hst HR Hdc Hdata Hidx Hil). }
  destruct HR as (pre & Hck & Heof & Hver & Hpos' & Hloc & Hb & Hrest & Hch & Hfh & Hid & Himp).
  dst st. subst idx dc data err started. unfold cur_clen in *. rsimpl.
  destruct (chunk_sizes H zdecomp hd f Hstarts Hsizes pre c next Hck) as [Hlt Hstart].
  set (off := data_total pre) in *.
  rewrite app_nil_r in Hpos'.
  assert (Hld : len del = off + loc) by (rewrite Hpos', len_takeN; lia).
  unfold step_chunk_f. rsimpl.
  destruct (N.eqb_spec loc (c_clen c)) as [|_]; [contradiction|].
  set (rs := if c_clen c <? loc + n then u64 (c_clen c + two64 - loc) else n).
  assert (Hrs : 0 < rs /\ rs <= c_clen c - loc /\ rs = N.min n (c_clen c - loc)).
  { unfold rs. destruct (N.ltb_spec (c_clen c) (loc + n)).
    - assert (Hl : c_clen c < two64) by lia. unfold u64, two64 in *. lia.
    - lia. }
  destruct (read_cnt o rs) as [m|] eqn:Ecnt; [|cbn [fst]; rsimpl; lia].
  destruct (read_cnt_bounds o rs m ltac:(lia) Ecnt) as [Hm0 Hm1].
  cbv zeta. cbn [fst]. rsimpl. rewrite Hch.
  remember (takeN m rest) as src eqn:Esrc.
  assert (Hls : len src <= m /\ off + loc + len src <= len b /\ (len src < m -> len src < rs)).
  { subst src rest. rewrite len_takeN, len_dropN. lia. }
  assert (Hfin : src <> [] ->
            Jn' imp (len src <? rs) del (mkR (dropN m rest) ([] ++ src) (loc + len src) (c :: next) eof [] dcloc
                            (Some (sub b off loc ++ src))
                            (if uflag hd then fhash else Some (takeN (off + loc) b ++ src)) dict true 0)).
  { intros Hne. split; [reflexivity|]. split; [reflexivity|]. right. exists pre. rsimpl. unfold cur_clen. rsimpl. fold off.
    assert (E1 : dropN m rest = dropN (off + (loc + len src)) b).
    { subst src rest. rewrite dropN_extend. f_equal. lia. }
    assert (E2 : sub b off loc ++ src = sub b off (loc + len src)).
    { subst src rest. apply sub_extend. }
    assert (E3 : takeN (off + loc) b ++ src = takeN (off + (loc + len src)) b).
    { subst src rest. rewrite takeN_extend. f_equal. lia. }
    split; [exact Hck|]. split; [exact Heof|]. split; [exact Hver|].
    split; [rewrite Hpos'; exact E3|]. split; [lia|]. split; [lia|].
    split; [exact E1|]. split; [now rewrite E2|].
    split; [intros Huf; rewrite Huf; now rewrite E3|]. split; [intros; discriminate|].
    intros Hi. destruct (Himp Hi) as (Hdn & Hp & Hcase). split; [exact Hdn|]. split; [exact Hp|].
    destruct (Hil Hi) as [Hl1 Hl2]. subst pre. cbn in off. subst off.
    assert (Hsl : 0 < len src) by (destruct src; [congruence|rewrite len_cons; lia]).
    destruct (N.ltb_spec (len src) rs) as [Hsr|Hsr];
      destruct Hcase as [[Hc0 _]|[Hc1|[_ [_ [Hc2|Hc2]]]]]; try lia; try discriminate. }
  destruct src as [|x src'].
  { destruct (uflag hd); cbn [hash_update]; rsimpl; lia. }
  specialize (Hfin ltac:(discriminate)).
  destruct (uflag hd) eqn:Huf.
  + cbn [hash_update]. rsimpl. split; [reflexivity|]. split; [exact Hfin|reflexivity].
  + rewrite (Hfh eq_refl) in *. cbn [hash_update]. rsimpl. split; [reflexivity|]. split; [exact Hfin|reflexivity].
Qed.

Lemma step_inv_fn o imp n del0 st out frd :
  0 < n -> len out < n ->
  (imp = true -> n = first_ulen hd /\ del0 = []) ->
  Jn' imp frd (del0 ++ out) st ->
  match fst (comp_step_f' o (negb imp) n st out frd) with
  | SCont st' out' frd' => Jn' imp frd' (del0 ++ out') st' /\ len out' < n /\ r_dict st' = r_dict st
  | SDone (ROk o) st' => Jn' imp frd (del0 ++ o) st' /\ r_dict st' = r_dict st /\ (len o < n -> finished hd st')
  | SDone (CompRead.RErr _) st' => 0 < r_err st'
  | SDone RFuel _ => True
  end.
Proof.
  intros Hpos Hlo Hi HJ.
  unfold comp_step_f. cbv zeta.
  set (dl := N.min (n - len out) (len (r_dc st))).
  pose proof (Jn_take H zdecomp hd f imp frd (del0 ++ out) st dl (r_dcloc st + dl) HJ) as HJ1.
  rewrite <- app_assoc in HJ1.
  set (out1 := out ++ takeN dl (r_dc st)) in *.
  set (st1 := set_dc st (dropN dl (r_dc st)) (r_dcloc st + dl)) in *.
  assert (Hd1 : r_dict st1 = r_dict st) by reflexivity.
  assert (Hl1 : len out1 <= n).
  { unfold out1. rewrite len_app, len_takeN. fold dl. lia. }
  destruct (N.eqb_spec (len out1) n) as [Hfull|Hnf].
  { cbn [fst]. split; [exact HJ1|]. split; [exact Hd1|]. lia. }
  destruct (N.ltb_spec 0 dl) as [Hdl|Hdl].
  { cbn [fst]. split; [exact HJ1|]. split; [lia|exact Hd1]. }
  assert (Hdc : r_dc st = []).
  { apply len_0_nil. unfold dl in Hdl. lia. }
  assert (Hdc1 : r_dc st1 = []) by (unfold st1; rsimpl; rewrite Hdc; apply dropN_nil).
  destruct (r_eof st1) eqn:Heof1.
  { cbn [fst]. split; [exact HJ1|]. split; [exact Hd1|]. intros _. left. split; assumption. }
  rewrite <- Hd1.
  assert (Hil : imp = true -> len (del0 ++ out1) < n /\ n = first_ulen hd).
  { intros E. destruct (Hi E) as [-> ->]. cbn [app]. split; [lia|reflexivity]. }
  clearbody st1 out1. clear HJ Hdc Hd1 dl Hdl st.
  destruct (r_data st1) as [|x dat] eqn:Edata.
  2:{ (* buffered bytes are handed over to the decompressed side *)
    destruct HJ1 as (He & Hs & [HN|HR]).
    { destruct HN as (_ & _ & _ & A4 & _). congruence. }
    destruct HR as (pre & B1 & B2 & B3 & B4 & B5 & B6 & B7 & B8 & B9 & B10 & B11).
    dst st1. subst dc data eof err started.
    change (0 <? len (x :: dat)) with (0 <? N.of_nat (S (length dat))).
    destruct (N.ltb_spec 0 (N.of_nat (S (length dat)))) as [_|Hx]; [|lia].
    unfold decompress. rewrite (nozstd hd Hn). unfold set_data, add_to_dc, set_dc. rsimpl.
    assert (Hchg : negb (0 + len ([] ++ x :: dat) =? dcloc + len []) || negb (0 =? dcloc) = true).
    { destruct (N.eqb_spec 0 dcloc) as [<-|Hne]; [|apply orb_true_r]. cbn [negb orb]. rewrite orb_false_r.
      cbn [app]. rewrite len_cons. change (len []) with 0.
      destruct (N.eqb_spec (0 + (1 + len dat)) (0 + 0)); [lia|reflexivity]. }
    rewrite Hchg. cbn [fst]. rsimpl. split; [|split; [lia|reflexivity]].
    split; [reflexivity|]. split; [reflexivity|]. right. exists pre. unfold cur_clen in *. rsimpl.
    cbn [app] in B4 |- *. rewrite app_nil_r.
    split; [exact B1|]. split; [exact B2|]. split; [exact B3|]. split; [exact B4|]. split; [exact B5|].
    split; [exact B6|]. split; [exact B7|]. split; [exact B8|]. split; [exact B9|]. split; [reflexivity|].
    intros E. destruct (B11 E) as (D1 & D2 & D3). split; [exact D1|]. split; [exact D2|].
    cbn [app] in D3. exact D3. }
  change (0 <? len []) with false. cbv iota. rewrite !N.eqb_refl. cbn [negb orb].
  destruct HJ1 as (He & Hs & [HN|HR]).
  - (* not started: the first entry *)
    destruct HN as (A1 & A2 & A3 & A4 & A5 & A6 & A7 & A8 & A9).
    dst st1. subst idx eof loc data dc rest dict err started.
    unfold step_init. rsimpl.
    assert (Hex : exists c0 cs, h_chunks hd = c0 :: cs).
    { pose proof Hnonempty as Hq. destruct (h_chunks hd) as [|c0 cs]; [congruence|eauto]. }
    destruct Hex as (c0 & cs & Eck). rewrite Eck.
    apply app_eq_nil in A6. destruct A6 as [-> ->].
    change (0 <? 0) with false. cbv iota.
    destruct (chunk_sizes H zdecomp hd f Hstarts Hsizes [] c0 cs Eck) as [_ Hst0]. cbn in Hst0.
    fold (skip0 c0).
    remember (if skip0 c0 then cs else c0 :: cs) as idx0 eqn:Eidx.
    set (pre := if skip0 c0 then [c0] else []).
    unfold set_chash, set_idx. rsimpl.
    set (st3 := mkR b [] 0 idx0 false [] dcloc (Some []) fhash None true 0).
    destruct idx0 as [|c next].
    { unfold step_chunk_f. subst st3. rsimpl. cbn [fst].
      destruct (skip0 c0) eqn:Hsk; [|discriminate]. subst cs.
      split; [|split; [reflexivity|]].
      - split; [reflexivity|]. split; [reflexivity|]. left. repeat split; try reflexivity. exact A8.
      - intros _. right. exists c0. repeat split; reflexivity || assumption. }
    assert (HR : RUNn' imp frd [] st3).
    { exists pre. subst st3. rsimpl. unfold cur_clen. rsimpl.
      assert (Ht : data_total pre = 0).
      { unfold pre. destruct (skip0 c0) eqn:Hsk; [|reflexivity]. unfold skip0 in Hsk. apply andb_true_iff in Hsk.
        destruct Hsk as [Hc0 _]. apply N.eqb_eq in Hc0. cbn. lia. }
      rewrite Ht. cbn [N.add]. rewrite takeN_0.
      split. { rewrite Eidx, Eck. unfold pre. destruct (skip0 c0); reflexivity. }
      split. { split; discriminate. }
      split.
      { unfold pre. destruct (skip0 c0) eqn:Hsk; [|reflexivity]. cbn [ver]. unfold dec1. rewrite Hsk. cbn [andb].
        unfold chunk_ok. rewrite Hst0. unfold skip0 in Hsk. apply andb_true_iff in Hsk. destruct Hsk as [Hc0 Hu0].
        rewrite Hc0, Hu0. apply N.eqb_eq in Hc0. rewrite Hc0. cbn [N.add andb orb].
        destruct (N.leb_spec 0 (len b)); [reflexivity|lia]. }
      split; [reflexivity|]. split; [lia|]. split; [lia|]. split; [reflexivity|]. split; [reflexivity|].
      split; [exact A8|]. split; [intros; reflexivity|].
      intros E. split; [reflexivity|]. split.
      - unfold pre. destruct (skip0 c0) eqn:Hsk; [|reflexivity]. exfalso.
        unfold skip0 in Hsk. apply andb_true_iff in Hsk. destruct Hsk as [_ Hu0]. apply N.eqb_eq in Hu0.
        destruct (Hi E) as [Hn1 _]. unfold first_ulen in Hn1. rewrite Eck in Hn1. lia.
      - left. split; reflexivity. }
    pose proof (chunk_inv_fn o imp n [] st3 [] frd c next Hpos eq_refl eq_refl HR eq_refl eq_refl eq_refl) as Hc.
    cbn [app] in Hil. specialize (Hc Hil).
    destruct (fst (step_chunk_f' o (negb imp) n st3 [] frd)) as [st' out' frd'|[o'| |] st']; try exact Hc.
    + destruct Hc as (-> & Hc1 & Hc2). split; [exact Hc1|]. split; [lia|exact Hc2].
    + contradiction.
  - (* running *)
    assert (Hcopy := HR).
    destruct HR as (pre & B1 & B2 & _).
    destruct (r_idx st1) as [|c next] eqn:Eidx.
    { destruct B2 as [_ B2]. rewrite (B2 eq_refl) in Heof1. discriminate. }
    unfold step_init. rewrite Eidx.
    pose proof (chunk_inv_fn o imp n (del0 ++ out1) st1 out1 frd c next Hpos He Hs Hcopy Hdc1 Edata Eidx Hil) as Hc.
    destruct (fst (step_chunk_f' o (negb imp) n st1 out1 frd)) as [st' out' frd'|[o'| |] st']; try exact Hc.
    + destruct Hc as (-> & Hc1 & Hc2). split; [exact Hc1|]. split; [lia|exact Hc2].
    + contradiction.
Qed.
Lemma loop_inv_fn imp n del0 fuel : forall sched st out frd,
  0 < n -> len out < n ->
  (imp = true -> n = first_ulen hd /\ del0 = []) ->
  Jn' imp frd (del0 ++ out) st ->
  match comp_loop_f' fuel sched (negb imp) n st out frd with
  | (ROk o, st', _) => (exists frd', Jn' imp frd' (del0 ++ o) st') /\ r_dict st' = r_dict st /\ (len o < n -> finished hd st')
  | (CompRead.RErr _, st', _) => 0 < r_err st'
  | (RFuel, _, _) => True
  end.
Proof.
  induction fuel as [|fuel IH]; intros sched st out frd Hpos Hlo Hi HJ; cbn [comp_loop_f]; [exact I|].
  pose proof (step_inv_fn (hd_error sched) imp n del0 st out frd Hpos Hlo Hi HJ) as Hs.
  destruct (comp_step_f' (hd_error sched) (negb imp) n st out frd) as [[st' out' frd'|[o| |] st'] used]; cbn [fst] in Hs; try exact Hs.
  - destruct Hs as (HJ' & Hlo' & Hd').
    pose proof (IH (sched_next sched used) st' out' frd' Hpos Hlo' Hi HJ') as Hr.
    destruct (comp_loop_f' fuel (sched_next sched used) (negb imp) n st' out' frd') as [[[o| |] st''] s'']; try exact Hr.
    destruct Hr as (R1 & R2 & R3). split; [exact R1|]. split; [congruence|exact R3].
  - destruct Hs as (R1 & R2 & R3). split; [now exists frd|]. split; assumption.
Qed.

Notation CIn' := (CIn H zdecomp hd f).

Lemma import_inv_fn fuel sched st :
  r_err st = 0 -> r_started st = true -> NS hd f [] st -> 0 < first_ulen hd ->
  match import_dict_f H zdecomp hd fuel sched st with
  | (true, st', _) => exists d, r_dict st' = Some d /\ len d = first_ulen hd /\ RUNn' false false d st' /\
                             r_err st' = 0 /\ r_started st' = true
  | (false, st', _) => 0 < r_err st'
  end.
Proof.
  intros He Hs HN Hfu. unfold import_dict_f. rewrite He. change (0 <? 0) with false. cbv iota.
  destruct (N.eqb_spec (first_ulen hd) 0) as [E|_]; [lia|].
  unfold comp_read_nd_f. rewrite He, Hs. change (0 <? 0) with false. cbn [negb]. cbv iota.
  destruct (N.eqb_spec (first_ulen hd) 0) as [E|_]; [lia|].
  assert (HJ : Jn' true false ([] ++ []) st) by (split; [exact He|split; [exact Hs|now left]]).
  pose proof (loop_inv_fn true (first_ulen hd) [] fuel sched st [] false Hfu ltac:(cbn; lia) ltac:(intros _; split; reflexivity) HJ) as Hl.
  cbn [negb] in Hl.
  destruct (comp_loop_f' fuel sched false (first_ulen hd) st [] false) as [[[d| |] st1] s1]; rsimpl; try lia.
  destruct Hl as ((frd' & HJ1) & Hd1 & _). cbn [app] in HJ1.
  destruct (N.eqb_spec (len d) (first_ulen hd)) as [Hld|Hld]; [|rsimpl; lia].
  destruct HJ1 as (He1 & Hs1 & [HN1|HR1]).
  { destruct HN1 as (_ & _ & _ & _ & _ & Hd0 & _). subst d. cbn in Hld. lia. }
  unfold comp_reset, comp_init. rsimpl. rewrite He1. change (0 <? 0) with false. cbv iota. rsimpl.
  rewrite He1. change (0 <? 0) with false. cbv iota.
  exists d. rsimpl. split; [reflexivity|]. split; [exact Hld|]. split; [|split; reflexivity].
  destruct HR1 as (pre & B1 & B2 & B3 & B4 & B5 & B6 & B7 & B8 & B9 & B10 & B11).
  destruct (B11 eq_refl) as (Hdn & -> & Hcase). cbn [data_total fold_right] in *. rewrite N.add_0_l in *.
  assert (Htot : len (d ++ r_dc st1 ++ r_data st1) = r_loc st1) by (rewrite B4, len_takeN; lia).
  rewrite !len_app in Htot.
  assert (Hbuf : r_dc st1 = [] /\ r_data st1 = []).
  { destruct Hcase as [[Hc0 _]|[Hc1|[Hc2 _]]]; try lia.
    split; apply len_0_nil; lia. }
  destruct Hbuf as [Hdc Hdat].
  exists []. dst st1. unfold cur_clen in *. rsimpl. subst dc data. cbn [data_total fold_right]. rewrite !N.add_0_l.
  split; [exact B1|]. split; [exact B2|]. split; [exact B3|]. split; [exact B4|]. split; [exact B5|].
  split; [exact B6|]. split; [exact B7|]. split; [exact B8|]. split; [exact B9|]. split; [reflexivity|].
  intros; discriminate.
Qed.

Lemma read_inv_fn fuel sched st n uout :
  0 < n -> CIn' uout st ->
  match zck_read_f H zdecomp hd fuel sched st n with
  | (ROk o, st', _) => CIn' (uout ++ o) st' /\ (len o < n -> finished hd st')
  | (CompRead.RErr _, st', _) => 0 < r_err st'
  | (RFuel, _, _) => True
  end.
Proof.
  intros Hpos (He & Hs & HC). unfold zck_read_f. rewrite He, Hs. change (0 <? 0) with false. cbn [negb]. cbv iota.
  destruct (N.eqb_spec n 0) as [E|_]; [lia|].
  destruct ((0 <? first_ulen hd) && match r_dict st with None => true | Some _ => false end) eqn:Hcond.
  - apply andb_true_iff in Hcond. destruct Hcond as [Hfu Hdn]. apply N.ltb_lt in Hfu.
    destruct (r_dict st) eqn:Ed; [discriminate|].
    destruct HC as [[HN ->]|[_ Hc]].
    2:{ unfold dpart in Hc. rewrite Ed in Hc. cbn in Hc. lia. }
    pose proof (import_inv_fn fuel sched st He Hs HN Hfu) as Hi.
    destruct (import_dict_f H zdecomp hd fuel sched st) as [[[|] st1] s1]; [|exact Hi].
    destruct Hi as (d & Hd & Hld & HR & He1 & Hs1).
    assert (HJ : Jn' false false (d ++ []) st1) by (rewrite app_nil_r; split; [exact He1|split; [exact Hs1|now right]]).
    pose proof (loop_inv_fn false n d fuel s1 st1 [] false Hpos ltac:(cbn; lia) ltac:(intros; discriminate) HJ) as Hl.
    cbn [negb] in Hl.
    destruct (comp_loop_f' fuel s1 true n st1 [] false) as [[[o| |] st2] s2]; try exact Hl.
    destruct Hl as ((frd' & He2 & Hs2 & HJ2) & Hd2 & Hf). split; [|exact Hf].
    split; [exact He2|]. split; [exact Hs2|]. right.
    destruct HJ2 as [HN2|HR2].
    { destruct HN2 as (_ & _ & _ & _ & _ & _ & _ & _ & Hx). congruence. }
    unfold dpart. rewrite Hd2, Hd. cbn [app]. split; [exact (RUNn_user H zdecomp hd f _ _ _ _ HR2)|exact Hld].
  - assert (HJ : Jn' false false ((dpart st ++ uout) ++ []) st).
    { rewrite app_nil_r. split; [exact He|]. split; [exact Hs|]. destruct HC as [[HN ->]|[HR _]].
      - left. destruct HN as (A1 & A2 & A3 & A4 & A5 & A6 & A7 & A8 & A9). unfold dpart. rewrite A9.
        repeat split; assumption.
      - now right. }
    pose proof (loop_inv_fn false n (dpart st ++ uout) fuel sched st [] false Hpos ltac:(cbn; lia) ltac:(intros; discriminate) HJ) as Hl.
    cbn [negb] in Hl.
    destruct (comp_loop_f' fuel sched true n st [] false) as [[[o| |] st2] s2]; try exact Hl.
    destruct Hl as ((frd' & He2 & Hs2 & HJ2) & Hd2 & Hf). split; [|exact Hf].
    split; [exact He2|]. split; [exact Hs2|].
    destruct HJ2 as [HN2|HR2].
    + left. destruct HN2 as (A1 & A2 & A3 & A4 & A5 & A6 & A7 & A8 & A9).
      apply app_eq_nil in A6. destruct A6 as [A6 ->]. apply app_eq_nil in A6. destruct A6 as [_ ->].
      split; [|reflexivity]. repeat split; assumption.
    + right. unfold dpart in *. rewrite Hd2. rewrite <- app_assoc in HR2. split; [exact (RUNn_user H zdecomp hd f _ _ _ _ HR2)|].
      destruct HC as [[HN ->]|[_ Hc]]; [|exact Hc].
      destruct HN as (_ & _ & _ & _ & _ & _ & _ & _ & A9). rewrite A9 in *. cbn.
      apply andb_false_iff in Hcond. destruct Hcond as [Hc|Hc]; [apply N.ltb_ge in Hc; lia|discriminate].
Qed.

Lemma read_all_inv_fn fuel : forall sizes sched st acc out st' s',
  Forall (fun n => 0 < n) sizes -> CIn' acc st ->
  read_all_f H zdecomp hd fuel sched st sizes acc = (out, Some true, st', s') -> CIn' out st' /\ finished hd st'.
Proof.
  induction sizes as [|n sizes IH]; intros sched st acc out st' s' Hpos HC E; cbn [read_all_f] in E; [discriminate|].
  inversion Hpos as [|? ? Hn0 Hpos']; subst.
  pose proof (read_inv_fn fuel sched st n acc Hn0 HC) as Hr.
  destruct (zck_read_f H zdecomp hd fuel sched st n) as [[[o| |] st1] s1]; try discriminate.
  destruct Hr as [HC1 Hf]. destruct o as [|x o].
  - injection E as <- <- <-. rewrite app_nil_r in HC1. split; [exact HC1|]. apply Hf. cbn. exact Hn0.
  - apply (IH s1 st1 (acc ++ x :: o) out st' s' Hpos' HC1 E).
Qed.

Theorem read_faults_nocomp fuel sched sizes out st' s' st2 :
  Forall (fun n => 0 < n) sizes ->
  read_all_f H zdecomp hd fuel sched (open_state hd f) sizes [] = (out, Some true, st', s') ->
  zck_close H hd st' = (true, st2) ->
  spec_verify H hd f = true /\ spec_decode zdecomp hd f = Some out.
Proof.
  intros Hpos Er Hc.
  destruct (read_all_inv_fn fuel sizes _ _ _ _ _ _ Hpos (open_CIn H zdecomp hd f) Er) as [HC Hf].
  exact (final_spec_n H zdecomp hd f Hstarts Hsizes Hn Hnonempty out st' st2 HC Hf Hc).
Qed.
End FN.
End FProofs.

(** ** T12.2 (reader): for EVERY schedule of read(2) outcomes - short counts and errors at
    any calls -, every file, hash, decoder, buffer-size sequence and fuel: if reading until a
    call returns 0 and zck_close all succeed, then the specification verifies the file and the
    bytes handed out are spec_decode, i.e. exactly what the fault-free run delivers
    (C02_read_close_success_is_verified_content / read_complete). *)
Theorem read_faults H zdecomp hd f fuel sched sizes out st' s' st2 :
  starts_ok 0 (h_chunks hd) -> data_total (h_chunks hd) < two64 -> h_chunks hd <> [] ->
  Forall (fun n => 0 < n) sizes ->
  read_all_f H zdecomp hd fuel sched (open_state hd f) sizes [] = (out, Some true, st', s') ->
  zck_close H hd st' = (true, st2) ->
  spec_verify H hd f = true /\ spec_decode zdecomp hd f = Some out.
Proof.
  intros A B C. destruct (is_zstd hd) eqn:Hz.
  - exact (read_faults_zstd H zdecomp hd f A B C Hz fuel sched sizes out st' s' st2).
  - exact (read_faults_nocomp H zdecomp hd f A B C Hz fuel sched sizes out st' s' st2).
Qed.

(** the empty schedule is the fault-free reader *)
Lemma comp_step_f_nofault H zdecomp hd ud n st out frd :
  fst (comp_step_f H zdecomp hd None ud n st out frd) = comp_step H zdecomp hd ud n st out frd.
Proof.
  unfold comp_step_f, comp_step. cbv zeta.
  destruct (len (out ++ takeN (N.min (n - len out) (len (r_dc st))) (r_dc st)) =? n); [reflexivity|].
  destruct (0 <? N.min (n - len out) (len (r_dc st))); [reflexivity|].
  match goal with |- context [if r_eof ?s then _ else _] => destruct (r_eof s); [reflexivity|] end.
  match goal with |- context [if ?c then (SCont _ _ _, false) else _] => destruct c; [reflexivity|] end.
  match goal with |- context [step_init hd ?s] => destruct (step_init hd s) as [st3|ste]; [apply step_chunk_f_nofault|reflexivity] end.
Qed.

Lemma comp_loop_f_nil H zdecomp hd fuel : forall ud n st out frd,
  comp_loop_f H zdecomp hd fuel [] ud n st out frd =
  (let (r, st') := comp_loop H zdecomp hd fuel ud n st out frd in (r, st', [])).
Proof.
  induction fuel as [|fuel IH]; intros ud n st out frd; cbn [comp_loop_f comp_loop hd_error]; [reflexivity|].
  pose proof (comp_step_f_nofault H zdecomp hd ud n st out frd) as E.
  destruct (comp_step_f H zdecomp hd None ud n st out frd) as [r used]. cbn [fst] in E. subst r.
  assert (Hs : sched_next [] used = []) by (destruct used; reflexivity). rewrite Hs.
  destruct (comp_step H zdecomp hd ud n st out frd) as [st' out' frd'|r st'].
  - apply IH.
  - reflexivity.
Qed.

Lemma import_dict_f_nil H zdecomp hd fuel st :
  import_dict_f H zdecomp hd fuel [] st = (let (bb, st') := import_dict H zdecomp hd fuel st in (bb, st', [])).
Proof.
  unfold import_dict_f, import_dict, comp_read_nd_f, comp_read_nd.
  destruct (0 <? r_err st); [reflexivity|]. destruct (first_ulen hd =? 0); [reflexivity|].
  destruct (negb (r_started st)); [reflexivity|].
  rewrite comp_loop_f_nil.
  destruct (comp_loop H zdecomp hd fuel false (first_ulen hd) st [] false) as [[d| |] st1]; try reflexivity.
  destruct (len d =? first_ulen hd); [|reflexivity]. destruct (0 <? r_err (comp_reset st1)); [reflexivity|].
  destruct (comp_init (set_dict (comp_reset st1) (Some d))); reflexivity.
Qed.

Lemma zck_read_f_nil H zdecomp hd fuel st n :
  zck_read_f H zdecomp hd fuel [] st n = (let (r, st') := zck_read H zdecomp hd fuel st n in (r, st', [])).
Proof.
  unfold zck_read_f, zck_read, comp_read.
  destruct (0 <? r_err st); [reflexivity|]. destruct (negb (r_started st)); [reflexivity|].
  destruct (n =? 0); [reflexivity|]. cbn [andb].
  destruct ((0 <? first_ulen hd) && match r_dict st with None => true | Some _ => false end).
  - rewrite import_dict_f_nil. destruct (import_dict H zdecomp hd fuel st) as [[|] st1]; [apply comp_loop_f_nil|reflexivity].
  - apply comp_loop_f_nil.
Qed.

Lemma read_all_f_nil H zdecomp hd fuel : forall sizes st acc,
  read_all_f H zdecomp hd fuel [] st sizes acc =
  (let '(out, e, st') := read_all H zdecomp hd fuel st sizes acc in (out, e, st', [])).
Proof.
  induction sizes as [|n sizes IH]; intros st acc; cbn [read_all_f read_all]; [reflexivity|].
  rewrite zck_read_f_nil. destruct (zck_read H zdecomp hd fuel st n) as [[[|x o]| |] st1]; try reflexivity. apply IH.
Qed.
