(** C12: proofs about the scan with the proposed re-seek fix (Io/ScanReseek.v): with it the
    flags are sound under EVERY schedule. *)
From ZV Require Import Base.Bytes Gen.GenConsts Format.Header Format.ParseProofs Read.Scan Read.ScanProofs
                       Io.Faults Io.ScanFaults Io.ScanFaultsProofs Io.ScanReseek.
Local Open Scope N_scope.

Lemma nth_error_tl {A} (l : list A) i : nth_error (tl l) i = nth_error l (S i).
Proof. destruct l; [destruct i; reflexivity|reflexivity]. Qed.

Lemma seek_f_moved e ss mv k e' : seek_f e ss = (true, mv, k, e') -> e' = false -> mv = true.
Proof.
  unfold seek_f. destruct e; [intros E; inversion E; congruence|].
  destruct ss as [|[|] ss']; intros E; inversion E; congruence.
Qed.

Lemma seek_f_nogo e ss mv k e' : seek_f e ss = (false, mv, k, e') -> e' = true.
Proof.
  unfold seek_f. destruct e; [intros E; inversion E|].
  destruct ss as [|[|] ss']; intros E; inversion E; reflexivity.
Qed.

Section Proofs.
Variable H : N -> bytes -> bytes.

Section Loop.
Variable h : header.
Variable f : bytes.
Let doff := data_offset h.

Lemma scan_loop_r_good_mono : forall cs first fl rest facc good ch rs ss err fl' rest' facc' good' ch' rs' ss' err' ab,
  scan_loop_r H h f first cs fl rest facc good ch rs ss err = Some (fl', rest', facc', good', ch', rs', ss', err', ab) ->
  good' = true -> good = true.
Proof.
  induction cs as [|c cs IH]; intros first fl rest facc good ch rs ss err fl' rest' facc' good' ch' rs' ss' err' ab E Hg;
    cbn [scan_loop_r] in E.
  - injection E as <- <- <- <- <- <- <- <- <-. exact Hg.
  - destruct (first && (c_ulen c =? 0) && (c_clen c =? 0)).
    + destruct (h_detached h); [injection E as <- <- <- <- <- <- <- <- <-; exact Hg|].
      destruct (scan_loop_r H h f false cs _ _ _ _ _ _ _ _) as [[[[[[[[[r a] b] g] s] q] k] e] ab0]|] eqn:El; [|discriminate].
      injection E as <- <- <- <- <- <- <- <- <-. exact (IH _ _ _ _ _ _ _ _ _ _ _ _ _ _ _ _ _ _ El Hg).
    + destruct (rd_blocks_f _ _ _ _ _ _ _ _) as [[[[[[cp r1] ca] fa] rs1] e1]|]; [|discriminate].
      destruct cp; [|destruct cs as [|c2 cs2]; [|destruct (seek_f e1 ss) as [[[go mv] k1] e2]; destruct go]];
        cbn [negb] in E;
        try (injection E as <- <- <- <- <- <- <- <- <-; apply andb_prop in Hg; apply Hg);
        (destruct (h_detached h); [injection E as <- <- <- <- <- <- <- <- <-; apply andb_prop in Hg; apply Hg|]);
        (destruct (scan_loop_r H h f false _ _ _ _ _ _ _ _ _) as [[[[[[[[[r a] b] g] s] q] k] e] ab0]|] eqn:El; [|discriminate]);
        injection E as <- <- <- <- <- <- <- <- <-;
        pose proof (IH _ _ _ _ _ _ _ _ _ _ _ _ _ _ _ _ _ _ El Hg) as Hg'; apply andb_prop in Hg'; apply Hg'.
Qed.

Lemma scan_loop_r_good : forall cs first fl rest facc good ch rs ss start fl' rest' facc' good' ch' rs' ss' err' ab,
  h_detached h = false ->
  starts_ok start cs ->
  rest = skipn (N.to_nat (doff + start)) f ->
  (good = true -> uflag h = false -> facc = sub f doff start) ->
  scan_loop_r H h f first cs fl rest facc good ch rs ss false = Some (fl', rest', facc', good', ch', rs', ss', err', ab) ->
  good' = true ->
  fl' = map flag_of (classify H h f first cs) /\ all_true (classify H h f first cs) = true /\
  err' = false /\ ab = false /\ ss' = ss /\ (uflag h = false -> facc' = sub f doff (start + data_total cs)).
Proof.
  induction cs as [|c cs IH]; intros first fl rest facc good ch rs ss start fl' rest' facc' good' ch' rs' ss' err' ab
                                     Hd Hst Hrest Hacc E Hg.
  - cbn [scan_loop_r] in E. injection E as <- <- <- <- <- <- <- <- <-.
    cbn [classify map all_true forallb data_total fold_right]. rewrite N.add_0_r.
    repeat split; try reflexivity. intros Hu. exact (Hacc Hg Hu).
  - cbn [starts_ok] in Hst. destruct Hst as [Hcs Hst].
    cbn [scan_loop_r] in E. cbn [classify map data_total fold_right].
    change (fold_right (fun c a => c_clen c + a) 0 cs) with (data_total cs).
    unfold chunk_good. fold (empty_first first c) in E |- *. rewrite Hd in E.
    destruct (empty_first first c) eqn:Eef.
    + unfold empty_first in Eef. apply andb_prop in Eef. destruct Eef as [_ E2]. apply N.eqb_eq in E2.
      destruct (scan_loop_r H h f false cs _ _ _ _ _ _ _ _) as [[[[[[[[[r a] b] g] s] q] k] e] ab0]|] eqn:El; [|discriminate].
      injection E as <- <- <- <- <- <- <- <- <-.
      rewrite E2 in Hst. rewrite N.add_0_r in Hst.
      destruct (IH false (tl fl) rest facc good ch rs ss start _ _ _ _ _ _ _ _ _ Hd Hst Hrest Hacc El Hg) as (I1 & I2 & I3 & I4 & I5 & I6).
      cbn [orb flag_of all_true forallb andb]. rewrite E2, N.add_0_l.
      split; [rewrite I1; reflexivity|]. auto.
    + cbn [orb].
      destruct (rd_blocks_f _ _ _ _ _ _ _ _) as [[[[[[cp r1] ca] fa] rs1] e1]|] eqn:Er; [|discriminate].
      destruct cp.
      * cbn [negb] in E.
        destruct (scan_loop_r H h f false cs _ _ _ _ _ _ _ _) as [[[[[[[[[r a] b] g] s] q] k] e] ab0]|] eqn:El; [|discriminate].
        injection E as <- <- <- <- <- <- <- <- <-.
        pose proof (scan_loop_r_good_mono _ _ _ _ _ _ _ _ _ _ _ _ _ _ _ _ _ _ _ El Hg) as Hg1.
        apply andb_prop in Hg1. destruct Hg1 as [Hgood Hv]. apply Z.eqb_eq in Hv.
        destruct (rd_f_complete H _ _ _ _ _ _ _ _ _ _ _ _ Er) as (R1 & R2 & R3 & R4 & R5). subst e1.
        cbn [app] in R3.
        assert (Hlr : len rest = len f - (doff + start)) by (rewrite Hrest, len_skipn; lia).
        assert (Hstored : ca = stored h f c).
        { rewrite R3. unfold stored, sub. rewrite Hcs, Hrest. reflexivity. }
        assert (Hpres : present h f c = true).
        { unfold present. destruct (c_clen c =? 0) eqn:E0; [reflexivity|]. apply N.eqb_neq in E0.
          cbn [orb]. apply N.leb_le. rewrite Hcs. fold doff. lia. }
        pose proof Hv as Hv0.
        unfold validate_chunk_f in Hv. rewrite Hstored, validate_chunk_spec in Hv.
        destruct (digest_ok H h c (stored h f c)) eqn:Edo; [|discriminate Hv].
        rewrite Hpres, Hv0. cbn [andb flag_of all_true forallb].
        assert (Hr' : r1 = skipn (N.to_nat (doff + (start + c_clen c))) f).
        { rewrite R2, Hrest, skipn_add. f_equal. lia. }
        assert (Hacc' : good && (validate_chunk_f H false (h_chash h) c ca =? 1)%Z = true -> uflag h = false ->
                        fa = sub f doff (start + c_clen c)).
        { intros _ Hu. rewrite R4, Hu. cbn [negb]. rewrite (Hacc Hgood Hu), <- R3, Hstored.
          unfold stored. rewrite Hcs. fold doff. apply (sub_app H). }
        destruct (IH false (tl fl) r1 fa _ _ rs1 ss (start + c_clen c) _ _ _ _ _ _ _ _ _ Hd Hst Hr' Hacc' El Hg) as (I1 & I2 & I3 & I4 & I5 & I6).
        split; [rewrite I1; reflexivity|]. split; [exact I2|]. split; [exact I3|]. split; [exact I4|].
        split; [exact I5|]. rewrite N.add_assoc. exact I6.
      * (* an incomplete chunk is failed: all_good is lost *)
        exfalso. change ((-1 =? 1)%Z) with false in E. rewrite andb_false_r in E.
        destruct cs as [|c2 cs2]; [|destruct (seek_f e1 ss) as [[[go mv] k1] e2]; destruct go]; cbn [negb] in E;
          try (injection E as <- <- <- <- <- <- <- <- <-; discriminate Hg);
          (destruct (scan_loop_r H h f false _ _ _ _ _ _ _ _ _) as [[[[[[[[[r a] b] g] s] q] k] e] ab0]|] eqn:El; [|discriminate]);
          injection E as <- <- <- <- <- <- <- <- <-;
          pose proof (scan_loop_r_good_mono _ _ _ _ _ _ _ _ _ _ _ _ _ _ _ _ _ _ _ El Hg); discriminate.
Qed.

(** EVERY schedule: a flag 1 in the result is deserved or is an old, untouched flag *)
Lemma scan_loop_r_sound : forall cs first fl rest facc good ch rs ss err start fl' rest' facc' good' ch' rs' ss' err' ab,
  h_detached h = false ->
  starts_ok start cs ->
  (err = false -> rest = skipn (N.to_nat (doff + start)) f) ->
  scan_loop_r H h f first cs fl rest facc good ch rs ss err = Some (fl', rest', facc', good', ch', rs', ss', err', ab) ->
  forall i c, nth_error cs i = Some c -> nth_error fl' i = Some 1%Z ->
              nth_error fl i = Some 1%Z \/ chunk_good H h f (first && (i =? 0)%nat) c = true.
Proof.
  induction cs as [|c cs IH]; intros first fl rest facc good ch rs ss err start fl' rest' facc' good' ch' rs' ss' err' ab
                                     Hd Hst Hrest E i c0 Ei Hi; [destruct i; discriminate|].
  cbn [starts_ok] in Hst. destruct Hst as [Hcs Hst].
  cbn [scan_loop_r] in E. fold (empty_first first c) in E. rewrite Hd in E.
  destruct (empty_first first c) eqn:Eef.
  - destruct (scan_loop_r H h f false cs _ _ _ _ _ _ _ _) as [[[[[[[[[r a] b] g] s] q] k] e] ab0]|] eqn:El; [|discriminate].
    injection E as <- <- <- <- <- <- <- <- <-.
    pose proof Eef as Eef'. unfold empty_first in Eef'. apply andb_prop in Eef'. destruct Eef' as [Ef E2].
    apply andb_prop in Ef. destruct Ef as [Ef _]. apply N.eqb_eq in E2.
    destruct i as [|i]; cbn [nth_error] in Ei, Hi.
    + right. injection Ei as <-. subst first. cbn [andb Nat.eqb]. unfold chunk_good. rewrite Eef. reflexivity.
    + cbn [Nat.eqb]. rewrite andb_false_r. rewrite <- nth_error_tl.
      rewrite E2, N.add_0_r in Hst.
      apply (IH _ _ _ _ _ _ _ _ _ _ _ _ _ _ _ _ _ _ _ Hd Hst Hrest El i c0 Ei Hi).
  - destruct (rd_blocks_f _ _ _ _ _ _ _ _) as [[[[[[cp r1] ca] fa] rs1] e1]|] eqn:Er; [|discriminate].
    destruct cp.
    + (* complete *)
      cbn [negb] in E.
      destruct (scan_loop_r H h f false cs _ _ _ _ _ _ _ _) as [[[[[[[[[r a] b] g] s] q] k] e] ab0]|] eqn:El; [|discriminate].
      injection E as <- <- <- <- <- <- <- <- <-.
      destruct err.
      * destruct (rd_f_in_error _ _ _ _ _ _ _ _ _ _ _ _ _ Er) as (-> & -> & -> & Hc).
        destruct i as [|i]; cbn [nth_error] in Ei, Hi.
        -- injection Hi as Hv. cbn in Hv. discriminate Hv.
        -- cbn [Nat.eqb]. rewrite andb_false_r. rewrite <- nth_error_tl.
           refine (IH _ _ _ _ _ _ _ _ _ (start + c_clen c) _ _ _ _ _ _ _ _ _ Hd Hst _ El i c0 Ei Hi). discriminate.
      * specialize (Hrest eq_refl).
        destruct (rd_f_complete H _ _ _ _ _ _ _ _ _ _ _ _ Er) as (R1 & R2 & R3 & R4 & R5). subst e1.
        assert (Hlr : len rest = len f - (doff + start)) by (rewrite Hrest, len_skipn; lia).
        destruct i as [|i]; cbn [nth_error] in Ei, Hi.
        -- right. injection Ei as <-. injection Hi as Hv. rewrite andb_true_r.
           cbn [app] in R3. unfold validate_chunk_f in Hv.
           assert (Hstored : ca = stored h f c) by (rewrite R3; unfold stored, sub; rewrite Hcs, Hrest; reflexivity).
           rewrite Hstored, validate_chunk_spec in Hv.
           destruct (digest_ok H h c (stored h f c)) eqn:Edo; [|discriminate Hv].
           unfold chunk_good. rewrite Edo, andb_true_r.
           replace (present h f c) with true; [apply orb_true_r|]. symmetry.
           unfold present. destruct (c_clen c =? 0) eqn:E0; [reflexivity|]. apply N.eqb_neq in E0.
           cbn [orb]. apply N.leb_le. rewrite Hcs. fold doff. lia.
        -- cbn [Nat.eqb]. rewrite andb_false_r. rewrite <- nth_error_tl.
           refine (IH _ _ _ _ _ _ _ _ _ (start + c_clen c) _ _ _ _ _ _ _ _ _ Hd Hst _ El i c0 Ei Hi).
           intros _. rewrite R2, Hrest, skipn_add. f_equal. lia.
    + (* incomplete: failed; re-seek when there is a next chunk *)
      destruct cs as [|c2 cs2].
      * cbn [negb scan_loop_r] in E. injection E as <- <- <- <- <- <- <- <- <-.
        destruct i as [|i]; cbn [nth_error] in Ei, Hi; [discriminate Hi|destruct i; discriminate Ei].
      * destruct (seek_f e1 ss) as [[[go mv] k1] e2] eqn:Es. destruct go.
        -- cbn [negb] in E.
           destruct (scan_loop_r H h f false (c2 :: cs2) _ _ _ _ _ _ _ _) as [[[[[[[[[r a] b] g] s] q] k] e] ab0]|] eqn:El; [|discriminate].
           injection E as <- <- <- <- <- <- <- <- <-.
           destruct i as [|i]; cbn [nth_error] in Ei, Hi; [discriminate Hi|].
           cbn [Nat.eqb]. rewrite andb_false_r. rewrite <- nth_error_tl.
           refine (IH _ _ _ _ _ _ _ _ _ (start + c_clen c) _ _ _ _ _ _ _ _ _ Hd Hst _ El i c0 Ei Hi).
           intros He2. rewrite (seek_f_moved _ _ _ _ _ Es He2).
           cbn [starts_ok] in Hst. destruct Hst as [Hc2 _]. rewrite Hc2. reflexivity.
        -- cbn [negb] in E. injection E as <- <- <- <- <- <- <- <- <-.
           destruct i as [|i]; cbn [nth_error] in Ei, Hi; [discriminate Hi|].
           left. rewrite <- nth_error_tl. exact Hi.
Qed.
End Loop.

(** * Theorems for the fixed scan *)
Theorem scan_r_success_full h f fl st rs ss err r :
  scan_wf h f -> h_detached h = false ->
  validate_checksums_r H h f fl st rs ss err = Some r -> s_ret (f_res r) = 1%Z ->
  expected_ret H h f = 1%Z /\ s_flags (f_res r) = expected_flags H h f /\ f_err r = false.
Proof.
  intros (H0 & Hle & Hst) Hd E Hret. unfold validate_checksums_r in E.
  destruct err; [injection E as <-; discriminate Hret|].
  replace (data_offset h =? 0) with false in E by (symmetry; apply N.eqb_neq; exact H0).
  destruct (seek_f false ss) as [[[go mv] ss1] e1] eqn:Es.
  destruct go; [|injection E as <-; discriminate Hret].
  destruct (scan_loop_r H h f true (h_chunks h) fl _ [] true (r_chunk st) rs ss1 false)
    as [[[[[[[[[fl1 r1] facc] good] ch] rs1] ss2] err1] ab]|] eqn:El; [|discriminate].
  destruct ab; [injection E as <-; discriminate Hret|].
  rewrite Hd, orb_false_r in E.
  assert (Hgood : good = true).
  { destruct good; [reflexivity|]. destruct (uflag h).
    - destruct (seek_f err1 ss2) as [[[g2 m2] s2] e2]; destruct g2; injection E as <-; discriminate Hret.
    - destruct (seek_f err1 ss2) as [[[g2 m2] s2] e2]; destruct g2; injection E as <-; discriminate Hret. }
  subst good.
  pose proof (scan_loop_r_good h f (h_chunks h) true fl (skipn (N.to_nat (data_offset h)) f) [] true (r_chunk st) rs ss1 0
                fl1 r1 facc true ch rs1 ss2 err1 false Hd Hst) as L.
  rewrite N.add_0_r in L. specialize (L eq_refl (fun _ _ => eq_refl) El eq_refl).
  destruct L as (L1 & L2 & L3 & _ & _ & L4). subst err1. rewrite N.add_0_l in L4.
  unfold expected_ret, expected_flags. rewrite L2. cbn [andb].
  destruct (uflag h) eqn:Eu.
  - cbn [orb negb andb] in *.
    destruct (seek_f false ss2) as [[[g2 m2] s2] e2] eqn:Es2; destruct g2; injection E as <-; [|discriminate Hret].
    cbn [f_res s_flags f_err]. split; [reflexivity|]. split; [exact L1|]. exact (seek_f_go _ _ _ _ Es2).
  - cbn [orb negb andb] in *. rewrite (L4 eq_refl), validate_file_spec in E.
    destruct (data_good H h f) eqn:Edg; cbn [flag_of Z.eqb] in E.
    + destruct (seek_f false ss2) as [[[g2 m2] s2] e2] eqn:Es2; destruct g2; injection E as <-; [|discriminate Hret].
      cbn [f_res s_flags f_err negb]. split; [reflexivity|]. split; [exact L1|]. exact (seek_f_go _ _ _ _ Es2).
    + destruct (seek_f false ss2) as [[[g2 m2] s2] e2]; destruct g2; injection E as <-; discriminate Hret.
Qed.

(** T12.scan, flags, for EVERY schedule of read and lseek outcomes *)
Theorem scan_r_flags_sound h f fl st rs ss err r :
  scan_wf h f -> h_detached h = false ->
  validate_checksums_r H h f fl st rs ss err = Some r ->
  flags_sound_or_old H h f fl (s_flags (f_res r)).
Proof.
  intros (H0 & Hle & Hst) Hd E. unfold validate_checksums_r in E.
  assert (Hold : flags_sound_or_old H h f fl fl) by (intros i c _ Hi; left; exact Hi).
  destruct err; [injection E as <-; exact Hold|].
  destruct (data_offset h =? 0); [injection E as <-; exact Hold|].
  destruct (seek_f false ss) as [[[go mv] ss1] e1] eqn:Es.
  destruct go; [|injection E as <-; exact Hold].
  destruct (scan_loop_r H h f true (h_chunks h) fl _ [] true (r_chunk st) rs ss1 false)
    as [[[[[[[[[fl1 r1] facc] good] ch] rs1] ss2] err1] ab]|] eqn:El; [|discriminate].
  assert (S1 : flags_sound_or_old H h f fl fl1).
  { intros i c Ei Hi.
    pose proof (scan_loop_r_sound h f (h_chunks h) true fl (skipn (N.to_nat (data_offset h)) f) [] true (r_chunk st)
                  rs ss1 false 0 fl1 r1 facc good ch rs1 ss2 err1 ab Hd Hst) as L.
    rewrite N.add_0_r in L. specialize (L (fun _ => eq_refl) El i c Ei Hi). cbn [andb] in L. exact L. }
  assert (S2 : flags_sound_or_old H h f fl (map (fun _ => (-1)%Z) fl1)).
  { intros i c Ei Hi. rewrite nth_error_map in Hi. destruct (nth_error fl1 i); discriminate Hi. }
  destruct ab; [injection E as <-; exact S1|].
  destruct (uflag h || h_detached h).
  - destruct (seek_f err1 ss2) as [[[g2 m2] s2] e2]; destruct g2; injection E as <-; exact S1.
  - destruct good.
    + destruct err1; [injection E as <-; exact S1|].
      destruct (validate_file H h facc =? -1)%Z;
        destruct (seek_f false ss2) as [[[g2 m2] s2] e2]; destruct g2; injection E as <-; assumption.
    + destruct (seek_f err1 ss2) as [[[g2 m2] s2] e2]; destruct g2; injection E as <-; exact S1.
Qed.

(** * Fault-free schedule: the fixed scan is still the scan of Read/Scan.v *)
Lemma scan_loop_r_ff h f : forall cs first fl rest facc good ch start,
  starts_ok start cs ->
  rest = skipn (N.to_nat (data_offset h + start)) f ->
  scan_loop_r H h f first cs fl rest facc good ch [] [] false =
  match scan_loop H h first cs fl rest facc good ch with
  | Some (a, b, c, d, e) => Some (a, b, c, d, e, [], [], false, false)
  | None => None
  end.
Proof.
  induction cs as [|c cs IH]; intros first fl rest facc good ch start Hst Hrest; cbn [scan_loop_r scan_loop]; [reflexivity|].
  cbn [starts_ok] in Hst. destruct Hst as [Hcs Hst].
  destruct (first && (c_ulen c =? 0) && (c_clen c =? 0)) eqn:Eef.
  - apply andb_prop in Eef. destruct Eef as [_ E2]. apply N.eqb_eq in E2. rewrite E2, N.add_0_r in Hst.
    destruct (h_detached h); [reflexivity|]. rewrite (IH _ _ _ _ _ _ start Hst Hrest).
    destruct (scan_loop H h false cs (tl fl) rest facc good ch) as [[[[[a b] c0] d] e]|]; reflexivity.
  - rewrite (rd_f_faultfree H).
    assert (Hlr : len rest = len f - (data_offset h + start)) by (rewrite Hrest, len_skipn; lia).
    destruct (N.le_gt_cases (c_clen c) (len rest)) as [Hl|Hg].
    + rewrite (rd_complete H (S (length rest))) by (try lia; exact Hl).
      cbn [negb andb]. unfold validate_chunk_f.
      destruct (h_detached h); [reflexivity|].
      rewrite (IH _ _ _ _ _ _ (start + c_clen c) Hst).
      * destruct (scan_loop H h false cs (tl fl) _ _ _ _) as [[[[[a b] c0] d] e]|]; reflexivity.
      * rewrite Hrest, skipn_add. f_equal. lia.
    + destruct (rd_short H (S (length rest)) rest (c_clen c) [] facc (negb (uflag h))) as (ca & fa & Er); [lia|exact Hg|].
      rewrite Er. cbn [andb].
      assert (Hnil : forall x, data_offset h + (start + c_clen c) <= x -> skipn (N.to_nat x) f = []).
      { intros x Hx. apply skipn_all2. unfold len in *. lia. }
      destruct cs as [|c2 cs2].
      * cbn [negb]. destruct (h_detached h); reflexivity.
      * cbn [seek_f negb]. cbn [starts_ok] in Hst. destruct Hst as [Hc2 Hst2].
        rewrite (Hnil (data_offset h + c_start c2)) by lia.
        destruct (h_detached h); [reflexivity|].
        rewrite (IH _ _ _ _ _ _ (start + c_clen c) (conj Hc2 Hst2)).
        -- destruct (scan_loop H h false (c2 :: cs2) (tl fl) [] fa _ _) as [[[[[a b] c0] d] e]|]; reflexivity.
        -- symmetry. apply Hnil. lia.
Qed.

Theorem validate_checksums_r_faultfree h f fl st :
  scan_wf h f ->
  validate_checksums_r H h f fl st [] [] false =
  match validate_checksums H h f fl st with
  | Some r => Some (mkF r [] [] false)
  | None => None
  end.
Proof.
  intros (H0 & Hle & Hst). unfold validate_checksums_r, validate_checksums.
  replace (data_offset h =? 0) with false by (symmetry; apply N.eqb_neq; exact H0).
  cbn [seek_f]. rewrite (scan_loop_r_ff h f _ _ _ _ _ _ _ 0 Hst) by (rewrite N.add_0_r; reflexivity).
  destruct (scan_loop H h true (h_chunks h) fl _ [] true (r_chunk st)) as [[[[[fl1 r1] facc] good] ch]|]; [|reflexivity].
  destruct (uflag h || h_detached h); [reflexivity|]. destruct good; reflexivity.
Qed.
End Proofs.
