(** C12: the validity scan of Read/Scan.v under a fault schedule — definitions only.

    [validate_checksums_f] / [validate_data_f] are [validate_checksums] / [validate_data] of
    Read/Scan.v with every system call routed through a schedule, and with the context's
    error state made explicit, following what the C does with each result:

    - read(2) (through [read_data], io.c): the requested bytes (fewer at the end of the file),
      or only the first k >= 1 of them ([RGive k]: the position advances by what was
      returned), or -1 ([RErr], all errno values lumped together): [read_data] then sets the
      non-fatal error state and returns -1.  In the error state [read_data] returns -1 without
      calling read (VALIDATE_READ_INT).
    - lseek (through [seek_data]): ok or -1: [seek_data] sets the error state and returns
      false.  In the error state [seek_data] returns -1 (VALIDATE_INT) — which is TRUE for
      [if(!seek_data(...))], so the caller goes on without having moved the position.
    - [validate_chunk] in the error state returns -1 (VALIDATE_INT) without finalising the
      hash; [validate_file] returns 0 (VALIDATE_BOOL).
    An empty schedule is the fault-free run (as in Io/Faults.v). *)
From ZV Require Import Base.Bytes Gen.GenConsts Format.Header Read.Scan Io.Faults.
Local Open Scope N_scope.

(** [read_data(zck, buf, n)], n > 0: [None] = -1; result, remaining schedule, error state *)
Definition read_f (err : bool) (rs : list rout) (rest : bytes) (n : N)
  : option bytes * list rout * bool :=
  if err then (None, rs, true) else
  match rs with
  | [] => (Some (firstn (N.to_nat n) rest), [], false)
  | RGive k :: rs' => (Some (firstn (N.to_nat (N.min (N.max 1 k) n)) rest), rs', false)
  | RErr :: rs' => (None, rs', true)
  end.

(** [seek_data]: [true] = the caller goes on.  Result: go on?, moved?, schedule, error state *)
Definition seek_f (err : bool) (ss : list bool) : bool * bool * list bool * bool :=
  if err then (true, false, ss, true) else       (* returns -1: truthy, nothing done *)
  match ss with
  | [] => (true, true, [], false)
  | true :: ss' => (true, true, ss', false)
  | false :: ss' => (false, false, ss', true)
  end.

Section ScanF.
Variable H : N -> bytes -> bytes.

(** the block loop; a read that returns fewer bytes than asked, or -1, ends it *)
Fixpoint rd_blocks_f (fuel : nat) (rs : list rout) (err : bool) (rest : bytes) (n : N)
                     (cacc facc : bytes) (upd : bool)
  : option (bool * bytes * bytes * bytes * list rout * bool) :=
  if n =? 0 then Some (true, rest, cacc, facc, rs, err) else
  match fuel with
  | O => None
  | S fuel' =>
      let rsize := N.min BUF_SIZE n in
      match read_f err rs rest rsize with
      | (None, rs', err') => Some (false, rest, cacc, facc, rs', err')
      | (Some got, rs', err') =>
          if len got =? rsize
          then rd_blocks_f fuel' rs' err' (skipn (N.to_nat rsize) rest) (n - rsize) (cacc ++ got)
                           (if upd then facc ++ got else facc) upd
          else Some (false, skipn (length got) rest, cacc, facc, rs', err')
      end
  end.

Definition validate_chunk_f (err : bool) (cht : N) (c : chunk) (cacc : bytes) : Z :=
  if err then (-1)%Z else validate_chunk H cht c cacc.

Fixpoint scan_loop_f (h : header) (first : bool) (cs : list chunk) (fl : list Z) (rest facc : bytes)
                     (good : bool) (ch : hstate) (rs : list rout) (err : bool)
  : option (list Z * bytes * bytes * bool * hstate * list rout * bool) :=
  match cs with
  | [] => Some ([], rest, facc, good, ch, rs, err)
  | c :: cs' =>
      if first && (c_ulen c =? 0) && (c_clen c =? 0) then
        if h_detached h then Some (1%Z :: tl fl, rest, facc, good, ch, rs, err) else
        match scan_loop_f h false cs' (tl fl) rest facc good ch rs err with
        | Some (r, a, b, g, s, q, e) => Some (1%Z :: r, a, b, g, s, q, e)
        | None => None
        end
      else
        match rd_blocks_f (S (length rest)) rs err rest (c_clen c) [] facc (negb (uflag h)) with
        | None => None
        | Some (complete, rest', cacc, facc', rs', err') =>
            let v := if complete then validate_chunk_f err' (h_chash h) c cacc else (-1)%Z in
            let ch' := if complete && negb err' then HClosed else HOpen cacc in
            let good' := good && (v =? 1)%Z in
            if h_detached h then Some (v :: tl fl, rest', facc', good', ch', rs', err') else
            match scan_loop_f h false cs' (tl fl) rest' facc' good' ch' rs' err' with
            | Some (r, a, b, g, s, q, e) => Some (v :: r, a, b, g, s, q, e)
            | None => None
            end
        end
  end.

(** result of a call: what [sres] holds, the schedules left, the error state afterwards *)
Record fres := mkF { f_res : sres; f_rs : list rout; f_ss : list bool; f_err : bool }.

Definition validate_checksums_f (h : header) (f : bytes) (fl : list Z) (st : rstate)
                                (rs : list rout) (ss : list bool) (err : bool) : option fres :=
  let doff := data_offset h in
  if err then Some (mkF (mkS 0 fl st f) rs ss true) else                 (* VALIDATE_READ_BOOL *)
  if doff =? 0 then Some (mkF (mkS 0 fl st f) rs ss true) else
  match seek_f false ss with
  | (false, _, ss1, e1) => Some (mkF (mkS 0 fl (mkR (r_pos st) (HOpen []) (r_chunk st)) f) rs ss1 e1)
  | (true, _, ss1, _) =>
    match scan_loop_f h true (h_chunks h) fl (skipn (N.to_nat doff) f) [] true (r_chunk st) rs false with
    | None => None
    | Some (fl1, rest1, facc, good, ch, rs1, err1) =>
        let pos1 := len f - len rest1 in
        let fail fl' e ss' := Some (mkF (mkS 0 fl' (mkR pos1 (HOpen facc) ch) f) rs1 ss' e) in
        (* valid_file; [None] = validate_file returned 0 *)
        let vf :=
          if uflag h || h_detached h then Some ((if good then 1 else -1)%Z, fl1)
          else if good then
            if err1 then None else
            let v := validate_file H h facc in
            Some (v, if (v =? -1)%Z then map (fun _ => (-1)%Z) fl1 else fl1)
          else Some ((-1)%Z, fl1) in
        match vf with
        | None => fail fl1 err1 ss1
        | Some (v, fl2) =>
            match seek_f err1 ss1 with
            | (false, _, ss2, e2) => fail fl2 e2 ss2
            | (true, moved, ss2, e2) =>
                Some (mkF (mkS v fl2 (mkR (if moved then doff else pos1) (HOpen []) ch) f) rs1 ss2 e2)
            end
        end
    end
  end.

(** [zck_validate_data_checksum]: a read error returns 0, a short read counts as truncated *)
Fixpoint data_loop_f (cs : list chunk) (rest facc : bytes) (rs : list rout) (err : bool)
  : option (option bool * bytes * bytes * list rout * bool) :=      (* None inside = return 0 *)
  match cs with
  | [] => Some (Some true, rest, facc, rs, err)
  | c :: cs' =>
      match rd_blocks_f (S (length rest)) rs err rest (c_clen c) [] facc true with
      | None => None
      | Some (true, rest', _, facc', rs', err') => data_loop_f cs' rest' facc' rs' err'
      | Some (false, rest', _, facc', rs', err') =>
          Some ((if err' then None else Some false), rest', facc', rs', err')
      end
  end.

Definition validate_data_f (h : header) (f : bytes) (fl : list Z) (st : rstate)
                           (rs : list rout) (ss : list bool) (err : bool) : option fres :=
  if err then Some (mkF (mkS 0 fl st f) rs ss true) else
  if uflag h then validate_checksums_f h f fl st rs ss err else
  let doff := data_offset h in
  match seek_f false ss with
  | (false, _, ss1, e1) => Some (mkF (mkS 0 fl st f) rs ss1 e1)
  | (true, _, ss1, _) =>
    match data_loop_f (h_chunks h) (skipn (N.to_nat doff) f) [] rs false with
    | None => None
    | Some (c, rest1, facc, rs1, err1) =>
        let pos1 := len f - len rest1 in
        match c with
        | None => Some (mkF (mkS 0 fl (mkR pos1 (HOpen facc) (r_chunk st)) f) rs1 ss1 err1)
        | Some complete =>
            let ret := if complete then validate_file H h facc else (-1)%Z in
            match seek_f err1 ss1 with
            | (false, _, ss2, e2) => Some (mkF (mkS 0 fl (mkR pos1 (HOpen facc) (r_chunk st)) f) rs1 ss2 e2)
            | (true, moved, ss2, e2) =>
                Some (mkF (mkS ret fl (mkR (if moved then doff else pos1) (HOpen []) (r_chunk st)) f) rs1 ss2 e2)
            end
        end
    end
  end.

(** every flag 1 of the list belongs to a chunk whose stored bytes match (first entry: [first]) *)
Definition flags_sound (h : header) (f : bytes) (fl : list Z) : Prop :=
  forall i c, nth_error (h_chunks h) i = Some c -> nth_error fl i = Some 1%Z ->
              chunk_good H h f (i =? 0)%nat c = true.
End ScanF.

(** a schedule whose only faults are errors (no read returns fewer bytes than the file has) *)
Definition only_errors (rs : list rout) : Prop := Forall (fun o => o = RErr) rs.
