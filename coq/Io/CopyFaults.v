(** C12: local chunk reuse of Dl/Copy.v under a fault schedule — definitions only.

    [copy_chunks_f] is [copy_chunks] of Dl/Copy.v with every system call routed through a
    schedule and the error states of both contexts made explicit, following what the C does:

    - reads of the source through [read_data] ([read_f] of Io/ScanFaults.v): in
      [write_and_verify_chunk] the test is [if(!read_data(...)) return false], so only a
      read of 0 bytes ends the function; -1 (read error, or source context already in the
      error state: no read is issued) counts as success and the loop goes on with the
      unchanged (stale) buffer; a short read overwrites a prefix of the buffer.
    - writes to the target through [write_data] of Io/Faults.v (one retry after a short
      write): what reaches the file is a prefix of the block; a failure sets the (fatal)
      error state of the target and ends the function.
    - lseek on source / target through [seek_f]: a failure sets the error state of that
      context and ends the function.
    - [write_and_verify_chunk] starts with VALIDATE_READ_BOOL on both contexts: with either
      in the error state it does nothing; its result is ignored by [zck_copy_chunks], which
      itself returns false only when a context is in the error state at entry.
    - [zero_chunk]: seek, then zero blocks through [write_data]; the flag becomes -1 only
      when all of it succeeded.
    Schedules: reads (all on the source), writes (all on the target), lseeks (both files, in
    call order: per chunk source, target, and the target again for [zero_chunk]).  Empty
    schedules are the fault-free run. *)
From ZV Require Import Base.Bytes Gen.GenConsts Format.Header Read.Scan Dl.Copy Io.Faults Io.ScanFaults.
Local Open Scope N_scope.

Record cst := mkC {
  k_rs : list rout; k_ws : list wout; k_ss : list bool;
  k_serr : bool; k_terr : bool }.
Definition clean : cst := mkC [] [] [] false false.

(** [zero_chunk]'s write loop: success?, file, schedule left *)
Fixpoint zero_blocks_f (fuel : nat) (ws : list wout) (tf : bytes) (pos n : N) : option (bool * bytes * list wout) :=
  if n =? 0 then Some (true, tf, ws) else
  match fuel with
  | O => None
  | S fuel' =>
      let rb := N.min BUF_SIZE n in
      match write_data ws (repeat 0 (N.to_nat rb)) with
      | (true, a, ws') => zero_blocks_f fuel' ws' (file_write tf pos a) (pos + rb) (n - rb)
      | (false, a, ws') => Some (false, file_write tf pos a, ws')
      end
  end.

Section CopyF.
Variable H : N -> bytes -> bytes.

(** the copy loop: finished?, file, hashed bytes, schedules left, source / target error state *)
Fixpoint copy_blocks_f (fuel : nat) (rs : list rout) (ws : list wout) (serr : bool)
                       (srest tf : bytes) (tpos n : N) (buf acc : bytes)
  : option (bool * bytes * bytes * list rout * list wout * bool * bool) :=
  if n =? 0 then Some (true, tf, acc, rs, ws, serr, false) else
  match fuel with
  | O => None
  | S fuel' =>
      let rb := N.min BUF_SIZE n in
      let '(r, rs', serr') := read_f serr rs srest rb in
      let go (buf' srest' : bytes) :=
        let data := firstn (N.to_nat rb) buf' in
        match write_data ws data with
        | (true, a, ws') =>
            copy_blocks_f fuel' rs' ws' serr' srest' (file_write tf tpos a) (tpos + rb) (n - rb) buf' (acc ++ data)
        | (false, a, ws') => Some (false, file_write tf tpos a, acc ++ data, rs', ws', serr', true)
        end in
      match r with
      | Some got =>
          if len got =? 0 then Some (false, tf, acc, rs', ws, serr', false)
          else go (got ++ skipn (length got) buf) (skipn (length got) srest)
      | None => go buf srest                      (* -1 is not 0: stale buffer, position unchanged *)
      end
  end.

Definition write_and_verify_f (sh : header) (sf : bytes) (th : header) (tf : bytes) (sc tc : chunk) (st : cst)
  : option (bytes * option Z * cst) :=
  if k_serr st || k_terr st then Some (tf, None, st) else
  match seek_f false (k_ss st) with
  | (false, _, ss1, _) => Some (tf, None, mkC (k_rs st) (k_ws st) ss1 true false)
  | (true, _, ss1, _) =>
    match seek_f false ss1 with
    | (false, _, ss2, _) => Some (tf, None, mkC (k_rs st) (k_ws st) ss2 false true)
    | (true, _, ss2, _) =>
      let srest := seek sf (data_offset sh + c_start sc) in
      match copy_blocks_f (S (length srest) + N.to_nat (c_clen sc / BUF_SIZE)) (k_rs st) (k_ws st) false
                          srest tf (data_offset th + c_start tc) (c_clen sc)
                          (repeat 0 (N.to_nat BUF_SIZE)) [] with
      | None => None
      | Some (false, tf', _, rs', ws', se, te) => Some (tf', None, mkC rs' ws' ss2 se te)
      | Some (true, tf', acc, rs', ws', se, _) =>
          if memcmp_eq (ds_of (h_chash sh)) (H (h_chash sh) acc) (c_digest sc)
          then Some (tf', Some 1%Z, mkC rs' ws' ss2 se false)
          else (* zero_chunk(tgt, tgt_idx) *)
            match seek_f false ss2 with
            | (false, _, ss3, _) => Some (tf', None, mkC rs' ws' ss3 se true)
            | (true, _, ss3, _) =>
                match zero_blocks_f (S (N.to_nat (c_clen tc / BUF_SIZE))) ws' tf'
                                    (data_offset th + c_start tc) (c_clen tc) with
                | None => None
                | Some (true, tf'', ws'') => Some (tf'', Some (-1)%Z, mkC rs' ws'' ss3 se false)
                | Some (false, tf'', ws'') => Some (tf'', None, mkC rs' ws'' ss3 se true)
                end
            end
      end
    end
  end.

Definition copy_one_f (sh : header) (sf : bytes) (th : header) (tc : chunk) (v : Z) (tf : bytes) (st : cst)
  : option (Z * bytes * cst) :=
  if (v =? 1)%Z then Some (v, tf, st) else
  match match_for sh th tc with
  | None => Some (v, tf, st)
  | Some sc =>
      match write_and_verify_f sh sf th tf sc tc st with
      | None => None
      | Some (tf', Some v', st') => Some (v', tf', st')
      | Some (tf', None, st') => Some (v, tf', st')
      end
  end.

Fixpoint copy_loop_f (sh : header) (sf : bytes) (th : header) (tcs : list chunk) (fl : list Z) (tf : bytes)
                     (st : cst) : option (list Z * bytes * cst) :=
  match tcs with
  | [] => Some ([], tf, st)
  | tc :: tcs' =>
      match copy_one_f sh sf th tc (hd 0%Z fl) tf st with
      | None => None
      | Some (v', tf', st') =>
          match copy_loop_f sh sf th tcs' (tl fl) tf' st' with
          | Some (r, tf'', st'') => Some (v' :: r, tf'', st'')
          | None => None
          end
      end
  end.

(** [zck_copy_chunks]: return value, flags, target file, source file, state *)
Definition copy_chunks_f (sh : header) (sf : bytes) (th : header) (tf : bytes) (fl : list Z) (st : cst)
  : option (bool * list Z * bytes * bytes * cst) :=
  if k_serr st || k_terr st then Some (false, fl, tf, sf, st) else
  match copy_loop_f sh sf th (h_chunks th) fl tf st with
  | Some (fl', tf', st') => Some (true, fl', tf', sf, st')
  | None => None
  end.
End CopyF.
