(** C12: proofs about local chunk reuse under fault schedules (Io/CopyFaults.v). *)
From ZV Require Import Base.Bytes Gen.GenConsts Format.Header Format.ParseProofs Read.Scan Read.ScanProofs
                       Dl.Copy Dl.CopyProofs Io.Faults Io.FaultsProofs Io.ScanFaults Io.ScanFaultsProofs Io.CopyFaults.
From ZV Require Dl.DlWrite Dl.FileLemmas.
Local Open Scope N_scope.

(** * Small facts *)
Lemma read_f_len err rs rest n got rs' e' :
  read_f err rs rest n = (Some got, rs', e') -> len got <= n.
Proof.
  destruct err; [rewrite read_f_err; discriminate|]. intros E.
  destruct (read_f_some _ _ _ _ _ _ E) as (_ & m & Hm & ->). rewrite len_firstn. lia.
Qed.

Lemma write_data_len sched data ok a s' : write_data sched data = (ok, a, s') -> len a <= len data.
Proof.
  intros E. destruct (write_data_prefix _ _ _ _ _ E) as [r ->]. rewrite len_app. lia.
Qed.

Lemma write_data_ff data : write_data [] data = (true, data, []).
Proof. destruct data; reflexivity. Qed.

Lemma skipn_firstn_len {A} k (l : list A) : skipn (length (firstn k l)) l = skipn k l.
Proof.
  rewrite firstn_length. destruct (Nat.le_gt_cases k (length l)) as [Hl|Hl].
  - rewrite Nat.min_l by exact Hl. reflexivity.
  - rewrite Nat.min_r by lia. rewrite !skipn_all2; [reflexivity|lia|lia].
Qed.

(** * Block loops under a schedule: what reaches the file is a prefix of what was hashed *)
Lemma zero_blocks_f_spec fuel : forall ws tf pos n ok tf' ws',
  zero_blocks_f fuel ws tf pos n = Some (ok, tf', ws') ->
  exists p, tf' = file_write tf pos p /\ len p <= n /\ (ok = true -> p = repeat 0 (N.to_nat n)).
Proof.
  induction fuel as [|fuel IH]; intros ws tf pos n ok tf' ws' E; cbn [zero_blocks_f] in E;
    destruct (n =? 0) eqn:E0; try discriminate.
  - apply N.eqb_eq in E0. subst n. injection E as <- <- <-. exists []. split; [reflexivity|]. split; [cbn; lia|reflexivity].
  - apply N.eqb_eq in E0. subst n. injection E as <- <- <-. exists []. split; [reflexivity|]. split; [cbn; lia|reflexivity].
  - apply N.eqb_neq in E0. pose proof BUF_pos as HB. set (rb := N.min BUF_SIZE n) in *.
    assert (Hr : 0 < rb /\ rb <= n) by (unfold rb; lia).
    set (z := repeat 0 (N.to_nat rb)) in *.
    assert (Hz : len z = rb) by (unfold z; rewrite len_repeat; lia).
    destruct (write_data ws z) as [[okw a] ws1] eqn:Ew. destruct okw.
    + apply write_data_true in Ew. subst a.
      destruct (IH _ _ _ _ _ _ _ E) as (p & Hp & Hl & Hok).
      exists (z ++ p). rewrite len_app, Hz.
      split; [rewrite Hp, FileLemmas.file_write_app, Hz; reflexivity|]. split; [lia|].
      intros Ho. rewrite (Hok Ho). unfold z. rewrite <- repeat_app. f_equal. lia.
    + injection E as <- <- <-. exists a. split; [reflexivity|].
      pose proof (write_data_len _ _ _ _ _ Ew). split; [lia|discriminate].
Qed.

Section Proofs.
Variable H : N -> bytes -> bytes.

Lemma copy_blocks_f_spec fuel : forall rs ws serr srest tf tpos n buf acc d tf' acc' rs' ws' se te,
  len buf = BUF_SIZE ->
  copy_blocks_f fuel rs ws serr srest tf tpos n buf acc = Some (d, tf', acc', rs', ws', se, te) ->
  exists p w, acc' = acc ++ w /\ tf' = file_write tf tpos p /\ len p <= n /\ (d = true -> p = w /\ len w = n).
Proof.
  induction fuel as [|fuel IH]; intros rs ws serr srest tf tpos n buf acc d tf' acc' rs' ws' se te Hbuf E;
    cbn [copy_blocks_f] in E; destruct (n =? 0) eqn:E0; try discriminate.
  - apply N.eqb_eq in E0. subst n. injection E as <- <- <- <- <- <- <-. exists [], []. rewrite app_nil_r.
    split; [reflexivity|]. split; [reflexivity|]. split; [cbn; lia|]. intros _. split; reflexivity.
  - apply N.eqb_eq in E0. subst n. injection E as <- <- <- <- <- <- <-. exists [], []. rewrite app_nil_r.
    split; [reflexivity|]. split; [reflexivity|]. split; [cbn; lia|]. intros _. split; reflexivity.
  - apply N.eqb_neq in E0. pose proof BUF_pos as HB. set (rb := N.min BUF_SIZE n) in *.
    assert (Hr : 0 < rb /\ rb <= n /\ rb <= BUF_SIZE) by (unfold rb; lia).
    destruct (read_f serr rs srest rb) as [[r rs1] se1] eqn:Er.
    (* the common continuation *)
    assert (Hgo : forall buf1 srest1,
      len buf1 = BUF_SIZE ->
      (match write_data ws (firstn (N.to_nat rb) buf1) with
       | (true, a, ws1) =>
           copy_blocks_f fuel rs1 ws1 se1 srest1 (file_write tf tpos a) (tpos + rb) (n - rb) buf1
                         (acc ++ firstn (N.to_nat rb) buf1)
       | (false, a, ws1) => Some (false, file_write tf tpos a, acc ++ firstn (N.to_nat rb) buf1, rs1, ws1, se1, true)
       end) = Some (d, tf', acc', rs', ws', se, te) ->
      exists p w, acc' = acc ++ w /\ tf' = file_write tf tpos p /\ len p <= n /\ (d = true -> p = w /\ len w = n)).
    { intros buf1 srest1 Hb1 E1. set (data := firstn (N.to_nat rb) buf1) in *.
      assert (Hd : len data = rb) by (unfold data; rewrite len_firstn; lia).
      destruct (write_data ws data) as [[okw a] ws1] eqn:Ew. destruct okw.
      - apply write_data_true in Ew. subst a.
        destruct (IH _ _ _ _ _ _ _ _ _ _ _ _ _ _ _ _ Hb1 E1) as (p & w & Ha & Ht & Hl & Hc).
        exists (data ++ p), (data ++ w). rewrite !len_app, Hd.
        split; [rewrite Ha, app_assoc; reflexivity|].
        split; [rewrite Ht, FileLemmas.file_write_app, Hd; reflexivity|].
        split; [lia|]. intros Hd'. destruct (Hc Hd') as [-> Hw]. split; [reflexivity|lia].
      - injection E1 as <- <- <- <- <- <- <-. exists a, data.
        pose proof (write_data_len _ _ _ _ _ Ew).
        split; [reflexivity|]. split; [reflexivity|]. split; [lia|discriminate]. }
    destruct r as [got|].
    + destruct (len got =? 0) eqn:Eg.
      * injection E as <- <- <- <- <- <- <-. exists [], []. rewrite app_nil_r.
        split; [reflexivity|]. split; [reflexivity|]. split; [cbn; lia|discriminate].
      * assert (Hb' : len (got ++ skipn (length got) buf) = BUF_SIZE).
        { pose proof (read_f_len _ _ _ _ _ _ _ Er) as Hgl.
          rewrite len_app, len_skipn. unfold len in *. lia. }
        apply (Hgo _ _ Hb' E).
    + apply (Hgo _ _ Hbuf E).
Qed.

(** [write_and_verify_chunk] under any schedule: same contract as the fault-free one *)
Lemma write_and_verify_f_spec sh sf th tf sc tc st tf' nv st' :
  c_clen sc = c_clen tc ->
  write_and_verify_f H sh sf th tf sc tc st = Some (tf', nv, st') ->
  let lo := ext_lo th tc in let n := c_clen tc in
  (forall x, ~ in_ext th tc x -> fget tf' x = fget tf x) /\
  len tf <= len tf' /\
  match nv with
  | None => True
  | Some v =>
      (v = 1%Z /\ (n = 0 \/ lo + n <= len tf') /\
       memcmp_eq (ds_of (h_chash sh)) (H (h_chash sh) (sub tf' lo n)) (c_digest sc) = true)
      \/ (v = (-1)%Z /\ sub tf' lo n = repeat 0 (N.to_nat n) /\ (n = 0 \/ lo + n <= len tf'))
  end.
Proof.
  intros Hcl E lo n. unfold write_and_verify_f in E. fold (ext_lo th tc) in E. fold lo in E.
  assert (Hsame : (forall x, ~ in_ext th tc x -> fget tf x = fget tf x) /\ len tf <= len tf /\ True)
    by (split; [reflexivity|split; [lia|exact I]]).
  destruct (k_serr st || k_terr st); [injection E as <- <- <-; exact Hsame|].
  destruct (seek_f false (k_ss st)) as [[[g1 m1] ss1] e1]. destruct g1; [|injection E as <- <- <-; exact Hsame].
  destruct (seek_f false ss1) as [[[g2 m2] ts1] e2]. destruct g2; [|injection E as <- <- <-; exact Hsame].
  destruct (copy_blocks_f _ _ _ _ _ _ _ _ _ _) as [[[[[[[d tf1] acc] rs1] ws1] se] te]|] eqn:Ec; [|discriminate].
  apply copy_blocks_f_spec in Ec; [|rewrite len_repeat; lia].
  destruct Ec as (p & w & Ha & Ht & Hl & Hc). cbn [app] in Ha. subst acc. rewrite Hcl in Hl, Hc. fold n in Hl, Hc.
  assert (Hfr1 : forall x, ~ in_ext th tc x -> fget tf1 x = fget tf x).
  { intros x Hx. subst tf1. apply fget_file_write_out. apply (in_ext_sub H); assumption. }
  assert (Hlen1 : len tf <= len tf1) by (subst tf1; apply file_write_len_ge).
  destruct d.
  - destruct (Hc eq_refl) as [-> Hw].
    assert (Hsub1 : sub tf1 lo n = w) by (subst tf1; rewrite <- Hw; apply sub_file_write_same).
    assert (Hcov1 : n = 0 \/ lo + n <= len tf1).
    { destruct w as [|b w]; [left; cbn in Hw; lia|right]. subst tf1. rewrite <- Hw.
      apply file_write_len_cover. discriminate. }
    destruct (memcmp_eq _ _ _) eqn:Em.
    + injection E as <- <- <-. split; [exact Hfr1|]. split; [exact Hlen1|]. left.
      split; [reflexivity|]. split; [exact Hcov1|]. rewrite Hsub1. exact Em.
    + destruct (seek_f false ts1) as [[[g3 m3] ts2] e3].
      destruct g3; [|injection E as <- <- <-; split; [exact Hfr1|split; [exact Hlen1|exact I]]].
      destruct (zero_blocks_f _ _ _ _ _) as [[[okz tf2] ws2]|] eqn:Ez; [|discriminate].
      fold (ext_lo th tc) in Ez. fold lo in Ez. fold n in Ez.
      destruct (zero_blocks_f_spec _ _ _ _ _ _ _ _ Ez) as (pz & Hpz & Hlz & Hokz).
      assert (Hfr2 : forall x, ~ in_ext th tc x -> fget tf2 x = fget tf x).
      { intros x Hx. rewrite Hpz, fget_file_write_out; [apply Hfr1; exact Hx|].
        apply (in_ext_sub H); [exact Hlz|exact Hx]. }
      assert (Hlen2 : len tf <= len tf2) by (rewrite Hpz; pose proof (file_write_len_ge tf1 lo pz); lia).
      destruct okz; injection E as <- <- <-; (split; [exact Hfr2|]); (split; [exact Hlen2|]); [|exact I].
      right. split; [reflexivity|]. rewrite (Hokz eq_refl) in Hpz.
      set (z := repeat 0 (N.to_nat n)) in *.
      assert (Hz : len z = n) by (unfold z; rewrite len_repeat; lia).
      split.
      * rewrite Hpz. rewrite <- Hz at 1. apply sub_file_write_same.
      * destruct (N.eq_dec n 0) as [Hn|Hn]; [left; exact Hn|right]. rewrite Hpz.
        rewrite <- Hz at 1. apply file_write_len_cover. unfold z. destruct (N.to_nat n) eqn:En; [lia|discriminate].
  - injection E as <- <- <-. split; [exact Hfr1|]. split; [exact Hlen1|exact I].
Qed.

Lemma copy_one_f_spec sh sf th tc v tf st v' tf' st' :
  known (h_chash sh) -> known (h_chash th) ->
  copy_one_f H sh sf th tc v tf st = Some (v', tf', st') ->
  let lo := ext_lo th tc in let n := c_clen tc in
  (forall x, ~ in_ext th tc x -> fget tf' x = fget tf x) /\
  len tf <= len tf' /\
  (v = 1%Z -> v' = 1%Z /\ tf' = tf) /\
  (match_for sh th tc = None -> v' = v /\ tf' = tf) /\
  (v' = v \/ v' = 1%Z \/ v' = (-1)%Z) /\
  (v' = 1%Z -> v <> 1%Z -> (n = 0 \/ lo + n <= len tf') /\ tgt_ok H th tc (sub tf' lo n) = true) /\
  (v' <> v -> v' = (-1)%Z -> sub tf' lo n = repeat 0 (N.to_nat n) /\ (n = 0 \/ lo + n <= len tf')).
Proof.
  intros Ks Kt E lo n. unfold copy_one_f in E.
  destruct (v =? 1)%Z eqn:Ev.
  - apply Z.eqb_eq in Ev. injection E as <- <- <-.
    repeat split; auto; try lia; try (intros; congruence).
  - apply Z.eqb_neq in Ev.
    destruct (match_for sh th tc) as [sc|] eqn:Em.
    + destruct (match_for_spec _ _ _ _ Em) as (M1 & M2 & M3 & M4 & M5).
      destruct (write_and_verify_f H sh sf th tf sc tc st) as [[[tf1 nv] st1]|] eqn:Ew; [|discriminate].
      destruct (write_and_verify_f_spec _ _ _ _ _ _ _ _ _ _ M4 Ew) as (W1 & W2 & W3). fold lo in W3. fold n in W3.
      assert (Ht : h_chash sh = h_chash th) by (apply ds_of_inj; assumption).
      destruct nv as [v1|]; injection E as <- <- <-.
      * split; [exact W1|]. split; [exact W2|]. split; [intros; congruence|]. split; [discriminate|].
        destruct W3 as [(-> & W4 & W5)|(-> & W4 & W5)].
        -- split; [auto|]. split.
           ++ intros _ _. split; [exact W4|]. unfold tgt_ok. rewrite <- Ht in M3 |- *.
              exact (memcmp_trans _ _ _ _ W5 M3).
           ++ intros _ Hm. discriminate Hm.
        -- split; [auto|]. split; [intros Hm; discriminate Hm|]. intros _ _. split; assumption.
      * split; [exact W1|]. split; [exact W2|]. split; [intros; congruence|]. split; [discriminate|].
        split; [auto|]. split; [intros; congruence|]. intros Hne. congruence.
    + injection E as <- <- <-. repeat split; auto; try lia; try (intros; congruence).
Qed.

Lemma copy_loop_f_spec sh sf th : known (h_chash sh) -> known (h_chash th) ->
  forall tcs fl tf st fl' tf' st' s,
  starts_ok s tcs ->
  copy_loop_f H sh sf th tcs fl tf st = Some (fl', tf', st') ->
  length fl' = length tcs /\
  len tf <= len tf' /\
  (forall x, x < data_offset th + s -> fget tf' x = fget tf x) /\
  (forall x, (forall i tc, nth_error tcs i = Some tc -> fillable sh th tc (nth i fl 0%Z) -> ~ in_ext th tc x) ->
             fget tf' x = fget tf x) /\
  (forall i tc, nth_error tcs i = Some tc -> chunk_post H sh th tc (nth i fl 0%Z) (nth i fl' 0%Z) tf').
Proof.
  intros Ks Kt. induction tcs as [|tc tcs IH]; intros fl tf st fl' tf' st' s Hst E.
  - cbn [copy_loop_f] in E. injection E as <- <- <-.
    split; [reflexivity|]. split; [lia|]. split; [auto|]. split; [auto|].
    intros i tc Ei. destruct i; discriminate Ei.
  - cbn [starts_ok] in Hst. destruct Hst as [Hcs Hst].
    cbn [copy_loop_f] in E.
    destruct (copy_one_f H sh sf th tc (hd 0%Z fl) tf st) as [[[v1 tf1] st1]|] eqn:E1; [|discriminate].
    destruct (copy_loop_f H sh sf th tcs (tl fl) tf1 st1) as [[[r tf2] st2]|] eqn:E2; [|discriminate].
    injection E as <- <- <-.
    destruct (copy_one_f_spec _ _ _ _ _ _ _ _ _ _ Ks Kt E1) as (O1 & O2 & O3 & O4 & O5 & O6 & O7).
    destruct (IH _ _ _ _ _ _ _ Hst E2) as (I1 & I2 & I3 & I4 & I5).
    assert (Hlo : ext_lo th tc = data_offset th + s) by (unfold ext_lo; rewrite Hcs; reflexivity).
    split; [cbn [length]; rewrite I1; reflexivity|]. split; [lia|]. split; [|split].
    + intros x Hx. rewrite I3 by lia. apply O1. unfold in_ext. lia.
    + intros x Hx. rewrite I4.
      * destruct (Z.eq_dec (hd 0%Z fl) 1) as [Hv|Hv]; [destruct (O3 Hv) as [_ ->]; reflexivity|].
        destruct (match_for sh th tc) eqn:Em; [|destruct (O4 eq_refl) as [_ ->]; reflexivity].
        apply O1. apply (Hx 0%nat tc eq_refl). rewrite nth_hd. split; [exact Hv|congruence].
      * intros i c Ei Hf. apply (Hx (S i) c Ei). rewrite nth_tl. exact Hf.
    + intros [|i] c Ei; cbn [nth_error] in Ei.
      * injection Ei as <-. rewrite nth_hd. cbn [nth]. unfold chunk_post.
        assert (Hpres : (c_clen tc = 0 \/ ext_lo th tc + c_clen tc <= len tf1) ->
                        sub tf2 (ext_lo th tc) (c_clen tc) = sub tf1 (ext_lo th tc) (c_clen tc)).
        { intros Hb. apply (sub_preserved H); [|exact I2|exact Hb]. intros x Hx. apply I3. rewrite Hlo in Hx. lia. }
        split; [intros Hv; apply (O3 Hv)|]. split; [intros Hm; apply (O4 Hm)|]. split; [exact O5|]. split.
        -- intros Hv' Hv. destruct (O6 Hv' Hv) as [B T]. rewrite (Hpres B). split; [|exact T].
           destruct B as [B|B]; [left; exact B|right; lia].
        -- intros Hne Hm. destruct (O7 Hne Hm) as [Z B]. rewrite (Hpres B). exact Z.
      * rewrite nth_tl. cbn [nth]. apply (I5 i c Ei).
Qed.

(** T12.copy, for EVERY schedule of read / write / lseek outcomes and any initial error states:
    the source is unchanged, the target keeps its header and every byte outside the fillable
    extents, and every chunk satisfies [chunk_post] — in particular a chunk that becomes valid
    lies inside the target file and hashes to the target's digest. *)
Theorem copy_chunks_f_sound sh sf th tf fl st ret fl' tf' sf' st' :
  known (h_chash sh) -> known (h_chash th) -> starts_ok 0 (h_chunks th) ->
  copy_chunks_f H sh sf th tf fl st = Some (ret, fl', tf', sf', st') ->
  sf' = sf /\ len tf <= len tf' /\
  (forall x, x < data_offset th -> fget tf' x = fget tf x) /\
  (forall x, (forall i tc, nth_error (h_chunks th) i = Some tc -> fillable sh th tc (nth i fl 0%Z) ->
                           ~ in_ext th tc x) -> fget tf' x = fget tf x) /\
  (forall i tc, nth_error (h_chunks th) i = Some tc ->
                nth i fl 0%Z <> 1%Z -> nth i fl' 0%Z = 1%Z -> good_extent H th tc tf') /\
  (ret = true -> forall i tc, nth_error (h_chunks th) i = Some tc ->
                 chunk_post H sh th tc (nth i fl 0%Z) (nth i fl' 0%Z) tf').
Proof.
  intros Ks Kt Hst E. unfold copy_chunks_f in E.
  destruct (k_serr st || k_terr st).
  - injection E as <- <- <- <- <-. split; [reflexivity|]. split; [lia|]. split; [auto|]. split; [auto|].
    split; [intros i tc _ Hv Hv'; congruence|discriminate].
  - destruct (copy_loop_f H sh sf th (h_chunks th) fl tf st) as [[[a b] c]|] eqn:El; [|discriminate].
    injection E as <- <- <- <- <-.
    destruct (copy_loop_f_spec sh sf th Ks Kt _ _ _ _ _ _ _ 0 Hst El) as (L1 & L2 & L3 & L4 & L5).
    rewrite N.add_0_r in L3. split; [reflexivity|]. split; [exact L2|]. split; [exact L3|]. split; [exact L4|].
    split; [|intros _; exact L5].
    intros i tc Ei Hv Hv'. destruct (L5 i tc Ei) as (_ & _ & _ & P4 & _). exact (P4 Hv' Hv).
Qed.

(** * The model always terminates with a result *)
Lemma zero_blocks_f_total fuel : forall ws tf pos n,
  n <= BUF_SIZE * N.of_nat fuel -> zero_blocks_f fuel ws tf pos n <> None.
Proof.
  induction fuel as [|fuel IH]; intros ws tf pos n Hn; cbn [zero_blocks_f]; destruct (n =? 0) eqn:E0;
    try discriminate.
  - apply N.eqb_neq in E0. lia.
  - apply N.eqb_neq in E0. pose proof BUF_pos. destruct (write_data ws _) as [[[|] a] ws1]; [|discriminate].
    apply IH. lia.
Qed.

Lemma copy_blocks_f_total fuel : forall rs ws serr srest tf tpos n buf acc,
  n <= BUF_SIZE * N.of_nat fuel -> copy_blocks_f fuel rs ws serr srest tf tpos n buf acc <> None.
Proof.
  induction fuel as [|fuel IH]; intros rs ws serr srest tf tpos n buf acc Hn; cbn [copy_blocks_f];
    destruct (n =? 0) eqn:E0; try discriminate.
  - apply N.eqb_neq in E0. lia.
  - apply N.eqb_neq in E0. pose proof BUF_pos.
    destruct (read_f serr rs srest (N.min BUF_SIZE n)) as [[[got|] rs1] se1].
    + destruct (len got =? 0); [discriminate|].
      destruct (write_data ws _) as [[[|] a] ws1]; [|discriminate]. apply IH. lia.
    + destruct (write_data ws _) as [[[|] a] ws1]; [|discriminate]. apply IH. lia.
Qed.

Theorem copy_chunks_f_total sh sf th tf fl st : copy_chunks_f H sh sf th tf fl st <> None.
Proof.
  unfold copy_chunks_f. destruct (k_serr st || k_terr st); [discriminate|].
  assert (W : forall tf0 sc tc st0, write_and_verify_f H sh sf th tf0 sc tc st0 <> None).
  { intros tf0 sc tc st0. unfold write_and_verify_f.
    destruct (k_serr st0 || k_terr st0); [discriminate|].
    destruct (seek_f false (k_ss st0)) as [[[[|] m1] ss1] e1]; [|discriminate].
    destruct (seek_f false ss1) as [[[[|] m2] ts1] e2]; [|discriminate].
    destruct (copy_blocks_f _ _ _ _ _ _ _ _ _ _) as [[[[[[[d tf1] acc] rs1] ws1] se] te]|] eqn:Ec.
    - destruct d; [|discriminate]. destruct (memcmp_eq _ _ _); [discriminate|].
      destruct (seek_f false ts1) as [[[[|] m3] ts2] e3]; [|discriminate].
      destruct (zero_blocks_f _ _ _ _ _) as [[[[|] tf2] ws2]|] eqn:Ez; try discriminate.
      exfalso. revert Ez. apply zero_blocks_f_total. pose proof BUF_pos.
      Ltac Zify.zify_post_hook ::= Z.to_euclidean_division_equations. lia.
    - exfalso. revert Ec. apply copy_blocks_f_total. pose proof BUF_pos.
      Ltac Zify.zify_post_hook ::= Z.to_euclidean_division_equations. lia. }
  assert (L : forall tcs fl0 tf0 st0, copy_loop_f H sh sf th tcs fl0 tf0 st0 <> None).
  { induction tcs as [|tc tcs IH]; intros fl0 tf0 st0; cbn [copy_loop_f]; [discriminate|].
    assert (O : copy_one_f H sh sf th tc (hd 0%Z fl0) tf0 st0 <> None).
    { unfold copy_one_f. destruct (_ =? 1)%Z; [discriminate|]. destruct (match_for sh th tc); [|discriminate].
      pose proof (W tf0 c tc st0) as W0.
      destruct (write_and_verify_f H sh sf th tf0 c tc st0) as [[[t [v|]] s]|]; congruence. }
    destruct (copy_one_f H sh sf th tc (hd 0%Z fl0) tf0 st0) as [[[v1 tf1] st1]|]; [|congruence].
    specialize (IH (tl fl0) tf1 st1). destruct (copy_loop_f H sh sf th tcs (tl fl0) tf1 st1) as [[[r t] s]|]; congruence. }
  specialize (L (h_chunks th) fl tf st). destruct (copy_loop_f H sh sf th (h_chunks th) fl tf st) as [[[a b] c]|]; congruence.
Qed.

(** * Fault-free schedule = the model of Dl/Copy.v *)
Lemma copy_blocks_mono f : forall d srest tf tpos n buf acc r,
  copy_blocks f srest tf tpos n buf acc = Some r -> copy_blocks (f + d) srest tf tpos n buf acc = Some r.
Proof.
  induction f as [|f IH]; intros d srest tf tpos n buf acc r E; cbn [copy_blocks] in E.
  - destruct (n =? 0) eqn:E0; [|discriminate]. destruct d; cbn [Nat.add copy_blocks]; rewrite E0; exact E.
  - cbn [Nat.add copy_blocks]. destruct (n =? 0); [exact E|].
    destruct (len (firstn (N.to_nat (N.min BUF_SIZE n)) srest) =? 0); [exact E|]. apply IH. exact E.
Qed.

Lemma copy_blocks_f_ff fuel : forall srest tf tpos n buf acc,
  copy_blocks_f fuel [] [] false srest tf tpos n buf acc =
  match copy_blocks fuel srest tf tpos n buf acc with
  | Some (c, t, a) => Some (c, t, a, [], [], false, false)
  | None => None
  end.
Proof.
  induction fuel as [|fuel IH]; intros srest tf tpos n buf acc; cbn [copy_blocks_f copy_blocks].
  - destruct (n =? 0); reflexivity.
  - destruct (n =? 0); [reflexivity|]. cbn [read_f]. set (rb := N.min BUF_SIZE n).
    destruct (len (firstn (N.to_nat rb) srest) =? 0); [reflexivity|].
    rewrite write_data_ff, skipn_firstn_len. apply IH.
Qed.

Lemma zero_blocks_f_ff fuel : forall tf pos n,
  zero_blocks_f fuel [] tf pos n =
  match zero_blocks fuel tf pos n with Some t => Some (true, t, []) | None => None end.
Proof.
  induction fuel as [|fuel IH]; intros tf pos n; cbn [zero_blocks_f zero_blocks].
  - destruct (n =? 0); reflexivity.
  - destruct (n =? 0); [reflexivity|]. rewrite write_data_ff. apply IH.
Qed.

Lemma write_and_verify_f_ff sh sf th tf sc tc :
  write_and_verify_f H sh sf th tf sc tc clean =
  match write_and_verify H sh sf th tf sc tc with
  | Some (t, nv) => Some (t, nv, clean)
  | None => None
  end.
Proof.
  unfold write_and_verify_f, write_and_verify, clean. cbn [k_serr k_terr orb k_ss seek_f k_rs k_ws].
  rewrite copy_blocks_f_ff.
  set (srest := seek sf (data_offset sh + c_start sc)).
  destruct (copy_blocks (S (length srest)) srest tf (data_offset th + c_start tc) (c_clen sc)
                        (repeat 0 (N.to_nat BUF_SIZE)) []) as [r|] eqn:Ec.
  - rewrite (copy_blocks_mono _ (N.to_nat (c_clen sc / BUF_SIZE)) _ _ _ _ _ _ _ Ec).
    destruct r as [[[|] t] a]; [|reflexivity].
    destruct (memcmp_eq _ _ _); [reflexivity|]. unfold zero_chunk. rewrite zero_blocks_f_ff.
    destruct (zero_blocks _ _ _ _); reflexivity.
  - exfalso. revert Ec. apply copy_blocks_total. lia.
Qed.

Theorem copy_chunks_f_faultfree sh sf th tf fl :
  copy_chunks_f H sh sf th tf fl clean =
  match copy_chunks H sh sf th tf fl with
  | Some (fl', tf', sf') => Some (true, fl', tf', sf', clean)
  | None => None
  end.
Proof.
  unfold copy_chunks_f, copy_chunks. cbn [clean k_serr k_terr orb].
  assert (L : forall tcs fl0 tf0, copy_loop_f H sh sf th tcs fl0 tf0 clean =
              match copy_loop H sh sf th tcs fl0 tf0 with Some (a, b) => Some (a, b, clean) | None => None end).
  { induction tcs as [|tc tcs IH]; intros fl0 tf0; cbn [copy_loop_f copy_loop]; [reflexivity|].
    assert (O : copy_one_f H sh sf th tc (hd 0%Z fl0) tf0 clean =
                match copy_one H sh sf th tc (hd 0%Z fl0) tf0 with Some (a, b) => Some (a, b, clean) | None => None end).
    { unfold copy_one_f, copy_one. destruct (_ =? 1)%Z; [reflexivity|].
      destruct (match_for sh th tc); [|reflexivity]. rewrite write_and_verify_f_ff.
      destruct (write_and_verify H sh sf th tf0 c tc) as [[t [v|]]|]; reflexivity. }
    rewrite O. destruct (copy_one H sh sf th tc (hd 0%Z fl0) tf0) as [[v1 tf1]|]; [|reflexivity].
    rewrite IH. destruct (copy_loop H sh sf th tcs (tl fl0) tf1) as [[a b]|]; reflexivity. }
  rewrite L. destruct (copy_loop H sh sf th (h_chunks th) fl tf) as [[a b]|]; reflexivity.
Qed.
End Proofs.
