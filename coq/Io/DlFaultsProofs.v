(** C12: the download callbacks under a fault schedule (Io/DlFaults.v) — proofs.

    (A) with the empty schedules the [_F] functions are the fault-free ones;
    (B) a run that leaves the error state clear is exactly the fault-free run;
    (C) a run that sets the error state reports it, and every later call fails at once;
    (D) confinement and verification hold for EVERY schedule;
    (E) concrete schedules. *)
From ZV Require Import Base.Bytes Gen.GenConsts Dl.DlWrite Dl.Multipart Dl.FileLemmas Dl.DlProofs
                       Dl.MpStream Dl.DlInv Dl.C05Final Io.Faults Io.FaultsProofs Io.DlFaults.
Local Open Scope N_scope.

(** * [write_data] and the zero loop *)
Lemma wd_ff data : write_data [] data = (true, data, []).
Proof. destruct data; reflexivity. Qed.

Lemma wd_len sched data ok a s' : write_data sched data = (ok, a, s') -> len a <= len data.
Proof.
  intros E. destruct (write_data_prefix _ _ _ _ _ E) as [r ->]. rewrite len_app. lia.
Qed.

Lemma BUF_pos : 0 < BUF_SIZE.
Proof. reflexivity. Qed.

Lemma len_repeat0 (n : N) : len (repeat 0 (N.to_nat n)) = n.
Proof. unfold len. rewrite repeat_length. lia. Qed.

Lemma len_firstn_min (bs : bytes) wb : wb <= len bs -> len (firstn (N.to_nat wb) bs) = wb.
Proof. intros Hl. unfold len in *. rewrite firstn_length. lia. Qed.

(** a zero loop that reports success has written the whole block of zeros *)
Lemma zero_F_true fuel : forall ws f pos n f' pos' ws',
  n <= N.of_nat fuel * BUF_SIZE ->
  zero_F fuel ws f pos n = (true, f', pos', ws') ->
  f' = file_write f pos (repeat 0 (N.to_nat n)) /\ pos' = pos + n.
Proof.
  pose proof BUF_pos as HB.
  induction fuel as [|fuel IH]; intros ws f pos n f' pos' ws' Hn E.
  - assert (n = 0) by (cbn in Hn; lia). subst n. cbn in E. inversion E; subst.
    split; [reflexivity|lia].
  - cbn [zero_F] in E. destruct (n =? 0) eqn:E0.
    + apply N.eqb_eq in E0. subst n. inversion E; subst. split; [reflexivity|lia].
    + apply N.eqb_neq in E0. set (rb := N.min BUF_SIZE n) in *.
      destruct (write_data ws (repeat 0 (N.to_nat rb))) as [[ok a] ws1] eqn:Ew.
      destruct ok; [|discriminate].
      apply write_data_true in Ew. subst a.
      pose proof (len_repeat0 rb) as Hl. unfold bytes, byte in *. rewrite Hl in E.
      apply IH in E.
      2:{ rewrite Nat2N.inj_succ, N.mul_succ_l in Hn. unfold rb. lia. }
      destruct E as [-> ->]. split; [|unfold rb; lia].
      replace (N.to_nat n) with (N.to_nat rb + N.to_nat (n - rb))%nat by (unfold rb; lia).
      rewrite repeat_app.
      pose proof (file_write_app f pos (repeat 0 (N.to_nat rb)) (repeat 0 (N.to_nat (n - rb)))) as Hfa.
      unfold bytes, byte in *. rewrite Hfa, Hl. reflexivity.
Qed.

Lemma zero_F_ff_ex fuel : forall f pos n, exists f' pos', zero_F fuel [] f pos n = (true, f', pos', []).
Proof.
  induction fuel as [|fuel IH]; intros f pos n; cbn [zero_F].
  - destruct (n =? 0); eauto.
  - destruct (n =? 0); [eauto|]. rewrite wd_ff. apply IH.
Qed.

Lemma zero_fuel_ok (n : N) : n <= N.of_nat (S (N.to_nat (n / BUF_SIZE))) * BUF_SIZE.
Proof.
  rewrite Nat2N.inj_succ, N2Nat.id.
  pose proof (N.mul_succ_div_gt n BUF_SIZE) as Hx.
  assert (Hb : BUF_SIZE <> 0) by discriminate. specialize (Hx Hb).
  rewrite N.mul_comm. lia.
Qed.

Lemma zero_F_ff f pos n :
  zero_F (S (N.to_nat (n / BUF_SIZE))) [] f pos n =
  (true, file_write f pos (repeat 0 (N.to_nat n)), pos + n, []).
Proof.
  destruct (zero_F_ff_ex (S (N.to_nat (n / BUF_SIZE))) f pos n) as (f' & pos' & E).
  rewrite E. destruct (zero_F_true _ _ _ _ _ _ _ _ (zero_fuel_ok n) E) as [-> ->]. reflexivity.
Qed.

(** whatever happens, the zero loop stays inside [pos, pos + n) *)
Lemma zero_F_touch fuel : forall ws f pos n ok f' pos' ws',
  zero_F fuel ws f pos n = (ok, f', pos', ws') ->
  forall x, fget f' x = fget f x \/ pos <= x < pos + n.
Proof.
  induction fuel as [|fuel IH]; intros ws f pos n ok f' pos' ws' E x; cbn [zero_F] in E.
  - destruct (n =? 0); inversion E; subst; left; reflexivity.
  - destruct (n =? 0) eqn:E0; [inversion E; subst; left; reflexivity|].
    apply N.eqb_neq in E0. set (rb := N.min BUF_SIZE n) in *.
    destruct (write_data ws (repeat 0 (N.to_nat rb))) as [[ok1 a] ws1] eqn:Ew.
    pose proof (wd_len _ _ _ _ _ Ew) as Hla. pose proof (len_repeat0 rb) as Hl.
    unfold bytes, byte in *. rewrite Hl in Hla.
    assert (Hone : fget (file_write f pos a) x = fget f x \/ pos <= x < pos + n).
    { rewrite fget_file_write. destruct ((pos <=? x) && (x <? pos + len a)) eqn:Eb; [|left; reflexivity].
      right. apply andb_prop in Eb. destruct Eb as [E1 E2]. apply N.leb_le in E1. apply N.ltb_lt in E2.
      unfold rb in Hla. lia. }
    destruct ok1.
    + destruct (IH _ _ _ _ _ _ _ _ E x) as [Hx|Hx].
      * rewrite Hx. exact Hone.
      * right. unfold rb in *. lia.
    + inversion E; subst. exact Hone.
Qed.

Lemma seek_d_nil : seek_d [] = (true, []).
Proof. reflexivity. Qed.

(** * The primitives: case analysis against the fault-free versions *)

(** [dl_write_F] either is the fault-free [dl_write] (same state, same result), or a write
    failed: error set, a prefix of the block in the file, nothing else updated *)
Lemma dl_write_F_cases s k bs s1 k1 ok :
  dl_write_F s k bs = (s1, k1, ok) ->
  (dl_write s bs = (s1, ok)) \/
  (ok = false /\ 0 < d_wic s /\
   exists a r, firstn (N.to_nat (N.min (d_wic s) (len bs))) bs = a ++ r /\
     s1 = mkDl true (d_pos s) (d_wic s) (d_tgt s) (d_cur s) (d_acc s) (d_fpos s + len a)
               (file_write (d_file s) (d_fpos s) a) (d_tab s)).
Proof.
  unfold dl_write_F, dl_write. destruct (0 <? d_wic s) eqn:E.
  - apply N.ltb_lt in E. cbv zeta.
    assert (Hlw : len (firstn (N.to_nat (N.min (d_wic s) (len bs))) bs) = N.min (d_wic s) (len bs))
      by (apply len_firstn_min; lia).
    remember (firstn (N.to_nat (N.min (d_wic s) (len bs))) bs) as w eqn:Hw.
    destruct w as [|w0 w'].
    + intros Hx. inversion Hx; subst s1 k1 ok. left. reflexivity.
    + destruct (write_data (fst k) (w0 :: w')) as [[okw a] ws'] eqn:Ewd. destruct okw.
      * apply write_data_true in Ewd. subst a. rewrite Hlw.
        destruct (d_acc s) as [acc|]; intros Hx; inversion Hx; subst s1 k1 ok; left; reflexivity.
      * intros Hx. inversion Hx; subst s1 k1 ok. right. split; [reflexivity|]. split; [exact E|].
        destruct (write_data_prefix _ _ _ _ _ Ewd) as [r Hr]. exists a, r. split; [exact Hr|reflexivity].
  - intros Hx. inversion Hx; subst. left. reflexivity.
Qed.

Lemma dl_write_false s bs s1 : dl_write s bs = (s1, false) -> d_err s1 = true.
Proof.
  intros Hw. destruct (dl_write_spec _ _ _ _ Hw) as (_ & _ & _ & _ & _ & _ & _ & _ & Hf). auto.
Qed.

Lemma dl_write_F_false s k bs s1 k1 : dl_write_F s k bs = (s1, k1, false) -> d_err s1 = true.
Proof.
  intros Hw. destruct (dl_write_F_cases _ _ _ _ _ _ Hw) as [Hc|(_ & _ & a & r & _ & ->)].
  - exact (dl_write_false _ _ _ Hc).
  - reflexivity.
Qed.

Lemma dl_write_F_clean s k bs s1 k1 ok :
  dl_write_F s k bs = (s1, k1, ok) -> d_err s1 = false -> dl_write s bs = (s1, ok).
Proof.
  intros Hw He. destruct (dl_write_F_cases _ _ _ _ _ _ Hw) as [Hc|(_ & _ & a & r & _ & ->)];
    [exact Hc|discriminate].
Qed.

Lemma dl_write_F_true s k bs s1 k1 :
  dl_write_F s k bs = (s1, k1, true) -> dl_write s bs = (s1, true).
Proof.
  intros Hw. destruct (dl_write_F_cases _ _ _ _ _ _ Hw) as [Hc|(Hx & _)]; [exact Hc|discriminate].
Qed.

Lemma dl_write_F_ff s bs :
  dl_write_F s ([], []) bs = (let (s1, ok) := dl_write s bs in (s1, ([], []), ok)).
Proof.
  unfold dl_write_F, dl_write. destruct (0 <? d_wic s) eqn:E; [|reflexivity].
  apply N.ltb_lt in E. cbv zeta.
  assert (Hlw : len (firstn (N.to_nat (N.min (d_wic s) (len bs))) bs) = N.min (d_wic s) (len bs))
    by (apply len_firstn_min; lia).
  remember (firstn (N.to_nat (N.min (d_wic s) (len bs))) bs) as w eqn:Hw.
  destruct w as [|w0 w']; [reflexivity|].
  cbn [fst snd]. rewrite wd_ff. rewrite Hlw. destruct (d_acc s); reflexivity.
Qed.

Section Proofs.
Variable H : bytes -> bytes.
Variable doff : N.
Variable ridx : list rentry.

Notation scvF := (set_chunk_valid_F H doff).
Notation scv := (DlWrite.set_chunk_valid H doff).
Notation selF := (select_F doff ridx).
Notation sel := (DlWrite.select doff ridx).
Notation setF := (settle_F H doff ridx).
Notation settle := (DlWrite.settle H doff ridx).
Notation dlwfF := (dlw_fF H doff ridx).
Notation dlwF := (dlw_F H doff ridx).
Notation dlw_f := (DlWrite.dlw_f H doff ridx).
Notation dlw := (DlWrite.dlw H doff ridx).
Notation dstep := (DlProofs.dstep H doff ridx).

(** [set_chunk_valid_F] either is the fault-free [set_chunk_valid], or the seek / a zero block
    of zero_chunk failed after a checksum mismatch *)
Lemma scv_F_cases s k s1 k1 ok :
  scvF s k = (s1, k1, ok) ->
  scv s = (s1, ok) \/
  (exists t c acc, d_tgt s = Some t /\ nth_error (d_tab s) t = Some c /\ d_acc s = Some acc /\
     chunk_digest_ok H c acc = false /\ ok = false /\ d_err s1 = true /\
     d_tab s1 = set_flag (d_tab s) t VFailed /\ d_tgt s1 = d_tgt s /\ d_acc s1 = None /\
     d_wic s1 = d_wic s /\
     (forall x, fget (d_file s1) x = fget (d_file s) x \/ in_ext doff c x)).
Proof.
  unfold set_chunk_valid_F, DlWrite.set_chunk_valid.
  destruct (d_tgt s) as [t|] eqn:Et; [|intros Hx; inversion Hx; subst; left; reflexivity].
  destruct (nth_error (d_tab s) t) as [c|] eqn:Ec; [|intros Hx; inversion Hx; subst; left; reflexivity].
  destruct (d_acc s) as [acc|] eqn:Ea; [|intros Hx; inversion Hx; subst; left; reflexivity].
  destruct (chunk_digest_ok H c acc) eqn:Eok; [intros Hx; inversion Hx; subst; left; reflexivity|].
  destruct (seek_d (snd k)) as [sk ss'] eqn:Esk. destruct sk.
  - destruct (zero_F (S (N.to_nat (c_len c / BUF_SIZE))) (fst k) (d_file s) (doff + c_start c) (c_len c))
      as [[[okz f'] pos'] ws'] eqn:Ez.
    destruct okz.
    + destruct (zero_F_true _ _ _ _ _ _ _ _ (zero_fuel_ok _) Ez) as [-> ->].
      intros Hx. inversion Hx; subst s1 k1 ok. left. reflexivity.
    + intros Hx. inversion Hx; subst s1 k1 ok. right. exists t, c, acc.
      cbn [d_err d_tab d_tgt d_acc d_wic d_file negb orb].
      repeat (split; [first [reflexivity | assumption]|]).
      intros x. destruct (zero_F_touch _ _ _ _ _ _ _ _ _ Ez x) as [Hq|Hq]; [left; exact Hq|].
      right. unfold in_ext. lia.
  - intros Hx. inversion Hx; subst s1 k1 ok. right. exists t, c, acc.
    cbn [d_err d_tab d_tgt d_acc d_wic d_file].
    repeat (split; [first [reflexivity | assumption]|]).
    intros x. left. reflexivity.
Qed.

Lemma scv_F_clean s k s1 k1 ok : scvF s k = (s1, k1, ok) -> d_err s1 = false -> scv s = (s1, ok).
Proof.
  intros Hs He. destruct (scv_F_cases _ _ _ _ _ Hs) as [Hc|(t & c & acc & _ & _ & _ & _ & _ & Hx & _)];
    [exact Hc|congruence].
Qed.

Lemma scv_F_true s k s1 k1 : scvF s k = (s1, k1, true) -> scv s = (s1, true).
Proof.
  intros Hs. destruct (scv_F_cases _ _ _ _ _ Hs) as [Hc|(t & c & acc & _ & _ & _ & _ & Hx & _)];
    [exact Hc|discriminate].
Qed.

Lemma scv_F_ff s : scvF s ([], []) = (let (s1, ok) := scv s in (s1, ([], []), ok)).
Proof.
  unfold set_chunk_valid_F, DlWrite.set_chunk_valid.
  destruct (d_tgt s) as [t|]; [|reflexivity].
  destruct (nth_error (d_tab s) t) as [c|]; [|reflexivity].
  destruct (d_acc s) as [acc|]; [|reflexivity].
  destruct (chunk_digest_ok H c acc); [reflexivity|].
  cbn [fst snd]. rewrite seek_d_nil, zero_F_ff. reflexivity.
Qed.

(** a checksum mismatch or a closed hash context leaves the error flag as it was, or sets it *)
Lemma scv_err_mono s s1 ok : scv s = (s1, ok) -> d_err s = true -> d_err s1 = true.
Proof.
  intros Hs He. destruct (scv_cases H doff _ _ _ Hs) as [(-> & _)|(t & c & _ & _ & Hc)]; [exact He|].
  destruct Hc as [(_ & _ & ->)|[(acc & _ & _ & _ & ->)|(acc & _ & _ & _ & ->)]]; cbn [d_err]; auto.
Qed.

Lemma sel_err s : d_err (sel s) = d_err s.
Proof.
  destruct (select_cases doff ridx s) as [(k0 & ->)|(e & c & cur & _ & _ & _ & _ & ->)]; reflexivity.
Qed.

Lemma sel_wic0_tab s : d_tab (sel s) = d_tab s.
Proof. apply select_tab. Qed.

Lemma select_F_cases s k s1 k1 ok :
  selF s k = (s1, k1, ok) ->
  (s1 = sel s /\ ok = true) \/
  (ok = false /\ d_err s1 = true /\ d_tab s1 = d_tab (sel s) /\ d_tgt s1 = d_tgt (sel s) /\
   d_file s1 = d_file s).
Proof.
  unfold select_F, DlWrite.select.
  set (k0 := match d_cur s with Some j => j | None => 0%nat end).
  destruct (search (d_tab s) (d_pos s) (skipn k0 ridx) k0) as [[[j e] c]|] eqn:Es.
  - destruct (seek_d (snd k)) as [sk ss'] eqn:Esk. destruct sk; intros Hx; inversion Hx; subst s1 k1 ok.
    + left. split; reflexivity.
    + right. cbn [d_err d_tab d_tgt d_file]. repeat split; reflexivity.
  - intros Hx; inversion Hx; subst s1 k1 ok. left. split; reflexivity.
Qed.

Lemma select_F_ff s : selF s ([], []) = (sel s, ([], []), true).
Proof.
  unfold select_F, DlWrite.select.
  set (k0 := match d_cur s with Some j => j | None => 0%nat end).
  destruct (search (d_tab s) (d_pos s) (skipn k0 ridx) k0) as [[[j e] c]|]; reflexivity.
Qed.

Lemma select_F_true s k s1 k1 : selF s k = (s1, k1, true) -> s1 = sel s.
Proof.
  intros Hs. destruct (select_F_cases _ _ _ _ _ Hs) as [[-> _]|(Hx & _)]; [reflexivity|discriminate].
Qed.

Lemma select_F_clean s k s1 k1 ok : selF s k = (s1, k1, ok) -> d_err s1 = false -> s1 = sel s /\ ok = true.
Proof.
  intros Hs He. destruct (select_F_cases _ _ _ _ _ Hs) as [Hc|(_ & Hx & _)]; [exact Hc|congruence].
Qed.

Lemma settle_F_clean s k s2 k2 ok :
  setF s k = (s2, k2, ok) -> d_err s2 = false -> settle s = (s2, ok).
Proof.
  unfold settle_F, DlWrite.settle. destruct (scvF s k) as [[s1 k1] ok1] eqn:Ev.
  destruct ok1.
  - intros Hs He. destruct (select_F_clean _ _ _ _ _ Hs He) as [-> ->].
    rewrite sel_err in He. rewrite (scv_F_clean _ _ _ _ _ Ev He). reflexivity.
  - intros Hx He. inversion Hx; subst s2 k2 ok. rewrite (scv_F_clean _ _ _ _ _ Ev He). reflexivity.
Qed.

Lemma settle_F_true s k s2 k2 : setF s k = (s2, k2, true) -> settle s = (s2, true).
Proof.
  unfold settle_F, DlWrite.settle. destruct (scvF s k) as [[s1 k1] ok1] eqn:Ev.
  destruct ok1; [|discriminate].
  intros Hs. rewrite (select_F_true _ _ _ _ Hs). rewrite (scv_F_true _ _ _ _ Ev). reflexivity.
Qed.

Lemma settle_true_err s s2 : settle s = (s2, true) -> d_err s2 = d_err s.
Proof.
  unfold DlWrite.settle. destruct (scv s) as [s1 ok1] eqn:Ev. destruct ok1; [|discriminate].
  intros Hx; inversion Hx; subst s2. rewrite sel_err.
  destruct (scv_ok H doff _ _ Ev) as (He & _). exact He.
Qed.

Lemma settle_F_false s k s2 k2 : d_err s = false ->
  setF s k = (s2, k2, false) -> d_err s2 = true \/ settle s = (s2, false).
Proof.
  intros He0 Hs. destruct (d_err s2) eqn:He; [left; reflexivity|right].
  exact (settle_F_clean _ _ _ _ _ Hs He).
Qed.

Lemma settle_F_ff s : setF s ([], []) = (let (s2, ok) := settle s in (s2, ([], []), ok)).
Proof.
  unfold settle_F, DlWrite.settle. rewrite scv_F_ff. destruct (scv s) as [s1 ok1].
  destruct ok1; [apply select_F_ff|reflexivity].
Qed.

(** * One iteration of the recursion *)
Inductive stepresF :=
| FDone (s : dlstate) (k : fsch) (r : dres)
| FMore (s2 : dlstate) (k2 : fsch) (wb : N).

Definition dstepF (s : dlstate) (k : fsch) (bs : bytes) : stepresF :=
  if d_err s then FDone s k DFail else
  if guard ridx s then FDone (set_err s) k DFail else
    let wb := wbf s (len bs) in
    let '(s1, k1, ok) := dl_write_F s k bs in
    if negb ok then FDone s1 k1 DFail else
    let '(s2, k2, ok2) := if d_wic s1 =? 0 then setF s1 k1 else (s1, k1, true) in
    if negb ok2 then FDone s2 k2 DFail else
    if (0 <? d_wic s2) && (wb <? len bs) then FMore s2 k2 wb else FDone s2 k2 (DOk wb).

Definition wrapF (wb : N) (r : dlstate * fsch * dres) : dlstate * fsch * dres :=
  match r with
  | (s3, k3, DOk wb2) => if wb2 =? 0 then (s3, k3, DFail) else (s3, k3, DOk (wb + wb2))
  | r => r
  end.

Lemma dlw_fF_S f s k bs :
  dlwfF (S f) s k bs =
  match dstepF s k bs with
  | FDone s' k' r => (s', k', r)
  | FMore s2 k2 wb => wrapF wb (dlwfF f s2 k2 (skipn (N.to_nat wb) bs))
  end.
Proof.
  unfold dstepF, wbf, guard. cbn [dlw_fF].
  destruct (d_err s); [reflexivity|].
  destruct ridx as [|e0 es]; [reflexivity|].
  destruct (d_tab s) as [|c0 cs]; [reflexivity|].
  destruct (dl_write_F s k bs) as [[s1 k1] ok]. destruct ok; cbn [negb]; try reflexivity.
  destruct (d_wic s1 =? 0).
  - destruct (settle_F _ _ _ s1 k1) as [[s2 k2] ok2].
    destruct ok2; cbn [negb]; try reflexivity.
    destruct ((0 <? d_wic s2) && _); try reflexivity.
    destruct (dlw_fF _ _ _ _ _ _ _) as [[s3 k3] r3]. destruct r3; reflexivity.
  - cbn [negb].
    destruct ((0 <? d_wic s1) && _); try reflexivity.
    destruct (dlw_fF _ _ _ _ _ _ _) as [[s3 k3] r3]. destruct r3; reflexivity.
Qed.


Lemma wrapF_wrap wb s3 k3 r3 s' k' r :
  wrapF wb (s3, k3, r3) = (s', k', r) -> wrap wb (s3, r3) = (s', r) /\ s3 = s' /\ k3 = k'.
Proof.
  unfold wrapF, wrap. destruct r3 as [n| |]; [destruct (n =? 0)|..];
    intros Hx; inversion Hx; subst; repeat split; reflexivity.
Qed.

(** (A) at the level of one iteration *)
Lemma dstepF_ff s bs :
  dstepF s ([], []) bs =
  match dstep s bs with
  | SDone s' r => FDone s' ([], []) r
  | SMore s2 wb => FMore s2 ([], []) wb
  end.
Proof.
  unfold dstepF, DlProofs.dstep. destruct (d_err s); [reflexivity|].
  destruct (guard ridx s); [reflexivity|].
  rewrite dl_write_F_ff. destruct (dl_write s bs) as [s1 ok]. destruct ok; cbn [negb]; [|reflexivity].
  destruct (d_wic s1 =? 0).
  - rewrite settle_F_ff. destruct (settle s1) as [s2 ok2]. destruct ok2; cbn [negb]; [|reflexivity].
    destruct ((0 <? d_wic s2) && _); reflexivity.
  - cbn [negb]. destruct ((0 <? d_wic s1) && _); reflexivity.
Qed.

(** (B), (C) at the level of one iteration: a step that recurses has set no error and is the
    fault-free step; a step that stops with no error is the fault-free step; a step that stops
    with the error set returns [DFail] *)
Lemma dstepF_sim s k bs :
  match dstepF s k bs with
  | FDone s' k' r =>
      (d_err s' = false -> dstep s bs = SDone s' r) /\ (d_err s' = true -> r = DFail) /\
      (d_err s = true -> s' = s /\ k' = k)
  | FMore s2 k2 wb => d_err s = false /\ d_err s2 = false /\ dstep s bs = SMore s2 wb
  end.
Proof.
  unfold dstepF, DlProofs.dstep. destruct (d_err s) eqn:He.
  { split; [reflexivity|]. split; [reflexivity|]. split; reflexivity. }
  destruct (guard ridx s) eqn:Eg.
  { split; [reflexivity|]. split; [reflexivity|]. discriminate. }
  destruct (dl_write_F s k bs) as [[s1 k1] ok] eqn:Ew. destruct ok; cbn [negb].
  2:{ rewrite (dl_write_F_false _ _ _ _ _ Ew). split; [discriminate|]. split; [reflexivity|discriminate]. }
  pose proof (dl_write_F_true _ _ _ _ _ Ew) as Ew'. rewrite Ew'. cbn [negb].
  destruct (dl_write_ok _ _ _ Ew') as (He1 & _). rewrite He in He1.
  destruct (d_wic s1 =? 0).
  - destruct (setF s1 k1) as [[s2 k2] ok2] eqn:Es. destruct ok2; cbn [negb].
    + pose proof (settle_F_true _ _ _ _ Es) as Es'. rewrite Es'. cbn [negb].
      pose proof (settle_true_err _ _ Es') as He2. rewrite He1 in He2.
      destruct ((0 <? d_wic s2) && _).
      * repeat split; [exact He2].
      * split; [reflexivity|]. split; [congruence|discriminate].
    + split; [|split; [reflexivity|discriminate]].
      intros He2. rewrite (settle_F_clean _ _ _ _ _ Es He2). reflexivity.
  - cbn [negb]. destruct ((0 <? d_wic s1) && _).
    + repeat split; [exact He1].
    + split; [reflexivity|]. split; [congruence|discriminate].
Qed.

(** * [dlw_fF] *)

(** (C) the error state is sticky: nothing happens any more *)
Lemma dlw_fF_sticky f s k bs : d_err s = true -> fst (dlwfF f s k bs) = (s, k).
Proof.
  intros He. destruct f as [|f]; [reflexivity|]. cbn [dlw_fF]. rewrite He. reflexivity.
Qed.

Lemma dlw_F_sticky : forall s k bs, d_err s = true -> dlwF s k bs = (s, k, DFail).
Proof. intros s k bs He. unfold dlw_F. cbn [dlw_fF]. rewrite He. reflexivity. Qed.

(** the error flag is never reset *)
Lemma dlw_fF_err_mono f s k bs s' k' r : dlwfF f s k bs = (s', k', r) -> d_err s = true -> d_err s' = true.
Proof.
  intros Hrun He. pose proof (dlw_fF_sticky f s k bs He) as Hs. rewrite Hrun in Hs. cbn [fst] in Hs.
  inversion Hs; subst. exact He.
Qed.

(** (B) *)
Lemma dlw_fF_clean f : forall s k bs s' k' r,
  dlwfF f s k bs = (s', k', r) -> d_err s' = false -> dlw_f f s bs = (s', r).
Proof.
  induction f as [|f IH]; intros s k bs s' k' r Hrun He.
  - cbn [dlw_fF] in Hrun. inversion Hrun; subst. reflexivity.
  - rewrite dlw_fF_S in Hrun. rewrite (dlw_f_S H doff ridx).
    pose proof (dstepF_sim s k bs) as Hsim.
    destruct (dstepF s k bs) as [s1 k1 r1|s2 k2 wb].
    + inversion Hrun; subst s1 k1 r1. destruct Hsim as (Hc & _). rewrite (Hc He). reflexivity.
    + destruct Hsim as (_ & _ & Hd). rewrite Hd.
      destruct (dlwfF f s2 k2 (skipn (N.to_nat wb) bs)) as [[s3 k3] r3] eqn:E3.
      destruct (wrapF_wrap _ _ _ _ _ _ _ Hrun) as (Hw & -> & ->).
      rewrite (IH _ _ _ _ _ _ E3 He). exact Hw.
Qed.

Theorem dlw_F_clean : forall s k bs s' k' r,
  dlwF s k bs = (s', k', r) -> d_err s' = false -> dlw s bs = (s', r).
Proof. intros s k bs s' k' r. apply dlw_fF_clean. Qed.

(** (A) *)
Lemma dlw_fF_ff f : forall s bs,
  dlwfF f s ([], []) bs = (let (s', r) := dlw_f f s bs in (s', ([], []), r)).
Proof.
  induction f as [|f IH]; intros s bs; [reflexivity|].
  rewrite dlw_fF_S, (dlw_f_S H doff ridx), dstepF_ff.
  destruct (dstep s bs) as [s1 r1|s2 wb]; [reflexivity|].
  rewrite IH. destruct (dlw_f f s2 (skipn (N.to_nat wb) bs)) as [s3 r3].
  unfold wrapF, wrap. destruct r3 as [n| |]; [destruct (n =? 0)|..]; reflexivity.
Qed.

Lemma dlw_F_ff : forall s bs,
  dlwF s ([], []) bs = (let (s', r) := dlw s bs in (s', ([], []), r)).
Proof. intros s bs. apply dlw_fF_ff. Qed.

(** (C) a run that ends with the error set ends in [DFail] (or ran out of fuel) *)
Lemma dlw_fF_err f : forall s k bs s' k' r,
  dlwfF f s k bs = (s', k', r) -> d_err s' = true -> r = DFail \/ r = DFuel.
Proof.
  induction f as [|f IH]; intros s k bs s' k' r Hrun He.
  - cbn [dlw_fF] in Hrun. inversion Hrun; subst. right. reflexivity.
  - rewrite dlw_fF_S in Hrun. pose proof (dstepF_sim s k bs) as Hsim.
    destruct (dstepF s k bs) as [s1 k1 r1|s2 k2 wb].
    + inversion Hrun; subst s1 k1 r1. destruct Hsim as (_ & Hc & _). left. exact (Hc He).
    + destruct (dlwfF f s2 k2 (skipn (N.to_nat wb) bs)) as [[s3 k3] r3] eqn:E3.
      destruct (wrapF_wrap _ _ _ _ _ _ _ Hrun) as (_ & Hs & _). subst s3.
      destruct (IH _ _ _ _ _ _ E3 He) as [->| ->]; cbn [wrapF] in Hrun; inversion Hrun; auto.
Qed.

(** the fuel of [dlw_F] suffices, whatever the schedule *)
Lemma dlw_fF_no_fuel f : forall s k bs, (need s bs <= f)%nat -> snd (dlwfF f s k bs) <> DFuel.
Proof.
  induction f as [|f IH]; intros s k bs Hn.
  - unfold need in Hn. destruct (d_wic s =? 0); lia.
  - rewrite dlw_fF_S. pose proof (dstepF_sim s k bs) as Hsim.
    destruct (dstepF s k bs) as [s1 k1 r1|s2 k2 wb] eqn:Ed.
    + cbn [snd]. unfold dstepF in Ed. destruct (d_err s); [inversion Ed; discriminate|].
      destruct (guard ridx s); [inversion Ed; discriminate|].
      destruct (dl_write_F s k bs) as [[s1' k1'] ok]. destruct ok; cbn [negb] in Ed; [|inversion Ed; discriminate].
      destruct (if d_wic s1' =? 0 then setF s1' k1' else (s1', k1', true)) as [[s2' k2'] ok2].
      destruct ok2; cbn [negb] in Ed; [|inversion Ed; discriminate].
      destruct ((0 <? d_wic s2') && (wbf s (len bs) <? len bs)); inversion Ed; discriminate.
    + destruct Hsim as (_ & _ & Hd).
      specialize (IH s2 k2 (skipn (N.to_nat wb) bs) (need_more H doff ridx _ _ _ _ _ Hd Hn)).
      destruct (dlwfF f s2 k2 (skipn (N.to_nat wb) bs)) as [[s3 k3] r3]. cbn [snd] in IH.
      unfold wrapF. destruct r3; cbn [snd]; try congruence. destruct (n =? 0); cbn [snd]; discriminate.
Qed.

Theorem dlw_F_total s k bs : snd (dlwF s k bs) <> DFuel.
Proof. apply dlw_fF_no_fuel. apply need_dlw. Qed.

Theorem dlw_F_err_fails : forall s k bs s' k' r,
  dlwF s k bs = (s', k', r) -> d_err s' = true -> r = DFail.
Proof.
  intros s k bs s' k' r Hrun He. destruct (dlw_fF_err _ _ _ _ _ _ _ Hrun He) as [Hr|Hr]; [exact Hr|].
  exfalso. apply (dlw_F_total s k bs). rewrite Hrun. exact Hr.
Qed.

(** [DOk] is only returned when no error is recorded *)
Corollary dlw_F_ok_noerr s k bs s' k' n : dlwF s k bs = (s', k', DOk n) -> d_err s' = false.
Proof.
  intros Hrun. destruct (d_err s') eqn:He; [|reflexivity].
  pose proof (dlw_F_err_fails _ _ _ _ _ _ Hrun He). discriminate.
Qed.

Lemma dlw_F_err_mono s k bs s' k' r : dlwF s k bs = (s', k', r) -> d_err s = true -> d_err s' = true.
Proof. apply dlw_fF_err_mono. Qed.


(** * The multipart layer over [dlw_F] *)
Variable rx_comp : bytes -> bool.
Variable rx_exec : bytes -> bytes -> option ((N * N) * (N * N)).

Notation loopF := (mp_loop_F H doff ridx rx_exec).
Notation loop := (mp_loop H doff ridx rx_exec).
Notation mpxF := (mpx_F H doff ridx rx_comp rx_exec).
Notation mpx := (Multipart.mpx H doff ridx rx_comp rx_exec).
Notation cbF := (write_cb_F H doff ridx rx_comp rx_exec).
Notation cb := (write_cb H doff ridx rx_comp rx_exec).
Notation feedF := (feed_frags_F H doff ridx rx_comp rx_exec).
Notation feed := (feed_frags H doff ridx rx_comp rx_exec).

(** one iteration of [mp_loop_F]; the header branch issues no system call: it is MpStream's
    [hdr_step] with the schedule passed through *)
Definition mp_resF : Type :=
  ((dlstate * fsch * mpstate) * mstatus) + (dlstate * fsch * bool * N * bytes).

Definition data_stepF (dl : dlstate) (k : fsch) (mlen : N) (isuf : bytes) : mp_resF :=
  let '(dl', k', r) := dlwF dl k (firstn (N.to_nat (dsize mlen (len isuf))) isuf) in
  if dret r =? dsize mlen (len isuf)
  then inr (dl', k', dst mlen (len isuf), dmlen mlen (len isuf),
            skipn (N.to_nat (dsize mlen (len isuf))) isuf)
  else inl ((dl', k', mkMp (dst mlen (len isuf)) (dmlen mlen (len isuf)) []), MErr).

Definition liftres (k : fsch) (s : mp_res) : mp_resF :=
  match s with
  | inl ((dl', mp'), r) => inl ((dl', k, mp'), r)
  | inr (dl', st', mlen', i') => inr (dl', k, st', mlen', i')
  end.

Definition forget (s : mp_resF) : mp_res :=
  match s with
  | inl ((dl', _, mp'), r) => inl ((dl', mp'), r)
  | inr (dl', _, st', mlen', i') => inr (dl', st', mlen', i')
  end.

Definition dlof (s : mp_res) : dlstate :=
  match s with inl ((dl', _), _) => dl' | inr (dl', _, _, _) => dl' end.

Definition dlofF (s : mp_resF) : dlstate :=
  match s with inl ((dl', _, _), _) => dl' | inr (dl', _, _, _, _) => dl' end.

Definition mp_stepF (pn pe : bytes) (dl : dlstate) (k : fsch) (st : bool) (mlen : N) (isuf : bytes)
  : mp_resF :=
  match isuf with
  | [] => inl ((dl, k, mkMp st mlen []), MOk)
  | _ => if st then data_stepF dl k mlen isuf else liftres k (hdr_step rx_exec pn pe dl mlen isuf)
  end.

Definition mp_nextF (f : nat) (pn pe : bytes) (s : mp_resF) : (dlstate * fsch * mpstate) * mstatus :=
  match s with
  | inl r => r
  | inr (dl', k', st', mlen', i') => loopF f pn pe dl' k' st' mlen' i'
  end.

Lemma mp_loop_F_S f pn pe dl k st mlen isuf :
  loopF (S f) pn pe dl k st mlen isuf = mp_nextF f pn pe (mp_stepF pn pe dl k st mlen isuf).
Proof.
  unfold mp_nextF, mp_stepF.
  destruct st, isuf as [|b0 isuf]; try reflexivity.
  - unfold data_stepF, dsize, dst, dmlen. cbn [mp_loop_F].
    destruct (dlw_F _ _ _ dl k _) as [[dl' k'] r].
    destruct (dret r =? _); reflexivity.
  - unfold hdr_step, liftres. cbn [mp_loop_F].
    destruct (scan _ _ _); try reflexivity.
    destruct (cstr _); try reflexivity.
    destruct (rx_exec pn _) as [[[so1 eo1] [so2 eo2]]|].
    + destruct (take_exact _ so1 _); try reflexivity.
      destruct (take_exact _ so2 _); reflexivity.
    + destruct (rx_exec pe _); reflexivity.
Qed.

Lemma hdr_step_dl pn pe dl mlen isuf :
  dlof (hdr_step rx_exec pn pe dl mlen isuf) = dl \/
  dlof (hdr_step rx_exec pn pe dl mlen isuf) = set_err dl.
Proof.
  unfold hdr_step.
  destruct (scan _ _ _); try (left; reflexivity).
  destruct (cstr _); try (left; reflexivity).
  destruct (rx_exec pn _) as [[[so1 eo1] [so2 eo2]]|].
  - destruct (take_exact _ so1 _); try (left; reflexivity).
    destruct (take_exact _ so2 _); left; reflexivity.
  - destruct (rx_exec pe _); [left|right]; reflexivity.
Qed.

Lemma forget_liftres k s : forget (liftres k s) = s.
Proof. destruct s as [[[dl' mp'] r]|[[[dl' st'] mlen'] i']]; reflexivity. Qed.

Lemma dlofF_liftres k s : dlofF (liftres k s) = dlof s.
Proof. destruct s as [[[dl' mp'] r]|[[[dl' st'] mlen'] i']]; reflexivity. Qed.

(** ** Lifting a predicate on the download state through the layer (as Section Lift of
    SessionProofs.v) *)
Section LiftF.
Variable P : dlstate -> Prop.
Hypothesis P_err : forall s, P s -> P (set_err s).
Hypothesis P_dlwF : forall s k bs s' k' r, P s -> dlwF s k bs = (s', k', r) -> P s'.

Lemma mp_stepF_lift pn pe dl k st mlen isuf : P dl -> P (dlofF (mp_stepF pn pe dl k st mlen isuf)).
Proof.
  intros HP. unfold mp_stepF. destruct isuf as [|b0 isuf']; [exact HP|]. destruct st.
  - unfold data_stepF. destruct (dlwF dl k _) as [[dl' k'] r] eqn:E.
    pose proof (P_dlwF _ _ _ _ _ _ HP E) as HP'. destruct (dret r =? _); exact HP'.
  - rewrite dlofF_liftres. destruct (hdr_step_dl pn pe dl mlen (b0 :: isuf')) as [-> | ->];
      [exact HP|apply P_err; exact HP].
Qed.

Lemma mp_loop_F_lift : forall f pn pe dl k st mlen isuf, P dl ->
  P (fst (fst (fst (loopF f pn pe dl k st mlen isuf)))).
Proof.
  induction f as [|f IH]; intros pn pe dl k st mlen isuf HP; [exact HP|].
  rewrite mp_loop_F_S. pose proof (mp_stepF_lift pn pe dl k st mlen isuf HP) as Hs.
  destruct (mp_stepF pn pe dl k st mlen isuf)
    as [[[[dl' k'] mp'] r]|[[[[dl' k'] st'] mlen'] i']]; cbn [mp_nextF fst dlofF] in *.
  - exact Hs.
  - apply IH. exact Hs.
Qed.

Lemma mpx_F_lift x k b : P (x_dl x) -> P (x_dl (fst (fst (mpxF x k b)))).
Proof.
  intros HP. unfold mpx_F. destruct (d_err (x_dl x)); [exact HP|]. cbv zeta.
  destruct (match x_rx x with Some r => Some r | None => _ end) as [[pn pe]|].
  - pose proof (mp_loop_F_lift (2 * length (m_buf (x_mp x) ++ b) + 4) pn pe (x_dl x) k
                  (m_state (x_mp x)) (m_length (x_mp x)) (m_buf (x_mp x) ++ b) HP) as Hl.
    destruct (mp_loop_F _ _ _ _ _ _ _ _ _ _ _ _) as [[[dl' k'] mp'] r]. exact Hl.
  - cbn [fst x_dl]. apply P_err. exact HP.
Qed.

Lemma write_cb_F_lift x k fr : P (x_dl x) -> P (x_dl (fst (fst (fst (cbF x k fr))))).
Proof.
  intros HP. unfold write_cb_F. destruct (x_boundary x).
  - pose proof (mpx_F_lift x k fr HP) as Hm.
    destruct (mpxF x k fr) as [[x' k'] r]. exact Hm.
  - destruct (dlwF (x_dl x) k fr) as [[dl' k'] r] eqn:E. cbn [fst x_dl].
    exact (P_dlwF _ _ _ _ _ _ HP E).
Qed.

Lemma feed_frags_F_lift : forall frags x k,
  P (x_dl x) -> P (x_dl (fst (fst (fst (feedF x k frags))))).
Proof.
  induction frags as [|fr rest IH]; intros x k HP; cbn [feed_frags_F]; [exact HP|].
  pose proof (write_cb_F_lift x k fr HP) as Hw.
  destruct (cbF x k fr) as [[[x' k'] ok] r]. cbn [fst] in Hw.
  assert (Hgo : P (x_dl (fst (fst (fst (if ok
              then let '(x'', k'', l, a) := feedF x' k' rest in (x'', k'', true :: l, a)
              else (x', k', [false], false))))))).
  { destruct ok; [|exact Hw]. specialize (IH x' k' Hw).
    destruct (feedF x' k' rest) as [[[x'' k''] l] a]. exact IH. }
  destruct r; try exact Hgo; exact Hw.
Qed.
End LiftF.

(** the error flag is never reset by any layer *)
Lemma err_P_err s : d_err s = true -> d_err (set_err s) = true.
Proof. reflexivity. Qed.

Lemma err_P_dlwF s k bs s' k' r : d_err s = true -> dlwF s k bs = (s', k', r) -> d_err s' = true.
Proof. intros He Hrun. exact (dlw_F_err_mono _ _ _ _ _ _ Hrun He). Qed.

Lemma mp_loop_F_err_mono f pn pe dl k st mlen isuf dl' k' mp' r :
  loopF f pn pe dl k st mlen isuf = ((dl', k', mp'), r) -> d_err dl = true -> d_err dl' = true.
Proof.
  intros Hrun He.
  pose proof (mp_loop_F_lift (fun s => d_err s = true) err_P_err err_P_dlwF f pn pe dl k st mlen isuf He) as Hx.
  rewrite Hrun in Hx. exact Hx.
Qed.

Lemma write_cb_F_err_mono x k fr x' k' ok r :
  cbF x k fr = (x', k', ok, r) -> d_err (x_dl x) = true -> d_err (x_dl x') = true.
Proof.
  intros Hrun He.
  pose proof (write_cb_F_lift (fun s => d_err s = true) err_P_err err_P_dlwF x k fr He) as Hx.
  rewrite Hrun in Hx. exact Hx.
Qed.

Lemma feed_frags_F_err_mono frags x k x' k' rets ok :
  feedF x k frags = (x', k', rets, ok) -> d_err (x_dl x) = true -> d_err (x_dl x') = true.
Proof.
  intros Hrun He.
  pose proof (feed_frags_F_lift (fun s => d_err s = true) err_P_err err_P_dlwF frags x k He) as Hx.
  rewrite Hrun in Hx. exact Hx.
Qed.

(** ** (A) empty schedules *)
Lemma mp_stepF_ff pn pe dl st mlen isuf :
  mp_stepF pn pe dl ([], []) st mlen isuf =
  liftres ([], []) (mp_step H doff ridx rx_exec pn pe dl st mlen isuf).
Proof.
  unfold mp_stepF, mp_step. destruct isuf as [|b0 isuf']; [reflexivity|].
  destruct st; [|reflexivity].
  unfold data_stepF, data_step. rewrite dlw_F_ff.
  destruct (dlw dl _) as [dl' r]. destruct (dret r =? _); reflexivity.
Qed.

Lemma mp_loop_F_ff : forall f pn pe dl st mlen isuf,
  loopF f pn pe dl ([], []) st mlen isuf =
  (let '((dl', mp'), r) := loop f pn pe dl st mlen isuf in ((dl', ([], []), mp'), r)).
Proof.
  induction f as [|f IH]; intros pn pe dl st mlen isuf; [reflexivity|].
  rewrite mp_loop_F_S, mp_loop_S, mp_stepF_ff.
  destruct (mp_step H doff ridx rx_exec pn pe dl st mlen isuf)
    as [[[dl' mp'] r]|[[[dl' st'] mlen'] i']]; cbn [liftres mp_nextF mp_next]; [reflexivity|apply IH].
Qed.

Lemma mpx_F_ff x b : mpxF x ([], []) b = (let (x', r) := mpx x b in (x', ([], []), r)).
Proof.
  unfold mpx_F, Multipart.mpx. destruct (d_err (x_dl x)); [reflexivity|]. cbv zeta.
  destruct (match x_rx x with Some r => Some r | None => _ end) as [[pn pe]|]; [|reflexivity].
  rewrite mp_loop_F_ff. destruct (mp_loop _ _ _ _ _ _ _ _ _ _ _) as [[dl' mp'] r]. reflexivity.
Qed.

Lemma write_cb_F_ff x fr :
  cbF x ([], []) fr = (let '(x', ok, r) := cb x fr in (x', ([], []), ok, r)).
Proof.
  unfold write_cb_F, write_cb. destruct (x_boundary x).
  - rewrite mpx_F_ff. destruct (mpx x fr) as [x' r]. reflexivity.
  - rewrite dlw_F_ff. destruct (dlw (x_dl x) fr) as [dl' r]. reflexivity.
Qed.

Lemma feed_frags_F_ff : forall frags x,
  feedF x ([], []) frags = (let '(x', rets, ok) := feed x frags in (x', ([], []), rets, ok)).
Proof.
  induction frags as [|fr rest IH]; intros x; cbn [feed_frags_F feed_frags]; [reflexivity|].
  rewrite write_cb_F_ff. destruct (cb x fr) as [[x1 ok1] r1].
  destruct r1; destruct ok1; try reflexivity;
    rewrite IH; destruct (feed x1 rest) as [[x2 l] a]; reflexivity.
Qed.

(** ** (B) no error recorded: the fault-free run *)
Lemma mp_stepF_clean pn pe dl k st mlen isuf :
  d_err (dlofF (mp_stepF pn pe dl k st mlen isuf)) = false ->
  mp_step H doff ridx rx_exec pn pe dl st mlen isuf = forget (mp_stepF pn pe dl k st mlen isuf).
Proof.
  unfold mp_stepF, mp_step. destruct isuf as [|b0 isuf']; [reflexivity|].
  destruct st; [|intros _; rewrite forget_liftres; reflexivity].
  unfold data_stepF, data_step. destruct (dlwF dl k _) as [[dl' k'] r] eqn:E.
  intros He.
  assert (He' : d_err dl' = false) by (destruct (dret r =? _); exact He).
  rewrite (dlw_F_clean _ _ _ _ _ _ E He'). destruct (dret r =? _); reflexivity.
Qed.

Lemma mp_loop_F_clean : forall f pn pe dl k st mlen isuf dl' k' mp' r,
  loopF f pn pe dl k st mlen isuf = ((dl', k', mp'), r) -> d_err dl' = false ->
  loop f pn pe dl st mlen isuf = ((dl', mp'), r).
Proof.
  induction f as [|f IH]; intros pn pe dl k st mlen isuf dl' k' mp' r Hrun He.
  - cbn [mp_loop_F] in Hrun. inversion Hrun; subst. reflexivity.
  - rewrite mp_loop_F_S in Hrun. rewrite mp_loop_S.
    pose proof (mp_stepF_clean pn pe dl k st mlen isuf) as Hc.
    destruct (mp_stepF pn pe dl k st mlen isuf)
      as [[[[dl1 k1] mp1] r1]|[[[[dl1 k1] st1] mlen1] i1]]; cbn [mp_nextF dlofF forget] in *.
    + inversion Hrun; subst. rewrite (Hc He). reflexivity.
    + assert (He1 : d_err dl1 = false).
      { destruct (d_err dl1) eqn:E1; [|reflexivity].
        pose proof (mp_loop_F_err_mono _ _ _ _ _ _ _ _ _ _ _ _ Hrun E1). congruence. }
      rewrite (Hc He1). cbn [mp_next]. exact (IH _ _ _ _ _ _ _ _ _ _ _ Hrun He).
Qed.

Lemma mpx_F_clean x k b x' k' r :
  mpxF x k b = (x', k', r) -> d_err (x_dl x') = false -> mpx x b = (x', r).
Proof.
  unfold mpx_F, Multipart.mpx. destruct (d_err (x_dl x)).
  { intros Hx _. inversion Hx; subst. reflexivity. }
  cbv zeta. destruct (match x_rx x with Some r => Some r | None => _ end) as [[pn pe]|].
  - destruct (mp_loop_F _ _ _ _ _ _ _ _ _ _ _ _) as [[[dl1 k1] mp1] r1] eqn:El.
    intros Hx He. inversion Hx; subst x' k' r. cbn [x_dl] in He.
    rewrite (mp_loop_F_clean _ _ _ _ _ _ _ _ _ _ _ _ El He). reflexivity.
  - intros Hx _. inversion Hx; subst. reflexivity.
Qed.

Lemma write_cb_F_clean x k fr x' k' ok r :
  cbF x k fr = (x', k', ok, r) -> d_err (x_dl x') = false -> cb x fr = (x', ok, r).
Proof.
  unfold write_cb_F, write_cb. destruct (x_boundary x).
  - destruct (mpxF x k fr) as [[x1 k1] r1] eqn:Em. intros Hx He. inversion Hx; subst x' k' ok r.
    rewrite (mpx_F_clean _ _ _ _ _ _ Em He). reflexivity.
  - destruct (dlwF (x_dl x) k fr) as [[dl1 k1] r1] eqn:Ed. intros Hx He.
    inversion Hx; subst x' k' ok r. cbn [x_dl] in He.
    rewrite (dlw_F_clean _ _ _ _ _ _ Ed He). reflexivity.
Qed.

Theorem feed_frags_F_clean : forall frags x k x' k' rets ok,
  feedF x k frags = (x', k', rets, ok) -> d_err (x_dl x') = false ->
  feed x frags = (x', rets, ok).
Proof.
  induction frags as [|fr rest IH]; intros x k x' k' rets ok Hrun He;
    cbn [feed_frags_F] in Hrun; cbn [feed_frags].
  - inversion Hrun; subst. reflexivity.
  - destruct (cbF x k fr) as [[[x1 k1] ok1] r1] eqn:Ecb.
    assert (He1 : d_err (x_dl x1) = false).
    { destruct r1; destruct ok1; try (inversion Hrun; subst; exact He);
        destruct (feedF x1 k1 rest) as [[[x2 k2] l] a] eqn:Er; inversion Hrun; subst;
        (destruct (d_err (x_dl x1)) eqn:E1; [|reflexivity]);
        pose proof (feed_frags_F_err_mono _ _ _ _ _ _ _ Er E1); congruence. }
    rewrite (write_cb_F_clean _ _ _ _ _ _ _ Ecb He1).
    destruct r1; destruct ok1; try (inversion Hrun; subst; reflexivity);
      destruct (feedF x1 k1 rest) as [[[x2 k2] l] a] eqn:Er; inversion Hrun; subst;
      rewrite (IH _ _ _ _ _ _ Er He); reflexivity.
Qed.

Lemma len_eqb0_false (fr : bytes) : fr <> [] -> (len fr =? 0) = false.
Proof. intros Hn. apply N.eqb_neq. pose proof (len_pos fr Hn). lia. Qed.

(** in plain mode a transfer in which every callback reported success has recorded no error *)
Theorem plain_success_clean : forall frags x k x' k' rets,
  x_boundary x = None -> d_err (x_dl x) = false -> Forall (fun fr => fr <> []) frags ->
  feedF x k frags = (x', k', rets, true) -> d_err (x_dl x') = false.
Proof.
  induction frags as [|fr rest IH]; intros x k x' k' rets Hb He0 Hne Hrun; cbn [feed_frags_F] in Hrun.
  - inversion Hrun; subst. exact He0.
  - inversion Hne as [|fr' rest' Hfr Hrest]; subst.
    unfold write_cb_F in Hrun. rewrite Hb in Hrun.
    destruct (dlwF (x_dl x) k fr) as [[dl1 k1] r1] eqn:Ed.
    rewrite (len_eqb0_false fr Hfr) in Hrun.
    destruct r1 as [n| |]; cbn [dret] in Hrun.
    + pose proof (dlw_F_ok_noerr _ _ _ _ _ _ Ed) as He1.
      destruct (negb (n =? 0) || false); [|discriminate].
      destruct (feedF (mkX dl1 (x_mp x) None (x_rx x)) k1 rest) as [[[x2 k2] l] a] eqn:Er.
      inversion Hrun; subst. eapply IH; [| |exact Hrest|exact Er]; [reflexivity|exact He1].
    + cbn in Hrun. discriminate.
    + discriminate.
Qed.

(** ** (C) an error is reported *)
Theorem write_cb_F_after_error : forall x k frag, d_err (x_dl x) = true -> frag <> [] ->
  exists r, cbF x k frag = (x, k, false, r).
Proof.
  intros x k frag He Hne. unfold write_cb_F. destruct (x_boundary x) eqn:Eb.
  - unfold mpx_F. rewrite He. rewrite (len_eqb0_false frag Hne). exists MErr. reflexivity.
  - rewrite (dlw_F_sticky _ _ _ He). rewrite (len_eqb0_false frag Hne). exists MOk.
    destruct x as [dl mp bd rx]. cbn in *. subst bd. reflexivity.
Qed.

Theorem plain_cb_reports : forall x k frag x' k' ok r, x_boundary x = None -> frag <> [] ->
  cbF x k frag = (x', k', ok, r) -> d_err (x_dl x') = true -> ok = false.
Proof.
  intros x k frag x' k' ok r Hb Hne. unfold write_cb_F. rewrite Hb.
  destruct (dlwF (x_dl x) k frag) as [[dl1 k1] r1] eqn:Ed. intros Hx He.
  inversion Hx; subst x' k' ok r. cbn [x_dl] in He.
  rewrite (dlw_F_err_fails _ _ _ _ _ _ Ed He). rewrite (len_eqb0_false frag Hne). reflexivity.
Qed.

(** Multipart mode.  Inside the data of a part of non-zero length, a [dlw_F] call that sets the
    error ends the callback with [MErr] (the callback returns 0).  A part of length 0
    ([size = 0]) is different: [dl_write_range] is called with no bytes, may set the error (the
    pending chunk is settled: seek / zero fill can fail), returns 0 = size, and the loop goes on;
    the callback can then report success with the error state set.  The NEXT callback fails
    ([write_cb_F_after_error]).  See [Ex.zero_part_swallows] below. *)
Lemma mp_loop_F_data_err f pn pe dl k mlen isuf dl' k' r :
  isuf <> [] -> 0 < mlen ->
  dlwF dl k (firstn (N.to_nat (dsize mlen (len isuf))) isuf) = (dl', k', r) ->
  d_err dl' = true ->
  loopF (S f) pn pe dl k true mlen isuf =
  ((dl', k', mkMp (dst mlen (len isuf)) (dmlen mlen (len isuf)) []), MErr).
Proof.
  intros Hne Hm Hd He. rewrite mp_loop_F_S. unfold mp_stepF.
  destruct isuf as [|b0 isuf']; [congruence|]. unfold data_stepF. rewrite Hd.
  rewrite (dlw_F_err_fails _ _ _ _ _ _ Hd He). cbn [dret].
  assert (Hs : 0 < dsize mlen (len (b0 :: isuf'))).
  { unfold dsize. rewrite len_cons. destruct (mlen <=? 1 + len isuf'); lia. }
  replace (0 =? dsize mlen (len (b0 :: isuf'))) with false by (symmetry; apply N.eqb_neq; lia).
  reflexivity.
Qed.


(** ** Multipart mode, globally: when a callback sets the error it returns 0 ([MErr]), or took
    the fault-free exit "neither pattern matched" ([MNoRange], which sets the error itself), or
    the error was set by a [dl_write_range] call with NO bytes (a part of length 0) *)
Definition zero_call_err : Prop :=
  exists dl1 k1 dl2 k2 r2, d_err dl1 = false /\ dlwF dl1 k1 [] = (dl2, k2, r2) /\ d_err dl2 = true.

Lemma hdr_step_shape pn pe dl mlen isuf :
  match hdr_step rx_exec pn pe dl mlen isuf with
  | inl ((dl', _), r) => dl' = dl \/ (dl' = set_err dl /\ r = MNoRange)
  | inr (dl', _, _, _) => dl' = dl
  end.
Proof.
  unfold hdr_step.
  destruct (scan _ _ _); try (left; reflexivity).
  destruct (cstr _); try (left; reflexivity).
  destruct (rx_exec pn _) as [[[so1 eo1] [so2 eo2]]|].
  - destruct (take_exact _ so1 _); try (left; reflexivity).
    destruct (take_exact _ so2 _); [reflexivity|left; reflexivity].
  - destruct (rx_exec pe _); [left; reflexivity|right; split; reflexivity].
Qed.

Lemma mp_stepF_false pn pe dl k mlen isuf :
  mp_stepF pn pe dl k false mlen isuf =
  liftres k (mp_step H doff ridx rx_exec pn pe dl false mlen isuf).
Proof. destruct isuf; reflexivity. Qed.

Lemma mp_stepF_shape pn pe dl k st mlen isuf :
  match mp_stepF pn pe dl k st mlen isuf with
  | inl (_, r) => r <> MFuel
  | inr (_, _, st', _, i') => (mp_meas st' i' < mp_meas st isuf)%nat
  end.
Proof.
  destruct st.
  - unfold mp_stepF. destruct isuf as [|b0 isuf']; [discriminate|].
    unfold data_stepF. destruct (dlwF dl k _) as [[dl' k'] r].
    destruct (dret r =? _); [|discriminate].
    unfold mp_meas, dst, dsize. destruct (mlen <=? len (b0 :: isuf')).
    + rewrite skipn_length. cbn [length]. lia.
    + rewrite skipn_length, to_nat_len. cbn [length]. lia.
  - rewrite mp_stepF_false.
    destruct (mp_step H doff ridx rx_exec pn pe dl false mlen isuf)
      as [[[dl' mp'] r]|[[[dl' st'] mlen'] i']] eqn:E; cbn [liftres].
    + exact (mp_step_inl H doff ridx rx_exec _ _ _ _ _ _ _ E).
    + exact (mp_step_inr H doff ridx rx_exec _ _ _ _ _ _ _ _ _ _ E).
Qed.

Lemma mp_loop_F_no_fuel : forall f pn pe dl k st mlen isuf,
  (mp_meas st isuf <= f)%nat -> snd (loopF f pn pe dl k st mlen isuf) <> MFuel.
Proof.
  induction f as [|f IH]; intros pn pe dl k st mlen isuf Hf.
  - unfold mp_meas in Hf. destruct st; lia.
  - rewrite mp_loop_F_S. pose proof (mp_stepF_shape pn pe dl k st mlen isuf) as Hs.
    destruct (mp_stepF pn pe dl k st mlen isuf)
      as [[[[dl' k'] mp'] r]|[[[[dl' k'] st'] mlen'] i']]; cbn [mp_nextF snd].
    + exact Hs.
    + apply IH. lia.
Qed.

Lemma mp_stepF_err pn pe dl k st mlen isuf : d_err dl = false ->
  match mp_stepF pn pe dl k st mlen isuf with
  | inl ((dl', _, _), r) => d_err dl' = true -> r = MErr \/ r = MNoRange \/ zero_call_err
  | inr (dl', _, _, _, _) => d_err dl' = true -> zero_call_err
  end.
Proof.
  intros He0. destruct st.
  - unfold mp_stepF. destruct isuf as [|b0 isuf']; [intros He; congruence|].
    unfold data_stepF. destruct (dlwF dl k _) as [[dl' k'] r] eqn:E.
    destruct (dret r =? _) eqn:Eq; [|intros _; left; reflexivity].
    intros He. rewrite (dlw_F_err_fails _ _ _ _ _ _ E He) in Eq. cbn [dret] in Eq.
    apply N.eqb_eq in Eq. rewrite <- Eq in E. cbn [N.to_nat firstn] in E.
    exists dl, k, dl', k', r. split; [exact He0|]. split; [exact E|exact He].
  - rewrite mp_stepF_false.
    destruct (nil_dec isuf) as [->|Hne].
    { rewrite mp_step_nil. cbn [liftres]. intros He; congruence. }
    rewrite mp_step_ne by exact Hne.
    pose proof (hdr_step_shape pn pe dl mlen isuf) as Hs.
    destruct (hdr_step rx_exec pn pe dl mlen isuf) as [[[dl' mp'] r]|[[[dl' st'] mlen'] i']];
      cbn [liftres].
    + intros He. destruct Hs as [->|[_ ->]]; [congruence|right; left; reflexivity].
    + intros He. subst dl'. congruence.
Qed.

Lemma mp_loop_F_err : forall f pn pe dl k st mlen isuf dl' k' mp' r,
  d_err dl = false -> loopF f pn pe dl k st mlen isuf = ((dl', k', mp'), r) -> d_err dl' = true ->
  r = MErr \/ r = MNoRange \/ r = MFuel \/ zero_call_err.
Proof.
  induction f as [|f IH]; intros pn pe dl k st mlen isuf dl' k' mp' r He0 Hrun He.
  - cbn [mp_loop_F] in Hrun. inversion Hrun; subst. right. right. left. reflexivity.
  - rewrite mp_loop_F_S in Hrun. pose proof (mp_stepF_err pn pe dl k st mlen isuf He0) as Hs.
    destruct (mp_stepF pn pe dl k st mlen isuf)
      as [[[[dl1 k1] mp1] r1]|[[[[dl1 k1] st1] mlen1] i1]]; cbn [mp_nextF] in Hrun.
    + inversion Hrun; subst. destruct (Hs He) as [Hx|[Hx|Hx]]; auto.
    + destruct (d_err dl1) eqn:E1.
      * right. right. right. exact (Hs eq_refl).
      * exact (IH _ _ _ _ _ _ _ _ _ _ _ E1 Hrun He).
Qed.

Theorem mpx_F_err_reported : forall x k b x' k' r,
  d_err (x_dl x) = false -> mpxF x k b = (x', k', r) -> d_err (x_dl x') = true ->
  r = MErr \/ r = MNoRange \/ zero_call_err.
Proof.
  intros x k b x' k' r He0. unfold mpx_F. rewrite He0. cbv zeta.
  destruct (match x_rx x with Some r => Some r | None => _ end) as [[pn pe]|].
  - destruct (mp_loop_F _ _ _ _ _ _ _ _ _ _ _ _) as [[[dl1 k1] mp1] r1] eqn:El.
    intros Hx He. inversion Hx; subst x' k' r. cbn [x_dl] in He.
    destruct (mp_loop_F_err _ _ _ _ _ _ _ _ _ _ _ _ He0 El He) as [Hr|[Hr|[Hr|Hr]]]; auto.
    exfalso.
    apply (mp_loop_F_no_fuel (2 * length (m_buf (x_mp x) ++ b) + 4) pn pe (x_dl x) k
             (m_state (x_mp x)) (m_length (x_mp x)) (m_buf (x_mp x) ++ b)).
    + unfold mp_meas. destruct (m_state (x_mp x)); lia.
    + rewrite El. exact Hr.
  - intros Hx _. inversion Hx; subst. left. reflexivity.
Qed.

Theorem mp_cb_reports : forall x k frag x' k' ok r bd,
  x_boundary x = Some bd -> frag <> [] -> d_err (x_dl x) = false ->
  cbF x k frag = (x', k', ok, r) -> d_err (x_dl x') = true ->
  ok = false \/ r = MNoRange \/ zero_call_err.
Proof.
  intros x k frag x' k' ok r bd Hb Hne He0. unfold write_cb_F. rewrite Hb.
  destruct (mpxF x k frag) as [[x1 k1] r1] eqn:Em. intros Hx He. inversion Hx; subst x' k' ok r.
  destruct (mpx_F_err_reported _ _ _ _ _ _ He0 Em He) as [->|[->|Hz]]; auto.
  left. rewrite (len_eqb0_false frag Hne). reflexivity.
Qed.

(** * (D) Invariants for every schedule *)

(** DlInv's [dl_wf2] with the position and hash clauses required only while no error is
    recorded: after a failed write the descriptor has advanced without write_in_chunk being
    reduced, but then nothing is written any more *)
Definition dl_wfF (tab0 : list chunk) (s : dlstate) : Prop :=
  same_shape tab0 (d_tab s) /\
  (forall t c c', nth_error tab0 t = Some c -> c_valid c = VValid ->
      nth_error (d_tab s) t = Some c' -> c_valid c' = VValid) /\
  (forall t c, d_tgt s = Some t -> nth_error (d_tab s) t = Some c -> fillable ridx tab0 t) /\
  (d_err s = false -> 0 < d_wic s -> exists t c, d_tgt s = Some t /\ nth_error (d_tab s) t = Some c /\
      doff + c_start c <= d_fpos s /\ d_fpos s + d_wic s = doff + c_start c + c_len c) /\
  (d_err s = false -> tgt_ok doff s).

Notation dl_wf := (DlInv.dl_wf doff ridx).
Notation tgt_ok := (DlInv.tgt_ok doff).
Notation verified := (DlInv.verified H doff).
Notation outside := (DlInv.outside doff ridx).
Notation touch := (DlInv.touch doff).
Notation disjoint_tab := (DlInv.disjoint_tab doff).

Lemma wfF_of_wf2 tab0 s : dl_wf tab0 s -> tgt_ok s -> dl_wfF tab0 s.
Proof.
  intros (W1 & W2 & W3 & W4) T. split; [exact W1|]. split; [exact W2|]. split; [exact W3|].
  split; [intros _; exact W4|intros _; exact T].
Qed.

Lemma wf2_of_wfF tab0 s : dl_wfF tab0 s -> d_err s = false -> dl_wf tab0 s /\ tgt_ok s.
Proof.
  intros (W1 & W2 & W3 & W4 & T) He. split; [|exact (T He)].
  split; [exact W1|]. split; [exact W2|]. split; [exact W3|exact (W4 He)].
Qed.

(** with the error set only the table clauses matter *)
Lemma wfF_err tab0 s0 s1 :
  dl_wf tab0 s0 -> d_tab s1 = d_tab s0 -> d_tgt s1 = d_tgt s0 -> d_err s1 = true -> dl_wfF tab0 s1.
Proof.
  intros (W1 & W2 & W3 & _) Ht Hg He. unfold dl_wfF. rewrite Ht, Hg.
  split; [exact W1|]. split; [exact W2|]. split; [exact W3|].
  split; intros He'; congruence.
Qed.

Lemma dl_wfF_set_err tab0 s : dl_wfF tab0 s -> dl_wfF tab0 (set_err s).
Proof.
  intros (W1 & W2 & W3 & _). unfold dl_wfF. cbn [set_err d_tab d_tgt d_err].
  split; [exact W1|]. split; [exact W2|]. split; [exact W3|]. split; intros He'; discriminate.
Qed.

Lemma dl_wfF_init : forall tab0 fpos file, dl_wfF tab0 (mkDl false 0 0 None None None fpos file tab0).
Proof.
  intros tab0 fpos file. destruct (dl_wf2_init doff ridx tab0 fpos file) as [W T].
  apply wfF_of_wf2; assumption.
Qed.

(** ** What the primitives touch *)
Lemma dl_write_F_tab s k bs s1 k1 ok :
  dl_write_F s k bs = (s1, k1, ok) -> d_tab s1 = d_tab s /\ d_tgt s1 = d_tgt s.
Proof.
  intros Hw. destruct (dl_write_F_cases _ _ _ _ _ _ Hw) as [Hc|(_ & _ & a & r & _ & ->)].
  - destruct (dl_write_spec _ _ _ _ Hc) as (Ht & Hg & _). split; assumption.
  - split; reflexivity.
Qed.

(** a partial write puts a prefix of the block at the same position *)
Lemma dl_write_F_touch tab0 s k bs s1 k1 ok :
  dl_wf tab0 s -> dl_write_F s k bs = (s1, k1, ok) ->
  forall x, fget (d_file s1) x = fget (d_file s) x \/ touch s x.
Proof.
  intros W Hw x. destruct (dl_write_F_cases _ _ _ _ _ _ Hw) as [Hc|(_ & Hpos & a & r & Hpre & ->)].
  - exact (dl_write_touch doff ridx tab0 s bs s1 ok W Hc x).
  - cbn [d_file]. rewrite fget_file_write.
    destruct ((d_fpos s <=? x) && (x <? d_fpos s + len a)) eqn:E; [|left; reflexivity].
    right. apply andb_prop in E. destruct E as [E1 E2]. apply N.leb_le in E1. apply N.ltb_lt in E2.
    destruct W as (_ & _ & _ & W4). destruct (W4 Hpos) as (t & c & Hg & Hn & Ha & Hb).
    assert (Hla : len a <= d_wic s).
    { assert (Hl : len (a ++ r) = N.min (d_wic s) (len bs)).
      { rewrite <- Hpre. apply len_firstn_min. lia. }
      rewrite len_app in Hl. lia. }
    exists t, c. split; [exact Hg|]. split; [exact Hn|]. unfold in_ext. lia.
Qed.

Lemma verified_touch tab0 s s1 :
  disjoint_tab tab0 -> dl_wf tab0 s -> tgt_ok s -> verified tab0 s -> d_tab s1 = d_tab s ->
  (forall x, fget (d_file s1) x = fget (d_file s) x \/ touch s x) -> verified tab0 s1.
Proof.
  intros D W T V Htab Htouch t c c0 H0 Hv0 Hn Hv. rewrite Htab in Hn.
  rewrite (untouched doff ridx tab0 s (d_file s1) t c D W).
  - exact (V _ _ _ H0 Hv0 Hn Hv).
  - intros tt Hg E. subst tt. destruct (T _ _ Hg Hn) as [Hnv _]. contradiction.
  - exact Hn.
  - exact Htouch.
Qed.

Lemma verified_failed tab0 s s1 tt cc :
  disjoint_tab tab0 -> dl_wf tab0 s -> verified tab0 s ->
  d_tgt s = Some tt -> nth_error (d_tab s) tt = Some cc ->
  d_tab s1 = set_flag (d_tab s) tt VFailed ->
  (forall x, fget (d_file s1) x = fget (d_file s) x \/ touch s x) -> verified tab0 s1.
Proof.
  intros D W V Hg Hnn Htab Htouch t c c0 H0 Hv0 Hn Hv. rewrite Htab in Hn.
  destruct (set_flag_inv _ _ _ _ _ Hn) as (c1 & Hn1 & Hst & Hle & Hdg & Hother & Hsame).
  destruct (Nat.eq_dec t tt) as [E|E].
  - rewrite (Hsame E) in Hv. discriminate.
  - rewrite (Hother E) in *. clear Hother Hsame.
    rewrite (untouched doff ridx tab0 s (d_file s1) t c1 D W).
    + exact (V _ _ _ H0 Hv0 Hn1 Hv).
    + intros t2 Hg2 E2. apply E. congruence.
    + exact Hn1.
    + exact Htouch.
Qed.

(** ** Generic invariant principle for [dlw_fF]: the primitives are only ever entered with the
    error state clear *)
Section GenericF.
Variable P : dlstate -> Prop.
Hypothesis P_err : forall s, P s -> P (set_err s).
Hypothesis P_write : forall s k bs s1 k1 ok,
  P s -> d_err s = false -> dl_write_F s k bs = (s1, k1, ok) -> P s1.
Hypothesis P_scv : forall s k s1 k1 ok,
  P s -> d_err s = false -> d_wic s = 0 -> scvF s k = (s1, k1, ok) -> P s1.
Hypothesis P_select : forall s k s1 k1 ok,
  P s -> d_err s = false -> d_wic s = 0 -> selF s k = (s1, k1, ok) -> P s1.

Lemma settle_F_inv s k s2 k2 ok : P s -> d_err s = false -> d_wic s = 0 -> setF s k = (s2, k2, ok) -> P s2.
Proof.
  intros HP He Hw. unfold settle_F. destruct (scvF s k) as [[sv kv] okv] eqn:Ev.
  pose proof (P_scv _ _ _ _ _ HP He Hw Ev) as HPv.
  destruct okv; [|intros Hx; inversion Hx; subst; exact HPv].
  destruct (scv_ok H doff _ _ (scv_F_true _ _ _ _ Ev)) as (He1 & Hw1 & _).
  intros Hs. eapply P_select; [exact HPv|congruence|congruence|exact Hs].
Qed.

Lemma dstepF_inv s k bs : P s ->
  match dstepF s k bs with FDone s' _ _ => P s' | FMore s2 _ _ => P s2 end.
Proof.
  intros HP. unfold dstepF. destruct (d_err s) eqn:He; [exact HP|].
  destruct (guard ridx s); [apply P_err; exact HP|].
  destruct (dl_write_F s k bs) as [[s1 k1] ok] eqn:Ew.
  pose proof (P_write _ _ _ _ _ _ HP He Ew) as HP1.
  destruct ok; cbn [negb]; [|exact HP1].
  destruct (dl_write_ok _ _ _ (dl_write_F_true _ _ _ _ _ Ew)) as (He1 & _). rewrite He in He1.
  destruct (d_wic s1 =? 0) eqn:E0.
  - apply N.eqb_eq in E0. destruct (setF s1 k1) as [[s2 k2] ok2] eqn:Es.
    pose proof (settle_F_inv _ _ _ _ _ HP1 He1 E0 Es) as HP2.
    destruct ok2; cbn [negb]; [|exact HP2].
    destruct ((0 <? d_wic s2) && _); exact HP2.
  - cbn [negb]. destruct ((0 <? d_wic s1) && _); exact HP1.
Qed.

Lemma dlw_fF_inv f : forall s k bs s' k' r, P s -> dlwfF f s k bs = (s', k', r) -> P s'.
Proof.
  induction f as [|f IH]; intros s k bs s' k' r HP.
  - cbn [dlw_fF]. intros Hx; inversion Hx; subst; exact HP.
  - rewrite dlw_fF_S. pose proof (dstepF_inv s k bs HP) as Hd.
    destruct (dstepF s k bs) as [s1 k1 r1|s2 k2 wb].
    + intros Hx; inversion Hx; subst; exact Hd.
    + intros Hx. destruct (dlwfF f s2 k2 (skipn (N.to_nat wb) bs)) as [[s3 k3] r3] eqn:E.
      destruct (wrapF_wrap _ _ _ _ _ _ _ Hx) as (_ & <- & _).
      eapply IH; [exact Hd|exact E].
Qed.
End GenericF.

(** ** Confinement (needs neither [disjoint_tab] nor [verified]) *)
Definition confF (tab0 : list chunk) (f0 : bytes) (s : dlstate) : Prop :=
  dl_wfF tab0 s /\ forall x, outside tab0 x -> fget (d_file s) x = fget f0 x.

Lemma conf_step tab0 f0 s s1 :
  dl_wf tab0 s -> (forall x, outside tab0 x -> fget (d_file s) x = fget f0 x) ->
  (forall x, fget (d_file s1) x = fget (d_file s) x \/ touch s x) ->
  forall x, outside tab0 x -> fget (d_file s1) x = fget f0 x.
Proof.
  intros W Cf Ht x Hx. destruct (Ht x) as [E|T].
  - rewrite E. apply Cf. exact Hx.
  - exfalso. exact (touch_outside doff ridx tab0 s x W T Hx).
Qed.

Lemma confF_err tab0 f0 s : confF tab0 f0 s -> confF tab0 f0 (set_err s).
Proof. intros [WF Cf]. split; [apply dl_wfF_set_err; exact WF|exact Cf]. Qed.

Lemma confF_write tab0 f0 s k bs s1 k1 ok :
  confF tab0 f0 s -> d_err s = false -> dl_write_F s k bs = (s1, k1, ok) -> confF tab0 f0 s1.
Proof.
  intros [WF Cf] He Hw. destruct (wf2_of_wfF _ _ WF He) as [W T].
  destruct (dl_write_F_tab _ _ _ _ _ _ Hw) as [Htab Htgt].
  split.
  - destruct (d_err s1) eqn:He1.
    + exact (wfF_err tab0 s s1 W Htab Htgt He1).
    + pose proof (dl_write_F_clean _ _ _ _ _ _ Hw He1) as Hc. apply wfF_of_wf2.
      * exact (dl_wf_write doff ridx tab0 s bs s1 ok W Hc).
      * exact (tgt_ok_write doff ridx tab0 s bs s1 ok W T Hc).
  - exact (conf_step tab0 f0 s s1 W Cf (dl_write_F_touch tab0 s k bs s1 k1 ok W Hw)).
Qed.

Lemma scv_F_touch s k s1 k1 ok :
  scvF s k = (s1, k1, ok) -> forall x, fget (d_file s1) x = fget (d_file s) x \/ touch s x.
Proof.
  intros Hs x. destruct (scv_F_cases _ _ _ _ _ Hs) as [Hc|(t & c & acc & Hg & Hn & _ & _ & _ & _ & _ & _ & _ & _ & Hf)].
  - exact (scv_touch H doff s s1 ok Hc x).
  - destruct (Hf x) as [E|E]; [left; exact E|]. right. exists t, c. split; [exact Hg|]. split; [exact Hn|exact E].
Qed.

Lemma confF_scv tab0 f0 s k s1 k1 ok :
  confF tab0 f0 s -> d_err s = false -> d_wic s = 0 -> scvF s k = (s1, k1, ok) -> confF tab0 f0 s1.
Proof.
  intros [WF Cf] He Hwic Hs. destruct (wf2_of_wfF _ _ WF He) as [W T].
  split; [|exact (conf_step tab0 f0 s s1 W Cf (scv_F_touch s k s1 k1 ok Hs))].
  destruct (scv_F_cases _ _ _ _ _ Hs)
    as [Hc|(t & c & acc & Hg & Hn & _ & _ & _ & _ & Htab & Htgt & Hacc & Hw1 & _)].
  - apply wfF_of_wf2.
    + exact (dl_wf_scv H doff ridx tab0 s s1 ok W Hwic Hc).
    + exact (tgt_ok_scv H doff s s1 ok T Hc).
  - apply wfF_of_wf2.
    + apply (dl_wf_set_flag doff ridx tab0 s s1 t c VFailed W Hg Hn Htab); [left; exact Htgt|congruence].
    + apply (tgt_ok_failed doff s s1 t); [congruence|exact Htab|exact Hacc].
Qed.

Lemma confF_select tab0 f0 s k s1 k1 ok :
  confF tab0 f0 s -> d_err s = false -> d_wic s = 0 -> selF s k = (s1, k1, ok) -> confF tab0 f0 s1.
Proof.
  intros [WF Cf] He Hwic Hs. destruct (wf2_of_wfF _ _ WF He) as [W T].
  destruct (select_F_cases _ _ _ _ _ Hs) as [[-> _]|(_ & He1 & Htab & Htgt & Hfile)].
  - split.
    + apply wfF_of_wf2; [apply dl_wf_select; exact W|apply tgt_ok_select; exact T].
    + rewrite select_file. exact Cf.
  - split.
    + exact (wfF_err tab0 (sel s) s1 (dl_wf_select doff ridx tab0 s W) Htab Htgt He1).
    + rewrite Hfile. exact Cf.
Qed.

Lemma dlw_fF_confF tab0 f0 f s k bs s' k' r :
  confF tab0 f0 s -> dlwfF f s k bs = (s', k', r) -> confF tab0 f0 s'.
Proof.
  apply (dlw_fF_inv (confF tab0 f0)).
  - apply confF_err.
  - apply confF_write.
  - apply confF_scv.
  - apply confF_select.
Qed.

(** T5.4 for every schedule *)
Theorem dlw_F_confined : forall tab0 s k bs s' k' r,
  dl_wfF tab0 s -> dlwF s k bs = (s', k', r) ->
  dl_wfF tab0 s' /\
  (forall x, (forall t c, nth_error tab0 t = Some c -> fillable ridx tab0 t -> ~ in_ext doff c x) ->
             fget (d_file s') x = fget (d_file s) x).
Proof.
  intros tab0 s k bs s' k' r WF Hrun.
  unfold dlw_F in Hrun. apply (dlw_fF_confF tab0 (d_file s) (S (S (length bs))) s k bs s' k' r); [|exact Hrun].
  split; [exact WF|]. intros x _. reflexivity.
Qed.

(** ** Confinement and verification *)
Definition invF (tab0 : list chunk) (f0 : bytes) (s : dlstate) : Prop :=
  confF tab0 f0 s /\ verified tab0 s.

Lemma dlw_fF_invF tab0 f0 f s k bs s' k' r :
  disjoint_tab tab0 -> invF tab0 f0 s -> dlwfF f s k bs = (s', k', r) -> invF tab0 f0 s'.
Proof.
  intros D. apply (dlw_fF_inv (invF tab0 f0)).
  - intros s0 [C0 V0]. split; [apply confF_err; exact C0|].
    revert V0. apply verified_ext; reflexivity.
  - intros s0 k0 bs0 s1 k1 ok [C0 V0] He Hw. split; [exact (confF_write _ _ _ _ _ _ _ _ C0 He Hw)|].
    destruct (wf2_of_wfF _ _ (proj1 C0) He) as [W T].
    destruct (dl_write_F_tab _ _ _ _ _ _ Hw) as [Htab _].
    exact (verified_touch tab0 s0 s1 D W T V0 Htab (dl_write_F_touch tab0 s0 k0 bs0 s1 k1 ok W Hw)).
  - intros s0 k0 s1 k1 ok [C0 V0] He Hwic Hs. split; [exact (confF_scv _ _ _ _ _ _ _ C0 He Hwic Hs)|].
    destruct (wf2_of_wfF _ _ (proj1 C0) He) as [W T].
    destruct (scv_F_cases _ _ _ _ _ Hs)
      as [Hc|(t & c & acc & Hg & Hn & _ & _ & _ & _ & Htab & _)].
    + exact (verified_scv H doff ridx tab0 s0 s1 ok D W T V0 Hwic Hc).
    + exact (verified_failed tab0 s0 s1 t c D W V0 Hg Hn Htab (scv_F_touch s0 k0 s1 k1 ok Hs)).
  - intros s0 k0 s1 k1 ok [C0 V0] He Hwic Hs. split; [exact (confF_select _ _ _ _ _ _ _ C0 He Hwic Hs)|].
    destruct (select_F_cases _ _ _ _ _ Hs) as [[-> _]|(_ & _ & Htab & _ & Hfile)].
    + revert V0. apply verified_ext; [apply select_tab|apply select_file].
    + revert V0. apply verified_ext; [rewrite Htab; apply select_tab|exact Hfile].
Qed.

Theorem dlw_F_inv : forall tab0 s k bs s' k' r,
  disjoint_tab tab0 -> dl_wfF tab0 s -> verified tab0 s -> dlwF s k bs = (s', k', r) ->
  dl_wfF tab0 s' /\ verified tab0 s' /\
  (forall x, (forall t c, nth_error tab0 t = Some c -> fillable ridx tab0 t -> ~ in_ext doff c x) ->
             fget (d_file s') x = fget (d_file s) x).
Proof.
  intros tab0 s k bs s' k' r D WF V Hrun.
  unfold dlw_F in Hrun.
  destruct (dlw_fF_invF tab0 (d_file s) (S (S (length bs))) s k bs s' k' r D) as [[WF' Cf'] V']; [|exact Hrun|].
  - split; [split; [exact WF|intros x _; reflexivity]|exact V].
  - split; [exact WF'|]. split; [exact V'|exact Cf'].
Qed.

(** ** The same through the multipart layer and the callbacks *)
Lemma invF_err tab0 f0 s : invF tab0 f0 s -> invF tab0 f0 (set_err s).
Proof.
  intros [C0 V0]. split; [apply confF_err; exact C0|]. revert V0. apply verified_ext; reflexivity.
Qed.

Theorem feed_frags_F_inv : forall tab0 frags x k x' k' rets ok,
  disjoint_tab tab0 -> dl_wfF tab0 (x_dl x) -> verified tab0 (x_dl x) ->
  feedF x k frags = (x', k', rets, ok) ->
  dl_wfF tab0 (x_dl x') /\ verified tab0 (x_dl x') /\
  (forall off, (forall t c, nth_error tab0 t = Some c -> fillable ridx tab0 t -> ~ in_ext doff c off) ->
               fget (d_file (x_dl x')) off = fget (d_file (x_dl x)) off).
Proof.
  intros tab0 frags x k x' k' rets ok D WF V Hrun.
  pose proof (feed_frags_F_lift (invF tab0 (d_file (x_dl x))) (invF_err tab0 _)
                (fun s k bs s' k' r HP Hr => dlw_fF_invF tab0 _ _ s k bs s' k' r D HP Hr) frags x k) as Hl.
  rewrite Hrun in Hl. cbn [fst] in Hl.
  destruct Hl as [[WF' Cf'] V'].
  - split; [split; [exact WF|intros off _; reflexivity]|exact V].
  - split; [exact WF'|]. split; [exact V'|exact Cf'].
Qed.

Theorem feed_frags_F_confined : forall tab0 frags x k x' k' rets ok,
  dl_wfF tab0 (x_dl x) -> feedF x k frags = (x', k', rets, ok) ->
  dl_wfF tab0 (x_dl x') /\
  (forall off, (forall t c, nth_error tab0 t = Some c -> fillable ridx tab0 t -> ~ in_ext doff c off) ->
               fget (d_file (x_dl x')) off = fget (d_file (x_dl x)) off).
Proof.
  intros tab0 frags x k x' k' rets ok WF Hrun.
  pose proof (feed_frags_F_lift (confF tab0 (d_file (x_dl x))) (confF_err tab0 _)
                (fun s k bs s' k' r HP Hr => dlw_fF_confF tab0 _ _ s k bs s' k' r HP Hr) frags x k) as Hl.
  rewrite Hrun in Hl. cbn [fst] in Hl. apply Hl.
  split; [exact WF|intros off _; reflexivity].
Qed.

(** a chunk that was valid before the transfer is valid afterwards and its bytes are unchanged,
    whatever faults occur *)
Corollary feed_frags_F_valid_kept : forall tab0 frags x k x' k' rets ok t c,
  disjoint_tab tab0 -> dl_wfF tab0 (x_dl x) -> feedF x k frags = (x', k', rets, ok) ->
  nth_error tab0 t = Some c -> c_valid c = VValid ->
  (exists c', nth_error (d_tab (x_dl x')) t = Some c' /\ c_valid c' = VValid /\
              c_start c' = c_start c /\ c_len c' = c_len c /\ c_digest c' = c_digest c) /\
  fread (d_file (x_dl x')) (doff + c_start c) (N.to_nat (c_len c)) =
  fread (d_file (x_dl x)) (doff + c_start c) (N.to_nat (c_len c)).
Proof.
  intros tab0 frags x k x' k' rets ok t c D WF Hrun Hn Hv.
  destruct (feed_frags_F_confined _ _ _ _ _ _ _ _ WF Hrun) as [(W1 & W2 & _) Hfr].
  split.
  - destruct (same_shape_init _ _ _ _ W1 Hn) as (c' & Hn' & Hs & Hl & Hd).
    exists c'. split; [exact Hn'|]. split; [exact (W2 _ _ _ Hn Hv Hn')|]. auto.
  - apply fread_ext. intros off Hoff. apply Hfr. intros t' c' Hn' (c2 & e & Hn2 & Hv2 & _) Hin'.
    rewrite Hn' in Hn2. inversion Hn2; subst c2.
    apply (D t t' c c' off); try assumption.
    + intros E. subst t'. congruence.
    + unfold in_ext. lia.
Qed.

Corollary dlw_F_valid_kept : forall tab0 s k bs s' k' r t c,
  disjoint_tab tab0 -> dl_wfF tab0 s -> dlwF s k bs = (s', k', r) ->
  nth_error tab0 t = Some c -> c_valid c = VValid ->
  (exists c', nth_error (d_tab s') t = Some c' /\ c_valid c' = VValid /\
              c_start c' = c_start c /\ c_len c' = c_len c /\ c_digest c' = c_digest c) /\
  fread (d_file s') (doff + c_start c) (N.to_nat (c_len c)) =
  fread (d_file s) (doff + c_start c) (N.to_nat (c_len c)).
Proof.
  intros tab0 s k bs s' k' r t c D WF Hrun Hn Hv.
  destruct (dlw_F_confined _ _ _ _ _ _ _ WF Hrun) as [(W1 & W2 & _) Hfr].
  split.
  - destruct (same_shape_init _ _ _ _ W1 Hn) as (c' & Hn' & Hs & Hl & Hd).
    exists c'. split; [exact Hn'|]. split; [exact (W2 _ _ _ Hn Hv Hn')|]. auto.
  - apply fread_ext. intros off Hoff. apply Hfr. intros t' c' Hn' (c2 & e & Hn2 & Hv2 & _) Hin'.
    rewrite Hn' in Hn2. inversion Hn2; subst c2.
    apply (D t t' c c' off); try assumption.
    + intros E. subst t'. congruence.
    + unfold in_ext. lia.
Qed.


(** a failure with no error recorded is, as in the fault-free model, a checksum mismatch whose
    chunk has been zeroed completely *)
Corollary dlw_F_fail_zeroed : forall s k bs s' k',
  dlwF s k bs = (s', k', DFail) -> d_err s' = false ->
  exists t c, d_tgt s' = Some t /\ nth_error (d_tab s') t = Some c /\ c_valid c = VFailed /\
    fread (d_file s') (doff + c_start c) (N.to_nat (c_len c)) = repeat 0 (N.to_nat (c_len c)).
Proof.
  intros s k bs s' k' Hrun He.
  exact (dlw_fail_zeroed_gen H doff ridx s bs s' (dlw_F_clean _ _ _ _ _ _ Hrun He) He).
Qed.

End Proofs.

Print Assumptions dlw_F_ff.
Print Assumptions feed_frags_F_ff.
Print Assumptions dlw_F_clean.
Print Assumptions feed_frags_F_clean.
Print Assumptions plain_success_clean.
Print Assumptions dlw_F_err_fails.
Print Assumptions dlw_F_sticky.
Print Assumptions write_cb_F_after_error.
Print Assumptions plain_cb_reports.
Print Assumptions mp_loop_F_data_err.
Print Assumptions mpx_F_err_reported.
Print Assumptions mp_cb_reports.
Print Assumptions dlw_F_confined.
Print Assumptions dlw_F_inv.
Print Assumptions feed_frags_F_inv.
Print Assumptions feed_frags_F_confined.
Print Assumptions feed_frags_F_valid_kept.
Print Assumptions dl_wfF_init.
Print Assumptions dlw_F_fail_zeroed.

(** * (E) Concrete schedules *)
Module Ex.
Definition toyH := D14.toyH.
Definition dA : bytes := [1; 2].
Definition dB : bytes := [3; 4; 5].
(* data_offset 1: byte 0 belongs to the header; chunk 0 at 1..2, chunk 1 at 3..5, chunk 2 (already
   valid) at 6 *)
Definition tab : list chunk :=
  [mkChunk 0 2 (toyH dA) VUnknown; mkChunk 2 3 (toyH dB) VUnknown; mkChunk 5 1 (toyH [7]) VValid].
Definition ridx : list rentry := [mkRentry 0 2 (toyH dA) 0; mkRentry 2 3 (toyH dB) 1].
Definition s0 : dlstate := mkDl false 0 0 None None None 0 [8; 9; 9; 9; 9; 9; 7] tab.
Definition flags (s : dlstate) := map c_valid (d_tab s).
Definition run := dlw_F toyH 1 ridx.

Example s0_wf : disjoint_tab 1 tab /\ dl_wfF 1 ridx tab s0 /\ verified toyH 1 tab s0.
Proof.
  split; [|split; [apply dl_wfF_init|apply verified_init]].
  intros t1 t2 c1 c2 x Hne H1 H2 I1 I2. unfold in_ext in *.
  destruct t1 as [|[|[|t1]]]; destruct t2 as [|[|[|t2]]]; cbn in H1, H2; try congruence;
    try (destruct t1; discriminate); try (destruct t2; discriminate);
    inversion H1; inversion H2; subst c1 c2; cbn in I1, I2; lia.
Qed.

(** (i) a short write, the retry succeeds: the fault-free result, no error *)
Example short_write_retry :
  run s0 ([WShort 1; WFull], []) (dA ++ dB) =
    (let (s', r) := dlw toyH 1 ridx s0 (dA ++ dB) in (s', ([], []), r)) /\
  let '(s', _, r) := run s0 ([WShort 1; WFull], []) (dA ++ dB) in
  r = DOk 5 /\ d_err s' = false /\ flags s' = [VValid; VValid; VValid] /\
  d_file s' = [8; 1; 2; 3; 4; 5; 7].
Proof. vm_compute. repeat split; reflexivity. Qed.

(** (ii) chunk 1 is being written: a short write of 1 byte, the retry writes nothing.
    [DFail], error set, chunk 1 not flagged valid, a prefix ([3]) of the block in the file;
    the next call fails at once and changes nothing *)
Example write_fails_mid_chunk :
  let '(s', k', r) := run s0 ([WFull; WShort 1; WShort 0], []) (dA ++ dB) in
  r = DFail /\ d_err s' = true /\ flags s' = [VValid; VUnknown; VValid] /\
  d_file s' = [8; 1; 2; 3; 9; 9; 7] /\
  run s' k' dB = (s', k', DFail).
Proof. vm_compute. repeat split; reflexivity. Qed.

Example write_error_mid_chunk :
  let '(s', k', r) := run s0 ([WFull; WErr], []) (dA ++ dB) in
  r = DFail /\ d_err s' = true /\ flags s' = [VValid; VUnknown; VValid] /\
  d_file s' = [8; 1; 2; 9; 9; 9; 7] /\
  run s' k' dB = (s', k', DFail).
Proof. vm_compute. repeat split; reflexivity. Qed.

(** (iii) the lseek of the first selection fails: [DFail], error set, file and flags unchanged *)
Example seek_fails :
  let '(s', k', r) := run s0 ([], [false]) (dA ++ dB) in
  r = DFail /\ d_err s' = true /\ flags s' = flags s0 /\ d_file s' = d_file s0 /\ k' = ([], []).
Proof. vm_compute. repeat split; reflexivity. Qed.

(** (iv) checksum mismatch on chunk 0; fault-free: the chunk is zeroed, no error recorded *)
Example mismatch_fault_free :
  let '(s', _, r) := run s0 ([], []) [1; 3] in
  r = DFail /\ d_err s' = false /\ flags s' = [VFailed; VUnknown; VValid] /\
  d_file s' = [8; 0; 0; 9; 9; 9; 7].
Proof. vm_compute. repeat split; reflexivity. Qed.

(** the zero fill writes one byte and then hits [WErr]: flag [VFailed], error set, the chunk
    half zeroed, every byte outside the chunk unchanged *)
Example mismatch_zero_fill_fails :
  let '(s', _, r) := run s0 ([WFull; WShort 1; WErr], []) [1; 3] in
  r = DFail /\ d_err s' = true /\ flags s' = [VFailed; VUnknown; VValid] /\
  d_file s' = [8; 0; 3; 9; 9; 9; 7].
Proof. vm_compute. repeat split; reflexivity. Qed.

(** the seek of zero_chunk fails: nothing is zeroed, the bad bytes stay, flag [VFailed] *)
Example mismatch_zero_seek_fails :
  let '(s', _, r) := run s0 ([], [true; false]) [1; 3] in
  r = DFail /\ d_err s' = true /\ flags s' = [VFailed; VUnknown; VValid] /\
  d_file s' = [8; 1; 3; 9; 9; 9; 7].
Proof. vm_compute. repeat split; reflexivity. Qed.

(** (v) the callbacks, plain mode: two fragments, the write of the second fails *)
Definition rx_comp := MpExample.rx_comp.
Definition rx_exec := MpExample.rx_exec.
Definition xp : xstate := mkX s0 (mkMp false 0 []) None None.
Definition feedx := feed_frags_F toyH 1 ridx rx_comp rx_exec.

Example plain_second_fragment_fails :
  let '(x', _, rets, ok) := feedx xp ([WFull; WErr], []) [dA; dB] in
  rets = [true; false] /\ ok = false /\ d_err (x_dl x') = true /\
  flags (x_dl x') = [VValid; VUnknown; VValid] /\ d_file (x_dl x') = [8; 1; 2; 9; 9; 9; 7].
Proof. vm_compute. repeat split; reflexivity. Qed.

Example plain_short_writes_recovered :
  feedx xp ([WShort 1; WFull; WShort 2; WShort 1], []) [dA; dB] =
  (let '(x', rets, ok) := feed_frags toyH 1 ridx rx_comp rx_exec xp [dA; dB] in (x', ([], []), rets, ok)) /\
  let '(x', _, rets, ok) := feedx xp ([WShort 1; WFull; WShort 2; WShort 1], []) [dA; dB] in
  rets = [true; true] /\ ok = true /\ d_err (x_dl x') = false /\
  flags (x_dl x') = [VValid; VValid; VValid] /\ d_file (x_dl x') = [8; 1; 2; 3; 4; 5; 7].
Proof. vm_compute. repeat split; reflexivity. Qed.

(** (vi) multipart mode, a part of length 0 ("R1-0": end + 1 = start): [dl_write_range] is
    called with no bytes, the lseek of the selection fails and sets the error, it returns
    0 = size, and the callback reports success.  The error is reported by the NEXT callback. *)
Definition xm : xstate := mkX s0 (mkMp false 0 []) (Some [66]) (Some ([63], [33])).
Definition zero_part : bytes := [82; 49; 45; 48; 13; 10; 13; 10; 1; 2].

Example zero_part_swallows :
  let '(x', k', ok, r) := write_cb_F toyH 1 ridx rx_comp rx_exec xm ([], [false]) zero_part in
  ok = true /\ r = MOk /\ d_err (x_dl x') = true /\ d_file (x_dl x') = d_file s0 /\
  write_cb_F toyH 1 ridx rx_comp rx_exec x' k' [3] = (x', k', false, MErr).
Proof. vm_compute. repeat split; reflexivity. Qed.

End Ex.
