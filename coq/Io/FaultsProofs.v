From ZV Require Import Base.Bytes Gen.GenConsts Io.Faults.
From Coq Require Import ZifyBool ZifyN ZifyNat.
Local Open Scope N_scope.

Lemma firstn_skipn_len (l : bytes) (k : N) : firstn (N.to_nat k) l ++ skipn (N.to_nat k) l = l.
Proof. apply firstn_skipn. Qed.

Lemma firstn_all_len (l : bytes) (k : N) : len l <= k -> firstn (N.to_nat k) l = l.
Proof. intros H. apply firstn_all2. unfold len in H. lia. Qed.

Lemma sys_write_count o data w a :
  sys_write o data = (Some w, a) -> w <= len data /\ a = firstn (N.to_nat w) data.
Proof.
  destruct o as [|k|]; cbn [sys_write]; intros E; inversion E; subst.
  - split; [lia|]. symmetry. apply firstn_all_len. lia.
  - split; [lia|reflexivity].
Qed.

(** write_data reports success only if exactly [data] reached the descriptor *)
Theorem write_data_true sched data a s' :
  write_data sched data = (true, a, s') -> a = data.
Proof.
  unfold write_data. destruct data as [|b d]; [intros E; inversion E; reflexivity|].
  set (data := b :: d). destruct sched as [|o1 s1]; [intros E; inversion E; reflexivity|].
  destruct (sys_write o1 data) as [[w1|] a1] eqn:E1; [|intros E; discriminate].
  destruct (sys_write_count _ _ _ _ E1) as [Hw1 Ha1].
  destruct (N.ltb_spec w1 (len data)) as [Hlt|Hge].
  - destruct s1 as [|o2 s2].
    + intros E; inversion E; subst. apply firstn_skipn.
    + destruct (sys_write o2 (skipn (N.to_nat w1) data)) as [[w2|] a2] eqn:E2; [|intros E; discriminate].
      destruct (sys_write_count _ _ _ _ E2) as [Hw2 Ha2].
      destruct (N.ltb_spec w2 (len (skipn (N.to_nat w1) data))) as [Hlt2|Hge2]; [intros E; discriminate|].
      intros E; inversion E; subst.
      rewrite (firstn_all_len (skipn (N.to_nat w1) data) w2) by lia. apply firstn_skipn.
  - intros E; inversion E; subst. apply firstn_all_len. lia.
Qed.

(** whatever happens, only a prefix of the data reaches the descriptor *)
Theorem write_data_prefix sched data ok a s' :
  write_data sched data = (ok, a, s') -> exists r, data = a ++ r.
Proof.
  destruct ok; [intros E; apply write_data_true in E; subst; exists []; symmetry; apply app_nil_r|].
  unfold write_data. destruct data as [|b d]; [intros E; discriminate|].
  set (data := b :: d). destruct sched as [|o1 s1]; [intros E; discriminate|].
  destruct (sys_write o1 data) as [[w1|] a1] eqn:E1.
  - destruct (sys_write_count _ _ _ _ E1) as [Hw1 Ha1].
    destruct (N.ltb_spec w1 (len data)) as [Hlt|Hge]; [|intros E; discriminate].
    destruct s1 as [|o2 s2]; [intros E; discriminate|].
    destruct (sys_write o2 (skipn (N.to_nat w1) data)) as [[w2|] a2] eqn:E2.
    + destruct (sys_write_count _ _ _ _ E2) as [Hw2 Ha2].
      destruct (N.ltb_spec w2 (len (skipn (N.to_nat w1) data))); [|intros E; discriminate].
      intros E; inversion E; subst.
      exists (skipn (N.to_nat w2) (skipn (N.to_nat w1) data)).
      rewrite <- app_assoc, firstn_skipn, firstn_skipn. reflexivity.
    + intros E; inversion E; subst.
      destruct o2; cbn [sys_write] in E2; inversion E2; subst.
      exists (skipn (N.to_nat w1) data). rewrite app_nil_r, firstn_skipn. reflexivity.
  - intros E; inversion E; subst. exists data. reflexivity.
Qed.

Lemma temp_phase_true sched payloads temp t s' :
  temp_phase sched payloads temp = (true, t, s') -> t = temp ++ concat payloads.
Proof.
  revert sched temp. induction payloads as [|p ps IH]; intros sched temp E.
  - cbn in E. inversion E. cbn. rewrite app_nil_r. reflexivity.
  - cbn [temp_phase] in E.
    destruct (write_data sched p) as [[ok a] s1] eqn:Ew. destruct ok; [|discriminate].
    apply write_data_true in Ew. subst a.
    apply IH in E. rewrite E. cbn [concat]. rewrite app_assoc. reflexivity.
Qed.

Lemma copy_temp_true fuel : forall rs ws temp out o,
  copy_temp fuel rs ws temp out = (true, o) -> o = out ++ temp.
Proof.
  induction fuel as [|f IH]; intros rs ws temp out o E.
  - destruct temp; cbn in E; [|discriminate].
    destruct rs as [|[k|] rs']; inversion E; rewrite app_nil_r; reflexivity.
  - destruct temp as [|b t].
    { cbn in E. destruct rs as [|[k|] rs']; inversion E; rewrite app_nil_r; reflexivity. }
    set (temp := b :: t) in *. cbn [copy_temp] in E. fold temp in E.
    destruct (match rs with [] => Some (N.min BUF_SIZE (len temp))
                       | RGive k :: _ => Some (N.max 1 (N.min k (N.min BUF_SIZE (len temp))))
                       | RErr :: _ => None end) as [g|] eqn:Eg; [|discriminate].
    destruct (write_data ws (firstn (N.to_nat g) temp)) as [[ok a] ws'] eqn:Ew.
    destruct ok; [|discriminate].
    apply write_data_true in Ew. subst a.
    apply IH in E. rewrite E. rewrite <- app_assoc, firstn_skipn. reflexivity.
Qed.

(** T12.1: for EVERY schedule of write results on the temp file, seek result, read results on
    the temp file and write results on the output: if zck_close reports success, the bytes
    that reached the output descriptor are exactly header ++ all payloads, in order. *)
Theorem writer_success_complete ws_temp seek_ok rs ws_out payloads header out :
  writer_run ws_temp seek_ok rs ws_out payloads header = (true, out) ->
  out = header ++ concat payloads.
Proof.
  unfold writer_run.
  destruct (temp_phase ws_temp payloads []) as [[ok temp] s'] eqn:Et.
  unfold close_phase. destruct ok; cbn [negb]; [|intros E; discriminate].
  apply temp_phase_true in Et. cbn [app] in Et. subst temp.
  destruct (write_data ws_out header) as [[okh a] ws'] eqn:Eh.
  destruct okh; [|intros E; discriminate].
  apply write_data_true in Eh. subst a.
  destruct seek_ok; cbn [negb]; [|intros E; discriminate].
  intros E. apply copy_temp_true in E. exact E.
Qed.

(** a reported failure never leaves MORE than a prefix of the right bytes behind the header *)
Theorem temp_phase_prefix sched payloads temp ok t s' :
  temp_phase sched payloads temp = (ok, t, s') -> exists r, temp ++ concat payloads = t ++ r.
Proof.
  revert sched temp. induction payloads as [|p ps IH]; intros sched temp E.
  - cbn in E. inversion E. subst. exists []. reflexivity.
  - cbn [temp_phase] in E. destruct (write_data sched p) as [[okp a] s1] eqn:Ew.
    destruct okp.
    + apply write_data_true in Ew. subst a. apply IH in E. destruct E as [r Hr].
      exists r. cbn [concat]. rewrite app_assoc. exact Hr.
    + inversion E; subst. destruct (write_data_prefix _ _ _ _ _ Ew) as [r Hr].
      exists (r ++ concat ps). cbn [concat]. rewrite Hr, <- !app_assoc. reflexivity.
Qed.

(** T12.3 (download path): a chunk is completed (and only then offered to the checksum test)
    only if every byte of it was accepted by a successful write: the file received exactly
    the bytes that were hashed. *)
Theorem dl_chunk_true sched pieces acc file a f :
  dl_chunk sched pieces acc file = (true, a, f) ->
  a = acc ++ concat pieces /\ f = file ++ concat pieces.
Proof.
  revert sched acc file. induction pieces as [|p ps IH]; intros sched acc file E.
  - cbn in E. inversion E. cbn. rewrite !app_nil_r. split; reflexivity.
  - cbn [dl_chunk] in E. destruct (write_data sched p) as [[ok w] s1] eqn:Ew.
    destruct ok; [|discriminate]. apply write_data_true in Ew. subst w.
    apply IH in E. destruct E as [-> ->]. cbn [concat]. rewrite <- !app_assoc. split; reflexivity.
Qed.
