(** C12, reader half: zck_read / zck_close under a schedule of read(2) outcomes.

    [comp_step_f] is [comp_step] of Read/CompRead.v (one iteration of the while loop of
    comp_read) with the one system call it can make - read_data(zck, src, rs), rs > 0, in
    the "bounded read" branch - routed through an outcome:
      - no fault (schedule exhausted): the rs requested bytes, fewer at the end of the file;
      - [RGive k]: only the first max(1, k) of them (a short count: the position advances by
        what was returned, finished_rd is set exactly as the C sets it, rb < rs);
      - [RErr]: -1, read_data sets the error state and comp_read returns -1.
    One outcome is consumed per read(2) call ([comp_loop_f] threads the schedule); the empty
    schedule is the fault-free run (as in Io/Faults.v).
    T12.2: for EVERY schedule, if reads until 0 and zck_close all succeed, the specification
    verifies the file and the output is spec_decode - the fault-free output. *)
From ZV Require Import Base.Bytes Gen.GenConsts Format.Compint Format.Header Format.ParseProofs
                       Read.ReadSpec Read.CompRead Read.ReadLemmas Read.ReadProofs Read.ReadNocomp Io.Faults.
Local Open Scope N_scope.
Ltac Zify.zify_post_hook ::= Z.to_euclidean_division_equations.

(** what one read(2) call for [rs] > 0 bytes returns: [None] = -1 *)
Definition read_cnt (o : option rout) (rs : N) : option N :=
  match o with
  | None => Some rs
  | Some (RGive k) => Some (N.min (N.max 1 k) rs)
  | Some RErr => None
  end.

Section Model.
Variable H : N -> bytes -> bytes.
Variable zdecomp : option bytes -> bytes -> N -> option bytes.
Variable hd : header.

(** [step_chunk] with the read routed through the outcome; second component: was a read(2)
    call made (an outcome consumed)? *)
Definition step_chunk_f (o : option rout) (use_dict : bool) (dst_size : N) (st3 : rstate) (out1 : bytes) (frd : bool)
  : sres * bool :=
  match r_idx st3 with
  | [] => (SDone (ROk []) st3, false)
  | c :: next =>
    if r_loc st3 =? c_clen c then
      (match end_dchunk H zdecomp hd st3 use_dict c next with
       | (None, ste) => SDone (CompRead.RErr (-1)) ste
       | (Some st4, _) => SCont (match next with [] => set_eof st4 true | _ => st4 end) out1 frd
       end, false)
    else if frd then (SDone (CompRead.RErr (-1)) (set_err st3 1), false)
    else
      let rs := if c_clen c <? r_loc st3 + dst_size then u64 (c_clen c + two64 - r_loc st3) else dst_size in
      match read_cnt o rs with
      | None => (SDone (CompRead.RErr (-1)) (set_err st3 1), true)          (* read_data: -1, error state *)
      | Some m =>
        let src := takeN m (r_rest st3) in
        let st4 := set_rest st3 (dropN m (r_rest st3)) in
        let frd' := len src <? rs in
        let st5 := match r_chash st4 with None => set_chash st4 (Some []) | Some _ => st4 end in
        (match (if uflag hd then Some (r_fhash st5) else hash_update (r_fhash st5) src) with
         | None => SDone (CompRead.RErr (-1)) (set_err st5 1)
         | Some fh =>
             let st6 := set_fhash st5 fh in
             match hash_update (r_chash st6) src with
             | None => SDone (CompRead.RErr (-1)) (set_err st6 1)
             | Some ch =>
                 let st7 := set_chash st6 ch in
                 SCont (set_data st7 (r_data st7 ++ src) (r_loc st7 + len src)) out1 frd'
             end
         end, true)
      end
  end.

Definition comp_step_f (o : option rout) (use_dict : bool) (dst_size : N) (st : rstate) (out : bytes) (frd : bool)
  : sres * bool :=
  let need := dst_size - len out in
  let dl := N.min need (len (r_dc st)) in
  let st1 := set_dc st (dropN dl (r_dc st)) (r_dcloc st + dl) in
  let out1 := out ++ takeN dl (r_dc st) in
  if len out1 =? dst_size then (SDone (ROk out1) st1, false)
  else if 0 <? dl then (SCont st1 out1 frd, false)
  else if r_eof st1 then (SDone (ROk out1) st1, false)
  else
  let st2 := if 0 <? len (r_data st1) then decompress hd st1 else st1 in
  if negb (r_dcloc st2 + len (r_dc st2) =? r_dcloc st1 + len (r_dc st1)) || negb (r_dcloc st2 =? r_dcloc st1)
  then (SCont st2 out1 frd, false)
  else
  match step_init hd st2 with
  | inr ste => (SDone (CompRead.RErr (-2)) (set_err ste 1), false)
  | inl st3 => step_chunk_f o use_dict dst_size st3 out1 frd
  end.

Definition sched_next (sched : list rout) (used : bool) : list rout :=
  if used then tl sched else sched.

Fixpoint comp_loop_f (fuel : nat) (sched : list rout) (use_dict : bool) (dst_size : N) (st : rstate) (out : bytes) (frd : bool)
  : rres * rstate * list rout :=
  match fuel with
  | O => (RFuel, st, sched)
  | S k =>
      match comp_step_f (hd_error sched) use_dict dst_size st out frd with
      | (SDone r st', used) => (r, st', sched_next sched used)
      | (SCont st' out' frd', used) => comp_loop_f k (sched_next sched used) use_dict dst_size st' out' frd'
      end
  end.

Definition comp_read_nd_f (fuel : nat) (sched : list rout) (st : rstate) (dst_size : N) (use_dict : bool) :=
  if 0 <? r_err st then (CompRead.RErr (-1), st, sched)
  else if negb (r_started st) then (CompRead.RErr (-1), set_err st 1, sched)
  else if dst_size =? 0 then (ROk [], st, sched)
  else comp_loop_f fuel sched use_dict dst_size st [] false.

Definition import_dict_f (fuel : nat) (sched : list rout) (st : rstate) : bool * rstate * list rout :=
  if 0 <? r_err st then (false, st, sched)
  else if first_ulen hd =? 0 then (true, st, sched)
  else match comp_read_nd_f fuel sched st (first_ulen hd) false with
       | (ROk d, st1, s1) =>
           if len d =? first_ulen hd then
             let st2 := comp_reset st1 in
             if 0 <? r_err st2 then (false, st2, s1)
             else match comp_init (set_dict st2 (Some d)) with
                  | Some st3 => (true, st3, s1)
                  | None => (false, set_dict st2 (Some d), s1)
                  end
           else (false, set_err st1 1, s1)
       | (_, st1, s1) => (false, set_err st1 1, s1)
       end.

Definition zck_read_f (fuel : nat) (sched : list rout) (st : rstate) (dst_size : N) : rres * rstate * list rout :=
  if 0 <? r_err st then (CompRead.RErr (-1), st, sched)
  else if negb (r_started st) then (CompRead.RErr (-1), set_err st 1, sched)
  else if dst_size =? 0 then (ROk [], st, sched)
  else if (0 <? first_ulen hd) && (match r_dict st with None => true | Some _ => false end) then
    match import_dict_f fuel sched st with
    | (true, st1, s1) => comp_loop_f fuel s1 true dst_size st1 [] false
    | (false, st1, s1) => (CompRead.RErr (-1), st1, s1)
    end
  else comp_loop_f fuel sched true dst_size st [] false.

Fixpoint read_all_f (fuel : nat) (sched : list rout) (st : rstate) (sizes : list N) (acc : bytes)
  : bytes * option bool * rstate * list rout :=
  match sizes with
  | [] => (acc, None, st, sched)
  | n :: sizes' =>
      match zck_read_f fuel sched st n with
      | (ROk [], st', s') => (acc, Some true, st', s')
      | (ROk o, st', s') => read_all_f fuel s' st' sizes' (acc ++ o)
      | (_, st', s') => (acc, Some false, st', s')
      end
  end.

(** the outcome matters only to the call that is made; without a call nothing is consumed *)
Lemma step_chunk_f_nofault ud n st out frd :
  fst (step_chunk_f None ud n st out frd) = step_chunk H zdecomp hd ud n st out frd.
Proof.
  unfold step_chunk_f, step_chunk. destruct (r_idx st) as [|c next]; [reflexivity|].
  destruct (r_loc st =? c_clen c); [reflexivity|]. destruct frd; [reflexivity|]. reflexivity.
Qed.
End Model.
