(** C12: I/O primitives of src/lib/io.c under a fault schedule, and the I/O skeleton of the
    writer (zck_write/zck_end_chunk -> temp file; zck_close -> header, chunks_from_temp).
    A schedule is the list of outcomes of the successive system calls. *)
From ZV Require Import Base.Bytes Gen.GenConsts.
Local Open Scope N_scope.

(** outcome of one write(2) call: everything, the first [k] bytes only, or -1 *)
Inductive wout := WFull | WShort (k : N) | WErr.
(** outcome of one read(2) call on the temp file: up to [k >= 1] bytes (never more than
    asked or available), or -1 *)
Inductive rout := RGive (k : N) | RErr.

(** write(fd, data, len): returns the count (None = -1) and the bytes that reached the fd *)
Definition sys_write (o : wout) (data : bytes) : option N * bytes :=
  match o with
  | WFull => (Some (len data), data)
  | WShort k => let k' := N.min k (len data) in (Some k', firstn (N.to_nat k') data)
  | WErr => (None, [])
  end.

(** write_data (io.c): nothing for length 0; one retry after a short write.
    Result: success flag, bytes appended to the descriptor, remaining schedule. *)
Definition write_data (sched : list wout) (data : bytes) : bool * bytes * list wout :=
  match data with
  | [] => (true, [], sched)
  | _ =>
    match sched with
    | [] => (true, data, [])                      (* schedule exhausted: fault-free *)
    | o1 :: s1 =>
      match sys_write o1 data with
      | (None, _) => (false, [], s1)
      | (Some w1, a1) =>
        if w1 <? len data then
          let rest := skipn (N.to_nat w1) data in
          match s1 with
          | [] => (true, a1 ++ rest, [])
          | o2 :: s2 =>
            match sys_write o2 rest with
            | (None, a2) => (false, a1 ++ a2, s2)
            | (Some w2, a2) => if w2 <? len rest then (false, a1 ++ a2, s2) else (true, a1 ++ a2, s2)
            end
          end
        else (true, a1, s1)
      end
    end
  end.

(** the writer's temp-file phase: every payload handed to write_data(temp_fd, ...) in order
    (uncompressed pieces for comp type none, one compressed blob per finished chunk for zstd,
    the dictionary chunk first).  The first failure sets the fatal error state: every later
    call on the context, zck_close included, fails. *)
Fixpoint temp_phase (sched : list wout) (payloads : list bytes) (temp : bytes)
  : bool * bytes * list wout :=
  match payloads with
  | [] => (true, temp, sched)
  | p :: ps =>
    match write_data sched p with
    | (true, a, s') => temp_phase s' ps (temp ++ a)
    | (false, a, s') => (false, temp ++ a, s')
    end
  end.

(** chunks_from_temp (io.c): read the temp file in BUF_SIZE blocks until read returns 0,
    writing each block to the output with write_data *)
Fixpoint copy_temp (fuel : nat) (rs : list rout) (ws : list wout) (temp out : bytes)
  : bool * bytes :=
  match temp with
  | [] => match rs with
          | RErr :: _ => (false, out)                  (* the read that would report EOF fails *)
          | _ => (true, out)                           (* read returns 0: end of loop *)
          end
  | _ =>
    match fuel with
    | O => (false, out)
    | S fuel' =>
      let want := N.min BUF_SIZE (len temp) in
      let got := match rs with
                 | [] => Some want
                 | RGive k :: _ => Some (N.max 1 (N.min k want))
                 | RErr :: _ => None
                 end in
      match got with
      | None => (false, out)                           (* read_count == -1 *)
      | Some g =>
        let blk := firstn (N.to_nat g) temp in
        match write_data ws blk with
        | (true, a, ws') => copy_temp fuel' (tl rs) ws' (skipn (N.to_nat g) temp) (out ++ a)
        | (false, a, _) => (false, out ++ a)
        end
      end
    end
  end.

(** zck_close in write mode after the temp phase: write_header, lseek(temp, 0), chunks_from_temp *)
Definition close_phase (ok_so_far : bool) (seek_ok : bool) (rs : list rout) (ws : list wout)
           (header temp : bytes) : bool * bytes :=
  if negb ok_so_far then (false, [])                   (* VALIDATE_BOOL: error state is sticky *)
  else match write_data ws header with
       | (false, a, _) => (false, a)
       | (true, a, ws') =>
           if negb seek_ok then (false, a)
           else copy_temp (length temp) rs ws' temp a
       end.

Definition writer_run (ws_temp : list wout) (seek_ok : bool) (rs : list rout) (ws_out : list wout)
           (payloads : list bytes) (header : bytes) : bool * bytes :=
  let '(ok, temp, _) := temp_phase ws_temp payloads [] in
  close_phase ok seek_ok rs ws_out header temp.

(** download path, one chunk: dl_write accepts the bytes of a chunk piecewise; set_chunk_valid
    marks it valid only when every piece was written and the hash of the accepted bytes matches *)
Fixpoint dl_chunk (sched : list wout) (pieces : list bytes) (acc file : bytes) : bool * bytes * bytes :=
  match pieces with
  | [] => (true, acc, file)
  | p :: ps =>
    match write_data sched p with
    | (true, a, s') => dl_chunk s' ps (acc ++ p) (file ++ a)
    | (false, a, _) => (false, acc, file ++ a)
    end
  end.
