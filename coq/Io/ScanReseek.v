(** C12: the validity scan under a fault schedule, VARIANT WITH THE PROPOSED FIX — definitions
    only.  Io/ScanFaults.v models [validate_checksums] as it is; its flags are not sound under
    short reads ([C12_scan_flags_refuted_by_short_read]).  The proposed fix re-positions the
    descriptor after a chunk that could not be read completely:

        if(rlen < idx->comp_length) {
            idx->valid = -1;
            if(idx->next &&
               !seek_data(zck, zck->data_offset + idx->next->start, SEEK_SET))
                return 0;
        }

    [validate_checksums_r] is [validate_checksums_f] with exactly this change: one more lseek
    (from the same schedule of lseek outcomes, in call order) after every incomplete chunk that
    has a successor; when it fails the function returns 0 with the flags written so far; in
    the error state [seek_data] returns -1 and the loop goes on without moving. *)
From ZV Require Import Base.Bytes Gen.GenConsts Format.Header Read.Scan Io.Faults Io.ScanFaults.
Local Open Scope N_scope.

Section ScanR.
Variable H : N -> bytes -> bytes.

(** result: flags, rest of the file, data-hash accumulator, all_good, chunk hash state, read
    schedule, lseek schedule, error state, aborted (the re-seek failed: return 0) *)
Fixpoint scan_loop_r (h : header) (f : bytes) (first : bool) (cs : list chunk) (fl : list Z)
                     (rest facc : bytes) (good : bool) (ch : hstate)
                     (rs : list rout) (ss : list bool) (err : bool)
  : option (list Z * bytes * bytes * bool * hstate * list rout * list bool * bool * bool) :=
  match cs with
  | [] => Some ([], rest, facc, good, ch, rs, ss, err, false)
  | c :: cs' =>
      if first && (c_ulen c =? 0) && (c_clen c =? 0) then
        if h_detached h then Some (1%Z :: tl fl, rest, facc, good, ch, rs, ss, err, false) else
        match scan_loop_r h f false cs' (tl fl) rest facc good ch rs ss err with
        | Some (r, a, b, g, s, q, k, e, ab) => Some (1%Z :: r, a, b, g, s, q, k, e, ab)
        | None => None
        end
      else
        match rd_blocks_f (S (length rest)) rs err rest (c_clen c) [] facc (negb (uflag h)) with
        | None => None
        | Some (complete, rest', cacc, facc', rs', err') =>
            let v := if complete then validate_chunk_f H err' (h_chash h) c cacc else (-1)%Z in
            let ch' := if complete && negb err' then HClosed else HOpen cacc in
            let good' := good && (v =? 1)%Z in
            (* the fix: after an incomplete chunk go to the start of the next one *)
            let '(go, rest'', ss', err'') :=
              match complete, cs' with
              | false, c2 :: _ =>
                  match seek_f err' ss with
                  | (false, _, k, e) => (false, rest', k, e)
                  | (true, moved, k, e) =>
                      (true, (if moved then skipn (N.to_nat (data_offset h + c_start c2)) f else rest'), k, e)
                  end
              | _, _ => (true, rest', ss, err')
              end in
            if negb go then Some (v :: tl fl, rest'', facc', good', ch', rs', ss', err'', true) else
            if h_detached h then Some (v :: tl fl, rest'', facc', good', ch', rs', ss', err'', false) else
            match scan_loop_r h f false cs' (tl fl) rest'' facc' good' ch' rs' ss' err'' with
            | Some (r, a, b, g, s, q, k, e, ab) => Some (v :: r, a, b, g, s, q, k, e, ab)
            | None => None
            end
        end
  end.

Definition validate_checksums_r (h : header) (f : bytes) (fl : list Z) (st : rstate)
                                (rs : list rout) (ss : list bool) (err : bool) : option fres :=
  let doff := data_offset h in
  if err then Some (mkF (mkS 0 fl st f) rs ss true) else
  if doff =? 0 then Some (mkF (mkS 0 fl st f) rs ss true) else
  match seek_f false ss with
  | (false, _, ss1, e1) => Some (mkF (mkS 0 fl (mkR (r_pos st) (HOpen []) (r_chunk st)) f) rs ss1 e1)
  | (true, _, ss1, _) =>
    match scan_loop_r h f true (h_chunks h) fl (skipn (N.to_nat doff) f) [] true (r_chunk st) rs ss1 false with
    | None => None
    | Some (fl1, rest1, facc, good, ch, rs1, ss2, err1, aborted) =>
        let pos1 := len f - len rest1 in
        let fail fl' e ss' := Some (mkF (mkS 0 fl' (mkR pos1 (HOpen facc) ch) f) rs1 ss' e) in
        if aborted then fail fl1 err1 ss2 else
        let vf :=
          if uflag h || h_detached h then Some ((if good then 1 else -1)%Z, fl1)
          else if good then
            if err1 then None else
            let v := validate_file H h facc in
            Some (v, if (v =? -1)%Z then map (fun _ => (-1)%Z) fl1 else fl1)
          else Some ((-1)%Z, fl1) in
        match vf with
        | None => fail fl1 err1 ss2
        | Some (v, fl2) =>
            match seek_f err1 ss2 with
            | (false, _, ss3, e2) => fail fl2 e2 ss3
            | (true, moved, ss3, e2) =>
                Some (mkF (mkS v fl2 (mkR (if moved then doff else pos1) (HOpen []) ch) f) rs1 ss3 e2)
            end
        end
    end
  end.

(** a flag 1 after the call is deserved, or was 1 before the call and has not been touched *)
Definition flags_sound_or_old (h : header) (f : bytes) (fl fl' : list Z) : Prop :=
  forall i c, nth_error (h_chunks h) i = Some c -> nth_error fl' i = Some 1%Z ->
              nth_error fl i = Some 1%Z \/ chunk_good H h f (i =? 0)%nat c = true.
End ScanR.
