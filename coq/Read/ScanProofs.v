(** Proofs about the validity-scan model (C09). *)
From ZV Require Import Base.Bytes Gen.GenConsts Format.Header Format.ParseProofs Read.Scan.
Local Open Scope N_scope.

(** * Lists *)
Lemma firstn_add_split {A} a b (l : list A) :
  firstn (a + b) l = firstn a l ++ firstn b (skipn a l).
Proof.
  revert l. induction a as [|a IH]; intros l; [reflexivity|].
  destruct l as [|x l]; cbn [Nat.add firstn skipn app].
  - rewrite firstn_nil. reflexivity.
  - rewrite IH. reflexivity.
Qed.

Lemma skipn_add {A} a b (l : list A) : skipn b (skipn a l) = skipn (a + b) l.
Proof.
  revert l. induction a as [|a IH]; intros l; [reflexivity|].
  destruct l as [|x l]; cbn [Nat.add skipn]; [apply skipn_nil|apply IH].
Qed.

Lemma len_firstn n (l : bytes) : len (firstn n l) = N.min (N.of_nat n) (len l).
Proof. unfold len. rewrite firstn_length. lia. Qed.

Lemma len_skipn n (l : bytes) : len (skipn n l) = len l - N.of_nat n.
Proof. unfold len. rewrite skipn_length. lia. Qed.

Lemma BUF_pos : 0 < BUF_SIZE.
Proof. reflexivity. Qed.

(** * The block loop *)
Section Proofs.
Variable H : N -> bytes -> bytes.

Lemma rd_complete fuel : forall rest n cacc facc upd,
  (length rest < fuel)%nat -> n <= len rest ->
  rd_blocks fuel rest n cacc facc upd =
  Some (true, skipn (N.to_nat n) rest, cacc ++ firstn (N.to_nat n) rest,
        if upd then facc ++ firstn (N.to_nat n) rest else facc).
Proof.
  induction fuel as [|fuel IH]; intros rest n cacc facc upd Hf Hn; [lia|].
  cbn [rd_blocks]. destruct (n =? 0) eqn:E0.
  - apply N.eqb_eq in E0. subst n. cbn [N.to_nat firstn skipn]. rewrite !app_nil_r.
    destruct upd; reflexivity.
  - apply N.eqb_neq in E0. pose proof BUF_pos as HB.
    set (rsize := N.min BUF_SIZE n).
    assert (Hr : 0 < rsize /\ rsize <= n) by (unfold rsize; lia).
    assert (Hg : len (firstn (N.to_nat rsize) rest) = rsize) by (rewrite len_firstn; lia).
    rewrite Hg, N.eqb_refl.
    assert (Hsp : firstn (N.to_nat n) rest =
                  firstn (N.to_nat rsize) rest ++ firstn (N.to_nat (n - rsize)) (skipn (N.to_nat rsize) rest)).
    { rewrite <- firstn_add_split. f_equal. lia. }
    rewrite IH.
    + rewrite skipn_add.
      replace (N.to_nat rsize + N.to_nat (n - rsize))%nat with (N.to_nat n) by lia.
      rewrite Hsp, <- !app_assoc. destruct upd; rewrite <- ?app_assoc; reflexivity.
    + rewrite skipn_length. unfold len in Hn. lia.
    + rewrite len_skipn. lia.
Qed.

Lemma rd_short fuel : forall rest n cacc facc upd,
  (length rest < fuel)%nat -> len rest < n ->
  exists cacc' facc', rd_blocks fuel rest n cacc facc upd = Some (false, [], cacc', facc').
Proof.
  induction fuel as [|fuel IH]; intros rest n cacc facc upd Hf Hn; [lia|].
  cbn [rd_blocks]. destruct (n =? 0) eqn:E0; [apply N.eqb_eq in E0; lia|].
  pose proof BUF_pos as HB.
  set (rsize := N.min BUF_SIZE n).
  assert (Hr : 0 < rsize /\ rsize <= n) by (unfold rsize; lia).
  destruct (len (firstn (N.to_nat rsize) rest) =? rsize) eqn:Eg.
  - apply N.eqb_eq in Eg. rewrite len_firstn in Eg.
    apply IH.
    + rewrite skipn_length. unfold len in Eg. lia.
    + rewrite len_skipn. lia.
  - apply N.eqb_neq in Eg. rewrite len_firstn in Eg.
    exists cacc, facc. f_equal. f_equal. f_equal. f_equal.
    apply skipn_all2. unfold len in Eg. lia.
Qed.

(** * One chunk *)
Lemma flag_of_eqb b : (flag_of b =? 1)%Z = b.
Proof. destruct b; reflexivity. Qed.

Lemma validate_chunk_spec h c acc :
  validate_chunk H (h_chash h) c acc = flag_of (digest_ok H h c acc).
Proof.
  unfold validate_chunk, digest_ok, all_zero, flag_of. destruct (c_clen c =? 0); [|reflexivity].
  unfold memcmp_eq. rewrite firstn_app, repeat_length, Nat.sub_diag. cbn [firstn]. rewrite app_nil_r.
  reflexivity.
Qed.

Lemma sub_app (f : bytes) a n m : sub f a n ++ sub f (a + n) m = sub f a (n + m).
Proof.
  unfold sub. replace (N.to_nat (a + n)) with (N.to_nat a + N.to_nat n)%nat by lia.
  rewrite <- skipn_add. replace (N.to_nat (n + m)) with (N.to_nat n + N.to_nat m)%nat by lia.
  symmetry. apply firstn_add_split.
Qed.

Lemma sub_zero (f : bytes) a : sub f a 0 = [].
Proof. reflexivity. Qed.

(** * The chunk loop, complete file.  [start] is the offset of the current entry inside the
    data section; after a short read both the model's rest and the specification's view
    of the file behind the extent are empty. *)
Section Loop.
Variable h : header.
Variable f : bytes.
Let doff := data_offset h.

Lemma scan_loop_spec : forall cs first fl rest facc good ch start,
  h_detached h = false ->
  starts_ok start cs ->
  rest = skipn (N.to_nat (doff + start)) f ->
  (good = true -> uflag h = false -> facc = sub f doff start) ->
  match scan_loop H h first cs fl rest facc good ch with
  | Some (fl', _, facc', good', _) =>
      fl' = map flag_of (classify H h f first cs) /\
      good' = good && all_true (classify H h f first cs) /\
      (good' = true -> uflag h = false -> facc' = sub f doff (start + data_total cs))
  | None => False
  end.
Proof.
  induction cs as [|c cs IH]; intros first fl rest facc good ch start Hd Hst Hrest Hacc.
  - cbn [scan_loop classify map all_true forallb data_total fold_right].
    rewrite andb_true_r, N.add_0_r. auto.
  - cbn [starts_ok] in Hst. destruct Hst as [Hcs Hst].
    cbn [scan_loop classify map data_total fold_right].
    change (fold_right (fun c a => c_clen c + a) 0 cs) with (data_total cs).
    unfold chunk_good. fold (empty_first first c).
    destruct (empty_first first c) eqn:Eef.
    + (* empty first entry *)
      unfold empty_first in Eef. rewrite Hd.
      apply andb_prop in Eef. destruct Eef as [Eef E2]. apply N.eqb_eq in E2.
      rewrite E2 in Hst |- *.
      specialize (IH false (tl fl) rest facc good ch (start + 0) Hd Hst).
      rewrite N.add_0_r in IH. specialize (IH Hrest Hacc).
      destruct (scan_loop H h false cs (tl fl) rest facc good ch) as [[[[[r a] b] g] s]|]; [|exact IH].
      destruct IH as (I1 & I2 & I3). cbn [orb flag_of all_true forallb andb].
      rewrite N.add_0_l. split; [rewrite I1; reflexivity|]. split; [exact I2|exact I3].
    + cbn [orb].
      assert (Hlr : len rest = len f - (doff + start)) by (rewrite Hrest, len_skipn; lia).
      destruct (N.le_gt_cases (c_clen c) (len rest)) as [Hle|Hgt].
      * (* the chunk is completely in the file *)
        rewrite (rd_complete (S (length rest))) by (try lia; exact Hle).
        rewrite Hd. cbn [app].
        assert (Hstored : firstn (N.to_nat (c_clen c)) rest = stored h f c).
        { unfold stored, sub. rewrite Hcs, Hrest. reflexivity. }
        assert (Hpres : present h f c = true).
        { unfold present. destruct (c_clen c =? 0) eqn:E0; [reflexivity|]. apply N.eqb_neq in E0.
          cbn [orb]. apply N.leb_le. rewrite Hcs. fold doff. lia. }
        rewrite Hpres, Hstored, validate_chunk_spec. cbn [andb].
        set (b := digest_ok H h c (stored h f c)).
        specialize (IH false (tl fl) (skipn (N.to_nat (c_clen c)) rest)
                       (if negb (uflag h) then facc ++ stored h f c else facc)
                       (good && (flag_of b =? 1)%Z) HClosed (start + c_clen c) Hd Hst).
        assert (Hr' : skipn (N.to_nat (c_clen c)) rest = skipn (N.to_nat (doff + (start + c_clen c))) f).
        { rewrite Hrest, skipn_add. f_equal. lia. }
        specialize (IH Hr').
        assert (Hacc' : good && (flag_of b =? 1)%Z = true -> uflag h = false ->
                        (if negb (uflag h) then facc ++ stored h f c else facc) = sub f doff (start + c_clen c)).
        { intros Hg Hu. apply andb_prop in Hg. destruct Hg as [Hg _]. rewrite Hu. cbn [negb].
          rewrite (Hacc Hg Hu). unfold stored. rewrite Hcs. fold doff. apply sub_app. }
        specialize (IH Hacc').
        destruct (scan_loop H h false cs (tl fl) _ _ _ HClosed) as [[[[[r a] b0] g] s]|]; [|exact IH].
        destruct IH as (I1 & I2 & I3). rewrite flag_of_eqb in I2.
        cbn [all_true forallb]. fold (all_true (classify H h f false cs)).
        split; [rewrite I1; reflexivity|]. split; [rewrite I2, andb_assoc; reflexivity|].
        rewrite N.add_assoc. exact I3.
      * (* short read *)
        destruct (rd_short (S (length rest)) rest (c_clen c) [] facc (negb (uflag h))) as (ca & fa & Er);
          [lia|exact Hgt|].
        rewrite Er, Hd.
        assert (Hpres : present h f c = false).
        { unfold present. replace (c_clen c =? 0) with false by (symmetry; apply N.eqb_neq; lia).
          cbn [orb]. apply N.leb_gt. rewrite Hcs. fold doff. lia. }
        rewrite Hpres. cbn [andb flag_of].
        specialize (IH false (tl fl) [] fa (good && (-1 =? 1)%Z) (HOpen ca) (start + c_clen c) Hd Hst).
        assert (Hr' : [] = skipn (N.to_nat (doff + (start + c_clen c))) f).
        { symmetry. apply skipn_all2. unfold len in *. lia. }
        specialize (IH Hr').
        change ((-1 =? 1)%Z) with false in IH |- *. rewrite andb_false_r in IH |- *.
        assert (Hacc' : false = true -> uflag h = false -> fa = sub f doff (start + c_clen c)) by discriminate.
        specialize (IH Hacc').
        destruct (scan_loop H h false cs (tl fl) [] fa false (HOpen ca)) as [[[[[r a] b0] g] s]|]; [|exact IH].
        destruct IH as (I1 & I2 & I3). cbn [all_true forallb andb].
        split; [rewrite I1; reflexivity|]. cbn [andb] in I2. rewrite andb_false_r.
        split; [exact I2|]. rewrite I2. discriminate.
Qed.
End Loop.

Definition scan_wf (h : header) (f : bytes) : Prop :=
  data_offset h <> 0 /\ data_offset h <= len f /\ starts_ok 0 (h_chunks h).

Lemma validate_file_spec h f :
  validate_file H h (sub f (data_offset h) (data_total (h_chunks h))) = flag_of (data_good H h f).
Proof. reflexivity. Qed.

(** T9.1 + T9.2 + T9.3 + state, complete file *)
Theorem validate_checksums_full h f fl st :
  scan_wf h f -> h_detached h = false ->
  exists ch, validate_checksums H h f fl st =
    Some (mkS (expected_ret H h f) (expected_flags H h f) (mkR (data_offset h) (HOpen []) ch) f).
Proof.
  intros (H0 & Hle & Hst) Hd. unfold validate_checksums.
  replace (data_offset h =? 0) with false by (symmetry; apply N.eqb_neq; exact H0).
  pose proof (scan_loop_spec h f (h_chunks h) true fl (skipn (N.to_nat (data_offset h)) f) [] true
                (r_chunk st) 0 Hd Hst) as L.
  rewrite N.add_0_r in L. specialize (L eq_refl (fun _ _ => eq_refl)).
  destruct (scan_loop H h true (h_chunks h) fl _ [] true (r_chunk st)) as [[[[[fl1 a] facc] g] ch]|]; [|contradiction].
  destruct L as (L1 & L2 & L3). cbn [andb] in L2. rewrite N.add_0_l in L3.
  exists ch. rewrite Hd, orb_false_r. unfold expected_ret, expected_flags.
  set (cl := classify H h f true (h_chunks h)) in *.
  destruct (uflag h) eqn:Eu.
  - rewrite L1, L2. cbn [negb orb]. rewrite andb_false_r, andb_true_r. cbn [andb].
    destruct (all_true cl); reflexivity.
  - cbn [negb orb]. rewrite andb_true_r. subst g. destruct (all_true cl) eqn:Ea.
    + rewrite (L3 eq_refl eq_refl), validate_file_spec. cbn [andb].
      destruct (data_good H h f); cbn [flag_of negb Z.eqb]; rewrite L1; [reflexivity|].
      rewrite map_map. reflexivity.
    + cbn [andb flag_of]. rewrite L1. reflexivity.
Qed.

(** detached header: only the dictionary entry *)
Theorem validate_checksums_detached h f fl st :
  scan_wf h f -> h_detached h = true ->
  exists ch, validate_checksums H h f fl st =
    Some (mkS (flag_of (dict_good H h f)) (expected_flags_detached H h f fl)
              (mkR (data_offset h) (HOpen []) ch) f).
Proof.
  intros (H0 & Hle & Hst) Hd. unfold validate_checksums, expected_flags_detached, dict_good.
  replace (data_offset h =? 0) with false by (symmetry; apply N.eqb_neq; exact H0).
  rewrite Hd, orb_true_r.
  destruct (h_chunks h) as [|c cs]; [cbn [scan_loop]; eexists; reflexivity|].
  cbn [starts_ok] in Hst. destruct Hst as [Hcs _].
  cbn [scan_loop]. unfold chunk_good. fold (empty_first true c).
  destruct (empty_first true c) eqn:Eef; rewrite Hd.
  - eexists. reflexivity.
  - cbn [orb]. set (rest := skipn (N.to_nat (data_offset h)) f).
    assert (Hlr : len rest = len f - data_offset h) by (unfold rest; rewrite len_skipn; lia).
    destruct (N.le_gt_cases (c_clen c) (len rest)) as [Hl|Hg].
    + rewrite (rd_complete (S (length rest))) by (try lia; exact Hl). cbn [app andb].
      assert (Hstored : firstn (N.to_nat (c_clen c)) rest = stored h f c).
      { unfold stored, sub, rest. rewrite Hcs, N.add_0_r. reflexivity. }
      assert (Hpres : present h f c = true).
      { unfold present. destruct (c_clen c =? 0) eqn:E0; [reflexivity|]. apply N.eqb_neq in E0.
        cbn [orb]. apply N.leb_le. rewrite Hcs. lia. }
      rewrite Hpres, Hstored, validate_chunk_spec, flag_of_eqb. cbn [andb].
      eexists. destruct (digest_ok H h c (stored h f c)); reflexivity.
    + destruct (rd_short (S (length rest)) rest (c_clen c) [] [] (negb (uflag h))) as (ca & fa & Er);
        [lia|exact Hg|].
      rewrite Er.
      assert (Hpres : present h f c = false).
      { unfold present. replace (c_clen c =? 0) with false by (symmetry; apply N.eqb_neq; lia).
        cbn [orb]. apply N.leb_gt. rewrite Hcs. lia. }
      rewrite Hpres. cbn [andb flag_of]. eexists. reflexivity.
Qed.

(** * zck_validate_data_checksum *)
Lemma data_loop_spec : forall cs rest facc,
  match data_loop cs rest facc with
  | Some (c, facc') =>
      c = (data_total cs <=? len rest) /\
      (c = true -> facc' = facc ++ firstn (N.to_nat (data_total cs)) rest)
  | None => False
  end.
Proof.
  induction cs as [|c cs IH]; intros rest facc.
  - cbn [data_loop data_total fold_right N.to_nat firstn]. rewrite app_nil_r. split; [|reflexivity].
    symmetry. apply N.leb_le. lia.
  - cbn [data_loop data_total fold_right].
    change (fold_right (fun c a => c_clen c + a) 0 cs) with (data_total cs).
    destruct (N.le_gt_cases (c_clen c) (len rest)) as [Hl|Hg].
    + rewrite (rd_complete (S (length rest))) by (try lia; exact Hl).
      specialize (IH (skipn (N.to_nat (c_clen c)) rest) (facc ++ firstn (N.to_nat (c_clen c)) rest)).
      destruct (data_loop cs _ _) as [[b fa]|]; [|exact IH].
      destruct IH as [I1 I2]. rewrite len_skipn in I1. split.
      * rewrite I1. apply eq_true_iff_eq. rewrite !N.leb_le. lia.
      * intros Hb. rewrite (I2 Hb), <- app_assoc. f_equal.
        replace (N.to_nat (c_clen c + data_total cs)) with (N.to_nat (c_clen c) + N.to_nat (data_total cs))%nat by lia.
        symmetry. apply firstn_add_split.
    + destruct (rd_short (S (length rest)) rest (c_clen c) [] facc true) as (ca & fa & Er); [lia|exact Hg|].
      rewrite Er. split; [|discriminate]. symmetry. apply N.leb_gt. lia.
Qed.

Theorem validate_data_spec h f fl st :
  scan_wf h f -> uflag h = false ->
  validate_data H h f fl st =
    Some (mkS (expected_data_ret H h f) fl (mkR (data_offset h) (HOpen []) (r_chunk st)) f).
Proof.
  intros (H0 & Hle & Hst) Hu. unfold validate_data. rewrite Hu.
  pose proof (data_loop_spec (h_chunks h) (skipn (N.to_nat (data_offset h)) f) []) as L.
  destruct (data_loop (h_chunks h) _ []) as [[c fa]|]; [|contradiction].
  destruct L as [L1 L2]. rewrite len_skipn in L1. unfold expected_data_ret.
  replace (data_offset h + data_total (h_chunks h) <=? len f) with c
    by (rewrite L1; apply eq_true_iff_eq; rewrite !N.leb_le; lia).
  destruct c; [|reflexivity]. rewrite (L2 eq_refl). cbn [app andb]. reflexivity.
Qed.

(** * Pointwise reading of the expected flags and verdict *)
Lemma classify_nth h f : forall cs first i c,
  nth_error cs i = Some c ->
  nth_error (classify H h f first cs) i = Some (chunk_good H h f (first && (i =? 0)%nat) c).
Proof.
  induction cs as [|c0 cs IH]; intros first i c E; [destruct i; discriminate|].
  destruct i as [|i]; cbn [nth_error classify] in *.
  - injection E as ->. rewrite andb_true_r. reflexivity.
  - rewrite (IH false i c E). cbn [Nat.eqb]. rewrite andb_false_r. reflexivity.
Qed.

Lemma all_true_classify h f : forall cs first,
  all_true (classify H h f first cs) = true <->
  (forall i c, nth_error cs i = Some c -> chunk_good H h f (first && (i =? 0)%nat) c = true).
Proof.
  induction cs as [|c0 cs IH]; intros first; cbn [classify all_true forallb].
  - split; [intros _ i c E; destruct i; discriminate|reflexivity].
  - fold (all_true (classify H h f false cs)). rewrite andb_true_iff, IH. split.
    + intros [H1 H2] [|i] c E; cbn [nth_error] in E.
      * injection E as <-. rewrite andb_true_r. exact H1.
      * cbn [Nat.eqb]. rewrite andb_false_r. apply (H2 i c E).
    + intros Hall. split.
      * specialize (Hall 0%nat c0 eq_refl). rewrite andb_true_r in Hall. exact Hall.
      * intros i c E. specialize (Hall (S i) c E). cbn [Nat.eqb] in Hall.
        rewrite andb_false_r in Hall. exact Hall.
Qed.

(** the chunk-by-chunk reading of [expected_flags]: chunk [i] is valid (1) exactly when it is
    good and the all-failed override does not apply, failed (-1) otherwise *)
Theorem expected_flags_nth h f i c :
  nth_error (h_chunks h) i = Some c ->
  nth_error (expected_flags H h f) i =
  Some (if all_true (classify H h f true (h_chunks h)) && negb (uflag h) && negb (data_good H h f)
        then (-1)%Z else flag_of (chunk_good H h f (i =? 0)%nat c)).
Proof.
  intros E. unfold expected_flags.
  pose proof (classify_nth h f (h_chunks h) true i c E) as Ec. cbn [andb] in Ec.
  destruct (all_true _ && negb (uflag h) && negb (data_good H h f)).
  - apply (map_nth_error (fun _ : bool => (-1)%Z) _ _ Ec).
  - apply (map_nth_error flag_of _ _ Ec).
Qed.

Theorem expected_ret_iff h f :
  expected_ret H h f = 1%Z <->
  (forall i c, nth_error (h_chunks h) i = Some c -> chunk_good H h f (i =? 0)%nat c = true) /\
  (uflag h = true \/ data_good H h f = true).
Proof.
  unfold expected_ret. rewrite <- (all_true_classify h f (h_chunks h) true).
  destruct (all_true (classify H h f true (h_chunks h))), (uflag h), (data_good H h f);
    cbn [andb orb flag_of]; split; try discriminate; try tauto; try (intros [? [?|?]]; discriminate).
Qed.

Theorem expected_ret_values h f : expected_ret H h f = 1%Z \/ expected_ret H h f = (-1)%Z.
Proof. unfold expected_ret, flag_of. destruct (_ && _); auto. Qed.

Theorem expected_ret_char h f :
  (expected_ret H h f = 1%Z <->
   (forall i c, nth_error (h_chunks h) i = Some c -> chunk_good H h f (i =? 0)%nat c = true) /\
   (uflag h = true \/ data_good H h f = true)) /\
  (expected_ret H h f = 1%Z \/ expected_ret H h f = (-1)%Z).
Proof. split; [apply expected_ret_iff|apply expected_ret_values]. Qed.

(** * Any sequence of calls *)
Lemma run_op_spec h f o fl st :
  scan_wf h f ->
  exists ch, run_op H h o f fl st =
    Some (mkS (fst (spec_op H h f o fl)) (snd (spec_op H h f o fl)) (mkR (data_offset h) (HOpen []) ch) f).
Proof.
  intros Hwf.
  assert (Hscan : exists ch, validate_checksums H h f fl st =
    Some (mkS (fst (if h_detached h then (flag_of (dict_good H h f), expected_flags_detached H h f fl)
                    else (expected_ret H h f, expected_flags H h f)))
              (snd (if h_detached h then (flag_of (dict_good H h f), expected_flags_detached H h f fl)
                    else (expected_ret H h f, expected_flags H h f)))
              (mkR (data_offset h) (HOpen []) ch) f)).
  { destruct (h_detached h) eqn:Ed; cbn [fst snd].
    - apply validate_checksums_detached; assumption.
    - apply validate_checksums_full; assumption. }
  destruct o; cbn [run_op spec_op]; try exact Hscan.
  destruct (uflag h) eqn:Eu.
  - unfold validate_data. rewrite Eu. exact Hscan.
  - eexists. cbn [fst snd]. apply validate_data_spec; assumption.
Qed.

Theorem run_ops_spec h f : scan_wf h f -> forall os fl st,
  exists rs fl' st',
    run_ops H h os f fl st = Some (rs, f, fl', st') /\
    map (fun r => (s_ret r, s_flags r)) rs = spec_ops H h f os fl /\
    Forall (fun r => s_file r = f /\ req (s_state r) (opened h)) rs /\
    (req st (opened h) -> req st' (opened h)).
Proof.
  intros Hwf. induction os as [|o os IH]; intros fl st.
  - exists [], fl, st. cbn [run_ops map spec_ops].
    split; [reflexivity|]. split; [reflexivity|]. split; [constructor|auto].
  - destruct (run_op_spec h f o fl st Hwf) as (ch & E).
    cbn [run_ops spec_ops]. rewrite E. cbn [s_file s_flags s_state].
    destruct (IH (snd (spec_op H h f o fl)) (mkR (data_offset h) (HOpen []) ch)) as (rs & fl' & st' & E' & M & F & R).
    rewrite E'. eexists _, fl', st'. split; [reflexivity|]. split; [|split].
    + cbn [map s_ret s_flags]. rewrite M. rewrite <- surjective_pairing. reflexivity.
    + constructor; [|exact F]. cbn [s_file s_state]. split; [reflexivity|]. split; reflexivity.
    + intros _. apply R. split; reflexivity.
Qed.
End Proofs.

(** the hypotheses hold for every file the (model of the) header reader accepts *)
Lemma parse_impl_scan_wf (H : N -> bytes -> bytes) p f h :
  wf_bytes f -> Format.ParseImpl.parse_impl H p f = Format.ParseImpl.POk h -> scan_wf h f.
Proof.
  intros Hwf E. unfold scan_wf, data_offset.
  destruct (parse_impl_count_starts H p f h Hwf E) as (_ & _ & Hst & _).
  destruct (open_implies_digest H p f h E) as (l & El & _ & _ & Hlen).
  destruct (parse_impl_ok H p f h E) as (l' & hb & pf & cht & count & cs & u & El' & _ & _ & _ & _ & ->).
  rewrite El in El'. injection El' as <-.
  cbn [h_lead h_hlen h_chunks] in *.
  pose proof (read_lead_bounds _ _ _ El) as (B1 & B2 & B3 & B4).
  split; [lia|]. split; [exact Hlen|exact Hst].
Qed.
